/-
Model layer `Handshake` (C18): `checkRemoteStatus` of `p2p/v200/v200handshake.go` (V200) and
`p2p/v030/v033handshake.go` (V033) as decision functions of the remote status message and the
local view: the chain id the local node has *at the remote's best height*
(`vm.GetChainID(status.BestHeight)`), the peer id of the connection, the local genesis hash.

Transcribed, not idealised:
* the chain id is decoded by `types.ChainID.Read`: little-endian int32 version, two bools decoded
  as "byte ≠ 0", then `magic/consensus` split on `/` (exactly one `/`); it is compared field by
  field (`ChainID.Equals`), so a remote id whose bool bytes are 2 or 0xff equals a local `true`;
* V200 requires the best block hash to be 32 bytes long, V033 does not look at it;
* V200 checks agent certificates only when the sender's role decodes to `Agent`;
* the order of the checks is the order of the Go statements.

Abstracted (inputs of the model, computed by the real functions in the harness): whether
`network.CheckAddressType(addr)` is an error; whether `p2putil.CheckAndGetV1(cert)` succeeds (this
contains the ECDSA verification, an uninterpreted predicate here).
-/
namespace Aergo.Handshake

abbrev Bytes := List UInt8

/-- `types.ChainID`; `version` is the uint32 bit pattern of the int32. -/
structure ChainID where
  version : Nat
  publicNet : Bool
  mainNet : Bool
  magic : Bytes
  consensus : Bytes
deriving Repr, DecidableEq

/-- little-endian decoding (`binary.Read(_, LittleEndian, &int32)`) -/
def fromLE : Bytes → Nat
  | [] => 0
  | b :: bs => b.toNat + 256 * fromLE bs

/-- `strings.Split(s, "/")` has exactly two parts: the bytes before and after the only `/` (0x2f). -/
def splitSlash (bs : Bytes) : Option (Bytes × Bytes) :=
  let pre := bs.takeWhile (· != 47)
  match bs.drop pre.length with
  | [] => none
  | _ :: post => if post.contains 47 then none else some (pre, post)

/-- `(*ChainID).Read`; `none` = it returns an error. -/
def parseChainID (b : Bytes) : Option ChainID :=
  if b.length < 6 then none else
  match splitSlash (b.drop 6) with
  | none => none
  | some (mg, cs) =>
    some ⟨fromLE (b.take 4), (b.drop 4).head? != some 0, (b.drop 5).head? != some 0, mg, cs⟩

/-- `types.PeerAddress` as far as the handshake reads it -/
structure Sender where
  addrOK : Bool
  peerID : Bytes
  role : Nat
  producerIDs : List Bytes
deriving Repr, DecidableEq

/-- an agent certificate: did `CheckAndGetV1` accept it, and its agent / producer ids -/
structure Cert where
  valid : Bool
  agentID : Bytes
  bpID : Bytes
deriving Repr, DecidableEq

/-- `types.Status` as far as the handshake reads it -/
structure Status where
  chainID : Bytes
  bestHeight : Nat
  bestHash : Bytes
  sender : Option Sender
  genesis : Bytes
  certs : List Cert
deriving Repr, DecidableEq

structure Local where
  chainAt : Nat → ChainID
  peerID : Bytes
  genesis : Bytes

inductive Reject
  | wrongStatus | diffChain | wrongHash | badAddr | peerID | genesis | cert
deriving Repr, DecidableEq

/-- `types.PeerRole_Agent` -/
def roleAgent : Nat := 3

/-- `FromPeerAddressNew`: a role value outside `PeerRole_name` (0..3) becomes `LegacyVersion` (0) -/
def decodeRole (r : Nat) : Nat := if r ≤ 3 then r else 0

/-- `checkAgent`: at least one producer id, every certificate valid, issued to this peer, by one
of the listed producers. -/
def checkAgent (s : Sender) (certs : List Cert) : Bool :=
  !s.producerIDs.isEmpty &&
    certs.all (fun c => c.valid && c.agentID == s.peerID && s.producerIDs.contains c.bpID)

/-- `(*V200Handshaker).checkRemoteStatus` -/
def checkV200 (l : Local) (st : Status) : Except Reject Unit :=
  match parseChainID st.chainID with
  | none => .error .wrongStatus
  | some rc =>
    if l.chainAt st.bestHeight != rc then .error .diffChain
    else if st.bestHash.length != 32 then .error .wrongHash
    else match st.sender with
      | none => .error .badAddr
      | some s =>
        if !s.addrOK then .error .badAddr
        else if s.peerID != l.peerID then .error .peerID
        else if l.genesis != st.genesis then .error .genesis
        else if decodeRole s.role == roleAgent && !checkAgent s st.certs then .error .cert
        else .ok ()

/-- did the check accept? -/
def accepted : Except Reject Unit → Bool
  | .ok _ => true
  | .error _ => false

/-- `(*V033Handshaker).checkRemoteStatus` -/
def checkV033 (l : Local) (st : Status) : Except Reject Unit :=
  match parseChainID st.chainID with
  | none => .error .wrongStatus
  | some rc =>
    if l.chainAt st.bestHeight != rc then .error .diffChain
    else match st.sender with
      | none => .error .badAddr
      | some s =>
        if !s.addrOK then .error .badAddr
        else if s.peerID != l.peerID then .error .peerID
        else if l.genesis != st.genesis then .error .genesis
        else .ok ()

/-! ### The legacy protocol versions and the wire handshake around the status check

`p2p/versionmanager.go GetVersionedHandshaker`: 0.3.2 and 0.3.1 get the *fixed* chain id
`vm.localChainID` (the identifier written in the genesis block) instead of the version manager, and
0.3.1 gets no genesis hash. `p2p/handshakev2.go`: version negotiation in front of them. -/

/-- `(*V030Handshaker).checkRemoteStatus` (protocol 0.3.1, `p2p/v030/v030handshake.go`): the chain id
is compared with the fixed identifier handed to the constructor; **no** genesis comparison. -/
def checkV030 (fixed : ChainID) (l : Local) (st : Status) : Except Reject Unit :=
  match parseChainID st.chainID with
  | none => .error .wrongStatus
  | some rc =>
    if fixed != rc then .error .diffChain
    else match st.sender with
      | none => .error .badAddr
      | some s =>
        if !s.addrOK then .error .badAddr
        else if s.peerID != l.peerID then .error .peerID
        else .ok ()

/-- `(*V032Handshaker).checkRemoteStatus` (protocol 0.3.2): 0.3.1 plus the genesis comparison. -/
def checkV032 (fixed : ChainID) (l : Local) (st : Status) : Except Reject Unit :=
  match checkV030 fixed l st with
  | .error e => .error e
  | .ok _ => if l.genesis != st.genesis then .error .genesis else .ok ()

/-- the four protocol versions `GetVersionedHandshaker` knows -/
inductive Ver | v200 | v033 | v032 | v031
deriving Repr, DecidableEq

/-- `p2pcommon.P2PVersion` values -/
def Ver.code : Ver → Nat
  | .v200 => 0x00020000 | .v033 => 0x00000303 | .v032 => 0x00000302 | .v031 => 0x00000301

def verOfCode (c : Nat) : Option Ver :=
  if c = 0x00020000 then some .v200 else if c = 0x00000303 then some .v033
  else if c = 0x00000302 then some .v032 else if c = 0x00000301 then some .v031 else none

/-- `defaultVersionManager.FindBestP2PVersion`: the first entry of the node's own list that the peer
offers. -/
def findBest (accepted offered : List Nat) : Option Nat :=
  accepted.find? (fun a => offered.contains a)

/-- the node's side of a handshake -/
structure WireLocal where
  accepted : List Nat   -- `p2pcommon.AcceptedInboundVersions`
  made : List Ver       -- versions for which `GetVersionedHandshaker` returns a handshaker
  fixed : ChainID       -- `vm.localChainID` (genesis block's chain id)
  l : Local

/-- what the peer sends after the version exchange: a status message, or anything else (go-away,
another sub-protocol, an undecodable body, a truncated or oversized frame) -/
structure PeerMsg where
  isStatus : Bool
  legacyAddrOK : Bool   -- `types.ToMultiAddr(sender.Address, sender.Port)` usable (0.3.x readers need it)
  st : Status

/-- `receiveRemoteStatus` + `checkRemoteStatus` of the versioned handshaker (`DoForInbound` /
`DoForOutbound` act on nothing else). The 0.3.x reader (`V030Handshaker.receiveRemoteStatus`, shared
by 0.3.1–0.3.3) refuses a status without sender or with an unusable address. -/
def versioned (w : WireLocal) (v : Ver) (m : PeerMsg) : Bool :=
  if !m.isStatus then false else
  match v with
  | .v200 => accepted (checkV200 w.l m.st)
  | .v033 => m.st.sender.isSome && m.legacyAddrOK && accepted (checkV033 w.l m.st)
  | .v032 => m.st.sender.isSome && m.legacyAddrOK && accepted (checkV032 w.fixed w.l m.st)
  | .v031 => m.st.sender.isSome && m.legacyAddrOK && accepted (checkV030 w.fixed w.l m.st)

/-- `handshakev2.go`: `HSMaxVersionCnt` -/
def maxVersionCnt : Nat := 16

/-- `InboundWireHandshaker.handleInboundPeer`: (negotiated version code or 0, success). -/
def wireInbound (w : WireLocal) (magicOK : Bool) (offered : List Nat) (m : PeerMsg) : Nat × Bool :=
  if offered.length = 0 || offered.length > maxVersionCnt || !magicOK then (0, false) else
  match findBest w.accepted offered with
  | none => (0, false)
  | some c =>
    match verOfCode c with
    | none => (c, false)
    | some v => if w.made.contains v then (c, versioned w v m) else (c, false)

/-- `OutboundWireHandshaker.handleOutboundPeer`: the version is whatever the remote answers (it is not
compared with what was offered). -/
def wireOutbound (w : WireLocal) (magicOK : Bool) (answered : Nat) (m : PeerMsg) : Nat × Bool :=
  if !magicOK then (0, false) else
  match verOfCode answered with
  | none => (answered, false)
  | some v => if w.made.contains v then (answered, versioned w v m) else (answered, false)

end Aergo.Handshake
