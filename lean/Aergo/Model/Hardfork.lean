/-
Model layer `Hardfork` (C19): config/hardfork_gen.go `HardforkConfig.Version`, `validate`,
`CheckCompatibility`, `IsV2Fork`, `HardforkDbConfig.FixDbConfig`; config/hardfork.go `isFork`,
`checkOlderNode`.

A `HardforkConfig` is the list of its fork heights in field order (field i is version i+2: the pinned
struct has V2..V5, i.e. 4 entries; all definitions and theorems are for any number of fields). The
database copy `HardforkDbConfig` is a Go `map[string]BlockNo` keyed "V<k>"; a missing key reads as 0.
It is modelled as an association list from version number k to height, plus the keys whose suffix
does not parse as a number (`strconv.ParseUint(k[1:])` fails → error).
-/
namespace Aergo.Hardfork

abbrev Config := List Nat

/-- `isFork(forkBlkNo, currBlkNo)` -/
def isFork (forkNo cur : Nat) : Bool := decide (forkNo ≤ cur)

/-- `Version(h)`: scan the fields from the last to the first, the first one whose height is ≤ h gives
version index+2; none ⇒ 0. `verFrom i c` scans `c` whose first field has index `i`, preferring later fields. -/
def verFrom (h : Nat) : Nat → Config → Nat
  | _, [] => 0
  | i, x :: rest =>
    let later := verFrom h (i + 1) rest
    if later ≠ 0 then later else if x ≤ h then i + 2 else 0

def version (c : Config) (h : Nat) : Nat := verFrom h 0 c

/-- `validate`: heights must be non-decreasing in field order (`prev` starts at 0). -/
def validFrom : Nat → Config → Bool
  | _, [] => true
  | prev, x :: rest => !decide (prev > x) && validFrom x rest

def validate (c : Config) : Bool := validFrom 0 c

/-- database copy: entries (version number, height) and the number of keys with an unparsable suffix -/
structure DbConfig where
  entries : List (Nat × Nat)
  badKeys : Nat
deriving Repr

/-- `dbCfg["V<k>"]` (0 when absent) -/
def DbConfig.get (d : DbConfig) (k : Nat) : Nat :=
  match d.entries.lookup k with
  | some v => v
  | none => 0

inductive Compat | ok | invalid | fork (k : Nat) | older
deriving DecidableEq, Repr

/-- the chain of `if (isFork(c.Vk, h) || isFork(dbCfg["Vk"], h)) && c.Vk != dbCfg["Vk"]` tests, in field order -/
def firstMismatch (d : DbConfig) (h : Nat) : Nat → Config → Option Nat
  | _, [] => none
  | i, x :: rest =>
    if (isFork x h || isFork (d.get (i + 2)) h) && x != d.get (i + 2) then some (i + 2)
    else firstMismatch d h (i + 1) rest

/-- `checkOlderNode(maxVer, latest, dbCfg)`: an error iff some key fails to parse or some version above
`maxVer` has already forked (which error is returned depends on map order; both are class `older`). -/
def olderNode (maxVer h : Nat) (d : DbConfig) : Bool :=
  d.badKeys != 0 || d.entries.any (fun kv => decide (kv.1 > maxVer) && isFork kv.2 h)

/-- `CheckCompatibility(dbCfg, h)` -/
def checkCompatibility (c : Config) (d : DbConfig) (h : Nat) : Compat :=
  if !validate c then .invalid
  else match firstMismatch d h 0 c with
    | some k => .fork k
    | none => if olderNode (c.length + 1) h d then .older else .ok

/-- the database copy read as a configuration with as many fields as `c` -/
def dbAsConfig (d : DbConfig) (n : Nat) : Config := (List.range n).map (fun i => d.get (i + 2))

/-- `FixDbConfig`: keys of the node's configuration that the database copy lacks are added with the node's height. -/
def fixFrom (d : List (Nat × Nat)) : Nat → Config → List (Nat × Nat)
  | _, [] => d
  | i, x :: rest =>
    fixFrom (if (d.lookup (i + 2)).isSome then d else d ++ [(i + 2, x)]) (i + 1) rest

def fixDbConfig (d : DbConfig) (c : Config) : DbConfig := { d with entries := fixFrom d.entries 0 c }

end Aergo.Hardfork
