/-
Model layer `HostApi` (C20): the control-flow skeleton of the VM host API.

The LuaJIT VM cannot be built or run in this environment, so there is nothing executable to
correspond with.  What the property quantifies over — "every host-API entry point exposed to
contract code that performs a mutation, on every path through it" — is a statement about the Go
source of package `contract`.  `tools/goext hostapi` re-reads vm_callback.go, vm.go, vm_state.go on
every run and regenerates `Aergo.Gen.HostApi.program : Program`: one `Fn` per `//export`ed callback,
per Go-level read-only entry point (`Query`, `CheckFeeDelegation`) and per in-package function they can
call, each body a `Stmt`.  This file defines

* the IR (`Cond`, `Stmt`, `Fn`, `Program`),
* its semantics `Exec`: all executions of a body under fixed read-only flags `q` (= `ctx.isQuery`) and
  `v` (= `ctx.nestedView > 0`), arbitrary outcomes of opaque conditions, arbitrary loop counts,
  arbitrary re-entrant callback sequences at the places where C runs Lua code; the observable is the
  list of `Sink` events (calls / field writes that the reviewed tables classify as state-relevant),
* the decidable checker `Dominated : Program → Bool` (an abstract interpretation that tracks which
  condition atoms are known on the current path, per mode "query" and "view"),
* the abstract recovery-point machine `Snap` used for the argument about `restore`-class sinks.

Core Lean only (linked into `model-c20`).
-/

namespace Aergo.HostApi

/-- Branch conditions.  `query` = `ctx.isQuery == true`, `view` = `ctx.nestedView > 0`,
`atom i` = a condition over single-assignment locals of the function (its text is `Fn.atoms[i]`;
stable during one invocation), `any` = anything else (either branch may be taken). -/
inductive Cond
  | query | view
  | atom (i : Nat)
  | any
  | not (c : Cond)
  | and (a b : Cond)
  | or (a b : Cond)
deriving Repr, DecidableEq

/-- Classes of state-relevant operations (reviewed tables, tools/goext/hostapi_tables.go).
`mut`: changes chain-visible state (storage, balances, nonce, code, accounts, events, governance,
staging).  `mutQ`: opens a writable SQL transaction / savepoint (forbidden in query mode only).
`restore`: puts state back to a recovery point.  `txctl`: recovery-point / savepoint bookkeeping.
`cache`: per-block code/ABI caches.  `viewInc`/`viewDec`: `nestedView++` / `nestedView--`.
Markers (no effect on state): `refuse` = the function is about to return an error value (`return C.CString(msg)`),
`exempt` = head of a function whose behaviour depends on a read-only flag without an error return (reviewed list
`Gen.HostApi.refuseExempt`), `viewSet` = assignment to `executor.isView`. -/
inductive Kind | mut | mutQ | restore | txctl | cache | viewInc | viewDec | refuse | exempt | viewSet
deriving Repr, DecidableEq

/-- A sink event: class and index into `Program.sinkNames`. -/
structure Sink where
  kind : Kind
  id : Nat
deriving Repr, DecidableEq

/-- Statements. `loop b`: zero or more iterations of `b` (`brk` leaves it, `cont` starts the next
iteration).  `scope b`: a function literal / deferred call body (a `ret` inside ends only the scope).
`call f`: in-package call of `Program.fns[f]`.  `reenter`: a C call that runs Lua code, which may
invoke any exported callback any number of times. -/
inductive Stmt
  | skip
  | seq (a b : Stmt)
  | ite (c : Cond) (t e : Stmt)
  | ret | brk | cont
  | sink (s : Sink)
  | call (f : Nat)
  | loop (b : Stmt)
  | scope (b : Stmt)
  | reenter
deriving Repr

/-- A literal over the atoms of one function. -/
abbrev Lit := Nat × Bool

structure Fn where
  name : String
  /-- carries `//export`: callable from C / Lua -/
  exported : Bool
  /-- Go-level entry point that always runs with `isQuery = true` (`Query`, `CheckFeeDelegation`) -/
  queryEntry : Bool
  atoms : List String
  /-- clauses (disjunctions of literals) that every invocation's atom valuation is assumed to satisfy;
  hand-kept in hostapi_tables.go, each with its justification (`Gen.HostApi.assumeWhy`) -/
  assume : List (List Lit)
  body : Stmt

structure Program where
  fns : List Fn
  sinkNames : List String

def Program.fn? (p : Program) (f : Nat) : Option Fn := p.fns[f]?

/-! ## Semantics -/

/-- How a statement ends. -/
inductive Out | normal | returned | broke | continued
deriving Repr, DecidableEq

/-- Valuation of the atoms of one invocation. -/
abbrev Env := Nat → Bool

/-- `c.sat q v ρ b`: condition `c` may evaluate to `b`. -/
def Cond.sat (q v : Bool) (ρ : Env) : Cond → Bool → Prop
  | .query, b => b = q
  | .view, b => b = v
  | .atom i, b => b = ρ i
  | .any, _ => True
  | .not c, b => c.sat q v ρ (!b)
  | .and a c, b => ∃ x y, a.sat q v ρ x ∧ c.sat q v ρ y ∧ b = (x && y)
  | .or a c, b => ∃ x y, a.sat q v ρ x ∧ c.sat q v ρ y ∧ b = (x || y)

/-- The valuation satisfies the function's assumed clauses. -/
def Fn.okEnv (fn : Fn) (ρ : Env) : Prop := ∀ cl ∈ fn.assume, ∃ l ∈ cl, ρ l.1 = l.2

/-- `Exec p q v ρ s tr o`: under flags `q`, `v` (constant: see `Props.C20` for who writes them) and atom
valuation `ρ`, statement `s` can run emitting the sink events `tr` and ending with `o`. A callee gets
its own valuation `ρ'`. -/
inductive Exec (p : Program) (q v : Bool) : Env → Stmt → List Sink → Out → Prop
  | skip {ρ} : Exec p q v ρ .skip [] .normal
  | seqN {ρ a b t1 t2 o} : Exec p q v ρ a t1 .normal → Exec p q v ρ b t2 o → Exec p q v ρ (.seq a b) (t1 ++ t2) o
  | seqX {ρ a b t1 o} : Exec p q v ρ a t1 o → o ≠ .normal → Exec p q v ρ (.seq a b) t1 o
  | iteT {ρ c t e tr o} : c.sat q v ρ true → Exec p q v ρ t tr o → Exec p q v ρ (.ite c t e) tr o
  | iteF {ρ c t e tr o} : c.sat q v ρ false → Exec p q v ρ e tr o → Exec p q v ρ (.ite c t e) tr o
  | ret {ρ} : Exec p q v ρ .ret [] .returned
  | brk {ρ} : Exec p q v ρ .brk [] .broke
  | cont {ρ} : Exec p q v ρ .cont [] .continued
  | sink {ρ s} : Exec p q v ρ (.sink s) [s] .normal
  | call {ρ ρ' f fn tr o} : p.fn? f = some fn → fn.okEnv ρ' → Exec p q v ρ' fn.body tr o →
      Exec p q v ρ (.call f) tr .normal
  | loopDone {ρ b} : Exec p q v ρ (.loop b) [] .normal
  | loopStep {ρ b t1 t2 o1 o2} : Exec p q v ρ b t1 o1 → (o1 = .normal ∨ o1 = .continued) →
      Exec p q v ρ (.loop b) t2 o2 → Exec p q v ρ (.loop b) (t1 ++ t2) o2
  | loopBrk {ρ b t1} : Exec p q v ρ b t1 .broke → Exec p q v ρ (.loop b) t1 .normal
  | loopRet {ρ b t1} : Exec p q v ρ b t1 .returned → Exec p q v ρ (.loop b) t1 .returned
  | scope {ρ b tr o} : Exec p q v ρ b tr o → Exec p q v ρ (.scope b) tr .normal
  | reenterDone {ρ} : Exec p q v ρ .reenter [] .normal
  | reenterStep {ρ ρ' f fn t1 t2 o} : p.fn? f = some fn → fn.exported = true → fn.okEnv ρ' →
      Exec p q v ρ' fn.body t1 o → Exec p q v ρ .reenter t2 .normal → Exec p q v ρ .reenter (t1 ++ t2) .normal

/-! ## The checker -/

/-- Which read-only flag is known to be set. -/
inductive Mode | Q | V
deriving Repr, DecidableEq

def Mode.flagsOK : Mode → Bool → Bool → Prop
  | .Q, q, _ => q = true
  | .V, _, v => v = true

/-- Sink classes that must not occur in a read-only execution. -/
def forbidden : Mode → Kind → Bool
  | _, .mut => true
  | .Q, .mutQ => true
  | _, _ => false

/-- Atoms whose value is known on the current path. -/
abbrev Facts := List (Nat × Bool)

/-- Three-valued evaluation: `some b` only if the flags of the mode and the known atoms force `b`. -/
def Cond.tv (m : Mode) (F : Facts) : Cond → Option Bool
  | .query => if m = .Q then some true else none
  | .view => if m = .V then some true else none
  | .atom i => F.lookup i
  | .any => none
  | .not c => (c.tv m F).map (!·)
  | .and a b =>
    match a.tv m F, b.tv m F with
    | some false, _ => some false
    | _, some false => some false
    | some true, some true => some true
    | _, _ => none
  | .or a b =>
    match a.tv m F, b.tv m F with
    | some true, _ => some true
    | _, some true => some true
    | some false, some false => some false
    | _, _ => none

/-- Learn that `c` evaluated to `b`; `none` = impossible on this path. -/
def Cond.assume (m : Mode) : Cond → Bool → Facts → Option Facts
  | .query, b, F => if m = .Q ∧ b = false then none else some F
  | .view, b, F => if m = .V ∧ b = false then none else some F
  | .atom i, b, F =>
    match F.lookup i with
    | some x => if x = b then some F else none
    | none => some ((i, b) :: F)
  | .any, _, F => some F
  | .not c, b, F => c.assume m (!b) F
  | .and a c, true, F => (a.assume m true F).bind (c.assume m true)
  | .and a c, false, F =>
    match a.tv m F, c.tv m F with
    | some true, _ => c.assume m false F
    | _, some true => a.assume m false F
    | _, _ => some F
  | .or a c, false, F => (a.assume m false F).bind (c.assume m false)
  | .or a c, true, F =>
    match a.tv m F, c.tv m F with
    | some false, _ => c.assume m true F
    | _, some false => a.assume m true F
    | _, _ => some F

/-- Some assumed clause has all its literals known false. -/
def contradicts (cls : List (List Lit)) (F : Facts) : Bool :=
  cls.any fun cl => cl.all fun l => F.lookup l.1 == some (!l.2)

def assumeC (m : Mode) (cls : List (List Lit)) (c : Cond) (b : Bool) (F : Facts) : Option Facts :=
  (c.assume m b F).bind fun F' => if contradicts cls F' then none else some F'

/-- Facts valid after either of two branches (`none` = that branch does not continue). -/
def join : Option Facts → Option Facts → Option Facts
  | none, x => x
  | x, none => x
  | some A, some B => some (A.filter fun p => B.lookup p.1 == some p.2)

/-- `chk m S cls s σ`: starting with path knowledge `σ` (`none` = unreachable in mode `m`), `none` means
that a forbidden sink or a call outside `S` is reachable in `s`; `some σ'` means that none is, and `σ'` is the
knowledge when `s` ends normally (`none` = it never does). -/
def chk (m : Mode) (S : List Nat) (cls : List (List Lit)) : Stmt → Option Facts → Option (Option Facts)
  | .skip, σ => some σ
  | .seq a b, σ => (chk m S cls a σ).bind (chk m S cls b)
  | .ite c t e, σ =>
    match σ with
    | none => some none
    | some F =>
      match chk m S cls t (assumeC m cls c true F), chk m S cls e (assumeC m cls c false F) with
      | some s1, some s2 => some (join s1 s2)
      | _, _ => none
  | .ret, _ => some none
  | .brk, _ => some none
  | .cont, _ => some none
  | .sink s, σ => if σ.isNone || !forbidden m s.kind then some σ else none
  | .call f, σ => if σ.isNone || S.contains f then some σ else none
  | .loop b, σ => (chk m S cls b σ).map fun _ => σ
  | .scope b, σ => (chk m S cls b σ).map fun _ => σ
  | .reenter, σ => some σ

/-- The body of `f` passes, assuming calls into `S` are harmless. -/
def checkFn (m : Mode) (p : Program) (S : List Nat) (f : Nat) : Bool :=
  match p.fn? f with
  | some fn => (chk m S fn.assume fn.body (some [])).isSome
  | none => false

/-- `S` is closed: every member passes relative to `S`. -/
def consistent (m : Mode) (p : Program) (S : List Nat) : Bool := S.all (checkFn m p S)

/-- Is `fn` an entry point in mode `m`? Exported callbacks always; the Go-level query entry points in mode Q. -/
def Fn.isEntry (m : Mode) (fn : Fn) : Bool := fn.exported || (m == .Q && fn.queryEntry)

def entriesIn (m : Mode) (p : Program) (S : List Nat) : Bool :=
  (List.range p.fns.length).all fun i =>
    match p.fn? i with
    | some fn => !fn.isEntry m || S.contains i
    | none => true

def refine (m : Mode) (p : Program) (S : List Nat) : List Nat := S.filter (checkFn m p S)

def safeIter (m : Mode) (p : Program) : Nat → List Nat → List Nat
  | 0, S => S
  | n + 1, S =>
    let S' := refine m p S
    if S'.length == S.length then S else safeIter m p n S'

/-- Greatest set of functions that is closed under `checkFn` (computed by removal). -/
def safeSet (m : Mode) (p : Program) : List Nat :=
  safeIter m p p.fns.length (List.range p.fns.length)

def DominatedIn (m : Mode) (p : Program) : Bool :=
  let S := safeSet m p
  consistent m p S && entriesIn m p S

/-- Every entry point is in a closed safe set, in query mode and in view mode. -/
def Dominated (p : Program) : Bool := DominatedIn .Q p && DominatedIn .V p

/-! ## Derived tables (for the driver and the fact theorems) -/

def Stmt.hasKind (k : Kind → Bool) : Stmt → Bool
  | .seq a b => a.hasKind k || b.hasKind k
  | .ite _ t e => t.hasKind k || e.hasKind k
  | .sink s => k s.kind
  | .loop b => b.hasKind k
  | .scope b => b.hasKind k
  | _ => false

def Stmt.callees : Stmt → List Nat
  | .seq a b => a.callees ++ b.callees
  | .ite _ t e => t.callees ++ e.callees
  | .call f => [f]
  | .loop b => b.callees
  | .scope b => b.callees
  | _ => []

/-- Sink sites of a class: (function name, sink name). -/
def Stmt.sinksOf (k : Kind → Bool) : Stmt → List Nat
  | .seq a b => a.sinksOf k ++ b.sinksOf k
  | .ite _ t e => t.sinksOf k ++ e.sinksOf k
  | .sink s => if k s.kind then [s.id] else []
  | .loop b => b.sinksOf k
  | .scope b => b.sinksOf k
  | _ => []

def Program.sinkName (p : Program) (i : Nat) : String := (p.sinkNames[i]?).getD "?"

def Program.sitesOf (p : Program) (k : Kind → Bool) : List (String × String) :=
  p.fns.flatMap fun fn => (fn.body.sinksOf k).map fun i => (fn.name, p.sinkName i)

/-- Order of the classes by what they may do: ro/markers < cache < txctl < restore < mutQ < mut. -/
def Kind.rank : Kind → Nat
  | .mut => 5 | .mutQ => 4 | .restore => 3 | .txctl => 2 | .cache => 1
  | _ => 0

/-- Rank of a class name of the reviewed tables (`ro` = reads). -/
def rankOfClass : String → Option Nat
  | "mut" => some 5 | "mutQ" => some 4 | "restore" => some 3 | "txctl" => some 2 | "cache" => some 1
  | "ro" => some 0
  | _ => none

def Stmt.kinds : Stmt → List Kind
  | .seq a b => a.kinds ++ b.kinds
  | .ite _ t e => t.kinds ++ e.kinds
  | .sink s => [s.kind]
  | .loop b => b.kinds
  | .scope b => b.kinds
  | _ => []

/-- Largest rank of a sink reachable from function `f` through at most `n` levels of calls; a call below that depth
counts as rank 5. -/
def maxRankN (p : Program) : Nat → Nat → Nat
  | 0, _ => 5
  | n + 1, f =>
    match p.fn? f with
    | none => 5
    | some fn => ((fn.body.kinds.map Kind.rank) ++ (fn.body.callees.map (maxRankN p n))).foldl max 0

def isMutKind : Kind → Bool
  | .mut => true | .mutQ => true | _ => false

def impureIter (p : Program) : Nat → List Nat → List Nat
  | 0, I => I
  | n + 1, I =>
    let I' := (List.range p.fns.length).filter fun i =>
      I.contains i || match p.fn? i with
        | some fn => fn.body.callees.any I.contains
        | none => false
    if I'.length == I.length then I else impureIter p n I'

/-- Functions from which a `mut`/`mutQ` sink is reachable syntactically (conditions ignored). -/
def impure (p : Program) : List Nat :=
  impureIter p p.fns.length ((List.range p.fns.length).filter fun i =>
    match p.fn? i with
    | some fn => fn.body.hasKind isMutKind
    | none => false)

def Program.index? (p : Program) (name : String) : Option Nat :=
  let rec go : List Fn → Nat → Option Nat
    | [], _ => none
    | fn :: rest, i => if fn.name == name then some i else go rest (i + 1)
  go p.fns 0

/-- `unguarded`: not in the safe set of some mode; `guarded`: safe, but a mutating sink is reachable
syntactically (so something — a guard — makes it unreachable in read-only mode); `pure`: no mutating
sink reachable at all. -/
inductive Verdict | pure | guarded | unguarded | missing
deriving Repr, DecidableEq

def Verdict.toString : Verdict → String
  | .pure => "pure" | .guarded => "guarded" | .unguarded => "unguarded" | .missing => "missing"

def verdictOf (sq sv imp : List Nat) (i : Nat) : Verdict :=
  if !(sq.contains i && sv.contains i) then .unguarded
  else if imp.contains i then .guarded else .pure

def Program.verdict (p : Program) (name : String) : Verdict :=
  match p.index? name with
  | none => .missing
  | some i => verdictOf (safeSet .Q p) (safeSet .V p) (impure p) i

/-- Verdicts of all exported callbacks, in program order. -/
def Program.verdicts (p : Program) : List (String × Verdict) :=
  let sq := safeSet .Q p
  let sv := safeSet .V p
  let imp := impure p
  (List.range p.fns.length).filterMap fun i =>
    match p.fn? i with
    | some fn => if fn.exported then some (fn.name, verdictOf sq sv imp i) else none
    | none => none

/-- The comparison a C guard makes on the value its guard call returns: `f(..) > k`, `>= k`, `!= k`, bare `f(..)`;
`other` = anything else (conjunctions, other operands …). -/
inductive CCmp | gt (k : Int) | ge (k : Int) | ne (k : Int) | truthy | other
deriving Repr, DecidableEq

/-- Does the comparison hold when the guard call returned `n`?  (`other`: not known to hold.) -/
def CCmp.eval : CCmp → Int → Bool
  | .gt k, n => decide (n > k)
  | .ge k, n => decide (n ≥ k)
  | .ne k, n => decide (n ≠ k)
  | .truthy, n => decide (n ≠ 0)
  | .other, _ => false

/-- Decidable sufficient condition for "holds for every positive value". -/
def CCmp.allPositive : CCmp → Bool
  | .gt k => decide (k ≤ 0)
  | .ge k => decide (k ≤ 1)
  | .ne k => decide (k ≤ 0)
  | .truthy => true
  | .other => false

/-- A guard in front of the SQL execution of a registered Lua function: `if (<call>(…) <cmp>) <statement>`;
`raises` = the guarded statement starts with a call that raises a Lua error (`luaL_error`, `lua_error`,
`luaL_throwerror`), which does not return. -/
structure CGuard where
  call : String
  cmp : CCmp
  raises : Bool
  text : String
deriving Repr, DecidableEq

/-- The guard stops the function when `luaCheckView` returns `n`. -/
def CGuard.stops (g : CGuard) (n : Int) : Bool := g.call == "luaCheckView" && g.raises && g.cmp.eval n

/-- A Lua function registered by a C module (lexical scan, tools/goext/hostapi_c.go). -/
structure CLuaFn where
  file : String
  table : String
  luaName : String
  cfunc : String
  /-- exported Go callbacks reachable from `cfunc` through C functions of the scanned files -/
  callbacks : List String
  /-- reaches `sqlite3_step` / `sqlite3_exec` -/
  sqlStep : Bool
  /-- `luaCheckView` / `sqlcheck_is_readonly_sql` / `sqlite3_stmt_readonly` calls in `cfunc`'s own body
  that lexically precede its first (transitive) SQL execution -/
  guardsBeforeStep : List String
  /-- the same guard calls with their comparison and action -/
  guards : List CGuard
deriving Repr, DecidableEq

/-- The C function gets as far as its SQL execution when `luaCheckView` returns `n`: it executes SQL at all and
none of the guards in front of it stops it. -/
def CLuaFn.reachesStep (f : CLuaFn) (n : Int) : Bool := f.sqlStep && !(f.guards.any (·.stops n))

/-- Decidable form of "no positive view depth gets to the SQL execution". -/
def CLuaFn.viewGuarded (f : CLuaFn) : Bool :=
  f.guards.any fun g => g.call == "luaCheckView" && g.raises && g.cmp.allPositive

/-! ## "Refuses with an error": flag-transparent or refusing

`Stmt.transp s`: every branch of `s` whose condition tests a read-only flag has the shape of a *refusal*: with
both flags clear the condition has a fixed value (`Cond.ff`), and the other arm — the one that can be taken only
because a flag is set — always emits a `refuse` event (returns an error).  Soundness (`Lemmas.HostApiDeep`):
an execution under any flags either emits `refuse`, or passes through a function marked `exempt`, or is also an
execution with both flags clear: the flags never change what a callback does except by making it return an error. -/

/-- The condition does not mention `isQuery` / `nestedView`. -/
def Cond.flagFree : Cond → Bool
  | .query => false | .view => false
  | .atom _ => true | .any => true
  | .not c => c.flagFree
  | .and a b => a.flagFree && b.flagFree
  | .or a b => a.flagFree && b.flagFree

/-- Value of the condition when both flags are clear, if the atoms cannot change it. -/
def Cond.ff : Cond → Option Bool
  | .query => some false
  | .view => some false
  | .atom _ => none
  | .any => none
  | .not c => (c.ff).map (!·)
  | .and a b =>
    match a.ff, b.ff with
    | some false, _ => some false
    | _, some false => some false
    | some true, some true => some true
    | _, _ => none
  | .or a b =>
    match a.ff, b.ff with
    | some true, _ => some true
    | _, some true => some true
    | some false, some false => some false
    | _, _ => none

/-- `s` can only end normally (no `ret` / `brk` / `cont` reaches its end). -/
def Stmt.straight : Stmt → Bool
  | .skip => true
  | .seq a b => a.straight && b.straight
  | .ite _ t e => t.straight && e.straight
  | .sink _ => true
  | .call _ => true
  | .scope _ => true
  | .reenter => true
  | .loop _ => false
  | .ret => false | .brk => false | .cont => false

/-- Every execution of `s` emits an event of kind `k`. -/
def Stmt.emitsAlways (k : Kind) : Stmt → Bool
  | .sink s => s.kind == k
  | .seq a b => a.emitsAlways k || (a.straight && b.emitsAlways k)
  | .ite _ t e => t.emitsAlways k && e.emitsAlways k
  | .scope b => b.emitsAlways k
  | _ => false

/-- Every execution of `s` that ends normally emits an event of kind `k`. -/
def Stmt.emitsOnNormal (k : Kind) : Stmt → Bool
  | .sink s => s.kind == k
  | .seq a b => a.emitsOnNormal k || b.emitsOnNormal k
  | .ite _ t e => t.emitsOnNormal k && e.emitsOnNormal k
  | .scope b => b.emitsAlways k
  | .ret => true | .brk => true | .cont => true
  | _ => false

/-- The body starts with the `exempt` marker. -/
def Stmt.startsExempt : Stmt → Bool
  | .sink s => s.kind == .exempt
  | .seq (.sink s) _ => s.kind == .exempt
  | _ => false

def Stmt.transp : Stmt → Bool
  | .seq a b => a.transp && b.transp
  | .ite c t e =>
    if c.flagFree then t.transp && e.transp
    else match c.ff with
      | some false => t.emitsAlways .refuse && e.transp
      | some true => e.emitsAlways .refuse && t.transp
      | none => false
  | .loop b => b.transp
  | .scope b => b.transp
  | _ => true

/-- Every function is exempt or transparent-or-refusing. -/
def Program.refuseOK (p : Program) : Bool := p.fns.all fun fn => fn.body.startsExempt || fn.body.transp

/-! ## The view bracket of `executor.call` -/

/-- `s` emits no event at all, given which callees emit none (`ok`). -/
def silentWith (ok : Nat → Bool) : Stmt → Bool
  | .skip => true
  | .seq a b => silentWith ok a && silentWith ok b
  | .ite _ t e => silentWith ok t && silentWith ok e
  | .ret => true | .brk => true | .cont => true
  | .sink _ => false
  | .call f => ok f
  | .loop b => silentWith ok b
  | .scope b => silentWith ok b
  | .reenter => false

def calleeSilent (p : Program) (inner : Stmt → Bool) (f : Nat) : Bool :=
  match p.fn? f with
  | some fn => inner fn.body
  | none => false

/-- no call at all -/
def silent0 : Stmt → Bool := silentWith fun _ => false
/-- calls followed one level -/
def silent1 (p : Program) : Stmt → Bool := silentWith (calleeSilent p silent0)
/-- calls followed two levels -/
def silent2 (p : Program) : Stmt → Bool := silentWith (calleeSilent p (silent1 p))
/-- calls followed three levels -/
def silent3 (p : Program) : Stmt → Bool := silentWith (calleeSilent p (silent2 p))

/-- `if <atom a> { nestedView++; defer nestedView-- … }` -/
def isBracket (a : Nat) : Stmt → Bool
  | .ite (.atom i) (.seq (.sink s1) (.loop (.scope (.sink s2)))) _ =>
    i == a && s1.kind == .viewInc && s2.kind == .viewDec
  | _ => false

/-- Nothing is emitted before the view bracket: `s` is a sequence of silent statements followed by the bracket
(followed by anything). -/
def bracketFirst (p : Program) (a : Nat) : Stmt → Bool
  | .seq x y => isBracket a x || (silent3 p x && bracketFirst p a y)
  | s => isBracket a s

/-- Index of an atom by its text. -/
def Fn.atomIdx? (fn : Fn) (t : String) : Option Nat :=
  let rec go : List String → Nat → Option Nat
    | [], _ => none
    | x :: rest, i => if x == t then some i else go rest (i + 1)
  go fn.atoms 0

/-- Everything but a final `ret` of a right-nested sequence. -/
def Stmt.dropFinalRet : Stmt → Option Stmt
  | .seq a .ret => some a
  | .seq a b => (b.dropFinalRet).map (.seq a ·)
  | _ => none

/-! ## View depth, abstractly

What `executor.call` (for functions the ABI declares as views), `luaViewStart` and `luaViewEnd` do to
`vmContext.nestedView`, against the specification "some function on the call stack is a view". -/
namespace ViewDepth

/-- A function is entered (`view` = declared as a view) or the innermost one returns / is unwound. -/
inductive Ev | enter (view : Bool) | leave
deriving Repr, DecidableEq

/-- The implementation: a counter; `enter true` increments, leaving a view frame decrements (the deferred
`nestedView--` / `luaViewEnd`).  The stack of frames is what the Lua / Go call stack is. -/
structure St where
  counter : Nat
  stack : List Bool
deriving Repr, DecidableEq

/-- `none`: `leave` with nothing entered (not a prefix of a well-bracketed run). -/
def step (s : St) : Ev → Option St
  | .enter true => some ⟨s.counter + 1, true :: s.stack⟩
  | .enter false => some ⟨s.counter, false :: s.stack⟩
  | .leave =>
    match s.stack with
    | [] => none
    | true :: rest => some ⟨s.counter - 1, rest⟩
    | false :: rest => some ⟨s.counter, rest⟩

def run : St → List Ev → Option St
  | s, [] => some s
  | s, e :: es => (step s e).bind (run · es)

/-- The specification: number of view frames that are open. -/
def openViews (st : List Bool) : Nat := (st.filter id).length

end ViewDepth


/-! ## The keyword gate of `db.query` (contract/sqlcheck.c)

`db.query` is allowed in view functions and has no `luaCheckView` guard: the only thing between a view function
running inside a transaction (writable SQL connection) and `sqlite3_prepare` + `rs:next()` is
`sqlcheck_is_readonly_sql`, which looks at the *leading keyword* of the statement.  The extractor regenerates
which leading keywords it answers non-zero for (`Gen.HostApi.sqlReadonlyFirst`, `sqlReadonlyPragmas`); this is the
specification side: the leading keywords of SQLite's statement grammar that can begin a statement that changes the
database, its schema or its transaction state. -/
namespace SqlGate

/-- Leading keywords of SQLite statements that can write (data, schema, attached databases, transaction / savepoint
state, settings).  `WITH` is one of them: `WITH … INSERT | UPDATE | DELETE | REPLACE`.  (`SELECT`, `VALUES`,
`EXPLAIN` are the ones that cannot.) -/
def writeCapable : List String :=
  ["ALTER", "ANALYZE", "ATTACH", "BEGIN", "COMMIT", "CREATE", "DELETE", "DETACH", "DROP", "END", "INSERT", "PRAGMA",
   "REINDEX", "RELEASE", "REPLACE", "ROLLBACK", "SAVEPOINT", "UPDATE", "VACUUM", "WITH"]

/-- SQLite pragmas that set something or have a side effect (every pragma of the documentation that is not a pure
query of the schema). -/
def settablePragmas : List String :=
  ["ANALYSIS_LIMIT", "APPLICATION_ID", "AUTO_VACUUM", "AUTOMATIC_INDEX", "BUSY_TIMEOUT", "CACHE_SIZE", "CACHE_SPILL",
   "CASE_SENSITIVE_LIKE", "CELL_SIZE_CHECK", "CHECKPOINT_FULLFSYNC", "COUNT_CHANGES", "DATA_STORE_DIRECTORY",
   "DEFAULT_CACHE_SIZE", "DEFER_FOREIGN_KEYS", "EMPTY_RESULT_CALLBACKS", "ENCODING", "FOREIGN_KEYS", "FULL_COLUMN_NAMES",
   "FULLFSYNC", "HARD_HEAP_LIMIT", "IGNORE_CHECK_CONSTRAINTS", "INCREMENTAL_VACUUM", "JOURNAL_MODE", "JOURNAL_SIZE_LIMIT",
   "LEGACY_ALTER_TABLE", "LEGACY_FILE_FORMAT", "LOCKING_MODE", "MAX_PAGE_COUNT", "MMAP_SIZE", "OPTIMIZE", "PAGE_SIZE",
   "PARSER_TRACE", "QUERY_ONLY", "READ_UNCOMMITTED", "RECURSIVE_TRIGGERS", "REVERSE_UNORDERED_SELECTS", "SCHEMA_VERSION",
   "SECURE_DELETE", "SHORT_COLUMN_NAMES", "SHRINK_MEMORY", "SOFT_HEAP_LIMIT", "SYNCHRONOUS", "TEMP_STORE",
   "TEMP_STORE_DIRECTORY", "THREADS", "TRUSTED_SCHEMA", "USER_VERSION", "VDBE_ADDOPTRACE", "VDBE_DEBUG", "VDBE_LISTING",
   "VDBE_TRACE", "WAL_AUTOCHECKPOINT", "WAL_CHECKPOINT", "WRITABLE_SCHEMA",
   -- litetree
   "BRANCH", "BRANCH_TRUNCATE", "BRANCH_LOG", "NEW_BRANCH", "DEL_BRANCH", "RENAME_BRANCH", "BRANCH_MERGE"]

/-- Does the rule `(keyword, prefix|exact|…)` let the (upper-cased) keyword `kw` through?  `strncmp(keyword, K, |K|) == 0`
is a prefix test; a rule of a shape the extractor does not recognise lets everything through. -/
def admits (rule : String × String) (kw : String) : Bool :=
  if rule.2 == "prefix" then rule.1.toList.isPrefixOf kw.toList
  else if rule.2 == "exact" then rule.1 == kw
  else true

/-- The gate answers "read-only" for a statement whose leading keyword is `kw` (pragmas are decided by the second
keyword: `pragmaOK`). -/
def classifiesReadonly (rules : List (String × String)) (kw : String) : Bool :=
  rules.any fun r => r.2 != "pragma" && admits r kw

/-- No write-capable leading keyword other than `PRAGMA` is classified read-only, and `PRAGMA` only through the
pragma table. -/
def firstOK (rules : List (String × String)) : Bool :=
  (writeCapable.filter (· != "PRAGMA")).all (fun w => !classifiesReadonly rules w) &&
  rules.all (fun r => r.2 != "pragma" || r.1 == "PRAGMA") &&
  !classifiesReadonly rules "PRAGMA"

/-- No settable pragma is admitted. -/
def pragmasOK (rules : List (String × String)) : Bool :=
  settablePragmas.all fun w => rules.all fun r => !admits r w

end SqlGate

/-! ## Recovery points, abstractly (`restore`-class sinks)

`createRecoveryPoint` records the current state, `clearRecoveryPoint(start, isError = true)` /
`recoveryPoint.revertState` put a recorded state back, `luaDropEvent(from)` truncates the event list
to a recorded length.  `Snap` is the abstract machine: a current state and the stack of states
recorded *inside the region under consideration*. -/
namespace Snap

inductive Op (S : Type)
  | mutate (f : S → S)
  | snap
  /-- restore the `k`-th most recent recorded state (and forget the more recent ones) -/
  | restore (k : Nat)

structure St (S : Type) where
  cur : S
  stack : List S

/-- `none`: a restore named a recovery point that was not recorded inside the region. -/
def step {S : Type} (st : St S) : Op S → Option (St S)
  | .mutate f => some { st with cur := f st.cur }
  | .snap => some { st with stack := st.cur :: st.stack }
  | .restore k =>
    match st.stack[k]? with
    | some s => some { cur := s, stack := st.stack.drop k }
    | none => none

def run {S : Type} : St S → List (Op S) → Option (St S)
  | st, [] => some st
  | st, op :: ops => (step st op).bind (run · ops)

def Op.isMutate {S : Type} : Op S → Bool
  | .mutate _ => true
  | _ => false

/-- The operation cannot change the observable `root`: it is a snapshot, a restore, or an update under which
`root` is invariant (caches, counters, bookkeeping). -/
def Op.preserves {S R : Type} (root : S → R) : Op S → Prop
  | .mutate f => ∀ s, root (f s) = root s
  | _ => True

end Snap

end Aergo.HostApi
