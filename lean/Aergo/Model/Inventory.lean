/-
Model layer `Inventory` (C19): which fields of the stored / committed records are *meant* to be outside an encoding.
These lists are the specification side of the inventory theorems of Props/C19 Part 6 (the code side is regenerated:
`Aergo.Gen.Inv`); the Go harness c19 uses the same lists for its reflection-driven single-field changes.
-/
namespace Aergo.Inventory

/-- `types.Receipt` fields that belong to no encoding: filled in from the block and the transaction when a receipt is
served (`Receipt.SetMemoryInfo`, the RPC layer). -/
def receiptDerived : List String := ["BlockNo", "BlockHash", "TxIndex", "From", "To"]

/-- `types.Receipt` fields that exist only from receipt format 2 (hardfork V2) on. -/
def receiptV2Only : List String := ["GasUsed", "FeeDelegation"]

/-- Go names of the fields of the model's `Aergo.Receipt.Receipt` (addr, status, ret, txHash, fee, cum, gas, feeDeleg, bloom, events). -/
def receiptModelled : List String :=
  ["ContractAddress", "Status", "Ret", "TxHash", "FeeUsed", "CumulativeFeeUsed", "GasUsed", "FeeDelegation", "Bloom", "Events"]

/-- `types.Event` fields that belong to no encoding (`Event.SetMemoryInfo`). -/
def eventDerived : List String := ["BlockHash", "BlockNo", "TxIndex"]

/-- `types.Event` fields committed but not stored: restored from the receipt by `Event.SetMemoryInfo`. -/
def eventNotStored : List String := ["TxHash"]

/-- Go names of the fields of the model's `Aergo.Receipt.Event` (addr, name, args, idx, txHash). -/
def eventModelled : List String := ["ContractAddress", "EventName", "JsonArgs", "EventIdx", "TxHash"]

/-- Go names of the fields of the model's `Aergo.ChainId.ChainID`. -/
def chainIdModelled : List String := ["Version", "PublicNet", "MainNet", "Magic", "Consensus"]

/-- `types.Genesis` fields `Genesis.Bytes` leaves out on purpose (the balances live in the genesis state). -/
def genesisNotStored : List String := ["Balance"]

/-- `l ⊆ m` as a decidable check -/
def sub (l m : List String) : Bool := l.all (fun f => m.contains f)

/-- the names `V2, V3, …` of a configuration with `n` fork heights -/
def versionNames (n : Nat) : List String := (List.range n).map (fun i => "V" ++ toString (i + 2))

/-- truth table of `(a || b) && d`, rows abd = 000 … 111 -/
def compatTable : List Bool := [false, false, false, true, false, true, false, true]

end Aergo.Inventory
