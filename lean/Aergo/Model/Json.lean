/-
Model layer `Json` (C14): what `json.Unmarshal(payload, &ci)` with
`ci : types.CallInfo{Name string; Args []interface{}}` does (Go 1.23 `encoding/json`), as a total
function from *any* byte string to a decode error or a `CallInfo`.

Transcribed, with the quirks the governance code is exposed to:
 * `checkValid` first: a syntax error anywhere (incl. nesting deeper than 10000, control bytes in
   strings, bad escapes, trailing data) is a decode error;
 * strings are unquoted as `unquoteBytes` does: invalid UTF-8 bytes and lone surrogate escapes become
   U+FFFD, surrogate pairs are combined;
 * numbers inside `Args` become `float64`; a literal that rounds to ±Inf is a decode error
   (`strconv.ParseFloat` range error, saved by the decoder and returned at the end);
 * top level `null` leaves `ci` zero (no error!), other non-objects are type errors;
 * object keys match the struct fields exactly or by simple case folding (so `"name"`, `"ARGS"` and
   even `"argſ"` (U+017F) match), later duplicates overwrite, `null` resets `Args` and is ignored for
   `Name`; unknown keys are skipped without conversion.

Strings are lists of Unicode scalar values (`Str`), bytes are `Nat`s < 256. Core Lean only.
`encoding/json` itself is trusted-as-modelled (DESIGN §7); this file is tied to it by the C14
harness, which sends raw payload bytes.
-/
namespace Aergo.Json

/-- A decoded JSON string: its Unicode scalar values. -/
abbrev Str := List Nat

/-- `interface{}` values produced by `encoding/json`. `num` keeps only what the governance code can
observe of a `float64`: whether the literal was out of range (which makes Unmarshal fail). -/
inductive JVal where
  | null
  | bool (b : Bool)
  | num (overflow : Bool)
  | str (s : Str)
  | arr (xs : List JVal)
  | obj (kvs : List (Str × JVal))
deriving Repr, Inhabited

/-- String literal as a `Str`, expanded at elaboration time (so that `decide` sees a numeral list). -/
scoped macro "str%" s:str : term => do
  let cs := s.getString.toList.toArray.map (fun c => Lean.Syntax.mkNumLit (toString c.toNat))
  `([$cs,*])

/-- UTF-8 width of a scalar value (`len(string(r))`). -/
def utf8Width (c : Nat) : Nat := if c < 0x80 then 1 else if c < 0x800 then 2 else if c < 0x10000 then 3 else 4

/-- `len(s)` of the Go string. -/
def byteLen (s : Str) : Nat := (s.map utf8Width).sum

/-- UTF-8 bytes of a scalar value. -/
def utf8Bytes (c : Nat) : List Nat :=
  if c < 0x80 then [c]
  else if c < 0x800 then [0xC0 + c / 64, 0x80 + c % 64]
  else if c < 0x10000 then [0xE0 + c / 4096, 0x80 + c / 64 % 64, 0x80 + c % 64]
  else [0xF0 + c / 262144, 0x80 + c / 4096 % 64, 0x80 + c / 64 % 64, 0x80 + c % 64]

/-- `[]byte(s)` of the Go string. -/
def encodeUtf8 (s : Str) : List Nat := s.flatMap utf8Bytes

/-! ### Lexical level -/

def isWs (c : Nat) : Bool := c == 32 || c == 9 || c == 10 || c == 13
def isDigit (c : Nat) : Bool := 48 ≤ c && c ≤ 57

def skipWs : List Nat → List Nat
  | [] => []
  | c :: r => if isWs c then skipWs r else c :: r

def hexVal (c : Nat) : Option Nat :=
  if 48 ≤ c && c ≤ 57 then some (c - 48)
  else if 97 ≤ c && c ≤ 102 then some (c - 87)
  else if 65 ≤ c && c ≤ 70 then some (c - 55)
  else none

/-- `getu4` without the `\u` prefix: four hex digits. -/
def parseU4 : List Nat → Option (Nat × List Nat)
  | a :: b :: c :: d :: r =>
    match hexVal a, hexVal b, hexVal c, hexVal d with
    | some a, some b, some c, some d => some (((a * 16 + b) * 16 + c) * 16 + d, r)
    | _, _, _, _ => none
  | _ => none

def isCont (b : Nat) : Bool := 0x80 ≤ b && b ≤ 0xBF

/-- `utf8.DecodeRune` on input whose first byte is ≥ 0x80: the rune (U+FFFD for an invalid or truncated
sequence, which consumes exactly one byte) and the rest. -/
def decodeRune : List Nat → Nat × List Nat
  | [] => (0xFFFD, [])
  | b0 :: rest =>
    if b0 < 0xC2 then (0xFFFD, rest)
    else if b0 < 0xE0 then
      match rest with
      | b1 :: r => if isCont b1 then ((b0 - 0xC0) * 64 + (b1 - 0x80), r) else (0xFFFD, rest)
      | _ => (0xFFFD, rest)
    else if b0 < 0xF0 then
      let lo := if b0 == 0xE0 then 0xA0 else 0x80
      let hi := if b0 == 0xED then 0x9F else 0xBF
      match rest with
      | b1 :: b2 :: r =>
        if lo ≤ b1 && b1 ≤ hi && isCont b2 then (((b0 - 0xE0) * 64 + (b1 - 0x80)) * 64 + (b2 - 0x80), r)
        else (0xFFFD, rest)
      | _ => (0xFFFD, rest)
    else if b0 < 0xF5 then
      let lo := if b0 == 0xF0 then 0x90 else 0x80
      let hi := if b0 == 0xF4 then 0x8F else 0xBF
      match rest with
      | b1 :: b2 :: b3 :: r =>
        if lo ≤ b1 && b1 ≤ hi && isCont b2 && isCont b3 then
          ((((b0 - 0xF0) * 64 + (b1 - 0x80)) * 64 + (b2 - 0x80)) * 64 + (b3 - 0x80), r)
        else (0xFFFD, rest)
      | _ => (0xFFFD, rest)
    else (0xFFFD, rest)

/-- Decode a whole byte string as Go's `for _, r := range string(b)` would (used by the driver for
strings that arrive as hex). -/
def decodeUtf8 : Nat → List Nat → List Nat → Str
  | 0, _, acc => acc.reverse
  | _, [], acc => acc.reverse
  | n+1, c :: r, acc =>
    if c < 0x80 then decodeUtf8 n r (c :: acc)
    else let (cp, r') := decodeRune (c :: r); decodeUtf8 n r' (cp :: acc)

/-- Body of a string literal after the opening quote (`unquoteBytes` + the scanner's checks). -/
def parseStr : Nat → List Nat → List Nat → Option (Str × List Nat)
  | 0, _, _ => none
  | n+1, inp, acc =>
    match inp with
    | [] => none
    | 34 :: r => some (acc.reverse, r)
    | 92 :: r =>
      match r with
      | 34 :: r' => parseStr n r' (34 :: acc)
      | 92 :: r' => parseStr n r' (92 :: acc)
      | 47 :: r' => parseStr n r' (47 :: acc)
      | 98 :: r' => parseStr n r' (8 :: acc)
      | 102 :: r' => parseStr n r' (12 :: acc)
      | 110 :: r' => parseStr n r' (10 :: acc)
      | 114 :: r' => parseStr n r' (13 :: acc)
      | 116 :: r' => parseStr n r' (9 :: acc)
      | 117 :: r' =>
        match parseU4 r' with
        | none => none
        | some (rr, r2) =>
          if 0xD800 ≤ rr && rr < 0xE000 then
            match r2 with
            | 92 :: 117 :: r3 =>
              match parseU4 r3 with
              | none => none
              | some (rr1, r4) =>
                if rr < 0xDC00 && 0xDC00 ≤ rr1 && rr1 < 0xE000 then
                  parseStr n r4 (((rr - 0xD800) * 1024 + (rr1 - 0xDC00) + 0x10000) :: acc)
                else parseStr n r2 (0xFFFD :: acc)
            | _ => parseStr n r2 (0xFFFD :: acc)
          else parseStr n r2 (rr :: acc)
      | _ => none
    | c :: r =>
      if c < 32 then none
      else if c < 0x80 then parseStr n r (c :: acc)
      else let (cp, r') := decodeRune (c :: r); parseStr n r' (cp :: acc)

def takeDigits : List Nat → List Nat → List Nat × List Nat
  | acc, c :: r => if isDigit c then takeDigits ((c - 48) :: acc) r else (acc.reverse, c :: r)
  | acc, [] => (acc.reverse, [])

/-- Half-way point between the largest `float64` and 2^1024: decimal values ≥ this round to +Inf. -/
def f64Overflow : Nat := (2 ^ 54 - 1) * 2 ^ 970

def digitsToNat (ds : List Nat) : Nat := ds.foldl (fun a d => a * 10 + d) 0

/-- `strconv`'s exponent accumulation: stops growing once it reaches 10000. -/
def satExp (ds : List Nat) : Nat := ds.foldl (fun e d => if e < 10000 then e * 10 + d else e) 0

/-- Does `strconv.ParseFloat(lit, 64)` report a range error?  `ip`, `fp` digits of the integer and
fraction part, `neg`/`ex` sign and digits of the exponent. -/
def numOverflow (ip fp : List Nat) (eneg : Bool) (ex : List Nat) : Bool :=
  let ds := ip ++ fp
  let z := (ds.takeWhile (· == 0)).length
  let sig := ds.drop z
  if sig.isEmpty then false else
  let e : Int := if eneg then -(satExp ex : Int) else (satExp ex : Int)
  let point : Int := (ip.length : Int) - (z : Int) + e
  if point > 309 then true
  else if point < 309 then false
  else decide (digitsToNat ((sig ++ List.replicate 309 0).take 309) ≥ f64Overflow)

/-- A number literal (grammar of the scanner); result: overflow flag and the rest. -/
def parseNum (inp : List Nat) : Option (Bool × List Nat) :=
  let r0 := match inp with | 45 :: r => r | r => r
  let intPart : Option (List Nat × List Nat) :=
    match r0 with
    | 48 :: r => some ([0], r)
    | c :: _ => if isDigit c then some (takeDigits [] r0) else none
    | [] => none
  match intPart with
  | none => none
  | some (ip, r1) =>
    let fracPart : Option (List Nat × List Nat) :=
      match r1 with
      | 46 :: r =>
        let (fp, r') := takeDigits [] r
        if fp.isEmpty then none else some (fp, r')
      | _ => some ([], r1)
    match fracPart with
    | none => none
    | some (fp, r2) =>
      match r2 with
      | c :: r =>
        if c == 101 || c == 69 then
          let (eneg, r3) := match r with
            | 43 :: r' => (false, r')
            | 45 :: r' => (true, r')
            | _ => (false, r)
          let (ex, r4) := takeDigits [] r3
          if ex.isEmpty then none else some (numOverflow ip fp eneg ex, r4)
        else some (numOverflow ip fp false [], r2)
      | [] => some (numOverflow ip fp false [], r2)

/-! ### Values -/

mutual
/-- One JSON value. `L` bounds string bodies, the first argument is fuel (≥ 2·len + 4), `d` the
current nesting depth (the scanner refuses to open the 10001st level). -/
def parseValue (L : Nat) : Nat → Nat → List Nat → Option (JVal × List Nat)
  | 0, _, _ => none
  | f+1, d, inp =>
    match skipWs inp with
    | 110 :: 117 :: 108 :: 108 :: r => some (.null, r)
    | 116 :: 114 :: 117 :: 101 :: r => some (.bool true, r)
    | 102 :: 97 :: 108 :: 115 :: 101 :: r => some (.bool false, r)
    | 34 :: r =>
      match parseStr L r [] with
      | some (s, r') => some (.str s, r')
      | none => none
    | 91 :: r =>
      if d ≥ 10000 then none else
      match skipWs r with
      | 93 :: r' => some (.arr [], r')
      | r1 => parseElems L f (d + 1) r1 []
    | 123 :: r =>
      if d ≥ 10000 then none else
      match skipWs r with
      | 125 :: r' => some (.obj [], r')
      | r1 => parseMembers L f (d + 1) r1 []
    | c :: r =>
      if c == 45 || isDigit c then
        match parseNum (c :: r) with
        | some (o, r') => some (.num o, r')
        | none => none
      else none
    | [] => none
/-- Elements of an array after `[`: value (`,` value)* `]`. -/
def parseElems (L : Nat) : Nat → Nat → List Nat → List JVal → Option (JVal × List Nat)
  | 0, _, _, _ => none
  | f+1, d, inp, acc =>
    match parseValue L f d inp with
    | none => none
    | some (v, r) =>
      match skipWs r with
      | 44 :: r' => parseElems L f d r' (v :: acc)
      | 93 :: r' => some (.arr (v :: acc).reverse, r')
      | _ => none
/-- Members of an object after `{`: string `:` value (`,` …)* `}`. -/
def parseMembers (L : Nat) : Nat → Nat → List Nat → List (Str × JVal) → Option (JVal × List Nat)
  | 0, _, _, _ => none
  | f+1, d, inp, acc =>
    match skipWs inp with
    | 34 :: r =>
      match parseStr L r [] with
      | none => none
      | some (k, r1) =>
        match skipWs r1 with
        | 58 :: r2 =>
          match parseValue L f d r2 with
          | none => none
          | some (v, r3) =>
            match skipWs r3 with
            | 44 :: r' => parseMembers L f d r' ((k, v) :: acc)
            | 125 :: r' => some (.obj ((k, v) :: acc).reverse, r')
            | _ => none
        | _ => none
    | _ => none
end

/-- `checkValid` + decoding into `interface{}`: `none` is a syntax error. -/
def parse (inp : List Nat) : Option JVal :=
  match parseValue (inp.length + 1) (2 * inp.length + 4) 0 inp with
  | some (v, r) => if (skipWs r).isEmpty then some v else none
  | none => none

/-! ### Into `types.CallInfo` -/

mutual
/-- Does converting this value to `interface{}` save a `float64` range error? -/
def hasOverflow : JVal → Bool
  | .num o => o
  | .arr xs => anyOverflow xs
  | .obj kvs => anyOverflowKV kvs
  | _ => false
def anyOverflow : List JVal → Bool
  | [] => false
  | v :: r => hasOverflow v || anyOverflow r
def anyOverflowKV : List (Str × JVal) → Bool
  | [] => false
  | (_, v) :: r => hasOverflow v || anyOverflowKV r
end

structure CallInfo where
  name : Str
  args : List JVal
deriving Repr, Inhabited

/-- `foldRune` on the runes that can occur in a key equal to `NAME`/`ARGS` after folding. -/
def foldRune (c : Nat) : Nat :=
  if 97 ≤ c && c ≤ 122 then c - 32 else if c == 0x17F then 83 else if c == 0x212A then 75 else c

inductive Field | name | args | unknown
deriving DecidableEq, Repr

/-- Field selection of the decoder: exact name, else folded name. -/
def fieldOf (k : Str) : Field :=
  let f := k.map foldRune
  if f == str% "NAME" then .name else if f == str% "ARGS" then .args else .unknown

/-- One member applied to the struct being filled; `none` = a saved `UnmarshalTypeError`/range error
(decoding continues in Go, but every caller turns the final error into a rejection). -/
def applyMember (ci : CallInfo) (k : Str) (v : JVal) : Option CallInfo :=
  match fieldOf k with
  | .name =>
    match v with
    | .null => some ci
    | .str s => some { ci with name := s }
    | _ => none
  | .args =>
    match v with
    | .null => some { ci with args := [] }
    | .arr xs => if anyOverflow xs then none else some { ci with args := xs }
    | _ => none
  | .unknown => some ci

def applyMembers : CallInfo → List (Str × JVal) → Option CallInfo
  | ci, [] => some ci
  | ci, (k, v) :: r =>
    match applyMember ci k v with
    | some ci' => applyMembers ci' r
    | none => none

/-- `json.Unmarshal(_, &ci)` on an already parsed document. -/
def decodeCallInfo : JVal → Option CallInfo
  | .null => some ⟨[], []⟩
  | .obj kvs => applyMembers ⟨[], []⟩ kvs
  | _ => none

/-- `json.Unmarshal(payload, &ci)`: `none` = `err != nil`. -/
def unmarshalCallInfo (payload : List Nat) : Option CallInfo :=
  match parse payload with
  | none => none
  | some v => decodeCallInfo v

/-- `m[key]` on a `map[string]interface{}` built by the decoder: the last occurrence wins. -/
def objGet (kvs : List (Str × JVal)) (k : Str) : Option JVal :=
  match (kvs.reverse.find? (fun kv => kv.1 == k)) with
  | some kv => some kv.2
  | none => none

end Aergo.Json
