/-! # Ledger — executable model of transaction and block execution (C01, C03)

Transcribes, line by line as far as balances, nonces, receipts and contract/governance storage are
concerned:

* `chain/chainhandle.go`: `executeTx`, `resetAccount`, `NewTxExecutor` (snapshot / rollback around a tx),
  `blockExecutor.execute` (tx loop + `SendBlockReward`), `sendRewardCoinbase`
* `contract/contract.go`: `Execute`, `checkExecution`, `checkRedeploy`
* `state/account.go`: `AccountState` (two records `oldState`/`newState`), `SendBalance`, `AddBalance`,
  `SubBalance` (`big.Int.Sub` then `Bytes()` drops the sign), `Reset`, `PutState`, `GetAccountState`,
  `CreateAccountState`
* `types/transaction.go`: `Validate` (type/recipient/payload rules), `ValidateWithSenderState`, `ValidateMaxFee`
* `fee/fee.go, gas.go, payload.go`: `TxBaseFee`, `TxMaxFee`, `TxGas`, `PayloadFee`, `MaxPayloadFee`, `GasLimit`, `MaxGasLimit`
* `chain/governance.go`, `contract/system/{execute,staking,validation,vote}.go` (stake / unstake / voteBP),
  `contract/name/{execute,name}.go` (v1createName / v1updateName / v1setOwner)
* `consensus/impl/dpos/dpos.go`: `sendVotingReward` (the winner is an input: picking it is C15's subject)

Go objects are modelled as they are: an `AccountState` is a *copy* (`Copy`) of the account record, several
copies of the same account can be alive in one transaction, and `PutState` order decides which one wins.
The VM is the scripted stub of the build overlay (`overlay/stub/vmstub.go`): a `Script` carries the fee the
VM charges, its error class and the `SendBalance` transfers / storage writes the called contract performs.
Core Lean only (linked into `model-c01` / `model-c03`). -/

namespace Aergo.Ledger

abbrev Addr := Nat

/-- `aergo.system`, `aergo.name`, `aergo.vault`, `aergo.enterprise` (types/vote.go). -/
def aSystem : Addr := 0
def aName : Addr := 1
def aVault : Addr := 2
def aEnterprise : Addr := 3

/-! ## association maps (a Go map / a trie read through `get`) -/

abbrev AMap (α : Type) := List (Nat × α)

def mget {α : Type} : AMap α → Nat → Option α
  | [], _ => none
  | (k', v) :: t, k => if k' = k then some v else mget t k

/-- replace the first binding of `k`, or append one -/
def mset {α : Type} : AMap α → Nat → α → AMap α
  | [], k, v => [(k, v)]
  | (k', v') :: t, k, v => if k' = k then (k, v) :: t else (k', v') :: mset t k v

def mdel {α : Type} : AMap α → Nat → AMap α
  | [], _ => []
  | (k', v') :: t, k => if k' = k then t else (k', v') :: mdel t k

/-! ## accounts and the world -/

/-- the part of `types.State` the properties talk about; `code` = `len(CodeHash) > 0` -/
structure Acct where
  nonce : Nat := 0
  bal : Nat := 0
  code : Bool := false
deriving DecidableEq, Repr, Inhabited

/-- `AccountState.SetNonce` -/
def Acct.setNonce (a : Acct) (n : Nat) : Acct := { a with nonce := n }

/-- Everything a `BlockState` (StateDB buffer + storage cache) shows to `executeTx`. -/
structure World where
  /-- account records; presence = `StateDB.GetState ≠ nil` -/
  accts : AMap Acct := []
  /-- contract storage as read through the storage cache / the storage trie: contract ↦ key ↦ value -/
  stor : AMap (AMap Nat) := []
  /-- contracts whose `bufferedStorage` object sits in the block's storage cache (`StageContractState`):
      `OpenContractState` hands out *that object*, so writes through it are visible at once -/
  cached : List Addr := []
  /-- `dbkey.CreatorMeta()` of each deployed contract -/
  creator : AMap Addr := []
  /-- aergo.system: staking record (amount, when) per account; presence = the key holds data -/
  staking : AMap (Nat × Nat) := []
  stakeTotal : Nat := 0
  /-- accounts holding a BP vote record -/
  voted : List Addr := []
  /-- aergo.name: name ↦ (owner, destination), the buffered view (`GetData`); name 0 is "aergo.name" itself -/
  names : AMap (Addr × Addr) := []
  /-- the view of the last committed block (`GetInitialData`: the trie only) -/
  namesInit : AMap (Addr × Addr) := []
deriving DecidableEq, Repr, Inhabited

/-- name key of the contract-owner record `registerOwner(scs, "aergo.name", …)` -/
def nAergoName : Nat := 0

def World.acct (w : World) (a : Addr) : Acct := (mget w.accts a).getD {}
def World.bal (w : World) (a : Addr) : Nat := (w.acct a).bal
/-- `AccountState.PutState` -/
def World.put (w : World) (a : Addr) (x : Acct) : World := { w with accts := mset w.accts a x }

/-- Σ of all balances (user accounts, contracts, aergo.system/name/vault, coinbase). -/
def sumBal : AMap Acct → Nat
  | [] => 0
  | (_, a) :: t => a.bal + sumBal t

def World.total (w : World) : Nat := sumBal w.accts

/-- A live `*state.AccountState`: `oldState`, `newState`, `newOne`, `deploy` flags. -/
structure Copy where
  id : Addr
  old : Acct := {}
  cur : Acct := {}
  isNew : Bool := false
  deploy : Bool := false
  redeploy : Bool := false
deriving DecidableEq, Repr, Inhabited

/-- `state.GetAccountState` (Testmode off) -/
def World.getCopy (w : World) (a : Addr) : Copy :=
  match mget w.accts a with
  | some x => { id := a, old := x, cur := x }
  | none => { id := a, isNew := true }

/-- `new(big.Int).Sub(a, b).Bytes()` read back with `SetBytes`: the sign is lost -/
def absSub (a b : Nat) : Nat := if b ≤ a then a - b else b - a

def Copy.setBal (c : Copy) (b : Nat) : Copy := { c with cur := { c.cur with bal := b } }
/-- `AccountState.SubBalance` -/
def Copy.subBalance (c : Copy) (x : Nat) : Copy := c.setBal (absSub c.cur.bal x)
/-- `AccountState.AddBalance` -/
def Copy.addBalance (c : Copy) (x : Nat) : Copy := c.setBal (c.cur.bal + x)

/-- `state.SendBalance`: no-op on equal account ids, `none` = `ErrInsufficientBalance` -/
def sendBal (s r : Copy) (amt : Nat) : Option (Copy × Copy) :=
  if s.id = r.id then some (s, r)
  else if s.cur.bal < amt then none
  else some (s.subBalance amt, r.addBalance amt)

/-! ## block context, transactions -/

structure Ctx where
  version : Nat            -- bi.ForkVersion (0..4)
  gasPrice : Nat           -- bs.GasPrice
  zeroFee : Bool           -- fee.IsZeroFee()  (private network)
  isPublic : Bool          -- chain.IsPublic()
  coinbase : Option Addr   -- block header coinbase account (nil = none configured)
  blockNo : Nat
  namePrice : Nat          -- system.GetNamePrice()
  stakingMin : Nat         -- system.GetStakingMinimum()
deriving Repr, Inhabited

inductive TxType
  | normal | governance | redeploy | feeDelegation | transfer | call | deploy | multicall
deriving DecidableEq, Repr, Inhabited

inductive VmErr
  | ok | vm | system | negfee
  /-- a Lua runtime error raised after the contract wrote top-level variables: the writes sit in the
      contract-state handle, nothing undoes them inside the VM -/
  | vmlate
deriving DecidableEq, Repr, Inhabited

/-- scripted outcome of a VM call (overlay/stub/vmstub.go `VerifScript`) -/
structure Script where
  fee : Nat := 0
  err : VmErr := .ok
  xfers : List (Addr × Nat) := []
  sets : List (Nat × Nat) := []
  dels : List Nat := []
  /-- the contract's `check_delegation` function refuses (`CheckFeeDelegation` returns an error) -/
  nofd : Bool := false
  /-- the script stands for the commands of a MULTICALL transaction (the stub runs a MULTICALL payload only
      if it says so; any other finds no code) -/
  multi : Bool := false
deriving Repr, Inhabited

inductive GovOp
  | stake | unstake | voteBP
  | nameCreate (n : Nat) | nameUpdate (n : Nat) (to : Addr) | setOwner (a : Addr)
  /-- a payload `types.Validate` refuses (unknown operation name) -/
  | bad
deriving DecidableEq, Repr, Inhabited

structure Tx where
  type : TxType
  /-- the account the tx executes as: `name.Resolve` of the account field of the tx body -/
  sender : Addr
  recipient : Option Addr
  amount : Nat
  nonce : Nat
  gasLimit : Nat := 0
  payloadLen : Nat := 0
  script : Script := {}
  gov : GovOp := .bad
  /-- `contract.CreateContractID(account, nonce)` (a SHA-256 value: supplied, never computed) -/
  newAddr : Addr := 0
  /-- the account field of the tx body is a *name* (≤ 12 bytes; 0 = "aergo.name") rather than an address;
      `sender` is what it resolves to. Only `ValidateNameTx` looks at the raw field. -/
  acctName : Option Nat := none
deriving Repr, Inhabited

/-- classes of errors that make `executeTx` return an error (the tx is rolled back) -/
inductive Rej
  | invalidAmount | invalidType | invalidRecipient | formatInvalid | invalidPayload
  | nonceLow | nonceHigh | insufficient | minGas | exists_ | notAllowedFD
  | system | internalFee
  | lessTime | tooSmall | mustStakeVote | mustStakeUnstake | exceed | other
deriving DecidableEq, Repr, Inhabited

inductive Outcome
  | success | failed | rejected (r : Rej)
deriving DecidableEq, Repr, Inhabited

inductive Status
  | success | created | recreated | error
deriving DecidableEq, Repr, Inhabited

structure Receipt where
  status : Status
  fee : Nat
  feeDelegation : Bool
  contract : Addr
deriving DecidableEq, Repr, Inhabited

/-! ## fee/*.go -/

def maxAER : Nat := 500000000 * 10 ^ 18
def baseTxAergo : Nat := 2000000000000000
def aerPerByte : Nat := 5000000000000
def payloadMaxSize : Nat := 200 * 1024
def freeByteSize : Nat := 200
def stateDbMaxFee : Nat := aerPerByte * (payloadMaxSize - freeByteSize)
def txGasSize : Nat := 100000
def payloadGasSize : Nat := 5
def maxU64 : Nat := 2 ^ 64 - 1
def stakingDelay : Nat := 60 * 60 * 24
def votingDelay : Nat := 60 * 60 * 24

/-- `paymentDataSize` capped at `payloadMaxSize` (both callers cap it) -/
def dataSize (payloadSize : Nat) : Nat := min (payloadSize - freeByteSize) payloadMaxSize

def gasEnabled (c : Ctx) : Bool := !c.zeroFee && decide (2 ≤ c.version)

def txGas (c : Ctx) (payloadSize : Nat) : Nat :=
  if c.zeroFee then 0 else txGasSize + dataSize payloadSize * payloadGasSize

def payloadFee (c : Ctx) (payloadSize : Nat) : Nat :=
  if c.zeroFee then 0 else baseTxAergo + aerPerByte * dataSize payloadSize

def maxPayloadFee (c : Ctx) (payloadSize : Nat) : Nat :=
  if c.zeroFee then 0
  else if payloadSize = 0 then baseTxAergo
  else payloadFee c payloadSize + stateDbMaxFee

def txBaseFee (c : Ctx) (payloadSize : Nat) : Nat :=
  if c.version < 2 then payloadFee c payloadSize else c.gasPrice * txGas c payloadSize

/-- `MaxGasLimit`: `balance / gasPrice` if that is a uint64, else MaxUint64 (also for a negative balance:
Euclidean division of a negative number is negative, `IsUint64` is false). Guard: `gasPrice > 0`
(`big.Int.Div` by zero panics; `gasPrice` is a system parameter that `validateById` keeps non-zero). -/
def maxGasLimit (balance : Int) (gasPrice : Nat) : Nat :=
  if balance < 0 then maxU64 else min (balance.toNat / gasPrice) maxU64

/-- `TxMaxFee`; `none` = "the minimum required amount of gas" -/
def txMaxFee (c : Ctx) (lenPayload gasLimit balance : Nat) : Option Nat :=
  if c.zeroFee then some 0
  else if c.version < 2 then some (maxPayloadFee c lenPayload)
  else
    let gl := if gasLimit = 0 then maxGasLimit balance c.gasPrice else gasLimit
    if txGas c lenPayload > gl then none else some (c.gasPrice * gl)

/-- `transaction.ValidateMaxFee` -/
def validateMaxFee (c : Ctx) (tx : Tx) (balance : Nat) : Option Rej :=
  match txMaxFee c tx.payloadLen tx.gasLimit balance with
  | none => some .minGas
  | some f => if f > balance then some .insufficient else none

/-- `fee.GasLimit`; `none` = "not enough gas" -/
def gasLimit (c : Ctx) (isFD : Bool) (txGasLimit payloadSize usedFee sBal rBal : Nat) : Option Nat :=
  if !gasEnabled c then some 0
  else if isFD then
    let gl := maxGasLimit ((rBal : Int) - usedFee) c.gasPrice
    if gl = 0 then none else some gl
  else if txGasLimit = 0 then
    let gl := maxGasLimit ((sBal : Int) - usedFee) c.gasPrice
    if gl = 0 then none else some gl
  else
    let used := txGas c payloadSize
    if txGasLimit ≤ used then none else some (txGasLimit - used)

/-! ## types/transaction.go -/

/-- `transaction.Validate`: the rules that depend on type, recipient, payload, amount (chain id hash,
tx hash, sizes are always well-formed here). Governance: `validate` picks the validator by recipient
(consensus dpos); an operation is accepted only by its own contract. -/
def validateTx (c : Ctx) (tx : Tx) : Option Rej :=
  if tx.amount > maxAER then some .invalidAmount else
  match tx.type with
  | .redeploy =>
    if c.isPublic then some .invalidType
    else if tx.recipient.isNone then some .invalidRecipient else none
  | .normal => if tx.recipient.isNone && tx.payloadLen == 0 then some .invalidRecipient else none
  | .governance =>
    if tx.payloadLen = 0 then some .formatInvalid else
    match tx.recipient with
    | some 0 => -- aergo.system
      match tx.gov with
      | .stake | .unstake | .voteBP => none
      | _ => some .invalidPayload
    | some 1 => -- aergo.name
      match tx.gov with
      | .nameCreate _ | .nameUpdate _ _ | .setOwner _ => none
      | _ => some .invalidPayload
    | _ => some .invalidRecipient
  | .feeDelegation =>
    if tx.recipient.isNone then some .invalidRecipient
    else if tx.payloadLen = 0 then some .formatInvalid else none
  | .transfer | .call => if tx.recipient.isNone then some .invalidRecipient else none
  | .deploy | .multicall =>
    if tx.recipient.isSome then some .invalidRecipient
    else if tx.payloadLen = 0 then some .formatInvalid
    else if tx.type = .multicall ∧ tx.amount ≠ 0 then some .invalidAmount else none

/-- `transaction.ValidateWithSenderState` -/
def validateSender (c : Ctx) (tx : Tx) (st : Acct) : Option Rej :=
  if st.nonce + 1 > tx.nonce then some .nonceLow else
  let r : Option Rej :=
    match tx.type with
    | .normal | .redeploy | .transfer | .call | .deploy =>
      if st.bal < tx.amount then some .insufficient
      else validateMaxFee c tx (st.bal - tx.amount)
    | .governance =>
      match tx.recipient with
      | some 0 => if tx.gov = .stake ∧ tx.amount > st.bal then some .insufficient else none
      | some 1 => none
      | some 3 => none
      | _ => some .invalidRecipient
    | .feeDelegation => if tx.amount > st.bal then some .insufficient else none
    | .multicall => none
  match r with
  | some e => some e
  | none => if st.nonce + 1 < tx.nonce then some .nonceHigh else none

/-! ## contract/contract.go -/

inductive ExecDecision
  | run | skip | notAllowed
deriving DecidableEq, Repr

/-- `checkExecution` -/
def checkExecution (t : TxType) (amount payloadLen version : Nat) (isDeploy isContract : Bool) : ExecDecision :=
  if t = .multicall then .run
  else if 4 ≤ version ∧ isContract ∧ (t = .normal ∨ (t = .transfer ∧ (0 < payloadLen ∨ amount = 0))) then .notAllowed
  else if !isDeploy ∧ !isContract then (if 3 ≤ version ∧ t = .call then .run else .skip)
  else .run

/-- why `Execute`/governance did not succeed -/
inductive Err
  | runtime            -- `contract.IsRuntimeError`: ERROR receipt, fee + nonce only
  | reject (r : Rej)   -- any other error: `executeTx` returns it, the executor rolls back
deriving DecidableEq, Repr

/-- writes a VM call leaves in its `ContractState` -/
structure Pend where
  creator : Option Addr := none
  sets : List (Nat × Nat) := []
  dels : List Nat := []
deriving Repr, Inhabited

def applyWrites (m : AMap Nat) (sets : List (Nat × Nat)) (dels : List Nat) : AMap Nat :=
  dels.foldl mdel (sets.foldl (fun m kv => mset m kv.1 kv.2) m)

/-- the writes of `p` become visible in contract `a`'s storage (a write that changes nothing leaves
the world as it is) -/
def World.write (w : World) (a : Addr) (p : Pend) : World :=
  let old := (mget w.stor a).getD []
  let m := applyWrites old p.sets p.dels
  let w1 := if m = old then w else { w with stor := mset w.stor a m }
  match p.creator with
  | some x => if mget w1.creator a = some x then w1 else { w1 with creator := mset w1.creator a x }
  | none => w1

/-- `statedb.StageContractState` after a successful call -/
def World.stage (w : World) (a : Addr) (p : Pend) : World :=
  let w := w.write a p
  if w.cached.contains a then w else { w with cached := a :: w.cached }

inductive XferRes
  | ok (snd rcv : Acct) (w : World) (third : Bool)
  /-- a transfer exceeded the contract's balance; `dirty`: after a third-party account had been written
      (outside the domain where the stub VM is atomic like the real one) -/
  | fail (dirty : Bool)

/-- the stub's transfer loop: `state.SendBalance(ctx.receiver, target, amt)`, `target` = the sender's
record, the receiver's record, or a fresh `GetAccountState` that is `PutState`d at once -/
def runXfers (sid rid : Addr) (snd rcv : Acct) (w : World) (third : Bool) : List (Addr × Nat) → XferRes
  | [] => .ok snd rcv w third
  | (t, amt) :: xs =>
    if t = rid then runXfers sid rid snd rcv w third xs
    else if rcv.bal < amt then .fail third
    else
      let rcv' := { rcv with bal := rcv.bal - amt }
      if t = sid then runXfers sid rid { snd with bal := snd.bal + amt } rcv' w third xs
      else
        let a := w.acct t
        runXfers sid rid snd rcv' (w.put t { a with bal := a.bal + amt }) true xs

structure ExecOut where
  snd : Copy
  rcv : Copy
  w : World
  fee : Nat
  err : Option Err
  /-- the balance-for-fee check failed *after* the VM had changed a third-party account or a storage
      object shared with the block's cache: those changes survive the ERROR receipt -/
  leak : Bool := false
  dirty : Bool := false
deriving Inhabited

/-- the VM part of `contract.Execute`: `Create` (SetCode, creator meta) or `Call` (needs code), the
scripted outcome, the fee added, the error classes, the balance-for-fee check, `StageContractState` -/
def vmCall (w : World) (tx : Tx) (snd rcv : Copy) (isFD : Bool) (base : Nat) : ExecOut :=
  let pre : Option (Copy × Pend) :=
    if rcv.deploy then
      if tx.payloadLen = 0 then none
      else some ({ rcv with cur := { rcv.cur with code := true } }, { creator := some snd.id })
    else if rcv.cur.code then some (rcv, {}) else none
  match pre with
  | none => { snd, rcv, w, fee := base, err := some .runtime }
  | some (rcv, pend) =>
    match tx.script.err with
    | .negfee => { snd, rcv, w, fee := base, err := some (.reject .system) }
    | .system =>
      -- a system error / timeout *after* the script's transfers and writes (the stub makes them first);
      -- a transfer the contract cannot cover is a VM error before that
      match runXfers snd.id rcv.id snd.cur rcv.cur w false tx.script.xfers with
      | .fail dirty => { snd, rcv, w, fee := base + tx.script.fee, err := some .runtime, dirty }
      | .ok _ _ _ _ => { snd, rcv, w, fee := base + tx.script.fee, err := some (.reject .system) }
    | .vm => { snd, rcv, w, fee := base + tx.script.fee, err := some .runtime }
    | .vmlate =>
      -- the storage writes were made through the handle `OpenContractState` gave out: if the contract was
      -- staged earlier in the block that handle IS the block's cached storage and the writes stay although
      -- the tx ends with an ERROR receipt (known finding `toplevel-vm-error-keeps-staged-storage-writes`)
      let pend := { pend with sets := tx.script.sets, dels := tx.script.dels }
      let wl := if w.cached.contains rcv.id then w.write rcv.id pend else w
      { snd, rcv, w := wl, fee := base + tx.script.fee, err := some .runtime, leak := decide (wl ≠ w) }
    | .ok =>
      match runXfers snd.id rcv.id snd.cur rcv.cur w false tx.script.xfers with
      | .fail dirty => { snd, rcv, w, fee := base + tx.script.fee, err := some .runtime, dirty }
      | .ok sa ra w' _ =>
        let snd := { snd with cur := sa }
        let rcv := { rcv with cur := ra }
        let pend := { pend with sets := tx.script.sets, dels := tx.script.dels }
        let fee := base + tx.script.fee
        let payerBal := if isFD then ra.bal else sa.bal
        if payerBal < fee then
          -- vmError(ErrInsufficientBalance) after the VM has committed its calls
          let shared := w.cached.contains rcv.id
          let wl := if shared then w'.write rcv.id pend else w'
          { snd, rcv, w := wl, fee, err := some .runtime, leak := decide (wl ≠ w) }
        else { snd, rcv, w := w'.stage rcv.id pend, fee, err := none }

/-- `contract.Execute` (not MULTICALL) with the scripted VM -/
def execute (c : Ctx) (w : World) (tx : Tx) (snd rcv : Copy) (isFD : Bool) : ExecOut :=
  let base := txBaseFee c tx.payloadLen
  match sendBal snd rcv tx.amount with
  | none => { snd, rcv, w, fee := base, err := some (.reject .insufficient) }
  | some (snd, rcv) =>
    match checkExecution tx.type tx.amount tx.payloadLen c.version rcv.deploy rcv.cur.code with
    | .notAllowed => { snd, rcv, w, fee := base, err := some .runtime }
    | .skip => { snd, rcv, w, fee := base, err := none }
    | .run =>
      match gasLimit c isFD tx.gasLimit tx.payloadLen base snd.cur.bal rcv.cur.bal with
      | none => { snd, rcv, w, fee := base, err := some .runtime }
      | some _ =>
        -- checkRedeploy
        if rcv.redeploy && (!rcv.cur.code || rcv.isNew) then { snd, rcv, w, fee := base, err := some .runtime }
        else if rcv.redeploy && (mget w.creator rcv.id != some snd.id) then { snd, rcv, w, fee := base, err := some .runtime }
        else vmCall w tx snd rcv isFD base

/-! ## governance -/

structure GovOut where
  snd : Copy
  rcv : Copy
  w : World
  err : Option Rej

/-- `system.ExecuteSystemTx`: stake / unstake / voteBP -/
def execSystem (c : Ctx) (w : World) (tx : Tx) (snd rcv : Copy) : GovOut :=
  let fail (r : Rej) : GovOut := { snd, rcv, w, err := some r }
  let sid := snd.id
  let rec_ := mget w.staking sid
  let amt := (rec_.map (·.1)).getD 0
  let whn := (rec_.map (·.2)).getD 0
  match tx.gov with
  | .stake =>
    if snd.cur.bal < tx.amount then fail .insufficient
    else if rec_.isSome ∧ whn + stakingDelay > c.blockNo then fail .lessTime
    else if c.stakingMin > amt + tx.amount then fail .tooSmall
    else
      let w' := { w with staking := mset w.staking sid (amt + tx.amount, c.blockNo), stakeTotal := w.stakeTotal + tx.amount }
      match sendBal snd rcv tx.amount with
      | none => fail .insufficient
      | some (s, r) => { snd := s, rcv := r, w := w', err := none }
  | .unstake =>
    if amt = 0 then fail .mustStakeUnstake
    else if amt < tx.amount then fail .exceed
    else if whn + stakingDelay > c.blockNo then fail .lessTime
    else if amt - tx.amount ≠ 0 ∧ c.stakingMin > amt - tx.amount then fail .tooSmall
    else
      let w' := { w with staking := mset w.staking sid (amt - tx.amount, c.blockNo), stakeTotal := absSub w.stakeTotal tx.amount }
      match sendBal rcv snd tx.amount with
      | none => fail .insufficient
      | some (r, s) => { snd := s, rcv := r, w := w', err := none }
  | .voteBP =>
    if amt = 0 then fail .mustStakeVote
    else if w.voted.contains sid ∧ whn + votingDelay > c.blockNo then fail .lessTime
    else
      { snd, rcv, err := none
        w := { w with staking := mset w.staking sid (amt, c.blockNo)
                      voted := if w.voted.contains sid then w.voted else sid :: w.voted } }
  | _ => fail .invalidPayload

/-- which object `nameState` is in `name.ExecuteNameTx` -/
inductive NameRef
  | snd | rcv | other (cp : Copy)

/-- the owner recorded for a name (buffered view, `getOwner(scs, name, false)`) -/
def World.ownerOf (w : World) (n : Nat) : Option Addr := (mget w.names n).map (·.1)

/-- `ExecuteNameTx`: `nameState` is the owner of the name contract if one is set — the sender's own
record if the sender is that owner, the receiver's record if `aergo.name` itself is, otherwise a fresh
`GetAccountState` — else the receiver -/
def nameRef (w : World) (snd rcv : Copy) : NameRef :=
  match w.ownerOf nAergoName with
  | some o => if snd.id = o then .snd else if rcv.id = o then .rcv else .other (w.getCopy o)
  | none => .rcv

/-- `SendBalance(sender, nameState, amount)` of CreateName / UpdateName, then `nameState.PutState()` -/
def payName (ns : NameRef) (snd rcv : Copy) (amt : Nat) (w : World) : Option (Copy × Copy × World) :=
  match ns with
  | .snd => some (snd, rcv, w.put snd.id snd.cur)
  | .rcv =>
    match sendBal snd rcv amt with
    | none => none
    | some (s, r) => some (s, r, w.put r.id r.cur)
  | .other cp =>
    match sendBal snd cp amt with
    | none => none
    | some (s, cp') => some (s, rcv, w.put cp'.id cp'.cur)

/-- `name.ValidateNameTx` after the balance test -/
def validateName (c : Ctx) (w : World) (tx : Tx) (snd : Copy) : Option Rej :=
  match tx.gov with
  | .nameCreate n =>
    if c.namePrice > tx.amount then some .tooSmall
    else if (w.ownerOf n).isSome then some .other else none
  | .nameUpdate n _ =>
    -- `tx.Account` (the raw field) must be the name itself or the bytes of its owner's address
    if c.namePrice > tx.amount then some .tooSmall
    else if tx.acctName = some n then none
    else if tx.acctName = none ∧ w.ownerOf n = some snd.id then none else some .other
  | .setOwner _ => if (w.ownerOf nAergoName).isSome then some .other else none
  | _ => some .other

/-- `SetContractOwner` + the two `PutState`s: `nameState` is the receiver (no owner yet); `ownerState`
is the sender's or the receiver's live record if the new owner is one of them, else a fresh copy of `a` -/
def setOwner (w : World) (snd rcv : Copy) (a : Addr) : Option (Copy × Copy × World) :=
  let w1 := { w with names := mset w.names nAergoName (a, aName) }
  if a = snd.id then
    match sendBal rcv snd rcv.cur.bal with
    | none => none
    | some (r, s) => some (s, r, (w1.put s.id s.cur).put r.id r.cur)
  else if a = rcv.id then
    -- SendBalance(nameState, nameState, ..) is the identity
    some (snd, rcv, (w1.put rcv.id rcv.cur).put rcv.id rcv.cur)
  else
    let oc := w.getCopy a
    match sendBal rcv oc rcv.cur.bal with
    | none => none
    | some (r, oc') =>
      -- a tx sent by aergo.name itself: `receiver = sender`, the debited record is the sender's too
      some (if snd.id = rcv.id then r else snd, r, (w1.put oc'.id oc'.cur).put r.id r.cur)

/-- `name.ExecuteNameTx`: `ValidateNameTx`, choice of `nameState`, CreateName / UpdateName /
SetContractOwner, the `PutState`s inside. -/
def execName (c : Ctx) (w : World) (tx : Tx) (snd rcv : Copy) : GovOut :=
  let fail (r : Rej) : GovOut := { snd, rcv, w, err := some r }
  if snd.cur.bal < tx.amount then fail .insufficient else
  match validateName c w tx snd with
  | some r => fail r
  | none =>
  match tx.gov with
  | .nameCreate n =>
    match payName (nameRef w snd rcv) snd rcv tx.amount { w with names := mset w.names n (snd.id, snd.id) } with
    | none => fail .insufficient
    | some (s, r, w') => { snd := s, rcv := r, w := w', err := none }
  | .nameUpdate n to =>
    -- UpdateName: the name must be visible in the committed trie (`getAddress` reads initial data)
    if (mget w.namesInit n).isNone then fail .other
    else
      let owner := (mget w.creator to).getD to
      match payName (nameRef w snd rcv) snd rcv tx.amount { w with names := mset w.names n (owner, to) } with
      | none => fail .insufficient
      | some (s, r, w') => { snd := s, rcv := r, w := w', err := none }
  | .setOwner a =>
    match setOwner w snd rcv a with
    | none => fail .insufficient
    | some (s, r, w') => { snd := s, rcv := r, w := w', err := none }
  | _ => fail .other

/-! ## chain/chainhandle.go -/

structure Result where
  outcome : Outcome
  w : World
  bp : Nat
  receipt : Option Receipt := none
  leak : Bool := false
  dirty : Bool := false
deriving Inhabited

/-- `resetAccount`: `none` = InternalError "fee is greater than balance" -/
def resetAccount (cp : Copy) (fee : Option Nat) (nonce : Option Nat) : Option Acct :=
  let a := cp.old
  let charged : Option Acct :=
    match fee with
    | some f => if a.bal < f then none else some { a with bal := absSub a.bal f }
    | none => some a
  charged.map fun a => match nonce with
    | some n => a.setNonce n
    | none => a

/-- the `if err != nil` branch of `executeTx` for a runtime error. `w0`: the world before the tx
(what a rollback restores), `w`: the world the VM left. -/
def runtimeBranch (w0 w : World) (bp : Nat) (tx : Tx) (snd rcv : Copy) (fee : Nat) (leak dirty : Bool) : Result :=
  let rejected : Result := { outcome := .rejected .internalFee, w := w0, bp }
  let rc : Receipt := { status := .error, fee, feeDelegation := tx.type = .feeDelegation, contract := rcv.id }
  if tx.type ≠ .feeDelegation ∨ snd.id = rcv.id then
    match resetAccount snd (some fee) (some tx.nonce) with
    | none => rejected
    | some a => { outcome := .failed, w := w.put snd.id a, bp := bp + fee, receipt := some rc, leak, dirty }
  else
    match resetAccount snd none (some tx.nonce) with
    | none => rejected
    | some a =>
      match resetAccount rcv (some fee) none with
      | none => rejected
      | some b => { outcome := .failed, w := (w.put snd.id a).put rcv.id b, bp := bp + fee, receipt := some rc, leak, dirty }

/-- the success branch: `sender.SetNonce; sender.PutState(); if ids differ receiver.PutState()`.
(The `Balance().Sign() < 0` tests can never fire: `Balance()` is `SetBytes`.) -/
def successBranch (w : World) (bp : Nat) (tx : Tx) (snd rcv : Copy) (fee : Nat) (status : Status) : Result :=
  let w1 := w.put snd.id (snd.cur.setNonce tx.nonce)
  let w2 := if snd.id ≠ rcv.id then w1.put rcv.id rcv.cur else w1
  { outcome := .success, w := w2, bp := bp + fee
    receipt := some { status, fee, feeDelegation := tx.type = .feeDelegation, contract := rcv.id } }

/-- what `executeTx` does with the result of `contract.Execute`: `SubBalance(txFee)` on the payer's
record, then the error branch or the success branch -/
def finishVm (w : World) (bp : Nat) (tx : Tx) (status : Status) (isFD : Bool) (o : ExecOut) : Result :=
  let snd' := if isFD then o.snd else o.snd.subBalance o.fee
  let rcv' := if isFD then o.rcv.subBalance o.fee else o.rcv
  match o.err with
  | some (.reject r) => { outcome := .rejected r, w, bp, dirty := o.dirty }
  | some .runtime => runtimeBranch w o.w bp tx snd' rcv' o.fee o.leak o.dirty
  | none => successBranch o.w bp tx snd' rcv' o.fee status

/-- `contract.Execute` when `receiver = sender` (the resolved recipient is the sender's own account and the
tx is no REDEPLOY): ONE live record `acc`. `SendBalance(sender, receiver)` moves nothing (equal ids: no
balance test either); the VM runs on that record as the called contract, and the balance-for-fee check
reads that record whoever nominally pays. -/
def executeOwn (c : Ctx) (w : World) (tx : Tx) (acc : Copy) (isFD : Bool) : ExecOut :=
  let base := txBaseFee c tx.payloadLen
  match checkExecution tx.type tx.amount tx.payloadLen c.version acc.deploy acc.cur.code with
  | .notAllowed => { snd := acc, rcv := acc, w, fee := base, err := some .runtime }
  | .skip => { snd := acc, rcv := acc, w, fee := base, err := none }
  | .run =>
    match gasLimit c isFD tx.gasLimit tx.payloadLen base acc.cur.bal acc.cur.bal with
    | none => { snd := acc, rcv := acc, w, fee := base, err := some .runtime }
    | some _ => vmCall w tx acc acc true base

/-- what `executeTx` does with the result when `receiver = sender`: `SubBalance(txFee)` on the one record
(`ExecOut.rcv` carries everything the VM did to it), then the error branch or the success branch -/
def finishOwn (w : World) (bp : Nat) (tx : Tx) (status : Status) (o : ExecOut) : Result :=
  let obj := o.rcv.subBalance o.fee
  match o.err with
  | some (.reject r) => { outcome := .rejected r, w, bp, dirty := o.dirty }
  | some .runtime => runtimeBranch w o.w bp tx obj obj o.fee o.leak o.dirty
  | none => successBranch o.w bp tx obj obj o.fee status

/-- the scripted VM on a MULTICALL: the "contract" is the sender's own record `acc` (`receiver = sender`), it
has no storage of its own (`GetMultiCallState`: storage writes of the script are dropped, nothing is staged),
transfers go from that record to their targets -/
def vmMulti (w : World) (tx : Tx) (acc : Copy) (base : Nat) : ExecOut :=
  match tx.script.err with
  | .negfee => { snd := acc, rcv := acc, w, fee := base, err := some (.reject .system) }
  | .system =>
    match runXfers acc.id acc.id acc.cur acc.cur w false tx.script.xfers with
    | .fail dirty => { snd := acc, rcv := acc, w, fee := base + tx.script.fee, err := some .runtime, dirty }
    | .ok _ _ _ _ => { snd := acc, rcv := acc, w, fee := base + tx.script.fee, err := some (.reject .system) }
  | .vm | .vmlate => { snd := acc, rcv := acc, w, fee := base + tx.script.fee, err := some .runtime }
  | .ok =>
    match runXfers acc.id acc.id acc.cur acc.cur w false tx.script.xfers with
    | .fail dirty => { snd := acc, rcv := acc, w, fee := base + tx.script.fee, err := some .runtime, dirty }
    | .ok _ ra w' _ =>
      let fee := base + tx.script.fee
      if ra.bal < fee then
        -- vmError(ErrInsufficientBalance) after the VM has committed its calls (the known finding's shape)
        { snd := acc, rcv := { acc with cur := ra }, w := w', fee, err := some .runtime, leak := decide (w' ≠ w) }
      else { snd := acc, rcv := { acc with cur := ra }, w := w', fee, err := none }

/-- `contract.Execute` of a MULTICALL whose payload is a multicall script -/
def executeMulti (c : Ctx) (w : World) (tx : Tx) (acc : Copy) : ExecOut :=
  let base := txBaseFee c tx.payloadLen
  match gasLimit c false tx.gasLimit tx.payloadLen base acc.cur.bal acc.cur.bal with
  | none => { snd := acc, rcv := acc, w, fee := base, err := some .runtime }
  | some _ => vmMulti w tx acc base

/-- the receiver record of `executeTx`: `GetAccountState(recipient)` (flagged for REDEPLOY) or
`CreateAccountState(CreateContractID(..))` -/
def mkReceiver (w : World) (tx : Tx) : Except Rej (Copy × Status) :=
  match tx.recipient with
  | some r =>
    let cp := w.getCopy r
    if tx.type = .redeploy then .ok ({ cp with deploy := true, redeploy := true }, .recreated)
    else .ok (cp, .success)
  | none =>
    let cp := w.getCopy tx.newAddr
    if !cp.isNew then .error .exists_ else .ok ({ cp with deploy := true }, .created)

/-- `executeTx` on world `w` with accumulated `BpReward = bp`. On a rejection the result carries the
world unchanged (what `NewTxExecutor`'s rollback to the pre-tx snapshot yields, C12). -/
def executeTx (c : Ctx) (w : World) (bp : Nat) (tx : Tx) : Result :=
  let rej (r : Rej) : Result := { outcome := .rejected r, w, bp }
  match validateTx c tx with
  | some r => rej r
  | none =>
  let snd := w.getCopy tx.sender
  match validateSender c tx snd.cur with
  | some r => rej r
  | none =>
  if tx.type = .multicall then
    -- receiver is the sender object
    if tx.script.multi then finishOwn w bp tx .success (executeMulti c w tx snd)
    -- any other payload: the stub VM finds no code: vm error, no VM fee
    else runtimeBranch w w bp tx snd snd (txBaseFee c tx.payloadLen) false false
  else
  match mkReceiver w tx with
  | .error r => rej r
  | .ok (rcv, status) =>
  -- `receiver = sender`: the resolved recipient is the sender's own account (no REDEPLOY): one live record
  let own : Bool := decide (tx.recipient = some tx.sender) && decide (tx.type ≠ .redeploy)
  match tx.type with
  | .governance =>
    let g := match tx.recipient with
      | some 0 => execSystem c w tx snd rcv
      | some 1 => execName c w tx snd rcv
      | _ => { snd, rcv, w, err := some .invalidRecipient }
    match g.err with
    | some r => rej r
    | none => successBranch g.w bp tx g.snd g.rcv 0 status
  | .feeDelegation =>
    match validateMaxFee c tx rcv.cur.bal with
    | some r => rej r
    | none =>
      -- contract.CheckFeeDelegation: `GetABI` finds no code ("cannot find contract"): the recipient of a
      -- fee-delegation tx must be a contract; then the contract's own check_delegation may refuse
      if !rcv.cur.code then rej .other
      else if tx.script.nofd then rej .other
      else if own then finishOwn w bp tx status (executeOwn c w tx snd true)
      else finishVm w bp tx status true (execute c w tx snd rcv true)
  | _ =>
    if own then finishOwn w bp tx status (executeOwn c w tx snd false)
    else finishVm w bp tx status false (execute c w tx snd rcv false)

/-! ## blocks -/

/-- what lives in a `BlockState` across transactions -/
structure BState where
  w : World
  bp : Nat := 0
  receipts : List Receipt := []
deriving Inhabited

/-- `NewTxExecutor`: snapshot, `executeTx`, rollback on error -/
def txExec (c : Ctx) (s : BState) (tx : Tx) : Outcome × BState :=
  let r := executeTx c s.w s.bp tx
  match r.outcome with
  | .rejected e => (.rejected e, s)
  | o => (o, { w := r.w, bp := r.bp, receipts := s.receipts ++ r.receipt.toList })

/-- `dpos.sendVotingReward`; the winner (`system.PickVotingRewardWinner`) and the reward amount are inputs -/
def votingReward (w : World) (winner : Option Addr) (amt : Nat) : World :=
  let vault := w.getCopy aVault
  if vault.cur.bal = 0 then w else
  let reward := min amt vault.cur.bal
  match winner with
  | none => w
  | some wn =>
    let wc := w.getCopy wn
    match sendBal vault wc reward with
    | none => w
    | some (v, wc') => (w.put wn wc'.cur).put aVault v.cur

/-- `sendRewardCoinbase` -/
def coinbaseReward (w : World) (bp : Nat) (coinbase : Option Addr) : World :=
  match coinbase with
  | none => w
  | some a =>
    if bp = 0 then w else
    let cp := w.getCopy a
    w.put a { cp.cur with bal := cp.cur.bal + bp }

/-- a fresh `BlockState` on the committed root: empty storage cache, the name trie = what was committed -/
def World.beginBlock (w : World) : World := { w with cached := [], namesInit := w.names }

/-- rewards paid after the transactions of a block (`SendBlockReward` as decorated by DPoS) -/
structure Reward where
  winner : Option Addr := none
  amount : Nat := 0
deriving Repr, Inhabited

def payRewards (c : Ctx) (s : BState) (rw : Reward) : World :=
  coinbaseReward (votingReward s.w rw.winner rw.amount) s.bp c.coinbase

/-- the tx loop of a block *producer*: a rejected transaction is dropped, the others stay -/
def produceTxs (c : Ctx) (s : BState) : List Tx → BState
  | [] => s
  | tx :: txs => produceTxs c (txExec c s tx).2 txs

/-- the tx loop of `blockExecutor.execute`: a rejected transaction fails the block -/
def validateTxs (c : Ctx) (s : BState) : List Tx → Option BState
  | [] => some s
  | tx :: txs =>
    match txExec c s tx with
    | (.rejected _, _) => none
    | (_, s') => validateTxs c s' txs

structure Block where
  ctx : Ctx
  txs : List Tx
  reward : Reward := {}
deriving Inhabited

/-- block production: returns the new world and the receipts -/
def produceBlock (w : World) (b : Block) : World × List Receipt :=
  let s := produceTxs b.ctx { w := w.beginBlock } b.txs
  (payRewards b.ctx s b.reward, s.receipts)

/-- `blockExecutor.execute` + commit on a received block; `none`: the block is refused and nothing is
committed (the state DB keeps the previous root) -/
def validateBlock (w : World) (b : Block) : Option (World × List Receipt) :=
  match validateTxs b.ctx { w := w.beginBlock } b.txs with
  | none => none
  | some s => some (payRewards b.ctx s b.reward, s.receipts)

def sumFees : List Receipt → Nat
  | [] => 0
  | r :: rs => r.fee + sumFees rs

/-- a branch: blocks executed one after the other; a refused block ends it -/
def validateBranch (w : World) : List Block → Option World
  | [] => some w
  | b :: bs =>
    match validateBlock w b with
    | none => none
    | some (w', _) => validateBranch w' bs

end Aergo.Ledger
