import Aergo.Model.DriverLib
import Aergo.Model.Ledger

/-! Session interpreter shared by the model drivers of C01 and C03 (`model-c01`, `model-c03`).

One session = `world …` then `acct …` lines, then blocks: `begin …`, `tx …`*, `reward …`, then
`vblock …`* (the produced block and invalid variants of it run through the validator) and `end`.
Every answer carries the complete canonical dump of the world (accounts, contract storage, creator
records, staking records and total, vote flags, names) and `S=` Σbalances + BpReward. -/
open Aergo Aergo.DriverLib

namespace Aergo.Ledger.Drv

structure Sess where
  ctx : Ctx := { version := 0, gasPrice := 1, zeroFee := false, isPublic := true, coinbase := none,
                 blockNo := 1, namePrice := 0, stakingMin := 0 }
  /-- the world of the last committed block -/
  committed : World := {}
  /-- the producer's block state -/
  bs : BState := { w := {} }
  /-- transactions the producer kept in the block under construction -/
  txs : List Tx := []
  reward : Reward := {}
  rewarded : Bool := false
  inBlock : Bool := false
  started : Bool := false

/-! ### canonical dump -/

def insertSorted {α : Type} (x : Nat × α) : List (Nat × α) → List (Nat × α)
  | [] => [x]
  | y :: t => if x.1 ≤ y.1 then x :: y :: t else y :: insertSorted x t

def sortByKey {α : Type} (l : List (Nat × α)) : List (Nat × α) := l.foldl (fun acc x => insertSorted x acc) []

def insertNat (x : Nat) : List Nat → List Nat
  | [] => [x]
  | y :: t => if x ≤ y then x :: y :: t else y :: insertNat x t

def sortNat (l : List Nat) : List Nat := l.foldl (fun acc x => insertNat x acc) []

def dump (w : World) (bp : Nat) : String :=
  let accts := (sortByKey w.accts).map fun (a, x) => s!"a{a}:{x.bal}:{x.nonce}:{if x.code then "c" else "-"}"
  let stor := (sortByKey w.stor).filterMap fun (a, m) =>
    if m.isEmpty then none
    else some (s!"s{a}[" ++ ",".intercalate ((sortByKey m).map fun (k, v) => s!"{k}={v}") ++ "]")
  let crt := (sortByKey w.creator).map fun (a, x) => s!"c{a}={x}"
  let stk := (sortByKey w.staking).map fun (a, (x : Nat × Nat)) => s!"k{a}={x.1}@{x.2}"
  let vt := (sortNat w.voted).map fun a => s!"v{a}"
  let nm := (sortByKey w.names).map fun (n, (x : Addr × Addr)) => s!"n{n}={x.1},{x.2}"
  " ".intercalate (accts ++ stor ++ crt ++ stk ++ [s!"T={w.stakeTotal}"] ++ vt ++ nm ++ [s!"S={w.total + bp}"])

/-! ### parsing -/

def optAddr (s : String) : Option (Option Addr) :=
  if s == "-" then some none else s.toNat?.map some

def parseType : String → Option TxType
  | "normal" => some .normal
  | "governance" => some .governance
  | "redeploy" => some .redeploy
  | "feedelegation" => some .feeDelegation
  | "transfer" => some .transfer
  | "call" => some .call
  | "deploy" => some .deploy
  | "multicall" => some .multicall
  | _ => none

def parsePair (s : String) : Option (Nat × Nat) :=
  match s.splitOn ":" with
  | [a, b] => do pure (← a.toNat?, ← b.toNat?)
  | _ => none

def parseList {α : Type} (f : String → Option α) (s : String) : Option (List α) :=
  if s == "" then some [] else (s.splitOn ",").mapM f

def parseErr : String → Option VmErr
  | "ok" => some .ok
  | "vm" => some .vm
  | "vmlate" => some .vmlate
  | "system" => some .system
  | "timeout" => some .system
  | "negfee" => some .negfee
  | _ => none

/-- `vm <fee> <err> x=<t>:<amt>,… s=<k>:<v>,… d=<k>,… fd=<0|1> [multi]` -/
def parseScript : List String → Option Script
  | ["vm", fee, err, xs, ss, ds, fd] => do
    let fee ← fee.toNat?
    let err ← parseErr err
    let xs ← if xs.startsWith "x=" then parseList parsePair (xs.drop 2).toString else none
    let ss ← if ss.startsWith "s=" then parseList parsePair (ss.drop 2).toString else none
    let ds ← if ds.startsWith "d=" then parseList String.toNat? (ds.drop 2).toString else none
    let nofd ← if fd == "fd=0" then some true else if fd == "fd=1" then some false else none
    pure { fee, err, xfers := xs, sets := ss, dels := ds, nofd }
  | ["vm", fee, err, xs, ss, ds, fd, "multi"] => do
    -- the payload of a MULTICALL that is a multicall script
    let sc ← parseScript ["vm", fee, err, xs, ss, ds, fd]
    pure { sc with multi := true }
  | _ => none

def parseGov : List String → Option GovOp
  | ["stake"] => some .stake
  | ["unstake"] => some .unstake
  | ["vote"] => some .voteBP
  | ["ncreate", n] => n.toNat?.map .nameCreate
  | ["nupdate", n, to] => do pure (.nameUpdate (← n.toNat?) (← to.toNat?))
  | ["setowner", a] => a.toNat?.map .setOwner
  | ["badgov"] => some .bad
  | _ => none

/-- `<type> <sender> <rcpt|-> <amount> <nonce> <gasLimit> <payloadLen> <newAddr> <payload…>` -/
def parseTx : List String → Option Tx
  | ty :: s :: r :: amt :: n :: gl :: pl :: na :: rest => do
    let type ← parseType ty
    -- "<resolved sender>" or "<resolved sender>/<name>": the account field is that name
    let (sender, acctName) ← match s.splitOn "/" with
      | [a] => a.toNat?.map (fun a => (a, (none : Option Nat)))
      | [a, n] => do pure ((← a.toNat?), some (← n.toNat?))
      | _ => none
    let recipient ← optAddr r
    let amount ← amt.toNat?
    let nonce ← n.toNat?
    let gasLimit ← gl.toNat?
    let payloadLen ← pl.toNat?
    let newAddr ← na.toNat?
    let base : Tx := { type, sender, recipient, amount, nonce, gasLimit, payloadLen, newAddr, acctName }
    if type = .governance then
      -- the enterprise contract is not modelled
      if recipient = some aEnterprise then none else
      let g ← parseGov rest
      pure { base with gov := g }
    else
      match rest with
      | ["-"] => pure base
      | _ => do
        let sc ← parseScript rest
        pure { base with script := sc }
  | _ => none

def showOutcome (r : Result) : String :=
  match r.outcome, r.receipt with
  | .success, some rc =>
    let st := match rc.status with
      | .success => "SUCCESS" | .created => "CREATED" | .recreated => "RECREATED" | .error => "ERROR"
    s!"applied {st} fee={rc.fee} fd={if rc.feeDelegation then 1 else 0} to={rc.contract}"
  | .failed, some rc => s!"failed ERROR fee={rc.fee} fd={if rc.feeDelegation then 1 else 0} to={rc.contract}"
  | .rejected e, _ => s!"rejected {reprStr e}"
  | _, none => "bad-op"

def showRej (e : Rej) : String :=
  match e with
  | .invalidAmount => "invalidAmount" | .invalidType => "invalidType" | .invalidRecipient => "invalidRecipient"
  | .formatInvalid => "formatInvalid" | .invalidPayload => "invalidPayload" | .nonceLow => "nonceLow"
  | .nonceHigh => "nonceHigh" | .insufficient => "insufficient" | .minGas => "minGas" | .exists_ => "exists"
  | .notAllowedFD => "notAllowedFD" | .system => "system" | .internalFee => "internalFee"
  | .lessTime => "lessTime" | .tooSmall => "tooSmall" | .mustStakeVote => "mustStakeVote"
  | .mustStakeUnstake => "mustStakeUnstake" | .exceed => "exceed" | .other => "other"

def showRes (r : Result) : String :=
  match r.outcome with
  | .rejected e => s!"rejected {showRej e}"
  | _ => showOutcome r

def step (s : Sess) (line : String) : Sess × String :=
  match words line with
  | ["world", fv, zf, pub, gp, np, sm] =>
    match fv.toNat?, zf.toNat?, pub.toNat?, gp.toNat?, np.toNat?, sm.toNat? with
    | some fv, some zf, some pub, some gp, some np, some sm =>
      if gp = 0 then (s, "bad-op") else
      ({ ctx := { version := fv, gasPrice := gp, zeroFee := zf == 1, isPublic := pub == 1, coinbase := none,
                  blockNo := 1, namePrice := np, stakingMin := sm }, started := true
         -- the parameter records written into aergo.system's storage materialise its account record
         committed := ({} : World).put aSystem {} }, "ok")
    | _, _, _, _, _, _ => (s, "bad-op")
  | ["acct", a, b] =>
    match a.toNat?, b.toNat? with
    | some a, some b =>
      if !s.started || s.inBlock then (s, "bad-op") else
      let w := s.committed.put a { bal := b }
      ({ s with committed := w }, s!"ok {dump w 0}")
    | _, _ => (s, "bad-op")
  | ["begin", no, fv, cb] =>
    match no.toNat?, fv.toNat?, optAddr cb with
    | some no, some fv, some cb =>
      if !s.started || s.inBlock then (s, "bad-op") else
      let ctx := { s.ctx with blockNo := no, version := fv, coinbase := cb }
      ({ s with ctx, bs := { w := s.committed.beginBlock }, txs := [], reward := {}, rewarded := false, inBlock := true }, "ok")
    | _, _, _ => (s, "bad-op")
  | "tx" :: rest =>
    if !s.inBlock || s.rewarded then (s, "bad-op") else
    match parseTx rest with
    | none => (s, "bad-op")
    | some tx =>
      let r := executeTx s.ctx s.bs.w s.bs.bp tx
      if r.dirty then (s, "bad-op") else
      let (o, bs') := txExec s.ctx s.bs tx
      let s' := match o with
        | .rejected _ => s
        | _ => { s with bs := bs', txs := s.txs ++ [tx] }
      (s', s!"{showRes r}{if r.leak then " leak" else ""} bp={s'.bs.bp} | {dump s'.bs.w s'.bs.bp}")
  | ["reward", wn, amt] =>
    match optAddr wn, amt.toNat? with
    | some wn, some amt =>
      if !s.inBlock || s.rewarded then (s, "bad-op") else
      let rw : Reward := { winner := wn, amount := amt }
      let w := payRewards s.ctx s.bs rw
      let paid := if s.ctx.coinbase.isSome then s.bs.bp else 0
      ({ s with reward := rw, rewarded := true, bs := { s.bs with w := w } },
       s!"ok fees={sumFees s.bs.receipts} | {dump w (s.bs.bp - paid)}")
    | _, _ => (s, "bad-op")
  | "vblock" :: rest =>
    -- the validator runs a block built on the committed state: the produced block, or a broken variant
    if !s.inBlock || !s.rewarded then (s, "bad-op") else
    let blk (txs : List Tx) : Block := { ctx := s.ctx, txs, reward := s.reward }
    -- a block is refused either because a transaction is rejected ("refused-tx") or because the state /
    -- receipts root in its header is not what execution yields ("refused-root": a header made wrong, or a
    -- block that carries a transaction more than the one the header was computed for)
    let answer (o : Option (World × List Receipt)) (rootOk : Bool) : Sess × String :=
      match o, rootOk with
      | some (w, rs), true => ({ s with committed := w, inBlock := false }, s!"accepted fees={sumFees rs} | {dump w 0}")
      | some _, false => (s, s!"refused-root | {dump s.committed 0}")
      | none, _ => (s, s!"refused-tx | {dump s.committed 0}")
    match rest with
    | ["ok"] => answer (validateBlock s.committed (blk s.txs)) true
    | ["badroot"] => answer (validateBlock s.committed (blk s.txs)) false
    | ["badreceipts"] => answer (validateBlock s.committed (blk s.txs)) false
    | ["badsig"] =>
      -- a signature made wrong: the model has no signatures; the block executes as it is and the verifier's
      -- verdict refuses it
      match validateBlock s.committed (blk s.txs) with
      | some _ => (s, s!"refused-sig | {dump s.committed 0}")
      | none => (s, s!"refused-tx | {dump s.committed 0}")
    | "badtx" :: pos :: txw =>
      match pos.toNat?, parseTx txw with
      | some pos, some tx => answer (validateBlock s.committed (blk (s.txs.take pos ++ [tx] ++ s.txs.drop pos))) false
      | _, _ => (s, "bad-op")
    | _ => (s, "bad-op")
  | ["abort"] =>
    -- a block state that is dropped without a commit (probe block)
    if !s.inBlock || s.rewarded then (s, "bad-op") else
    ({ s with inBlock := false }, s!"ok | {dump s.committed 0}")
  | ["end"] =>
    -- the producer commits its own block state
    if !s.inBlock || !s.rewarded then (s, "bad-op") else
    ({ s with committed := s.bs.w, inBlock := false }, s!"ok | {dump s.bs.w 0}")
  | _ => (s, "bad-op")

end Aergo.Ledger.Drv
