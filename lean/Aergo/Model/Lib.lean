/-
Model layer `Lib` (C08): the DPoS finality bookkeeping of one node.

Transcribes /repo/consensus/impl/dpos/lib.go (libStatus: addConfirmInfo, update, getPreLIB,
calcLIB, gc, load, loadPlibStatus, save/loadLibStatus), status.go (Status.load, Update — both
branches —, updateLIB, NeedReorganization, NewStatus/init/bootLoader.load with ForceResetHeight = 0),
dpos.go (the LIB clause of VerifyTimestamp), blockfactory.go (Confirms = no − lpbNo), and the part of
chain/chaindb.go the status interacts with (block store, number index, `latest`, the status image saved
in the same write as the tip: connectToChain, swapChainMapping).

The integer formulas (confirmsRequired, the calcLIB index, gcNumLimit, begRecoBlockNo) come from
`Aergo.Gen.LibQuorum`, regenerated from the source on every run (tie T).

Quirks transcribed, not repaired:
 * `confirmsLeft` is a uint16 decremented without a floor: 0 − 1 = 65535 (`decr16`);
 * the confirm range is computed in uint64: `no − range + 1` wraps when `range > no + 1` (`rangeMin`);
 * getPreLIB stops at the first (newest) element whose counter is zero — whether it was just decremented
   or was zero before and lies outside the range;
 * after a restart the Status object holds a *fresh* libStatus (LIB number 0) until the first Update
   (Status.load is lazy), so NeedReorganization/VerifyTimestamp see LIB = 0 in between;
 * load() replays stored blocks begRecoBlockNo(end)..end into a scratch status without gc and without
   LIB updates and overwrites only the proposed entries whose pre-LIB number is > 0 (entries of other
   producers keep what they had, possibly blocks of an abandoned branch); when beg = end it loads nothing.
(Since the repairs a61f1aeb / db1b9b14 the reload path uses the same confirmsRequired and updateLIB ignores a
lower candidate.)
The confirms list is kept NEWEST FIRST (Go: list.Back() is the head here).
-/
import Aergo.Gen.LibQuorum

namespace Aergo.Lib
open Aergo.Gen

/-- `blockInfo`. `hash` is the block id (an opaque name here). -/
structure BI where
  hash : String
  no : Nat
  range : Nat
deriving Repr, DecidableEq, Inhabited

/-- `confirmInfo`. -/
structure CI where
  bi : BI
  bp : String
  left : Nat
deriving Repr, DecidableEq, Inhabited

/-- `plInfo`. -/
structure PL where
  plib : BI
  plibBy : BI
deriving Repr, DecidableEq, Inhabited

/-- `libStatus`. `prpsd` is the Go map as an association list with unique keys. -/
structure LS where
  prpsd : List (String × PL)
  lib : BI
  lpb : Nat
  confirms : List CI
  genesis : BI
  self : String
  cr : Nat
deriving Repr, DecidableEq, Inhabited

def u64 : Nat := 18446744073709551616

/-- `setConfirmsRequired`: bpCount*2/3+1 (uint16; the harness and the theorems stay below 32768 producers,
where no intermediate wraps). -/
def confirmsRequired (n : Nat) : Nat := (LibQuorum.confirmsRequired n).toNat

def gcNumLimit (cr : Nat) : Nat := (LibQuorum.gcNumLimit cr).toNat

def libIndex (len : Nat) : Nat := (LibQuorum.libIndex len).toNat

def begRecoBlockNo (cr libNo endNo : Nat) : Nat := (LibQuorum.begRecoBlockNo cr libNo endNo).toNat

def zeroBI : BI := ⟨"", 0, 0⟩

/-- `newLibStatus(bpCount)` (genesisInfo is set by Status.load / loadPlibStatus before it is ever read). -/
def newLS (genesis : BI) (self : String) (size : Nat) : LS :=
  { prpsd := [], lib := zeroBI, lpb := 0, confirms := [], genesis := genesis, self := self,
    cr := confirmsRequired size }

/-- uint16 `c.confirmsLeft--`. -/
def decr16 (x : Nat) : Nat := if x == 0 then 65535 else x - 1

/-- `min := lastCi.BlockNo - lastCi.ConfirmRange + 1` in uint64. -/
def rangeMin (last : BI) : Nat := (last.no + (u64 - last.range % u64) + 1) % u64

/-- `c.BlockNo >= min && c.BlockNo <= max` -/
def inRange (last : BI) (no : Nat) : Bool := decide (rangeMin last ≤ no) && decide (no ≤ last.no)

/-- The loop of `getPreLIB` over the list newest-first. -/
def walk (last : BI) : List CI → List CI × Option BI
  | [] => ([], none)
  | c :: rest =>
    let c' : CI := if inRange last c.bi.no then { c with left := decr16 c.left } else c
    if c'.left == 0 then (c' :: rest, some c'.bi)
    else
      let r := walk last rest
      (c' :: r.1, r.2)

def lookup (k : String) : List (String × PL) → Option PL
  | [] => none
  | (k', v) :: t => if k' == k then some v else lookup k t

/-- `proposed.set`: map assignment. -/
def setP (k : String) (v : PL) : List (String × PL) → List (String × PL)
  | [] => [(k, v)]
  | (k', v') :: t => if k' == k then (k, v) :: t else (k', v') :: setP k v t

structure Blk where
  id : String
  no : Nat
  prev : String
  bp : String
  confirms : Nat
deriving Repr, DecidableEq, Inhabited

def Blk.bi (b : Blk) : BI := ⟨b.id, b.no, b.confirms⟩

/-- `addConfirmInfo`. -/
def addConfirmInfo (ls : LS) (b : Blk) : LS :=
  if b.no == 0 then ls else
  let ci : CI := ⟨b.bi, b.bp, ls.cr⟩
  let prpsd := match lookup b.bp ls.prpsd with
    | some _ => ls.prpsd
    | none => setP b.bp ⟨ls.genesis, ls.genesis⟩ ls.prpsd
  { ls with confirms := ci :: ls.confirms, prpsd := prpsd,
            lpb := if b.bp == ls.self then b.no else ls.lpb }

/-- insertion into a list sorted by pre-LIB number (stable). -/
def insertPL (x : PL) : List PL → List PL
  | [] => [x]
  | y :: t => if x.plib.no < y.plib.no then x :: y :: t else y :: insertPL x t

def sortPL (l : List PL) : List PL := l.foldr insertPL []

/-- The block number `calcLIB` selects: element `(len−1)/3` of the pre-LIBs sorted by number. -/
def calcLIBNo (prpsd : List (String × PL)) : Option Nat :=
  match prpsd with
  | [] => none
  | _ => ((sortPL (prpsd.map (·.2)))[libIndex prpsd.length]?).map (·.plib.no)

/-- Every pre-LIB carrying the selected number: `sort.Slice` is not stable and its input order comes from a
Go map, so any of them can be the element at the index. -/
def calcLIBCands (prpsd : List (String × PL)) : List BI :=
  match calcLIBNo prpsd with
  | none => []
  | some n => (prpsd.map (·.2.plib)).filter (·.no == n)

/-- `calcLIB`: `hint` names which candidate the run picked (all candidates are the same block unless
pre-LIBs of conflicting branches with equal numbers coexist); an inadmissible hint falls back to the first. -/
def calcLIB (prpsd : List (String × PL)) (hint : String) : Option BI :=
  let cs := calcLIBCands prpsd
  match cs.find? (·.hash == hint) with
  | some b => some b
  | none => cs.head?

/-- Outcome of `update()`: `none` = no pre-LIB found. -/
def update (ls : LS) (hint : String) : LS × Option BI :=
  match ls.confirms with
  | [] => (ls, none)    -- Go: nil dereference in getPreLIB; callers below never reach it (see `Node.panicked`)
  | last :: _ =>
    let w := walk last.bi ls.confirms
    match w.2 with
    | none => ({ ls with confirms := w.1 }, none)
    | some confirmed =>
      let prpsd := setP last.bp ⟨confirmed, last.bi⟩ ls.prpsd
      ({ ls with confirms := w.1, prpsd := prpsd }, calcLIB prpsd hint)

/-- `removeIf` with the break condition of gc: drops the leading (oldest) run of elements numbered ≤ lib.
On the newest-first list: drop from the end while `no ≤ libNo`. -/
def dropOldLe (libNo : Nat) (l : List CI) : List CI :=
  (l.reverse.dropWhile (fun c => decide (c.bi.no ≤ libNo))).reverse

/-- `libStatus.gc`. -/
def gc (ls : LS) (bps : List String) : LS :=
  let c1 := dropOldLe ls.lib.no ls.confirms
  let c2 := c1.take (gcNumLimit ls.cr)
  let p := if bps.isEmpty then ls.prpsd else ls.prpsd.filter (fun kv => bps.contains kv.1)
  { ls with confirms := c2, prpsd := p }

/-- The node: chain DB part, Status, boot loader. -/
structure Node where
  blocks : List Blk                 -- block store (by id)
  index : List (Nat × String)       -- number index, most recent binding first
  latest : Nat
  saved : Option (List (String × PL) × BI × Nat)   -- gob image of (Prpsd, Lib, LpbNo)
  size : Nat                        -- bp.Cluster size
  gbps : List String                -- genesis producer list (bp.genesisBpList)
  self : String
  genesis : BI
  done : Bool                       -- Status.done
  best : String                     -- Status.bestBlock ("" before load)
  ls : LS                           -- Status.libState
  bl : LS                           -- bootLoader.ls
  blBest : String
  panicked : Bool
deriving Repr, Inhabited

def findBlk (blocks : List Blk) (id : String) : Option Blk := blocks.find? (·.id == id)

def hashByNo (n : Node) (no : Nat) : Option String := (n.index.find? (·.1 == no)).map (·.2)

def blockByNo (n : Node) (no : Nat) : Option Blk := (hashByNo n no).bind (findBlk n.blocks)

/-- the loop of `loadPlibStatus`: addConfirmInfo + update for blocks beg..end; `none` when a block is missing. -/
def replay (n : Node) (tmp : LS) : Nat → Nat → Option LS
  | _, 0 => some tmp
  | i, cnt + 1 =>
    match blockByNo n i with
    | none => none
    | some b => replay n (update (addConfirmInfo tmp b) "").1 (i + 1) cnt

/-- `newLibStatusWithConfirms(confirmsRequired)`: for callers that already hold the confirmation count. -/
def newLSWithConfirms (genesis : BI) (self : String) (cr : Nat) : LS :=
  { newLS genesis self 0 with cr := cr }

/-- `loadPlibStatus(beg, end, confirmsRequired)`: the scratch status requires the same number of confirmations. -/
def loadPlibStatus (n : Node) (beg endNo cr : Nat) : Option LS :=
  if beg == endNo then none
  else if beg > endNo then none
  else
    let beg := if beg == 0 then 1 else beg
    replay n (newLSWithConfirms n.genesis n.self cr) beg (endNo + 1 - beg)

def overwriteP (dst : List (String × PL)) : List (String × PL) → List (String × PL)
  | [] => dst
  | (k, v) :: t => overwriteP (if v.plib.no > 0 then setP k v dst else dst) t

/-- `libStatus.load`. -/
def load (n : Node) (ls : LS) (endNo : Nat) : LS :=
  let ls := { ls with confirms := [] }
  if endNo == 0 then ls else
  match loadPlibStatus n (begRecoBlockNo ls.cr ls.lib.no endNo) endNo ls.cr with
  | none => ls
  | some tmp =>
    { ls with confirms := if tmp.confirms.isEmpty then ls.confirms else tmp.confirms,
              prpsd := overwriteP ls.prpsd tmp.prpsd }

/-- Node start: `bp.NewCluster` (size = genesis producer count), `NewStatus` on the existing chain DB: fresh
Status, boot loader built from the DB with the fresh status' confirmsRequired (`newLibStatusWithConfirms`). -/
def restart (n : Node) : Node :=
  let size := n.gbps.length
  let fresh := newLS n.genesis n.self size
  let blFresh := newLSWithConfirms n.genesis n.self fresh.cr
  let bestId := (hashByNo n n.latest).getD ""
  let bl := match n.saved with
    | none => blFresh
    | some (p, lib, lpb) => load n { blFresh with prpsd := p, lib := lib, lpb := lpb } n.latest
  { n with size := size, done := false, best := "", ls := fresh, bl := bl, blBest := bestId }

/-- `Status.load`. -/
def statusLoad (n : Node) : Node :=
  if n.done then n else { n with done := true, best := n.blBest, ls := n.bl }

/-- `Status.Update`. `hint`: see `calcLIB`. -/
def statusUpdate (n : Node) (b : Blk) (hint : String) : Node :=
  let n := statusLoad n
  if n.best == b.prev then
    let ls1 := addConfirmInfo n.ls b
    if ls1.confirms.isEmpty then { n with panicked := true } else
    let (ls2, lib) := update ls1 hint
    -- updateLIB: the LIB never moves backwards
    let ls3 := match lib with
      | some l => if l.no < ls2.lib.no then ls2 else { ls2 with lib := l }
      | none => ls2
    let ls4 := gc ls3 []
    { n with ls := { ls4 with cr := confirmsRequired n.size }, best := b.id }
  else
    let ls1 := load n n.ls b.no
    -- UpdateCluster below the bootstrap height: cm.Update(genesisBpList)
    let size := n.gbps.length
    let ls2 := gc ls1 n.gbps
    { n with ls := { ls2 with cr := confirmsRequired size }, size := size, best := b.id }

def savedOf (ls : LS) : List (String × PL) × BI × Nat := (ls.prpsd, ls.lib, ls.lpb)

/-- `connectToChain`: number index, latest, status image — one transaction. -/
def connect (n : Node) (b : Blk) : Node :=
  { n with blocks := if (findBlk n.blocks b.id).isSome then n.blocks else b :: n.blocks,
           index := (b.no, b.id) :: n.index, latest := b.no, saved := some (savedOf n.ls) }

/-- `swapChainMapping` (new blocks, top first): refused unless the new top is above `latest`. -/
def swap (n : Node) (newBlocks : List Blk) : Node × Bool :=
  match newBlocks with
  | [] => (n, false)
  | top :: _ =>
    if n.latest ≥ top.no then (n, false) else
    ({ n with index := (newBlocks.map fun b => (b.no, b.id)) ++ n.index, latest := top.no,
              saved := some (savedOf n.ls) }, true)

/-- `Status.NeedReorganization` (Lib is never nil in reachable states). -/
def needReorg (n : Node) (rootNo : Nat) : Bool := decide (rootNo ≥ n.ls.lib.no)

/-- the LIB clause of `DPoS.VerifyTimestamp` (the timestamp clause is C09's). -/
def verifyTs (n : Node) (b : Blk) : Bool := !decide (b.no ≤ n.ls.lib.no)

/-- A new node: genesis stored and indexed, `NewStatus` on it. -/
def newNode (self : String) (gbps : List String) : Node :=
  let g : BI := ⟨"g", 0, 0⟩
  let gb : Blk := ⟨"g", 0, "", "", 0⟩
  restart { blocks := [gb], index := [(0, "g")], latest := 0, saved := none, size := gbps.length, gbps := gbps,
            self := self, genesis := g, done := false, best := "", ls := default, bl := default,
            blBest := "", panicked := false }

/-- The operations a chain service performs on the node (the histories the theorems quantify over). -/
inductive Op where
  | blk (b : Blk)                       -- a block is stored (by hash)
  | update (b : Blk) (hint : String)    -- Status.Update(b)
  | connect (b : Blk)                   -- connectToChain(b)
  | swap (bs : List Blk)                -- swapChainMapping(bs), top first
  | restart                             -- process restart on the same store
deriving Repr

def Node.apply (n : Node) : Op → Node
  | .blk b => if (findBlk n.blocks b.id).isSome then n else { n with blocks := b :: n.blocks }
  | .update b hint => statusUpdate n b hint
  | .connect b => connect n b
  | .swap bs => (swap n bs).1
  | .restart => restart n

def Node.run (n : Node) (ops : List Op) : Node := ops.foldl Node.apply n

/-- What a block factory on this node puts into `Confirms` (blockfactory.go: `block.BlockNo() - lpbNo`, uint64). -/
def honestConfirms (no lpb : Nat) : Nat := ((LibQuorum.factoryConfirms no lpb) % (u64 : Int)).toNat

end Aergo.Lib
