/-
Model layer `Merkle` (C19): internal/merkle/merkle.go `CalculateMerkleTree` / `CalculateMerkleRoot`.

The node type `α` and the branch function `h l r` (Go: `sha256(lc ‖ rc)`) are parameters: theorems
instantiate `α := Bytes`, `h l r := H (l ++ r)`; the model driver instantiates `h` by a table of
hash values sent by the harness. `none` is a Go nil slice (an entry whose `GetHash()` is nil, or a
padding leaf).

Go code (merkle.go:27-93), transcribed:
  * no entries                      → `[nilHash]`, root = 32 zero bytes            (`zero`)
  * `leafCount` = 1 if n = 1, else the smallest power of two ≥ n (`x := 1; for x < num { x <<= 1 }`;
    the test `(num&num - 1) == 0` parses as `(num&num) - 1 == 0`, i.e. `num == 1`)
  * `merkles[0..n)` = entry hashes, `merkles[n..leafCount)` = nil
  * branch node i (children lc, rc = the next consecutive pair of the level below):
      `merkles[lc] == nil` → nil;  `merkles[rc] == nil` → `h lc lc` (left child duplicated);  else `h lc rc`
  * root = last node. A single entry is its own root (not hashed).
The flat array is processed level by level: `level` is one level, `reduce` iterates it.
-/
namespace Aergo.Merkle

variable {α : Type}

/-- One branch node from its two children (merkle.go:76-88). -/
def pair (h : α → α → α) : Option α → Option α → Option α
  | none, _ => none
  | some l, none => some (h l l)
  | some l, some r => some (h l r)

/-- One level of branch nodes from the level below (consecutive pairs). The one-element case does
not occur for power-of-two lengths ≥ 2; it is defined as "right child missing". -/
def level (h : α → α → α) : List (Option α) → List (Option α)
  | a :: b :: rest => pair h a b :: level h rest
  | [a] => [pair h a none]
  | [] => []

/-- `getLeafCount`: doubling loop from 1 (fuel `n` suffices: `x` at least doubles each turn). -/
def leafCountLoop (n : Nat) : Nat → Nat → Nat
  | 0, x => x
  | fuel + 1, x => if x < n then leafCountLoop n fuel (x * 2) else x

def leafCount (n : Nat) : Nat := leafCountLoop n n 1

/-- Iterate `level` until one node is left (fuel = number of leaves is more than enough). -/
def reduce (h : α → α → α) : Nat → List (Option α) → List (Option α)
  | 0, l => l
  | fuel + 1, l => if l.length ≤ 1 then l else reduce h fuel (level h l)

/-- The padded leaf level: entry hashes followed by nil up to `leafCount`. -/
def leaves (es : List (Option α)) : List (Option α) :=
  es ++ List.replicate (leafCount es.length - es.length) none

/-- `CalculateMerkleRoot`. `zero` = `nilHash` (32 zero bytes). Result `none` = Go nil slice. -/
def root (h : α → α → α) (zero : α) (es : List (Option α)) : Option α :=
  match es with
  | [] => some zero
  | _ => ((reduce h es.length (leaves es)).head?).join

/-! The same function for entries whose hash is never nil, without padding (proved equal to `root`
on such entries in Props/C19 `root_eq_rootB`): pair up, duplicate an odd last node. -/

def levelB (h : α → α → α) : List α → List α
  | a :: b :: rest => h a b :: levelB h rest
  | [a] => [h a a]
  | [] => []

def reduceB (h : α → α → α) : Nat → List α → List α
  | 0, l => l
  | fuel + 1, l => if l.length ≤ 1 then l else reduceB h fuel (levelB h l)

def rootB (h : α → α → α) (zero : α) (xs : List α) : Option α :=
  match xs with
  | [] => some zero
  | _ => (reduceB h xs.length xs).head?

end Aergo.Merkle
