/-! # Nondet — where every syntactic source of nondeterminism of the consensus-critical packages goes (C02)

`tools/goext nondet` regenerates `Aergo.Gen.NondetSites` from the current source on every run:

* `sites`: every `range` over a map (or over an expression whose type the extractor cannot resolve), every
  `.Range(f)` call, `time.Now/Since/Until`, every use of package `rand`, every `go` and `select` statement, every
  `sort.*` / `slices.Sort*` call, every `ctx.Err()` / `ctx.Deadline()` poll, every read of the process environment
  (`os.Getenv…`, `runtime.NumCPU…`), every `reflect` map walk / `maps.Keys`, every `%p` format, in **every package
  of this module that `chain`, `consensus/chain` or `consensus/impl/dpos` transitively import** (`closure`; the scan
  list must contain it: `Props.C02.closure_scanned`);
* `loops`: for every map iteration of `sites`, what its **body** does: how it can leave the loop early, which
  non-local targets it writes, which functions it calls, and a fingerprint of the printed body.

This hand-kept file maps each site (`table`) to

* `thm n`      – the theorem of `Props/C02.lean` proving that the modelled site does not depend on the iteration
                 order / on which branch of the `select` was taken / on the moment the context expired (the theorem
                 must exist: `Props.C02.cited_theorems_exist`);
* `noState w`  – the reason why the site cannot feed the state root, the receipts or the receipts root
                 (logging, statistics, RPC queries, locks, explicitly seeded generators, scheduling of block
                 production, code not on the block execution path); argued by reading the code, not proved;
* `ordered w`  – a `range?` whose operand is not a map at all (a slice or channel of a type of another module);
* `sampled w`  – goroutine scheduling, or code behind the VM stub that cannot be built in this sandbox: *not*
                 carried by a theorem; goroutines are sampled by the repeated real executions of harness c02 under
                 GOMAXPROCS 1, 4, 16

and records, per map iteration (`loopTable`), the body summary the classification was made for. The classification
is thereby tied to the loop **body**: an edit that makes a listed loop call another function, write another
target or leave early no longer matches (`Props.C02.all_loops_match`), whatever its class; the bodies that a model of
`Aergo.Determ` transcribes (`thm` sites and the `GatherTXs` loop) are pinned by fingerprint, so any edit of them
has to be re-read against the model; a `noState` loop must not call a state-writing function
(`Props.C02.noState_loops_call_no_state_writer`). Core Lean only. -/

namespace Aergo.Nondet

inductive Cover where
  | thm (name : String)
  | noState (why : String)
  | ordered (why : String)
  | sampled (why : String)
deriving Repr, DecidableEq

def table : List (String × Cover) := [
  ("account/key/aergo_storage.go:AergoStorage.List:range?:files",
    .ordered "files is an os.ReadDir result (sorted by name); keystore listing for the account RPC"),
  ("account/key/crypto/v1strategy.go:newIV:rand:rand.Reader",
    .noState "keystore encryption (crypto/rand IV for an exported key file); not block execution"),
  ("account/key/crypto/v1strategy.go:newSalt:rand:rand.Reader",
    .noState "keystore encryption (crypto/rand salt for an exported key file); not block execution"),
  ("chain/chaindb.go:ChainDB.hardforkHeights:maprange:c",
    .noState "boot-time hardfork compatibility check: copies one map into another (content only); never part of block execution"),
  ("chain/chainhandle.go:ChainService.addBlockInternal:select:InAddBlock <- struct{}{}",
    .noState "acquires the chain lock (InAddBlock, capacity 1): mutual exclusion of block insertion, no data flows through the channel"),
  ("chain/chainservice.go:ChainWorker.Receive:range?:msg.StorageKeys",
    .ordered "msg.StorageKeys is a []string of another package (RPC query GetStateAndProof, read-only)"),
  ("chain/debugger.go:Debugger.Check:go:crashRandom",
    .noState "crash-injection debugger, enabled by an environment variable in tests only"),
  ("chain/debugger.go:handleCrashRandom:go:crashRandom",
    .noState "crash-injection debugger, enabled by an environment variable in tests only"),
  ("chain/debugger.go:newDebugger:env:os.Getenv",
    .noState "crash-injection debugger, enabled by an environment variable in tests only"),
  ("chain/reorg.go:ChainService.reorg:time:time.Now",
    .noState "duration of a reorganisation for the log/statistics"),
  ("chain/reorg.go:ChainService.reorg:time:time.Since",
    .noState "duration of a reorganisation for the log/statistics"),
  ("chain/reorg.go:reorganizer.swapTxMapping:maprange:oldTxs",
    .thm "Aergo.Props.C02.swapDeletes_perm_invariant"),
  ("chain/reorg.go:reorganizer.swapTxMapping:maprange:oldTxs#1",
    .thm "Aergo.Props.C02.swapReoffer_perm"),
  ("chain/signVerifier.go:NewSignVerifier:go:sv.verifyTxLoop",
    .sampled "parallel tx signature verification: the block-level result is a conjunction (failed := failed || !ok over all txs); goroutine scheduling is sampled by the repeated real executions, not carried by a theorem"),
  ("chain/signVerifier.go:SignVerifier.RequestVerifyTxs:go:func() { for i, tx := range txs { sv.workCh <- verifyWork{idx: i, tx: tx, useMempool: useM…",
    .sampled "parallel tx signature verification: the block-level result is a conjunction (failed := failed || !ok over all txs); goroutine scheduling is sampled by the repeated real executions, not carried by a theorem"),
  ("chain/signVerifier.go:SignVerifier.RequestVerifyTxs:go:func() { var doneCnt = 0 failed := false sv.totalHit = 0 start := time.Now() LOOP: for { s…",
    .sampled "parallel tx signature verification: the block-level result is a conjunction (failed := failed || !ok over all txs); goroutine scheduling is sampled by the repeated real executions, not carried by a theorem"),
  ("chain/signVerifier.go:SignVerifier.RequestVerifyTxs:select:result := <-sv.doneCh",
    .sampled "parallel tx signature verification: the block-level result is a conjunction (failed := failed || !ok over all txs); goroutine scheduling is sampled by the repeated real executions, not carried by a theorem"),
  ("chain/signVerifier.go:SignVerifier.RequestVerifyTxs:time:time.Now",
    .noState "elapsed-time logging of signature verification"),
  ("chain/signVerifier.go:SignVerifier.RequestVerifyTxs:time:time.Now#1",
    .noState "elapsed-time logging of signature verification"),
  ("chain/signVerifier.go:SignVerifier.WaitDone:select:res := <-sv.resultCh",
    .sampled "parallel tx signature verification: the block-level result is a conjunction (failed := failed || !ok over all txs); goroutine scheduling is sampled by the repeated real executions, not carried by a theorem"),
  ("chain/stat.go:stReorg.updateEvent:time:time.Now",
    .noState "statistics timestamp"),
  ("chain/stubchain.go:StubBlockChain.GenAddBlock:time:time.Now",
    .noState "test stub chain (not linked into block execution)"),
  ("chain/stubchain.go:StubBlockChain.GenAddBlock:time:time.Now#1",
    .noState "test stub chain (not linked into block execution)"),
  ("chain/stubchain.go:StubBlockChain.GenAddBlock:time:time.Now#2",
    .noState "test stub chain (not linked into block execution)"),
  ("cmd/aergoluac/luac/luac.go:DumpFromStdin:ctxpoll?:scanner.Err",
    .noState "bufio.Scanner.Err of the luac command-line tool (not a context); the package is imported for the code encoding helpers"),
  ("cmd/aergoluac/util/util.go:DecodeFromStdin:ctxpoll?:scanner.Err",
    .noState "bufio.Scanner.Err of the luac command-line tool (not a context)"),
  ("cmd/aergoluac/util/util.go:processLines:ctxpoll?:scanner.Err",
    .noState "bufio.Scanner.Err of the luac command-line tool (not a context)"),
  ("config/config.go:GetDefaultNumLStateClosers:env:runtime.NumCPU",
    .noState "default size of a worker pool (Lua state closers): how many goroutines, not what they compute"),
  ("config/config.go:ServerContext.GetDefaultBlockchainConfig:env:runtime.NumCPU",
    .noState "default NumWorkers of the chain service (RPC query workers, Lua state pool size): how many goroutines, not what they compute; harness c02 runs the two nodes with different values"),
  ("config/config.go:ServerContext.GetDefaultMempoolConfig:env:runtime.NumCPU",
    .noState "default number of mempool signature verifiers: how many goroutines, not what they compute"),
  ("config/hardfork.go:checkOlderNode:maprange:dbCfg",
    .noState "boot-time hardfork compatibility check: an all-quantified test over the stored table, the verdict (error or not) does not depend on the order, only which offending entry the message names"),
  ("consensus/chain/block.go:SyncChain:select:err := <-notiC",
    .noState "waits for the syncer to finish"),
  ("consensus/chain/tx.go:BlockGenerator.GatherTXs:ctxpoll:g.ctx.Err",
    .thm "Aergo.Props.C02.producer_validator_agree"),
  ("consensus/chain/tx.go:BlockGenerator.GatherTXs:range?:txIn",
    .ordered "txIn is a []types.Transaction (slice of an interface type of another package): the candidates in the order the tx source returned them; the loop itself is the `gather` of Aergo.Props.C02.producer_validator_agree"),
  ("consensus/chain/tx.go:BlockGenerator.GatherTXs:select:<-g.ctx.Done() | default",
    .thm "Aergo.Props.C02.producer_validator_agree"),
  ("consensus/chain/tx.go:LockNonblock:select:chain.InAddBlock <- struct{}{} | default",
    .noState "try-acquire of the chain lock"),
  ("consensus/consensus.go:Start:go:bf.Start",
    .noState "block-factory scheduling: when and whether this node produces a block; what a produced block contains is decided by GatherTXs (Pre argument of Aergo.Props.C02.producer_validator_agree)"),
  ("consensus/consensus.go:Start:go:func() { ticker := c.Ticker() for now := range ticker.C { c.QueueJob(now, bf.JobQueue()) s…",
    .noState "block-factory scheduling: when and whether this node produces a block; what a produced block contains is decided by GatherTXs (Pre argument of Aergo.Props.C02.producer_validator_agree)"),
  ("consensus/consensus.go:Start:range?:ticker.C",
    .ordered "ticker.C is a channel of time.Time: block-factory scheduling: when and whether this node produces a block; what a produced block contains is decided by GatherTXs (Pre argument of Aergo.Props.C02.producer_validator_agree)"),
  ("consensus/consensus.go:Start:select:<-c.QuitChan() | default",
    .noState "block-factory scheduling: when and whether this node produces a block; what a produced block contains is decided by GatherTXs (Pre argument of Aergo.Props.C02.producer_validator_agree)"),
  ("consensus/impl/dpos/blockfactory.go:BlockFactory.Start:go:bf.controller",
    .noState "block-factory scheduling: when and whether this node produces a block; what a produced block contains is decided by GatherTXs (Pre argument of Aergo.Props.C02.producer_validator_agree)"),
  ("consensus/impl/dpos/blockfactory.go:BlockFactory.Start:go:bf.worker",
    .noState "block-factory scheduling: when and whether this node produces a block; what a produced block contains is decided by GatherTXs (Pre argument of Aergo.Props.C02.producer_validator_agree)"),
  ("consensus/impl/dpos/blockfactory.go:BlockFactory.Start:go:func() { go bf.worker() go bf.controller() }",
    .noState "block-factory scheduling: when and whether this node produces a block; what a produced block contains is decided by GatherTXs (Pre argument of Aergo.Props.C02.producer_validator_agree)"),
  ("consensus/impl/dpos/blockfactory.go:BlockFactory.checkBpTimeout:select:<-bf.bpTimeoutC | <-bf.quit | default",
    .thm "Aergo.Props.C02.producer_validator_agree"),
  ("consensus/impl/dpos/blockfactory.go:BlockFactory.controller:select:bf.workerQueue <- bfWork{execCtx: bfContext, bpi: bpi} | default",
    .noState "block-factory scheduling: when and whether this node produces a block; what a produced block contains is decided by GatherTXs (Pre argument of Aergo.Props.C02.producer_validator_agree)"),
  ("consensus/impl/dpos/blockfactory.go:BlockFactory.controller:select:info := <-bf.jobQueue | <-bf.quit",
    .noState "block-factory scheduling: when and whether this node produces a block; what a produced block contains is decided by GatherTXs (Pre argument of Aergo.Props.C02.producer_validator_agree)"),
  ("consensus/impl/dpos/blockfactory.go:BlockFactory.generateBlock:time:time.Now",
    .noState "elapsed block-generation time handed to handleRejected (eviction of a tx that timed out from the mempool): the producer's later choice of candidates, not the execution of a block"),
  ("consensus/impl/dpos/blockfactory.go:BlockFactory.generateBlock:time:time.Since",
    .noState "elapsed block-generation time handed to handleRejected (eviction of a tx that timed out from the mempool): the producer's later choice of candidates, not the execution of a block"),
  ("consensus/impl/dpos/blockfactory.go:BlockFactory.initContext:go:func() { select { case <-bf.quit: bf.ctxCancelFunc() } }",
    .thm "Aergo.Props.C02.producer_validator_agree"),
  ("consensus/impl/dpos/blockfactory.go:BlockFactory.initContext:select:<-bf.quit",
    .thm "Aergo.Props.C02.producer_validator_agree"),
  ("consensus/impl/dpos/blockfactory.go:BlockFactory.worker:select:bfw := <-bf.workerQueue | <-bf.quit",
    .noState "block-factory scheduling: when and whether this node produces a block; what a produced block contains is decided by GatherTXs (Pre argument of Aergo.Props.C02.producer_validator_agree)"),
  ("consensus/impl/dpos/bp/cluster.go:Cluster.BPs:maprange:c.member",
    .noState "RPC/consensus-info listing of the BP set: every member is written to its own slot bps[index] (content does not depend on the order); on a JSON error the whole result is dropped"),
  ("consensus/impl/dpos/bp/cluster.go:Snapshots.gc:maprange:sn.snaps",
    .noState "garbage collection of old BP-set snapshots: deletes every entry below a bound (per-key, order independent); the BP set decides who may produce, not what execution yields"),
  ("consensus/impl/dpos/lib.go:libStatus.calcLIB:maprange:ls.Prpsd",
    .noState "DPoS last-irreversible-block bookkeeping (pre-LIB map per BP): decides which reorganisations are allowed, never enters the state root or the receipts of a block; its own determinism is the subject of C08"),
  ("consensus/impl/dpos/lib.go:libStatus.calcLIB:sort:sort.Slice",
    .noState "DPoS last-irreversible-block bookkeeping (pre-LIB map per BP): decides which reorganisations are allowed, never enters the state root or the receipts of a block; its own determinism is the subject of C08; the key (block number) is not total: two BPs proposing different blocks of one height tie (C08)"),
  ("consensus/impl/dpos/lib.go:libStatus.load:maprange:tmp.Prpsd",
    .noState "DPoS last-irreversible-block bookkeeping (pre-LIB map per BP): decides which reorganisations are allowed, never enters the state root or the receipts of a block; its own determinism is the subject of C08"),
  ("consensus/impl/dpos/lib.go:proposed.gc:maprange:pm",
    .noState "DPoS last-irreversible-block bookkeeping (pre-LIB map per BP): decides which reorganisations are allowed, never enters the state root or the receipts of a block; its own determinism is the subject of C08"),
  ("consensus/impl/dpos/slot/slot.go:Now:time:time.Now",
    .noState "the current slot: when this node produces; the block timestamp it leads to is part of the block header, i.e. input of the execution"),
  ("consensus/impl/dpos/slot/slot.go:Slot.RemainingTimeMS:time:time.Now",
    .noState "remaining time of the slot = the block-generation deadline: which candidates fit (Pre argument of Aergo.Props.C02.producer_validator_agree), not what they yield"),
  ("consensus/impl/dpos/status.go:bootLoader.load:maprange:ls.Prpsd",
    .noState "DPoS last-irreversible-block bookkeeping (pre-LIB map per BP): decides which reorganisations are allowed, never enters the state root or the receipts of a block; its own determinism is the subject of C08"),
  ("consensus/raftCommon.go:ConfStateToString:range?:conf.Learners",
    .ordered "[]uint64 of the raft library; log rendering"),
  ("consensus/raftCommon.go:ConfStateToString:range?:conf.Nodes",
    .ordered "[]uint64 of the raft library; log rendering"),
  ("contract/callback.go:deleteHandles:maprange:handleVals",
    .sampled "behind the VM stub (cgo, not buildable here): deletes the SQLite callback handles of one connection, per-key deletes"),
  ("contract/enterprise/config.go:GetConf:maprange:enterpriseKeyDict",
    .noState "RPC query GetEnterpriseConfig(\"PERMISSIONS\"): lists the keys of a constant table; read-only"),
  ("contract/hook_dbg.go:PrintBreakPoints:maprange:contract_info_map",
    .noState "debug build tag only (breakpoints of the Lua debugger)"),
  ("contract/hook_dbg.go:ResetBreakPoints:maprange:contract_info_map",
    .noState "debug build tag only (breakpoints of the Lua debugger)"),
  ("contract/hook_dbg.go:ResetContractInfo:maprange:contract_info_map",
    .noState "debug build tag only (breakpoints of the Lua debugger)"),
  ("contract/lstate_factory.go:StartLStateFactory:go:statePool",
    .sampled "behind the VM stub: pool of pre-allocated Lua states handed out through a channel; which state object a call gets is scheduling dependent, states are reset before reuse"),
  ("contract/lstate_factory.go:statePool:select:state := <-freeCh",
    .sampled "behind the VM stub: pool of pre-allocated Lua states handed out through a channel; which state object a call gets is scheduling dependent, states are reset before reuse"),
  ("contract/sqlite3.go:SQLiteStmt.exec:go:func(db *C.sqlite3) { select { case <-done: case <-ctxdone: select { case <-done: default:…",
    .sampled "behind the VM stub: context-cancellation watchers of SQLite statements"),
  ("contract/sqlite3.go:SQLiteStmt.exec:select:<-done | <-ctxdone",
    .sampled "behind the VM stub: context-cancellation watchers of SQLite statements"),
  ("contract/sqlite3.go:SQLiteStmt.exec:select:<-done | default",
    .sampled "behind the VM stub: context-cancellation watchers of SQLite statements"),
  ("contract/sqlite3.go:SQLiteStmt.query:go:func(db *C.sqlite3) { select { case <-ctxdone: select { case <-rows.done: default: C.sqlit…",
    .sampled "behind the VM stub: context-cancellation watchers of SQLite statements"),
  ("contract/sqlite3.go:SQLiteStmt.query:select:<-ctxdone | <-rows.done",
    .sampled "behind the VM stub: context-cancellation watchers of SQLite statements"),
  ("contract/sqlite3.go:SQLiteStmt.query:select:<-rows.done | default",
    .sampled "behind the VM stub: context-cancellation watchers of SQLite statements"),
  ("contract/statesql.go:CloseDatabase:maprange:database.DBs",
    .sampled "behind the VM stub: closes every open SQL database"),
  ("contract/statesql.go:SaveRecoveryPoint:maprange:database.DBs",
    .sampled "behind the VM stub: one PutState per open SQL database, each on its own contract account (keyed update, the shape of Aergo.Props.C02.updateStorage_perm_invariant); a failing commit returns early, which makes the set of saved points order dependent only on an SQL error"),
  ("contract/statesql.go:litetree.snapshotView:ptrfmt:sqlLgr.Debug().Uint64(\"rp\", rp).Msgf",
    .noState "debug log line"),
  ("contract/system/validation.go:ValidateSystemTx:sort:sort.Slice",
    .noState "sorts the candidate strings of a proposal for the membership search that follows (sort.SearchStrings); tied elements are equal strings, the sorted slice is not stored"),
  ("contract/system/voteresult.go:VoteResult.buildVoteList:maprange:vr.rmap",
    .thm "Aergo.Props.C02.buildVoteList_order_invariant"),
  ("contract/system/voteresult.go:VoteResult.buildVoteList:sort:sort.Sort",
    .thm "Aergo.Props.C02.voteList_order_unique"),
  ("contract/system/vprt.go:topVoters.dump:range?:tv.members.Values()",
    .ordered "members.Values() is the in-order slice of a red-black tree (RPC/debug dump of the rank)"),
  ("contract/system/vprt.go:vpr.apply:maprange:updRows",
    .thm "Aergo.Props.C02.vprRowWrites_perm_invariant"),
  ("contract/system/vprt.go:vpr.apply:maprange:v.changes",
    .thm "Aergo.Props.C02.vprApply_perm_invariant"),
  ("contract/system/vprt.go:vpr.pickVotingRewardWinner:rand:rand.New",
    .noState "explicitly seeded: rand.New(rand.NewSource(seed)) with seed = first 8 bytes of the previous block hash; a seeded math/rand source is a pure function of the seed"),
  ("contract/system/vprt.go:vpr.pickVotingRewardWinner:rand:rand.NewSource",
    .noState "explicitly seeded: rand.New(rand.NewSource(seed)) with seed = first 8 bytes of the previous block hash; a seeded math/rand source is a pure function of the seed"),
  ("contract/vm.go:Call:time:time.Now",
    .noState "elapsed-time logging of a contract call"),
  ("contract/vm.go:Call:time:time.Now#1",
    .noState "elapsed-time logging of a contract call"),
  ("contract/vm.go:executor.closeQuerySql:maprange:ctx.callState",
    .sampled "behind the VM stub: closes per-contract SQL handles"),
  ("contract/vm.go:executor.commitCalledContract:maprange:ctx.callState",
    .sampled "behind the VM stub: per called contract StageContractState + PutState, keyed by distinct contract ids (the shape of updateStorage_perm_invariant)"),
  ("contract/vm.go:executor.commitCalledContract:maprange:ctx.callState#1",
    .sampled "behind the VM stub: per called contract StageContractState + PutState, keyed by distinct contract ids (the shape of updateStorage_perm_invariant)"),
  ("contract/vm.go:executor.rollbackToSavepoint:maprange:ctx.callState",
    .sampled "behind the VM stub: per called contract SQL savepoint rollback"),
  ("contract/vm.go:setRandomSeed:rand:rand.New",
    .noState "explicitly seeded from the previous block hash and the tx hash (system.random of a contract)"),
  ("contract/vm.go:setRandomSeed:rand:rand.NewSource",
    .noState "explicitly seeded from the previous block hash and the tx hash (system.random of a contract)"),
  ("contract/vm.go:setRandomSeed:rand:rand.NewSource#1",
    .noState "explicitly seeded from the previous block hash and the tx hash (system.random of a contract)"),
  ("contract/vm.go:setRandomSeed:rand:rand.Source",
    .noState "explicitly seeded from the previous block hash and the tx hash (system.random of a contract)"),
  ("contract/vm.go:toLuaTable:maprange:tab",
    .sampled "behind the VM stub: fills a Lua table from a JSON object in map order; whether Lua-side iteration order can observe insertion order is inside LuaJIT (not modelled)"),
  ("contract/vm.go:toLuaTable:sort:sort.Strings",
    .sampled "behind the VM stub: from hardfork 3 on the keys of a JSON object are sorted (distinct strings: total order) before the Lua table is filled; before v3 the table is filled in map order"),
  ("contract/vm_callback.go:luaCheckTimeout:select:<-ctx.execCtx.Done() | default",
    .thm "Aergo.Props.C02.producer_validator_agree"),
  ("contract/vm_state.go:createRecoveryPoint:ptrfmt:fmt.Sprintf",
    .sampled "behind the VM stub: the name of an SQL savepoint contains an address (%p); a name local to one connection, never stored in state"),
  ("internal/common/signal.go:HandleKillSig:go:func() { for signal := range sigChannel { logger.Info().Msgf(\"Receive signal %s, Shutting …",
    .noState "process signal handler"),
  ("internal/network/address.go:ResolveHostDomain:range?:addrs",
    .ordered "[]net.IP; p2p transport/identity code imported for types and helpers only; not called by block execution"),
  ("p2p/p2pcommon/messagevalue.go:NewSimpleMsgVal:time:time.Now",
    .noState "p2p transport/identity code imported for types and helpers only; not called by block execution"),
  ("p2p/p2pcommon/messagevalue.go:NewSimpleRespMsgVal:time:time.Now",
    .noState "p2p transport/identity code imported for types and helpers only; not called by block execution"),
  ("p2p/p2pkey/nodekey.go:InitNodeInfo:time:time.Now",
    .noState "p2p transport/identity code imported for types and helpers only; not called by block execution"),
  ("p2p/p2putil/certificate.go:CheckAndGetV1:time:time.Now",
    .noState "p2p transport/identity code imported for types and helpers only; not called by block execution"),
  ("p2p/p2putil/certificate.go:NewAgentCertV1:time:time.Now",
    .noState "p2p transport/identity code imported for types and helpers only; not called by block execution"),
  ("p2p/p2putil/channelpipe.go:channelPipe.Open:go:c.run",
    .noState "p2p transport/identity code imported for types and helpers only; not called by block execution"),
  ("p2p/p2putil/channelpipe.go:channelPipe.run:select:mo := <-c.in | <-c.done | <-c.stop",
    .noState "p2p transport/identity code imported for types and helpers only; not called by block execution"),
  ("p2p/p2putil/multiaddr.go:ResolveToBestIp4Address:rand:rand.Intn",
    .noState "p2p transport/identity code imported for types and helpers only; not called by block execution"),
  ("p2p/p2putil/timedcall.go:InvokeWithTimer:go:m.DoCall",
    .noState "p2p transport/identity code imported for types and helpers only; not called by block execution"),
  ("p2p/p2putil/timedcall.go:InvokeWithTimer:select:hsResult := <-done | <-timer.C",
    .noState "p2p transport/identity code imported for types and helpers only; not called by block execution"),
  ("p2p/p2putil/util.go:ExternalIP:range?:ifs",
    .ordered "[]net.Interface; p2p transport/identity code imported for types and helpers only; not called by block execution"),
  ("pkg/component/component.go:BaseComponent.statics:time:time.Now",
    .noState "actor statistics timestamp"),
  ("pkg/component/hub.go:ComponentHub.Start:go:comp.Start",
    .noState "starts every registered actor component at boot"),
  ("pkg/component/hub.go:ComponentHub.Start:maprange:hub.components",
    .noState "starts every registered actor component at boot (one goroutine each; no data flows between them at start)"),
  ("pkg/component/hub.go:ComponentHub.Statistics:maprange:components",
    .noState "actor statistics for the RPC/metric query"),
  ("pkg/component/hub.go:ComponentHub.Statistics:maprange:components#1",
    .noState "actor statistics for the RPC/metric query"),
  ("pkg/component/hub.go:ComponentHub.Statistics:maprange:jobMap",
    .noState "actor statistics for the RPC/metric query"),
  ("pkg/component/hub.go:ComponentHub.Statistics:time:time.Now",
    .noState "actor statistics for the RPC/metric query"),
  ("pkg/component/hub.go:ComponentHub.Stop:maprange:hub.components",
    .noState "stops every registered actor component at shutdown"),
  ("pkg/trie/trie.go:Trie.updateParallel:go:s.update",
    .sampled "two goroutines update the left and the right subtree on disjoint key ranges and disjoint batch slots; as two independent recursive calls the result is the canonical tree of the resulting map (Aergo.Props.C10.history_independent); the interleaving itself is sampled under GOMAXPROCS 1/4/16, not carried by a theorem"),
  ("pkg/trie/trie.go:Trie.updateParallel:go:s.update#1",
    .sampled "two goroutines update the left and the right subtree on disjoint key ranges and disjoint batch slots; as two independent recursive calls the result is the canonical tree of the resulting map (Aergo.Props.C10.history_independent); the interleaving itself is sampled under GOMAXPROCS 1/4/16, not carried by a theorem"),
  ("pkg/trie/trie_cache.go:CacheDB.commit:maprange:c.updatedNodes",
    .thm "Aergo.Props.C02.dbSets_perm_invariant"),
  ("pkg/trie/trie_revert.go:Trie.deleteSubTree:go:s.deleteSubTree",
    .noState "Trie.Revert path (parallel deletion of abandoned nodes from the cache/db): not called by block execution or by StateDB (aergo reverts by re-opening a state at an older root)"),
  ("pkg/trie/trie_revert.go:Trie.deleteSubTree:go:s.deleteSubTree#1",
    .noState "Trie.Revert path (parallel deletion of abandoned nodes from the cache/db): not called by block execution or by StateDB (aergo reverts by re-opening a state at an older root)"),
  ("pkg/trie/trie_revert.go:Trie.maybeDeleteSubTree:go:s.maybeDeleteSubTree",
    .noState "Trie.Revert path (parallel deletion of abandoned nodes from the cache/db): not called by block execution or by StateDB (aergo reverts by re-opening a state at an older root)"),
  ("pkg/trie/trie_revert.go:Trie.maybeDeleteSubTree:go:s.maybeDeleteSubTree#1",
    .noState "Trie.Revert path (parallel deletion of abandoned nodes from the cache/db): not called by block execution or by StateDB (aergo reverts by re-opening a state at an older root)"),
  ("pkg/trie/trie_tools.go:Trie.loadCache:go:s.loadCache",
    .noState "LoadCache warms the in-memory node cache from the db at start-up: set insertion under a lock, content-addressed nodes"),
  ("pkg/trie/trie_tools.go:Trie.loadCache:go:s.loadCache#1",
    .noState "LoadCache warms the in-memory node cache from the db at start-up: set insertion under a lock, content-addressed nodes"),
  ("state/chain.go:ChainStateDB.SetGenesis:maprange:genesis.Balance",
    .thm "Aergo.Props.C02.genesisBalances_perm_invariant"),
  ("state/statedb/dump.go:Dump.MarshalJSON:maprange:d.Accounts",
    .noState "debug/RPC dump: JSON rendering of a state dump; read-only"),
  ("state/statedb/dump.go:DumpAccount.MarshalJSON:maprange:d.Storage",
    .noState "debug/RPC dump: JSON rendering of a state dump; read-only"),
  ("state/statedb/statebuffer.go:bufferIndex.rollback:maprange:*idxs",
    .thm "Aergo.Props.C02.idxRollback_perm_invariant"),
  ("state/statedb/statebuffer.go:stateBuffer.export:maprange:buffer.indexes",
    .thm "Aergo.Props.C02.export_perm_invariant"),
  ("state/statedb/statebuffer.go:stateBuffer.export:sort:sort.Slice",
    .thm "Aergo.Props.C02.export_perm_invariant"),
  ("state/statedb/statebuffer.go:stateBuffer.stage:maprange:buffer.indexes",
    .thm "Aergo.Props.C02.dbSets_perm_invariant"),
  ("state/statedb/statedb.go:StateDB.Commit:maprange:states.Cache.storages",
    .thm "Aergo.Props.C02.dbSets_perm_invariant"),
  ("state/statedb/statedb.go:StateDB.updateStorage:maprange:states.Cache.storages",
    .thm "Aergo.Props.C02.updateStorage_perm_invariant"),
  ("state/statedb/storage.go:storageCache.Rollback:maprange:cache.storages",
    .thm "Aergo.Props.C02.cacheRollback_perm_invariant"),
  ("state/statedb/storage.go:storageCache.Snapshot:maprange:cache.storages",
    .thm "Aergo.Props.C02.cacheSnapshot_perm_invariant"),
  ("types/blockchain.go:var DefaultVerifierCnt:env:runtime.NumCPU",
    .noState "default number of signature verifier goroutines: how many, not what they compute (the block-level verdict is a conjunction); harness c02 runs the two nodes with different counts"),
  ("types/genesis.go:GetDefaultGenesis:time:time.Now",
    .noState "default/test genesis constructors (timestamp of a new genesis file), not block execution"),
  ("types/genesis.go:GetTestGenesis:time:time.Now",
    .noState "default/test genesis constructors (timestamp of a new genesis file), not block execution"),
  ("types/message/msghelper.go:baseHelper.ExtractTxsFromResponse:range?:v.Txs",
    .ordered "[]*types.Tx of a mempool answer, in the mempool's order; actor message helper"),
  ("types/receipt.go:FilterInfo.GetExArgFilter:maprange:argMap",
    .noState "event filter matching for RPC subscriptions (all-quantified comparison of two maps); read-only"),
  ("types/receipt.go:checkSameMap:maprange:value",
    .noState "event filter matching for RPC subscriptions (all-quantified comparison of two maps); read-only")
]

/-- the keys of the table; kept in ascending (byte) order, the order in which the extractor emits its sites -/
def keys : List String := table.map (·.1)

/-- the sites of `sites` that have no entry in the table (quadratic; used for the diagnostic message only) -/
def unmapped (sites : List String) : List String := sites.filter (fun s => !keys.any (fun k => k == s))

/-- Linear check used by the theorem: every site occurs among the keys, in the same relative order. -/
def coveredInOrder : List String → List String → Bool
  | [], _ => true
  | _ :: _, [] => false
  | s :: ss, k :: ks => if s == k then coveredInOrder ss ks else coveredInOrder (s :: ss) ks

/-- theorem names the table refers to -/
def citedTheorems : List String := table.filterMap (fun e => match e.2 with | .thm n => some n | _ => none)

/-! ## the loop bodies -/

/-- What the body of one map iteration does, as `goext nondet` summarises it (see the head of
`tools/goext/nondet.go`), at the time the site was classified. `pin = some h`: the body is transcribed by a model
of `Aergo.Determ`; `h` is the fingerprint of the printed body. -/
structure LoopRow where
  key : String
  /-- `break`, `return`, `goto l`, labelled break/continue, `panic`: ways to leave the loop before every entry was
  visited (then the *set* of visited entries depends on the order) -/
  exits : String
  /-- assignment targets that are not plain loop-local variables, `delete(m)`, channel sends -/
  writes : List String
  /-- functions and methods called (logger chains left out) -/
  calls : List String
  pin : Option String
deriving Repr, DecidableEq

def loopTable : List LoopRow := [
  ⟨"account/key/aergo_storage.go:AergoStorage.List:range?:files",
    "", ["ret"],
    [".Name", "append", "regexp.MatchString", "strings.Index", "types.DecodeAddress"], none⟩,
  ⟨"chain/chaindb.go:ChainDB.hardforkHeights:maprange:c",
    "return", ["returned[_]"],
    ["IsInteger", "make"], none⟩,
  ⟨"chain/chainservice.go:ChainWorker.Receive:range?:msg.StorageKeys",
    "", ["varProof.Key", "varProofs"],
    [".GetVarAndProof", "append", "base58.Encode"], none⟩,
  ⟨"chain/reorg.go:reorganizer.swapTxMapping:maprange:oldTxs",
    "", [],
    [".Delete"], some "060462b5a07d"⟩,
  ⟨"chain/reorg.go:reorganizer.swapTxMapping:maprange:oldTxs#1",
    "", [],
    [".RequestTo"], some "5daa81927c6c"⟩,
  ⟨"config/hardfork.go:checkOlderNode:maprange:dbCfg",
    "return", [],
    ["isFork", "newForkError", "strconv.ParseUint"], none⟩,
  ⟨"consensus/chain/tx.go:BlockGenerator.GatherTXs:range?:txIn",
    "break", ["txRes"],
    [".Apply", ".GetHash", ".setRejected", ".tteEnabled", "append", "types.LogBase58"], some "34ecf9915717"⟩,
  ⟨"consensus/consensus.go:Start:range?:ticker.C",
    "return", [],
    [".JobQueue", ".QueueJob", ".QuitChan"], none⟩,
  ⟨"consensus/impl/dpos/bp/cluster.go:Cluster.BPs:maprange:c.member",
    "break", ["bps", "bps[_]"],
    [".String", "int", "json.Marshal", "strconv.FormatUint", "string", "uint64"], none⟩,
  ⟨"consensus/impl/dpos/bp/cluster.go:Snapshots.gc:maprange:sn.snaps",
    "", [],
    [".del"], none⟩,
  ⟨"consensus/impl/dpos/lib.go:libStatus.calcLIB:maprange:ls.Prpsd",
    "", ["libInfos"],
    ["append"], none⟩,
  ⟨"consensus/impl/dpos/lib.go:libStatus.load:maprange:tmp.Prpsd",
    "", ["ls.Prpsd[_]"],
    [], none⟩,
  ⟨"consensus/impl/dpos/lib.go:proposed.gc:maprange:pm",
    "", ["delete(pm)"],
    [], none⟩,
  ⟨"consensus/impl/dpos/status.go:bootLoader.load:maprange:ls.Prpsd",
    "", ["delete(ls.Prpsd)"],
    [".Hash"], none⟩,
  ⟨"consensus/raftCommon.go:ConfStateToString:range?:conf.Learners",
    "", ["buf"],
    ["fmt.Sprintf"], none⟩,
  ⟨"consensus/raftCommon.go:ConfStateToString:range?:conf.Nodes",
    "", ["buf"],
    ["fmt.Sprintf"], none⟩,
  ⟨"contract/callback.go:deleteHandles:maprange:handleVals",
    "", ["delete(handleVals)"],
    [], none⟩,
  ⟨"contract/enterprise/config.go:GetConf:maprange:enterpriseKeyDict",
    "", ["ret.Values"],
    ["append"], none⟩,
  ⟨"contract/hook_dbg.go:PrintBreakPoints:maprange:contract_info_map",
    "", [],
    [".Front", ".Next", "fmt.Printf"], none⟩,
  ⟨"contract/hook_dbg.go:ResetBreakPoints:maprange:contract_info_map",
    "", ["info.breakpoints"],
    ["list.New"], none⟩,
  ⟨"contract/hook_dbg.go:ResetContractInfo:maprange:contract_info_map",
    "", ["info.src_path"],
    [], none⟩,
  ⟨"contract/statesql.go:CloseDatabase:maprange:database.DBs",
    "", ["db.tx", "delete(database.DBs)", "err"],
    [".close", ".rollback"], none⟩,
  ⟨"contract/statesql.go:SaveRecoveryPoint:maprange:database.DBs",
    "return", ["db.tx", "receiverChange.SqlRecoveryPoint"],
    [".Clone", ".GetAccountState", ".PutState", ".commit", ".recoveryPoint", "uint64"], none⟩,
  ⟨"contract/system/voteresult.go:VoteResult.buildVoteList:maprange:vr.rmap",
    "", ["vote.Candidate", "voteList.Votes"],
    ["([]byte)", ".Bytes", "append", "base58.Decode"], some "8d96700e6018"⟩,
  ⟨"contract/system/vprt.go:topVoters.dump:range?:tv.members.Values()",
    "break,return", [],
    [".toJSON", "fmt.Fprint", "fmt.Fprintf", "litter.Sdump", "string"], none⟩,
  ⟨"contract/system/vprt.go:vpr.apply:maprange:updRows",
    "return", [],
    [".write"], some "9de7510d0a08"⟩,
  ⟨"contract/system/vprt.go:vpr.apply:maprange:v.changes",
    "", ["delete(v.changes)", "nApplied", "updRows[_]"],
    [".addTotal", ".addVotingPower", ".cmp", ".getAmount", ".update", ".updateLowest"], some "5929557a7552"⟩,
  ⟨"contract/vm.go:executor.closeQuerySql:maprange:ctx.callState",
    "return", ["err"],
    [".close", "newVmError"], none⟩,
  ⟨"contract/vm.go:executor.commitCalledContract:maprange:ctx.callState",
    "return", ["err"],
    [".PutState", ".release", "newDbSystemError", "newVmError", "statedb.StageContractState"], none⟩,
  ⟨"contract/vm.go:executor.commitCalledContract:maprange:ctx.callState#1",
    "", [],
    [".Balance", ".Nonce", ".String", ".WriteString", "fmt.Sprintf"], none⟩,
  ⟨"contract/vm.go:executor.rollbackToSavepoint:maprange:ctx.callState",
    "return", ["err"],
    [".CodeHash", ".Error", ".RemoveCache", ".begin", ".rollbackToSavepoint", "len", "newVmError", "strings.HasPrefix"], none⟩,
  ⟨"contract/vm.go:toLuaTable:maprange:tab",
    "", ["keys"],
    ["append"], none⟩,
  ⟨"internal/network/address.go:ResolveHostDomain:range?:addrs",
    "", ["ips[_]"],
    ["net.ParseIP"], none⟩,
  ⟨"p2p/p2putil/util.go:ExternalIP:range?:ifs",
    "return", [],
    [".Addrs", "getValidIP"], none⟩,
  ⟨"pkg/component/hub.go:ComponentHub.Start:maprange:hub.components",
    "", [],
    [".Start", "go"], none⟩,
  ⟨"pkg/component/hub.go:ComponentHub.Statistics:maprange:components",
    "", ["compStatus[_]"],
    [".GetName", ".Status"], none⟩,
  ⟨"pkg/component/hub.go:ComponentHub.Statistics:maprange:components#1",
    "", ["jobMap[_]", "retCompStatistics[_]"],
    [".RequestFuture", "StatusToString"], none⟩,
  ⟨"pkg/component/hub.go:ComponentHub.Statistics:maprange:jobMap",
    "", ["retCompStatistics[_]"],
    [".Error", ".Get", ".MsgQueueLen", ".Result", "StatusToString", "uint64"], none⟩,
  ⟨"pkg/component/hub.go:ComponentHub.Stop:maprange:hub.components",
    "", [],
    [".Stop"], none⟩,
  ⟨"pkg/trie/trie_cache.go:CacheDB.commit:maprange:c.updatedNodes",
    "", [],
    [".Set", ".serializeBatch", "dbkey.Trie"], some "642466a01bc6"⟩,
  ⟨"state/chain.go:ChainStateDB.SetGenesis:maprange:genesis.Balance",
    "return", [],
    [".AddBalance", ".PutState", ".SetString", "GetAccountState", "fmt.Errorf", "new", "types.ToAddress"], some "7eab8f925057"⟩,
  ⟨"state/statedb/dump.go:Dump.MarshalJSON:maprange:d.Accounts",
    "", ["mapAccounts[_]"],
    [".String"], none⟩,
  ⟨"state/statedb/dump.go:DumpAccount.MarshalJSON:maprange:d.Storage",
    "", ["mapStorage[_]"],
    [".String", "base58.Encode"], none⟩,
  ⟨"state/statedb/statebuffer.go:bufferIndex.rollback:maprange:*idxs",
    "", ["delete(*idxs)"],
    [".peek", ".pop"], some "72d29d2d26f9"⟩,
  ⟨"state/statedb/statebuffer.go:stateBuffer.export:maprange:buffer.indexes",
    "", ["bufs"],
    [".peek", "append"], some "ac2c09cdda13"⟩,
  ⟨"state/statedb/statebuffer.go:stateBuffer.stage:maprange:buffer.indexes",
    "return", [],
    [".Hash", ".Set", ".Value", ".peek", "Marshal"], some "c1bd78cecd93"⟩,
  ⟨"state/statedb/statedb.go:StateDB.Commit:maprange:states.Cache.storages",
    "return", [],
    [".DiscardLast", ".stage"], some "9fc1f875306b"⟩,
  ⟨"state/statedb/statedb.go:StateDB.updateStorage:maprange:states.Cache.storages",
    "return", ["st.StorageRoot"],
    [".getState", ".isDirty", ".put", ".rollback", ".update", "newValueEntry", "types.HashID"], some "69d89f2d4cf7"⟩,
  ⟨"state/statedb/storage.go:storageCache.Rollback:maprange:cache.storages",
    "return", ["delete(cache.storages)"],
    [".rollback"], some "eea6fcc54488"⟩,
  ⟨"state/statedb/storage.go:storageCache.Snapshot:maprange:cache.storages",
    "", ["result[_]"],
    [".snapshot"], some "20e6e90d7ec7"⟩,
  ⟨"types/message/msghelper.go:baseHelper.ExtractTxsFromResponse:range?:v.Txs",
    "", ["res"],
    [".GetTx", "append"], none⟩,
  ⟨"types/receipt.go:FilterInfo.GetExArgFilter:maprange:argMap",
    "return", ["argFilter[_].argNo", "argFilter[_].value", "i"],
    ["errors.New", "int", "strconv.ParseInt"], none⟩,
  ⟨"types/receipt.go:checkSameMap:maprange:value",
    "return", [],
    ["checkValue"], none⟩
]

/-- Callee names that write block state, receipts or the state database (by name: a heuristic list, kept
generous). A loop classified `noState` must call none of them. -/
def stateWriters : List String := [
  ".SetData", ".DeleteData", ".PutState", ".AddBalance", ".SubBalance", ".SetNonce", ".SetCode", ".SetStorageRoot",
  "statedb.StageContractState", "state.SendBalance", ".Set", ".Delete", ".put", ".Put", ".push", ".AddReceipt",
  ".AddInternalOps", ".AddEvent", ".Update", ".update", ".Commit", ".commit", ".stage", ".Stage", ".write",
  ".Rollback", ".rollback", ".Snapshot", ".snapshot", ".Apply", ".addVotingPower", ".addTotal", ".RemoveCache",
  "SendBlockReward", ".SendBlockReward", "sendRewardCoinbase", "sendVotingReward"]

/-- one generated row against one recorded row -/
def rowMatches (g : String × String × List String × List String × String) (r : LoopRow) : Bool :=
  g.1 == r.key && g.2.1 == r.exits && g.2.2.1 == r.writes && g.2.2.2.1 == r.calls &&
    (match r.pin with | none => true | some h => h == g.2.2.2.2)

/-- the generated rows and the recorded rows agree one by one (both lists are in ascending key order) -/
def loopsMatch : List (String × String × List String × List String × String) → List LoopRow → Bool
  | [], [] => true
  | g :: gs, r :: rs => rowMatches g r && loopsMatch gs rs
  | _, _ => false

/-- the generated rows that do not match (diagnostic message only) -/
def loopDiffs (gen : List (String × String × List String × List String × String)) : List String :=
  gen.filterMap fun g =>
    match loopTable.find? (fun r => r.key == g.1) with
    | none => some s!"{g.1}: no row in Aergo.Nondet.loopTable (body now: exits={g.2.1} writes={g.2.2.1} calls={g.2.2.2.1} fingerprint={g.2.2.2.2})"
    | some r => if rowMatches g r then none else
        some s!"{g.1}: the loop body changed since it was classified: exits {r.exits} -> {g.2.1}; writes {r.writes} -> {g.2.2.1}; calls {r.calls} -> {g.2.2.2.1}; fingerprint {r.pin} -> {g.2.2.2.2} (re-read the body, re-classify the site in Aergo.Nondet.table, update the row)"

def coverOf (k : String) : Option Cover := (table.find? (fun e => e.1 == k)).map (·.2)

/-- rows of sites classified `thm` carry a fingerprint -/
def thmRowsPinned : Bool :=
  loopTable.all fun r => match coverOf r.key with
    | some (.thm _) => r.pin.isSome
    | _ => true

/-- rows of sites classified `noState` call no state writer -/
def noStateRowsClean : Bool :=
  loopTable.all fun r => match coverOf r.key with
    | some (.noState _) => r.calls.all (fun c => !stateWriters.contains c)
    | _ => true

end Aergo.Nondet
