/-! # Nondet — where every syntactic source of nondeterminism of the consensus-critical packages goes (C02)

`tools/goext nondet` regenerates `Aergo.Gen.NondetSites.sites` from the current source on every run: every
`range` over a map (or over an expression whose type the extractor cannot resolve), every `.Range(f)` call,
`time.Now/Since/Until`, every use of package `rand`, every `go` statement and every `select` statement in
`chain`, `state`, `state/statedb`, `pkg/trie`, `contract/system`, `contract/name`, `contract/enterprise`,
`types`, `consensus/chain`, `fee`, `internal/merkle` and the Go files of `contract`.

This hand-kept table maps each site to

* `thm n`      – the theorem of `Props/C02.lean` proving that the modelled site does not depend on the iteration
                 order / on which branch of the `select` was taken (the theorem must exist: checked in `Props/C02`);
* `noState w`  – the reason why the site cannot feed the state root, the receipts or the receipts root
                 (logging, statistics, RPC queries, locks, explicitly seeded generators, code not on the block
                 execution path); argued by reading the code, not proved;
* `sampled w`  – goroutine scheduling, or code behind the VM stub that cannot be built in this sandbox: *not*
                 carried by a theorem; goroutines are sampled by the repeated real executions of harness c02 under
                 GOMAXPROCS 1, 4, 16.

`Props.C02.all_sites_covered` (by `decide`) says that every generated site has an entry (both lists are kept in
ascending order so that the check is one linear pass). A new `range` over a
map, a new goroutine, a new `time.Now` in these packages is a new key and breaks the build until somebody
classifies it here. Core Lean only. -/

namespace Aergo.Nondet

inductive Cover where
  | thm (name : String)
  | noState (why : String)
  | sampled (why : String)
deriving Repr, DecidableEq

def table : List (String × Cover) := [
  ("chain/chaindb.go:ChainDB.hardforkHeights:maprange:c",
    .noState "boot-time hardfork compatibility check: copies one map into another (content only); never part of block execution"),
  ("chain/chainhandle.go:ChainService.addBlockInternal:select:InAddBlock <- struct{}{}",
    .noState "acquires the chain lock (InAddBlock, capacity 1): mutual exclusion of block insertion, no data flows through the channel"),
  ("chain/chainservice.go:ChainWorker.Receive:range?:msg.StorageKeys",
    .noState "RPC query handler (GetStateAndProof): msg.StorageKeys is a []string of another package (ordered); read-only"),
  ("chain/debugger.go:Debugger.Check:go:crashRandom",
    .noState "crash-injection debugger, enabled by an environment variable in tests only"),
  ("chain/debugger.go:handleCrashRandom:go:crashRandom",
    .noState "crash-injection debugger, enabled by an environment variable in tests only"),
  ("chain/reorg.go:ChainService.reorg:time:time.Now",
    .noState "duration of a reorganisation for the log/statistics"),
  ("chain/reorg.go:ChainService.reorg:time:time.Since",
    .noState "duration of a reorganisation for the log/statistics"),
  ("chain/reorg.go:reorganizer.swapTxMapping:maprange:oldTxs",
    .thm "Aergo.Props.C02.swapDeletes_perm_invariant"),
  ("chain/reorg.go:reorganizer.swapTxMapping:maprange:oldTxs#1",
    .thm "Aergo.Props.C02.swapReoffer_perm"),
  ("chain/signVerifier.go:NewSignVerifier:go:sv.verifyTxLoop",
    .sampled "parallel tx signature verification: the block-level result is a conjunction (failed := failed || !ok over all txs); goroutine scheduling is sampled by the repeated real executions, not carried by a theorem"),
  ("chain/signVerifier.go:SignVerifier.RequestVerifyTxs:go:func() { for i, tx := range txs { sv.workCh <- verifyWork{idx: i, tx: tx, useMempool: useM…",
    .sampled "parallel tx signature verification: the block-level result is a conjunction (failed := failed || !ok over all txs); goroutine scheduling is sampled by the repeated real executions, not carried by a theorem"),
  ("chain/signVerifier.go:SignVerifier.RequestVerifyTxs:go:func() { var doneCnt = 0 failed := false sv.totalHit = 0 start := time.Now() LOOP: for { s…",
    .sampled "parallel tx signature verification: the block-level result is a conjunction (failed := failed || !ok over all txs); goroutine scheduling is sampled by the repeated real executions, not carried by a theorem"),
  ("chain/signVerifier.go:SignVerifier.RequestVerifyTxs:select:result := <-sv.doneCh",
    .sampled "parallel tx signature verification: the block-level result is a conjunction (failed := failed || !ok over all txs); goroutine scheduling is sampled by the repeated real executions, not carried by a theorem"),
  ("chain/signVerifier.go:SignVerifier.RequestVerifyTxs:time:time.Now",
    .noState "elapsed-time logging of signature verification"),
  ("chain/signVerifier.go:SignVerifier.RequestVerifyTxs:time:time.Now#1",
    .noState "elapsed-time logging of signature verification"),
  ("chain/signVerifier.go:SignVerifier.WaitDone:select:res := <-sv.resultCh",
    .sampled "parallel tx signature verification: the block-level result is a conjunction (failed := failed || !ok over all txs); goroutine scheduling is sampled by the repeated real executions, not carried by a theorem"),
  ("chain/stat.go:stReorg.updateEvent:time:time.Now",
    .noState "statistics timestamp"),
  ("chain/stubchain.go:StubBlockChain.GenAddBlock:time:time.Now",
    .noState "test stub chain (not linked into block execution)"),
  ("chain/stubchain.go:StubBlockChain.GenAddBlock:time:time.Now#1",
    .noState "test stub chain (not linked into block execution)"),
  ("chain/stubchain.go:StubBlockChain.GenAddBlock:time:time.Now#2",
    .noState "test stub chain (not linked into block execution)"),
  ("consensus/chain/block.go:SyncChain:select:err := <-notiC",
    .noState "waits for the syncer to finish"),
  ("consensus/chain/tx.go:BlockGenerator.GatherTXs:range?:txIn",
    .noState "txIn is a []types.Transaction (slice of an interface type of another package): ordered"),
  ("consensus/chain/tx.go:BlockGenerator.GatherTXs:select:<-g.ctx.Done() | default",
    .thm "Aergo.Props.C02.producer_validator_agree"),
  ("consensus/chain/tx.go:LockNonblock:select:chain.InAddBlock <- struct{}{} | default",
    .noState "try-acquire of the chain lock"),
  ("contract/callback.go:deleteHandles:maprange:handleVals",
    .sampled "behind the VM stub (cgo, not buildable here): deletes the SQLite callback handles of one connection, per-key deletes"),
  ("contract/enterprise/config.go:GetConf:maprange:enterpriseKeyDict",
    .noState "RPC query GetEnterpriseConfig(\"PERMISSIONS\"): lists the keys of a constant table; read-only"),
  ("contract/hook_dbg.go:PrintBreakPoints:maprange:contract_info_map",
    .noState "debug build tag only (breakpoints of the Lua debugger)"),
  ("contract/hook_dbg.go:ResetBreakPoints:maprange:contract_info_map",
    .noState "debug build tag only (breakpoints of the Lua debugger)"),
  ("contract/hook_dbg.go:ResetContractInfo:maprange:contract_info_map",
    .noState "debug build tag only (breakpoints of the Lua debugger)"),
  ("contract/lstate_factory.go:StartLStateFactory:go:statePool",
    .sampled "behind the VM stub: pool of pre-allocated Lua states handed out through a channel; which state object a call gets is scheduling dependent, states are reset before reuse"),
  ("contract/lstate_factory.go:statePool:select:state := <-freeCh",
    .sampled "behind the VM stub: pool of pre-allocated Lua states handed out through a channel; which state object a call gets is scheduling dependent, states are reset before reuse"),
  ("contract/sqlite3.go:SQLiteStmt.exec:go:func(db *C.sqlite3) { select { case <-done: case <-ctxdone: select { case <-done: default:…",
    .sampled "behind the VM stub: context-cancellation watchers of SQLite statements"),
  ("contract/sqlite3.go:SQLiteStmt.exec:select:<-done | <-ctxdone",
    .sampled "behind the VM stub: context-cancellation watchers of SQLite statements"),
  ("contract/sqlite3.go:SQLiteStmt.exec:select:<-done | default",
    .sampled "behind the VM stub: context-cancellation watchers of SQLite statements"),
  ("contract/sqlite3.go:SQLiteStmt.query:go:func(db *C.sqlite3) { select { case <-ctxdone: select { case <-rows.done: default: C.sqlit…",
    .sampled "behind the VM stub: context-cancellation watchers of SQLite statements"),
  ("contract/sqlite3.go:SQLiteStmt.query:select:<-ctxdone | <-rows.done",
    .sampled "behind the VM stub: context-cancellation watchers of SQLite statements"),
  ("contract/sqlite3.go:SQLiteStmt.query:select:<-rows.done | default",
    .sampled "behind the VM stub: context-cancellation watchers of SQLite statements"),
  ("contract/statesql.go:CloseDatabase:maprange:database.DBs",
    .sampled "behind the VM stub: closes every open SQL database"),
  ("contract/statesql.go:SaveRecoveryPoint:maprange:database.DBs",
    .sampled "behind the VM stub: one PutState per open SQL database, each on its own contract account (keyed update, the shape of Aergo.Props.C02.updateStorage_perm_invariant); a failing commit returns early, which makes the set of saved points order dependent only on an SQL error"),
  ("contract/system/voteresult.go:VoteResult.buildVoteList:maprange:vr.rmap",
    .thm "Aergo.Props.C02.buildVoteList_order_invariant"),
  ("contract/system/vprt.go:topVoters.dump:range?:tv.members.Values()",
    .noState "RPC/debug dump of the rank; members.Values() is the in-order slice of a red-black tree"),
  ("contract/system/vprt.go:vpr.apply:maprange:updRows",
    .thm "Aergo.Props.C02.vprRowWrites_perm_invariant"),
  ("contract/system/vprt.go:vpr.apply:maprange:v.changes",
    .thm "Aergo.Props.C02.vprApply_perm_invariant"),
  ("contract/system/vprt.go:vpr.pickVotingRewardWinner:rand:rand.New",
    .noState "explicitly seeded: rand.New(rand.NewSource(seed)) with seed = first 8 bytes of the previous block hash; a seeded math/rand source is a pure function of the seed"),
  ("contract/system/vprt.go:vpr.pickVotingRewardWinner:rand:rand.NewSource",
    .noState "explicitly seeded: rand.New(rand.NewSource(seed)) with seed = first 8 bytes of the previous block hash; a seeded math/rand source is a pure function of the seed"),
  ("contract/vm.go:Call:time:time.Now",
    .noState "elapsed-time logging of a contract call"),
  ("contract/vm.go:Call:time:time.Now#1",
    .noState "elapsed-time logging of a contract call"),
  ("contract/vm.go:executor.closeQuerySql:maprange:ctx.callState",
    .sampled "behind the VM stub: closes per-contract SQL handles"),
  ("contract/vm.go:executor.commitCalledContract:maprange:ctx.callState",
    .sampled "behind the VM stub: per called contract StageContractState + PutState, keyed by distinct contract ids (the shape of updateStorage_perm_invariant)"),
  ("contract/vm.go:executor.commitCalledContract:maprange:ctx.callState#1",
    .sampled "behind the VM stub: per called contract StageContractState + PutState, keyed by distinct contract ids (the shape of updateStorage_perm_invariant)"),
  ("contract/vm.go:executor.rollbackToSavepoint:maprange:ctx.callState",
    .sampled "behind the VM stub: per called contract SQL savepoint rollback"),
  ("contract/vm.go:setRandomSeed:rand:rand.New",
    .noState "explicitly seeded from the previous block hash and the tx hash (system.random of a contract)"),
  ("contract/vm.go:setRandomSeed:rand:rand.NewSource",
    .noState "explicitly seeded from the previous block hash and the tx hash (system.random of a contract)"),
  ("contract/vm.go:setRandomSeed:rand:rand.NewSource#1",
    .noState "explicitly seeded from the previous block hash and the tx hash (system.random of a contract)"),
  ("contract/vm.go:setRandomSeed:rand:rand.Source",
    .noState "explicitly seeded from the previous block hash and the tx hash (system.random of a contract)"),
  ("contract/vm.go:toLuaTable:maprange:tab",
    .sampled "behind the VM stub: fills a Lua table from a JSON object in map order; whether Lua-side iteration order can observe insertion order is inside LuaJIT (not modelled)"),
  ("contract/vm_callback.go:luaCheckTimeout:select:<-ctx.execCtx.Done() | default",
    .thm "Aergo.Props.C02.producer_validator_agree"),
  ("pkg/trie/trie.go:Trie.updateParallel:go:s.update",
    .sampled "two goroutines update the left and the right subtree on disjoint key ranges and disjoint batch slots; as two independent recursive calls the result is the canonical tree of the resulting map (Aergo.Props.C10.history_independent); the interleaving itself is sampled under GOMAXPROCS 1/4/16, not carried by a theorem"),
  ("pkg/trie/trie.go:Trie.updateParallel:go:s.update#1",
    .sampled "two goroutines update the left and the right subtree on disjoint key ranges and disjoint batch slots; as two independent recursive calls the result is the canonical tree of the resulting map (Aergo.Props.C10.history_independent); the interleaving itself is sampled under GOMAXPROCS 1/4/16, not carried by a theorem"),
  ("pkg/trie/trie_cache.go:CacheDB.commit:maprange:c.updatedNodes",
    .thm "Aergo.Props.C02.dbSets_perm_invariant"),
  ("pkg/trie/trie_revert.go:Trie.deleteSubTree:go:s.deleteSubTree",
    .noState "Trie.Revert path (parallel deletion of abandoned nodes from the cache/db): not called by block execution or by StateDB (aergo reverts by re-opening a state at an older root)"),
  ("pkg/trie/trie_revert.go:Trie.deleteSubTree:go:s.deleteSubTree#1",
    .noState "Trie.Revert path (parallel deletion of abandoned nodes from the cache/db): not called by block execution or by StateDB (aergo reverts by re-opening a state at an older root)"),
  ("pkg/trie/trie_revert.go:Trie.maybeDeleteSubTree:go:s.maybeDeleteSubTree",
    .noState "Trie.Revert path (parallel deletion of abandoned nodes from the cache/db): not called by block execution or by StateDB (aergo reverts by re-opening a state at an older root)"),
  ("pkg/trie/trie_revert.go:Trie.maybeDeleteSubTree:go:s.maybeDeleteSubTree#1",
    .noState "Trie.Revert path (parallel deletion of abandoned nodes from the cache/db): not called by block execution or by StateDB (aergo reverts by re-opening a state at an older root)"),
  ("pkg/trie/trie_tools.go:Trie.loadCache:go:s.loadCache",
    .noState "LoadCache warms the in-memory node cache from the db at start-up: set insertion under a lock, content-addressed nodes"),
  ("pkg/trie/trie_tools.go:Trie.loadCache:go:s.loadCache#1",
    .noState "LoadCache warms the in-memory node cache from the db at start-up: set insertion under a lock, content-addressed nodes"),
  ("state/chain.go:ChainStateDB.SetGenesis:maprange:genesis.Balance",
    .thm "Aergo.Props.C02.genesisBalances_perm_invariant"),
  ("state/statedb/dump.go:Dump.MarshalJSON:maprange:d.Accounts",
    .noState "debug/RPC dump: JSON rendering of a state dump; read-only"),
  ("state/statedb/dump.go:DumpAccount.MarshalJSON:maprange:d.Storage",
    .noState "debug/RPC dump: JSON rendering of a state dump; read-only"),
  ("state/statedb/statebuffer.go:bufferIndex.rollback:maprange:*idxs",
    .thm "Aergo.Props.C02.idxRollback_perm_invariant"),
  ("state/statedb/statebuffer.go:stateBuffer.export:maprange:buffer.indexes",
    .thm "Aergo.Props.C02.export_perm_invariant"),
  ("state/statedb/statebuffer.go:stateBuffer.stage:maprange:buffer.indexes",
    .thm "Aergo.Props.C02.dbSets_perm_invariant"),
  ("state/statedb/statedb.go:StateDB.Commit:maprange:states.Cache.storages",
    .thm "Aergo.Props.C02.dbSets_perm_invariant"),
  ("state/statedb/statedb.go:StateDB.updateStorage:maprange:states.Cache.storages",
    .thm "Aergo.Props.C02.updateStorage_perm_invariant"),
  ("state/statedb/storage.go:storageCache.Rollback:maprange:cache.storages",
    .thm "Aergo.Props.C02.cacheRollback_perm_invariant"),
  ("state/statedb/storage.go:storageCache.Snapshot:maprange:cache.storages",
    .thm "Aergo.Props.C02.cacheSnapshot_perm_invariant"),
  ("types/genesis.go:GetDefaultGenesis:time:time.Now",
    .noState "default/test genesis constructors (timestamp of a new genesis file), not block execution"),
  ("types/genesis.go:GetTestGenesis:time:time.Now",
    .noState "default/test genesis constructors (timestamp of a new genesis file), not block execution"),
  ("types/receipt.go:FilterInfo.GetExArgFilter:maprange:argMap",
    .noState "event filter matching for RPC subscriptions (all-quantified comparison of two maps); read-only"),
  ("types/receipt.go:checkSameMap:maprange:value",
    .noState "event filter matching for RPC subscriptions (all-quantified comparison of two maps); read-only")
]

/-- the keys of the table; kept in ascending (byte) order, the order in which the extractor emits its sites -/
def keys : List String := table.map (·.1)

/-- the sites of `sites` that have no entry in the table (quadratic; used for the diagnostic message only) -/
def unmapped (sites : List String) : List String := sites.filter (fun s => !keys.any (fun k => k == s))

/-- Linear check used by the theorem: every site occurs among the keys, in the same relative order. -/
def coveredInOrder : List String → List String → Bool
  | [], _ => true
  | _ :: _, [] => false
  | s :: ss, k :: ks => if s == k then coveredInOrder ss ks else coveredInOrder (s :: ss) ks

/-- theorem names the table refers to -/
def citedTheorems : List String := table.filterMap (fun e => match e.2 with | .thm n => some n | _ => none)

end Aergo.Nondet
