/-
Model layer `Notice` (C18, part 3 at the sync manager): `p2p/syncmanager.go` behind the handlers of
`p2p/subproto/bp.go` (BlockProducedNotice), `block.go` (NewBlockNotice) and `getblock.go`
(GetBlockResponse without a waiting receiver).

The sync manager keeps one table of "seen" block identifiers (`blkCache`, an LRU of
`DefaultGlobalBlockCacheSize` entries). The key is the identifier the *sender announces*
(`block.GetHash()` / `data.BlockHash`). The value is a placeholder (put by a NewBlockNotice) or a
digest of the whole content of the block a BlockProducedNotice carried (`blockContentDigest`,
repair 27f3484f): a BlockProducedNotice is a duplicate only of a placeholder or of the very same
content; a NewBlockNotice is dropped only on a placeholder (repair 3a7d8024). `Get`/`Add` move the
entry to the front, `Peek` does not.

The header digest is never recomputed, so an arrival is described by the announced identifier, a
token for its content (equal tokens = equal content; the harness computes it) and the outcome of the
checks made around the table.
-/
namespace Aergo.Notice

abbrev Bytes := List UInt8

inductive Val
  | placeholder            -- `cachePlaceHolder`
  | digest (c : Bytes)     -- `blockContentDigest(block)`
deriving Repr, DecidableEq

/-- `syncManager.blkCache`: most recently used first -/
structure Seen where
  cap : Nat
  ents : List (Bytes × Val)
deriving Repr, DecidableEq

def Seen.lookup (s : Seen) (id : Bytes) : Option Val := (s.ents.find? (·.1 == id)).map (·.2)

/-- `lru.Cache.Add`: a present key gets the new value and moves to the front; a new key is put in
front and the oldest entry is dropped when the table is full -/
def Seen.add (s : Seen) (id : Bytes) (v : Val) : Seen :=
  { s with ents := ((id, v) :: s.ents.filter (·.1 != id)).take s.cap }

/-- `lru.Cache.Get`: a hit moves the entry to the front -/
def Seen.get (s : Seen) (id : Bytes) : Option Val × Seen :=
  match s.lookup id with
  | none => (none, s)
  | some v => (some v, { s with ents := (id, v) :: s.ents.filter (·.1 != id) })

inductive Arr
  /-- BlockProducedNotice: identifier field non-empty; 32 bytes long; `checkSender` (the peer is the
  producer named by the header's public key, or its certified agent); `block.Size() ≤ MaxBlockSize`;
  content token -/
  | bp (id : Bytes) (present lenOK senderOK sizeOK : Bool) (content : Bytes)
  /-- NewBlockNotice: identifier 32 bytes long; already in this peer's own notice cache
  (`RemotePeer.UpdateBlkCache`); the chain already has the block -/
  | nb (id : Bytes) (lenOK peerSeen chainHas : Bool)
  /-- GetBlockResponse nobody waits for: status OK; the blocks (carried identifier, size ok) -/
  | gbr (statusOK : Bool) (blocks : List (Bytes × Bool))
deriving Repr, DecidableEq

inductive Act
  | nothing
  | forward (id : Bytes)   -- `AddBlock` to the chain service
  | request (id : Bytes)   -- `GetBlockInfos` back to the notifier
deriving Repr, DecidableEq

/-- handler + sync manager for one arrival -/
def step (s : Seen) (a : Arr) : Seen × Act :=
  match a with
  | .bp id present lenOK senderOK sizeOK c =>
    if !(present && lenOK && senderOK) then (s, .nothing)
    else if !sizeOK then (s, .nothing)
    else
      match s.get id with
      | (some v, s1) =>
        if v == .placeholder || v == .digest c then (s1, .nothing)
        else (s1.add id (.digest c), .forward id)
      | (none, _) => (s.add id (.digest c), .forward id)
  | .nb id lenOK peerSeen chainHas =>
    if !(lenOK && !peerSeen) then (s, .nothing) else
    -- `Peek`: no refresh. A placeholder: already asked for. A content digest only says that *some* block carrying the
    -- identifier went to the chain service (repair 3a7d8024): go on; nothing: remember a placeholder.
    match s.lookup id with
    | some .placeholder => (s, .nothing)
    | some (.digest _) => if chainHas then (s, .nothing) else (s, .request id)
    | none => if chainHas then (s.add id .placeholder, .nothing) else (s.add id .placeholder, .request id)
  | .gbr statusOK blocks =>
    if !statusOK then (s, .nothing) else
    match blocks with
    | [(id, sizeOK)] => if sizeOK then (s, .forward id) else (s, .nothing)
    | _ => (s, .nothing)

/-- a whole session -/
def run (s : Seen) : List Arr → Seen × List Act
  | [] => (s, [])
  | a :: as =>
    let r := step s a
    let rs := run r.1 as
    (rs.1, r.2 :: rs.2)

end Aergo.Notice
