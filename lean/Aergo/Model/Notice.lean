/-
Model layer `Notice` (C18, part 3 at the sync manager): `p2p/syncmanager.go` behind the handlers of
`p2p/subproto/bp.go` (BlockProducedNotice), `block.go` (NewBlockNotice) and `getblock.go`
(GetBlockResponse without a waiting receiver).

The sync manager keeps one set of "seen" block identifiers (`blkCache`, an LRU of
`DefaultGlobalBlockCacheSize` entries, `ContainsOrAdd`: a hit does not refresh the entry). The key is
the identifier the *sender announces* (`block.GetHash()` / `data.BlockHash`); the content of a block
is never looked at, so an arrival is described by that identifier and the outcome of the checks made
before and after the set is consulted.
-/
namespace Aergo.Notice

abbrev Bytes := List UInt8

/-- `syncManager.blkCache`: most recently added first -/
structure Seen where
  cap : Nat
  ids : List Bytes
deriving Repr, DecidableEq

/-- `lru.Cache.ContainsOrAdd` -/
def Seen.containsOrAdd (s : Seen) (id : Bytes) : Bool × Seen :=
  if s.ids.contains id then (true, s) else (false, { s with ids := (id :: s.ids).take s.cap })

inductive Arr
  /-- BlockProducedNotice: identifier field non-empty; 32 bytes long; `checkSender` (the peer is the
  producer named by the header's public key, or its certified agent); `block.Size() ≤ MaxBlockSize` -/
  | bp (id : Bytes) (present lenOK senderOK sizeOK : Bool)
  /-- NewBlockNotice: identifier 32 bytes long; already in this peer's own notice cache
  (`RemotePeer.UpdateBlkCache`); the chain already has the block -/
  | nb (id : Bytes) (lenOK peerSeen chainHas : Bool)
  /-- GetBlockResponse nobody waits for: status OK; the blocks (carried identifier, size ok) -/
  | gbr (statusOK : Bool) (blocks : List (Bytes × Bool))
deriving Repr, DecidableEq

inductive Act
  | nothing
  | forward (id : Bytes)   -- `AddBlock` to the chain service
  | request (id : Bytes)   -- `GetBlockInfos` back to the notifier
deriving Repr, DecidableEq

/-- does the arrival get as far as the seen set? -/
def Arr.reaches : Arr → Bool
  | .bp _ present lenOK senderOK _ => present && lenOK && senderOK
  | .nb _ lenOK peerSeen _ => lenOK && !peerSeen
  | .gbr _ _ => false

/-- the identifier an arrival announces -/
def Arr.id : Arr → Bytes
  | .bp id _ _ _ _ => id
  | .nb id _ _ _ => id
  | .gbr _ _ => []

/-- handler + sync manager for one arrival -/
def step (s : Seen) (a : Arr) : Seen × Act :=
  match a with
  | .bp id present lenOK senderOK sizeOK =>
    if !(present && lenOK && senderOK) then (s, .nothing) else
    let (was, s') := s.containsOrAdd id
    if was then (s', .nothing)
    else if !sizeOK then (s', .nothing)
    else (s', .forward id)
  | .nb id lenOK peerSeen chainHas =>
    if !(lenOK && !peerSeen) then (s, .nothing) else
    let (was, s') := s.containsOrAdd id
    if was then (s', .nothing)
    else if chainHas then (s', .nothing)
    else (s', .request id)
  | .gbr statusOK blocks =>
    if !statusOK then (s, .nothing) else
    match blocks with
    | [(id, sizeOK)] => if sizeOK then (s, .forward id) else (s, .nothing)
    | _ => (s, .nothing)

/-- a whole session -/
def run (s : Seen) : List Arr → Seen × List Act
  | [] => (s, [])
  | a :: as =>
    let (s', x) := step s a
    let (s'', xs) := run s' as
    (s'', x :: xs)

end Aergo.Notice
