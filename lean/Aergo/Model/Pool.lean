/-
Model layer `Pool` (C13): the transaction pool of /repo/mempool.

Transcribed from mempool/txlist.go (`txList`: search, continuous, Put, FilterByState,
updateReady, RemoveTx, Get) and mempool/mempool.go (`MemPool`: put, acquireMemPoolList,
releaseMemPoolList, setStateDB, removeOnBlockArrival, evictTransactions, removeTx, get, exist,
Size, getUnconfirmed) — what the code does, including its quirks:

* `Put` inserts at the `sort.Search` position and extends `ready` with the loop
  `for ; index < len; index++ { if !continuous(index) break; ready++ }`, where `continuous(index)`
  compares `list[index]` with `list[ready-1]` (or the base nonce when `ready = 0`);
* `FilterByState` returns early when the nonce did not change, otherwise re-validates every
  transaction against the new state but, unless the balance decreased (`balCheck`), stops at the first
  nonce-too-high transaction and keeps the rest unvalidated;
* `setStateDB` returns `reorged = true` on every path since repair af8aff9a (before it: `false` when
  `new ≠ best ∧ parent ≠ best`, i.e. exactly on the first block of a reorganisation), so every list
  is re-checked on every notification; the dirty-account short-cut of `removeOnBlockArrival`
  (`!reorg && !dirty[acc]`) is still transcribed (`rechecked`) but dormant;
* `removeTx` takes the list key from the pooled transaction's verified address when it has one
  (repair ac6d27df), else from the sender field of the transaction handed in;
* counters are updated incrementally (`orphan -= diff`, `length--`), never recomputed;
* `getUnconfirmed` creates (and keeps) an empty list for an account it is asked about.

Abstractions: an account is a number, a transaction is (account, nonce, hash id, cost); `cost` is
what `ValidateWithSenderState` compares with the balance (amount, the fee part being zero because
the pool under test runs with `fee.EnableZeroFee()` as the repo's own pool tests do). uint64 nonces
and Go `int` counters are unbounded `Nat`/`Int` here (no wrap-around below 2^63).
Core Lean only (linked into `model-c13`).
-/

namespace Aergo.Pool

/-- A pooled transaction: the account it is filed under (the sender address; for a transaction whose
sender field is an account *name*, the verified address the name resolves to), nonce, hash identifier,
amount(+fee) it needs, and whether the sender field is a name (`HasVerifedAccount`). -/
structure Tx where
  acc : Nat
  nonce : Nat
  id : Nat
  cost : Nat
  named : Bool
deriving DecidableEq, Repr, Inhabited

/-- `types.State` as far as the pool reads it. -/
structure Acct where
  nonce : Nat
  bal : Nat
deriving DecidableEq, Repr, Inhabited

/-- `txList`: base state, nonce-ordered list, number of ready (executable) transactions. -/
structure TxList where
  base : Acct
  list : List Tx
  ready : Nat
deriving Repr, DecidableEq

/-- Outcomes of `ValidateWithSenderState` other than success. -/
inductive VErr | low | insufficient | high
deriving DecidableEq, Repr

/-- `transaction.ValidateWithSenderState` for a plain transfer with zero fee:
nonce too low, then balance, then nonce too high — in this order. -/
def validate (st : Acct) (t : Tx) : Option VErr :=
  if st.nonce + 1 > t.nonce then some .low
  else if st.bal < t.cost then some .insufficient
  else if st.nonce + 1 < t.nonce then some .high
  else none

/-- `list[i].GetBody().GetNonce()`; index `i` is in range wherever the code evaluates it
(lemma `LInv.ready_le`, and `index < len` in the loops); 0 stands for the Go panic otherwise. -/
def nonceAt (l : List Tx) (i : Nat) : Nat :=
  match l[i]? with
  | some t => t.nonce
  | none => 0

/-- `sort.Search(n, f)` with `f i = list[i].nonce >= key`: the loop
`for i < j { h := (i+j)/2; if !f(h) { i = h+1 } else { j = h } }; return i`. -/
def searchGo (l : List Tx) (key : Nat) (i j : Nat) : Nat :=
  if i < j then
    let h := (i + j) / 2
    if ¬ (nonceAt l h ≥ key) then searchGo l key (h + 1) j else searchGo l key i h
  else i
termination_by j - i
decreasing_by all_goals omega

/-- `txList.search`: position and whether the nonce at that position equals the key. -/
def search (l : List Tx) (key : Nat) : Nat × Bool :=
  let ind := searchGo l key 0 l.length
  (ind, decide (ind < l.length) && (nonceAt l ind == key))

/-- `txList.continuous(index)` with the fields passed explicitly. -/
def contAt (baseNonce : Nat) (l : List Tx) (ready index : Nat) : Bool :=
  let lft := if ready > 0 then nonceAt l (ready - 1) else baseNonce
  lft + 1 == nonceAt l index

/-- The loop `for ; index < len(list); index++ { if !continuous(index) {break}; ready++ }`;
returns the final `ready`. `updateReady` is this loop started at `ready = 0, index = 0`. -/
def extendGo (baseNonce : Nat) (l : List Tx) (ready index : Nat) : Nat :=
  if index < l.length then
    if contAt baseNonce l ready index then extendGo baseNonce l (ready + 1) (index + 1) else ready
  else ready
termination_by l.length - index
decreasing_by omega

/-- `txList.updateReady`. -/
def updateReady (baseNonce : Nat) (l : List Tx) : Nat := extendGo baseNonce l 0 0

inductive PutErr | low | same
deriving DecidableEq, Repr

/-- `txList.Put`: (new list, error or the orphan-count decrease `oldCnt - newCnt`). -/
def TxList.put (L : TxList) (tx : Tx) : TxList × Except PutErr Int :=
  if tx.nonce ≤ L.base.nonce then (L, .error .low) else
  let index := (search L.list tx.nonce).1
  if (search L.list tx.nonce).2 then (L, .error .same) else
  let oldCnt : Int := (L.list.length : Int) - L.ready
  let list' := L.list.take index ++ tx :: L.list.drop index
  let ready' := extendGo L.base.nonce list' L.ready index
  let newCnt : Int := (list'.length : Int) - ready'
  ({ L with list := list', ready := ready' }, .ok (oldCnt - newCnt))

/-- The body of the `for i, x := range tl.list` loop of `FilterByState`: (left, removed). -/
def filterGo (st : Acct) (balCheck : Bool) : List Tx → List Tx × List Tx
  | [] => ([], [])
  | x :: rest =>
    match validate st x with
    | none => let r := filterGo st balCheck rest; (x :: r.1, r.2)
    | some .high =>
      if !balCheck then (x :: rest, [])            -- left = append(left, list[i:]...); break
      else let r := filterGo st balCheck rest; (x :: r.1, r.2)
    | some _ => let r := filterGo st balCheck rest; (r.1, x :: r.2)

/-- `txList.FilterByState`: (new list, `oldCnt - newCnt`, removed transactions). -/
def TxList.filter (L : TxList) (st : Acct) : TxList × Int × List Tx :=
  if L.base.nonce = st.nonce then ({ L with base := st }, 0, []) else
  let balCheck := decide (L.base.bal > st.bal)
  let oldCnt : Int := (L.list.length : Int) - L.ready
  let r := filterGo st balCheck L.list
  let ready' := updateReady st.nonce r.1
  let newCnt : Int := (r.1.length : Int) - ready'
  ({ base := st, list := r.1, ready := ready' }, oldCnt - newCnt, r.2)

/-- Remove the first transaction with hash `id`: (it, the rest). -/
def removeFirst (id : Nat) : List Tx → Option (Tx × List Tx)
  | [] => none
  | x :: rest =>
    if x.id = id then some (x, rest)
    else match removeFirst id rest with
      | none => none
      | some (y, r) => some (y, x :: r)

/-- `txList.RemoveTx`: (new list, `oldLen - newLen - 1` with Len = ready, removed tx) or unchanged. -/
def TxList.remove (L : TxList) (id : Nat) : TxList × Int × Option Tx :=
  match removeFirst id L.list with
  | none => (L, 0, none)
  | some (x, l') =>
    let ready' := updateReady L.base.nonce l'
    ({ L with list := l', ready := ready' }, (L.ready : Int) - ready' - 1, some x)

/-- `txList.Get`: the ready prefix. -/
def TxList.get (L : TxList) : List Tx := L.list.take L.ready

/-! ### The pool -/

/-- `MemPool`: `pool` (a Go map: here an association list, one entry per key), the hash index
`cache`, the counters, the best block id, the chain id hash, and the account states visible
through `mp.stateDB` at its current root (an absent account reads as nonce 0, balance 0). -/
structure Pool where
  lists : List (Nat × TxList)
  cache : List Tx
  length : Int
  orphan : Int
  best : Nat
  chain : Nat
  state : Nat → Acct

def Pool.init : Pool :=
  { lists := [], cache := [], length := 0, orphan := 0, best := 0, chain := 0, state := fun _ => ⟨0, 0⟩ }

def lookup (a : Nat) : List (Nat × TxList) → Option TxList
  | [] => none
  | (k, L) :: r => if k = a then some L else lookup a r

/-- `mp.pool[a] = L` for a key already present (first match replaced). -/
def setL (a : Nat) (L : TxList) : List (Nat × TxList) → List (Nat × TxList)
  | [] => []
  | (k, M) :: r => if k = a then (k, L) :: r else (k, M) :: setL a L r

/-- `delete(mp.pool, a)`. -/
def delL (a : Nat) (ls : List (Nat × TxList)) : List (Nat × TxList) := ls.filter (fun e => e.1 ≠ a)

def keys (ls : List (Nat × TxList)) : List Nat := ls.map (·.1)

/-- `mp.cache.Load(id)` hit? -/
def cacheHas (id : Nat) (c : List Tx) : Bool := c.any (fun t => t.id == id)
/-- `mp.cache.Delete(id)`. -/
def cacheDel (id : Nat) (c : List Tx) : List Tx := c.filter (fun t => t.id ≠ id)
/-- `mp.cache.Store(id, tx)` (overwrites). -/
def cacheStore (t : Tx) (c : List Tx) : List Tx := t :: cacheDel t.id c

/-- `acquireMemPoolList`: the account's list, created from the current state if absent. -/
def Pool.acquire (P : Pool) (a : Nat) : Pool × TxList :=
  match lookup a P.lists with
  | some L => (P, L)
  | none =>
    let L : TxList := { base := P.state a, list := [], ready := 0 }
    ({ P with lists := P.lists ++ [(a, L)] }, L)

/-- `releaseMemPoolList`: drop the account's list if it is empty. -/
def Pool.release (P : Pool) (a : Nat) : Pool :=
  match lookup a P.lists with
  | some L => if L.list.isEmpty then { P with lists := delL a P.lists } else P
  | none => P

inductive PutRes | ok | already | low | insufficient | same
deriving DecidableEq, Repr

/-- `MemPool.put` (after signature verification; recipient checks pass for the plain transfers modelled). -/
def Pool.put (P : Pool) (tx : Tx) : Pool × PutRes :=
  if cacheHas tx.id P.cache then (P, .already) else
  match validate (P.state tx.acc) tx with
  | some .low => (P, .low)
  | some .insufficient => (P, .insufficient)
  | _ =>
    let P1 := (P.acquire tx.acc).1
    let L := (P.acquire tx.acc).2
    match (L.put tx).2 with
    | .error e => (P1.release tx.acc, match e with | .low => .low | .same => .same)
    | .ok diff =>
      let P2 := { P1 with lists := setL tx.acc (L.put tx).1 P1.lists, orphan := P1.orphan - diff,
                          cache := cacheStore tx P1.cache, length := P1.length + 1 }
      (P2.release tx.acc, .ok)

/-- The body of `MemPool.removeTx` once the list key is known: acquire, `RemoveTx`, `orphan += n`,
release, `cache.Delete`, `length--` (the last two also when the list did not hold the transaction). -/
def Pool.removeAt (P : Pool) (key id : Nat) : Pool :=
  let P1 := (P.acquire key).1
  let L := (P.acquire key).2
  let P2 := { P1 with lists := setL key (L.remove id).1 P1.lists, orphan := P1.orphan + (L.remove id).2.1 }
  let P3 := P2.release key
  { P3 with cache := cacheDel id P3.cache, length := P3.length - 1 }

/-- The list key `removeTx` uses: the account field `a` of the transaction handed in, unless the pooled
transaction with that hash was filed under a verified address (name sender): then that address. -/
def Pool.removeKey (P : Pool) (a id : Nat) : Nat :=
  match P.cache.find? (fun t => t.id == id) with
  | some t => if t.named then t.acc else a
  | none => a

/-- `MemPool.removeTx(tx)`: `a` is the account field of the given tx, `id` its hash. -/
def Pool.removeTx (P : Pool) (a id : Nat) : Pool × Bool :=
  if !cacheHas id P.cache then (P, false) else (P.removeAt (P.removeKey a id) id, true)

/-- `for _, tx := range txs { mp.cache.Delete(id); mp.length-- }`. -/
def Pool.dropTxs (P : Pool) (txs : List Tx) : Pool :=
  txs.foldl (fun P t => { P with cache := cacheDel t.id P.cache, length := P.length - 1 }) P

/-- `setStateDB` (non-test configuration): (pool, reorged, forked). `σ` is the account state at
the block's state root. -/
def Pool.setStateDB (P : Pool) (new _parent chain : Nat) (σ : Nat → Acct) : Pool × Bool × Bool :=
  if new ≠ P.best then
    -- `reorged := true; if parent != best { reorged = true }` (af8aff9a; was `= false`)
    let reorged := true
    let P1 := { P with best := new, state := σ }
    if chain ≠ P.chain then ({ P1 with chain := chain }, reorged, true) else (P1, reorged, false)
  else (P, true, false)

/-- `resetAll`. -/
def Pool.resetAll (P : Pool) : Pool := { P with orphan := 0, length := 0, lists := [], cache := [] }

/-- One iteration of the `for acc, list := range mp.pool` loop of `removeOnBlockArrival`. -/
def Pool.filterAcc (P : Pool) (a : Nat) : Pool :=
  match lookup a P.lists with
  | none => P
  | some L =>
    let F := L.filter (P.state a)
    let P1 := { P with lists := setL a F.1 P.lists, orphan := P.orphan - F.2.1 }
    (P1.dropTxs F.2.2).release a

/-- Which accounts `removeOnBlockArrival` re-checks. -/
def rechecked (reorg : Bool) (dirty : List Nat) (a : Nat) : Bool := reorg || dirty.contains a

/-- `removeOnBlockArrival(block)`: `dirty` = senders and recipients of the block's transactions. -/
def Pool.blockArrival (P : Pool) (new parent chain : Nat) (dirty : List Nat) (σ : Nat → Acct) : Pool :=
  let S := P.setStateDB new parent chain σ
  if S.2.2 then S.1.resetAll else
  (keys S.1.lists).foldl (fun P a => if rechecked S.2.1 dirty a then P.filterAcc a else P) S.1

/-- One iteration of the eviction loop for an expired list. -/
def Pool.evictAcc (P : Pool) (a : Nat) : Pool :=
  match lookup a P.lists with
  | none => P
  | some L =>
    let P1 := P.dropTxs L.list
    { P1 with orphan := P1.orphan - ((L.list.length : Int) - L.ready), lists := delL a P1.lists }

/-- `evictTransactions`: `old` = accounts whose list was last modified before the eviction horizon. -/
def Pool.evict (P : Pool) (old : List Nat) : Pool :=
  (keys P.lists).foldl (fun P a => if old.contains a then P.evictAcc a else P) P

/-- `MemPool.get` without size cap: per account the ready prefix (map order = list order here). -/
def Pool.get (P : Pool) : List (Nat × List Tx) := P.lists.map (fun e => (e.1, e.2.get))

/-- `MemPool.exist`. -/
def Pool.exist (P : Pool) (id : Nat) : Option Tx := P.cache.find? (fun t => t.id == id)

/-- `getUnconfirmed([a], false)`: (pool — an absent account gets an empty list that stays —,
pooled txs, orphaned txs). -/
def Pool.unconfirmed (P : Pool) (a : Nat) : Pool × List Tx × List Tx :=
  let L := (P.acquire a).2
  ((P.acquire a).1, L.list.take L.ready, L.list.drop L.ready)


/-! ### The locked half of a submission (concurrency)

`MemPool.put` runs its pre-check — `mp.cache.Load(id)` and `validateTx` — *before* `mp.Lock()` (mempool.go:356-370);
what runs under the lock starts at `acquireMemPoolList`. Several verifier goroutines, the pool actor (block
notifications, removals, fetches, reports) and the monitor goroutine (eviction) interleave at the granularity of
these critical sections: between the pre-check of a submission and its locked half anything may happen. -/

/-- The pre-check of `put`: `some r` = refused with `r` before the lock is taken, `none` = goes on to the lock. -/
def Pool.putCheck (P : Pool) (tx : Tx) : Option PutRes :=
  if cacheHas tx.id P.cache then some .already else
  match validate (P.state tx.acc) tx with
  | some .low => some .low
  | some .insufficient => some .insufficient
  | _ => none

/-- The critical section of `put`: acquire, `list.Put`, `orphan -= diff`, `cache.Store`, `length++`, deferred release —
whatever the pre-check saw earlier (no cache look-up and no validation in here). -/
def Pool.putLocked (P : Pool) (tx : Tx) : Pool × PutRes :=
  let P1 := (P.acquire tx.acc).1
  let L := (P.acquire tx.acc).2
  match (L.put tx).2 with
  | .error e => (P1.release tx.acc, match e with | .low => .low | .same => .same)
  | .ok diff =>
    let P2 := { P1 with lists := setL tx.acc (L.put tx).1 P1.lists, orphan := P1.orphan - diff,
                        cache := cacheStore tx P1.cache, length := P1.length + 1 }
    (P2.release tx.acc, .ok)

/-! ### The chain side: what the chain service sends the pool

chain/chainhandle.go `executeBlock` ends with `notifyEvents(block)` = one `MemPoolDel{block}` per executed block;
chain/reorg.go `rollforward` executes the blocks of the new branch oldest first through the same function, and
`swapTxMapping` then sends one `MemPoolPut` for every transaction of the abandoned blocks that no new block carries.
The pool actor handles these messages in the order sent (the re-submissions go through the front end:
signature / sender-name resolution, then `put`). -/

/-- A block as the pool sees it: identifier, parent, chain id, accounts named by its transactions, the account
states at its state root, its transactions. -/
structure Blk where
  id : Nat
  parent : Nat
  chain : Nat
  dirty : List Nat
  σ : Nat → Acct
  txs : List Tx

/-- One `MemPoolDel{block}` processed. -/
def Pool.notify (P : Pool) (b : Blk) : Pool := P.blockArrival b.id b.parent b.chain b.dirty b.σ

/-- `swapTxMapping`: transactions of the abandoned blocks minus those some new block carries (by hash). -/
def rolledBack (old new : List Blk) : List Tx :=
  (old.flatMap (·.txs)).filter (fun t => !((new.flatMap (·.txs)).any (fun u => u.id == t.id)))

/-- Submissions one after the other. -/
def Pool.resubmit (P : Pool) (txs : List Tx) : Pool := txs.foldl (fun Q t => (Q.put t).1) P

/-- What the pool goes through when the chain service makes `new` (oldest first) the end of the main chain in place
of `old` (`old = []`: plain connection): the notifications in order, then the rolled-back transactions the front end
admits (`accept`: signature and sender-name resolution against the new state — outside this model). -/
def Pool.chainEvent (P : Pool) (old new : List Blk) (accept : Tx → Bool) : Pool :=
  (new.foldl Pool.notify P).resubmit ((rolledBack old new).filter accept)

/-! ### Further queries -/

/-- `existEx`: one answer per requested hash, in the order asked. -/
def Pool.existEx (P : Pool) (ids : List Nat) : List (Option Tx) := ids.map P.exist

/-- Hashes of everything offered (`listHash` without limit). -/
def Pool.offeredIds (P : Pool) : List Nat := (P.get.flatMap (·.2)).map (·.id)

/-- `getUnconfirmed(nil, true)`: per list (account, offered, held aside). -/
def Pool.txStat (P : Pool) : List (Nat × Nat × Nat) :=
  P.lists.map fun e => (e.1, e.2.ready, e.2.list.length - e.2.ready)

end Aergo.Pool
