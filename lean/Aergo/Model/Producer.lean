/-
Model layer `Producer` (C09): what the DPoS consensus object adds on top of the slot arithmetic.

* `DPoS.VerifySign` / `types.Block.VerifySign` / `BlockHeader.BPID` (dpos.go:295, blockchain.go:419, :677) over an
  abstract signature primitive `Crypto` (libp2p: `UnmarshalPublicKey`, `PubKey.Verify`, `IDFromPublicKey`);
  the signed message is `Enc.encode Gen.Enc.blockSignSpec` (field list regenerated from `writeBlockHeaderOmitSign`).
* `DPoS.VerifyTimestamp` (dpos.go:274): the future clause and the LIB clause with its `dpos.Status != nil` guard.
* `DPoS.IsBlockValid` with its bad-public-key error path (dpos.go:304).
* `accept`: the three checks as `chain.addBlockInternal` / `executeBlock` apply them (chainhandle.go:472, :538, :831).
* `bp.Snapshots` (cluster.go:310-515): `AddSnapshot`, `UpdateCluster`, `getCurrentCluster`, `gc`, `reset`, and
  `Cluster.Update`'s all-or-nothing behaviour; `snapBlockNo`, `isSnapPeriod`, the periods are `Aergo.Gen.Snap`,
  regenerated from cluster.go on every run.
* `Node`: a DPoS node as a history machine (connect / refuse / roll back / restart) that keeps the list of
  blocks it accepted.

Core only (linked into `model-c09`). Quirks are transcribed, not repaired: `maxRefBlockNo` is never assigned in
/repo, so `AddSnapshot` never resets; `UpdateCluster` swallows every error and keeps the old producer set.
-/
import Aergo.Model.Slot
import Aergo.Model.Enc
import Aergo.Gen.Snap

namespace Aergo.Producer
open Aergo.Slot Aergo.Gen.Slot Aergo.Gen.Snap Aergo.Enc Aergo.Gen.Enc

/-! ### Signature and producer identity -/

/-- The libp2p primitives, assumed, never unfolded. `none` = the Go function returns an error. -/
structure Crypto (Key : Type) where
  /-- `crypto.UnmarshalPublicKey` -/
  unmarshal : Bytes → Option Key
  /-- `PubKey.Verify msg sig` -/
  verify : Key → Bytes → Bytes → Option Bool
  /-- `types.IDFromPublicKey`, base58 form -/
  peerId : Key → Option String

/-- `types.Block.VerifySign`: the pair (valid, err ≠ nil). -/
def blockVerifySign {Key : Type} (c : Crypto Key) (r : Rec) : Bool × Bool :=
  match c.unmarshal (r.raw "PubKey") with
  | none => (false, true)
  | some k =>
    match c.verify k (encode blockSignSpec r) (r.raw "Sign") with
    | none => (false, true)
    | some v => (v, false)

/-- `DPoS.VerifySign`: `nil` (true) unless `!valid || err != nil`. -/
def dposVerifySign {Key : Type} (c : Crypto Key) (r : Rec) : Bool :=
  let ve := blockVerifySign c r
  !(!ve.1 || ve.2)

/-- `BlockHeader.BPID`: the peer id of the key carried in the header. -/
def bpid {Key : Type} (c : Crypto Key) (r : Rec) : Option String :=
  (c.unmarshal (r.raw "PubKey")).bind c.peerId

/-! ### The three consensus checks -/

/-- `DPoS.VerifyTimestamp`. `lib = none`: `dpos.Status == nil`. -/
def verifyTimestamp (iv tsNs nowNs : Int) (lib : Option Int) (no : Int) : Bool :=
  if isFuture iv (fromUnixNs iv tsNs) nowNs then false
  else match lib with
    | some l => if no ≤ l then false else true
    | none => true

/-- `DPoS.IsBlockValid`: `BPID` error first, then the entitlement test. -/
def isBlockValidK (iv : Int) (ids : List String) (key : Option String) (tsNs : Int) : Bool :=
  match key with
  | none => false
  | some id => isBlockValid iv ids id tsNs

/-- The same with the producer count passed separately: `DPoS.IsBlockValid` reads `bpc.Size()`, which differs from
the number of indexed members only before the first successful `Cluster.Update`. -/
def isBlockValidS (iv : Int) (ids : List String) (size : Int) (key : Option String) (tsNs : Int) : Bool :=
  match key with
  | none => false
  | some id => Slot_IsFor (fromUnixNs iv tsNs).nextIndex (bpID2Index ids id) size

/-- What a block must pass to get onto the main chain of a DPoS node: `VerifyTimestamp` and `VerifySign` when it
arrives (`addBlockInternal`), `IsBlockValid` when it is executed. -/
def accept {Key : Type} (c : Crypto Key) (iv : Int) (ids : List String) (nowNs : Int) (lib : Option Int)
    (r : Rec) (no tsNs : Int) : Bool :=
  verifyTimestamp iv tsNs nowNs lib no && dposVerifySign c r && isBlockValidK iv ids (bpid c r) tsNs

/-! ### `bp.Snapshots`: which producer list is current -/

/-- `Snapshots` together with the `ClusterMember` it updates. -/
structure Snaps where
  /-- `sn.snaps` as an association list with unique keys -/
  snaps : List (Int × List String)
  /-- `sn.maxRefBlockNo` (never assigned in /repo) -/
  maxRef : Int
  /-- `bp.genesisBpList` -/
  genesis : List String
  /-- the list `Cluster.Update` was last given successfully (index order) -/
  members : List String
  /-- `Cluster.size` (set by `init` from the genesis list, then by every successful `Update`) -/
  size : Nat
deriving Repr

def lookup (m : List (Int × List String)) (k : Int) : Option (List String) :=
  match m with
  | [] => none
  | (k', v) :: rest => if k' == k then some v else lookup rest k

/-- `sn.snaps[k] = v` -/
def insert (m : List (Int × List String)) (k : Int) (v : List String) : List (Int × List String) :=
  (k, v) :: m.filter (fun e => !(e.1 == k))

/-- `Snapshots.gc`: drop every snapshot below `blockNo - gcPeriod`. -/
def gc (m : List (Int × List String)) (blockNo : Int) : List (Int × List String) :=
  let gcBlockNo := if blockNo > Snapshots_gcPeriod then blockNo - Snapshots_gcPeriod else 0
  m.filter (fun e => !(decide (e.1 < gcBlockNo)))

/-- An id `Cluster.Update` can decode (`types.IDB58Decode`). The harness marks undecodable ids with `!`. -/
def idOk (id : String) : Bool := !(id.toList.head? == some '!')

/-- `getCurrentCluster`: `load` is what `loadClusterSnapshot` yields (ranking in the stored state of block
`snapBlockNo blockNo`), `none` if it fails. -/
def getCurrent (s : Snaps) (blockNo : Int) (load : Option (List String)) : Option (List String) :=
  let ref := snapBlockNo blockNo
  if ref == 0 then some s.genesis
  else match lookup s.snaps ref with
    | some l => some l
    | none => load

/-- `UpdateCluster`: returns the new state and the list it reports (`none` = nil: "skip BP member update"). -/
def updateCluster (s : Snaps) (blockNo : Int) (load : Option (List String)) : Snaps × Option (List String) :=
  match getCurrent s blockNo load with
  | some l => if l.all idOk then ({ s with members := l, size := l.length }, some l) else (s, none)
  | none => (s, none)

/-- `AddSnapshot refBlockNo`; `rank` is what `gatherRankers` yields on the current state (`none`: error). -/
def addSnapshot (s : Snaps) (ref : Int) (rank load : Option (List String)) : Snaps × Option (List String) :=
  let s := if s.maxRef > ref then { s with snaps := [] } else s
  if !(isSnapPeriod ref) || ref == 0 then (s, none)
  else match rank with
    | none => (s, none)
    | some bps =>
      let s1 := { s with snaps := insert s.snaps ref bps }
      let r := if Snapshots_NeedToRefresh ref then updateCluster s1 ref load else (s1, some bps)
      ({ r.1 with snaps := gc r.1.snaps ref }, r.2)

/-- `NewCluster` + `NewSnapshots` at process start with best block `best`. -/
def boot (genesis : List String) (best : Int) (load : Option (List String)) : Snaps :=
  (updateCluster { snaps := [], maxRef := 0, genesis := genesis, members := [], size := genesis.length } best load).1

/-! ### A DPoS node over a history -/

/-- A block as the consensus checks see it. -/
structure Blk where
  no : Int
  tsNs : Int
  hdr : Rec

/-- What the node remembers of an accepted block: the block, the producer list in force, the clock, and (ghost) the
rankings of the chain the block extended (`ranks[k]` for block `k` up to its parent). -/
structure Accepted where
  blk : Blk
  ids : List String
  nowNs : Int
  ranks : List (List String)

structure Node where
  sn : Snaps
  best : Int
  /-- `ranks[k]` = the producer ranking in the state after block `k` of the current main chain (`ranks[0]` unused) -/
  ranks : List (List String)
  log : List Accepted

inductive Ev where
  /-- a child of the best block arrives at local time `nowNs`; `rank` = the ranking its execution leaves behind -/
  | offer (nowNs : Int) (b : Blk) (rank : List String)
  /-- reorganisation: the chain is cut back to block `to` (`Status.Update` with a non-child block) -/
  | rollback (to : Int)
  /-- process restart -/
  | restart

/-- The ranking stored for block `snapBlockNo b` on the current chain (what `loadClusterSnapshot` reads). -/
def loadOf (ranks : List (List String)) (b : Int) : Option (List String) :=
  ranks[(snapBlockNo b).toNat]?

def Node.step {Key : Type} (c : Crypto Key) (iv : Int) (n : Node) : Ev → Node
  | .offer now b rank =>
    if b.no == n.best + 1 && n.sn.size == n.sn.members.length
        && accept c iv n.sn.members now none b.hdr b.no b.tsNs then
      let ranks := n.ranks ++ [rank]
      { sn := (addSnapshot n.sn b.no (some rank) (loadOf ranks b.no)).1, best := b.no, ranks := ranks,
        log := { blk := b, ids := n.sn.members, nowNs := now, ranks := n.ranks } :: n.log }
    else n
  | .rollback to =>
    if 0 ≤ to && to ≤ n.best then
      let ranks := n.ranks.take (to.toNat + 1)
      { n with sn := (updateCluster n.sn to (loadOf ranks to)).1, best := to, ranks := ranks }
    else n
  | .restart => { n with sn := boot n.sn.genesis n.best (loadOf n.ranks n.best) }

def Node.init (genesis : List String) : Node :=
  { sn := boot genesis 0 none, best := 0, ranks := [genesis], log := [] }

def Node.run {Key : Type} (c : Crypto Key) (iv : Int) (n : Node) (evs : List Ev) : Node :=
  evs.foldl (Node.step c iv) n

end Aergo.Producer
