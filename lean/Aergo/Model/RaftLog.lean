/-
Model layer `RaftLog` (C16): the raft write-ahead log kept in the chain DB, and the
membership-change decision functions of the raft cluster.

Transcribed from /repo (function by function; see notes/C16.md for the line map):

* chain/chaindbForRaft.go   WriteRaftEntry, GetRaftEntry, GetRaftEntryIndexOfBlock, GetRaftEntryOfBlock,
                            GetRaftEntryLastIdx, ClearWAL, ResetWAL, Write/Get HardState, Snapshot, Identity,
                            writeConfChangeProgress
* chain/chaindb.go          addBlock, getBlock, connectToChain, loadChainData (what a restart re-reads)
* consensus/impl/raftv2/waldb.go   SaveEntry, convertFromRaft, convertWalToRaft, ReadAll
* consensus/impl/raftv2/cluster.go validateChangeMembership, hasDuplicatedMember, isEnableChangeMembership
* consensus/raftCommon.go   Member.IsValid, Member.HasDuplicatedAttr
* consensus/impl/raftv2/raftserver.go  Status, GetClusterProgress (getProgressState)

The key/value store is modelled as one finite map per key family (`r_entry.<idx>`, `r_last`,
`r_inv.<hash>`, raw block hash, `r_state`, `r_snap`, `r_identity`, `r_ccstatus.<id>`, latest key,
block-number index). A DB transaction applies its operations in order at commit, so a function
that builds one transaction is a sequential update of these maps; a panic before `Commit`
leaves them unchanged. Unsigned 64-bit indices are modelled by `Nat` (no wrap-around).
The quorum arithmetic is `Aergo.Gen.RaftQuorum`, regenerated from cluster.go on every run.
-/
import Aergo.Gen.RaftQuorum

namespace Aergo.RaftLog

abbrev Bytes := List UInt8

/-- `consensus.WalEntry`. `typ`: 0 = EntryBlock, 1 = EntryEmpty, 2 = EntryConfChange (int8 in Go). -/
structure Entry where
  typ : Nat
  term : Nat
  index : Nat
  data : Bytes
deriving DecidableEq, Repr

def tBlock : Nat := 0
def tEmpty : Nat := 1
def tConf : Nat := 2

/-- A block as far as the WAL is concerned: its identifier and an opaque content tag
(the harness uses the block number; two blocks are equal iff hash and content agree). -/
structure Block where
  hash : Bytes
  no : Nat
deriving DecidableEq, Repr

/-- `raftpb.HardState`. -/
structure HardState where
  term : Nat
  vote : Nat
  commit : Nat
deriving DecidableEq, Repr

/-- `raftpb.Snapshot` as the WAL stores it: metadata index/term and the chain snapshot
(`SnapshotData.Chain` = block number and hash) carried in its data. -/
structure Snapshot where
  index : Nat
  term : Nat
  chain : Block
deriving DecidableEq, Repr

/-- `consensus.RaftIdentity`. -/
structure Identity where
  clusterId : Nat
  id : Nat
  name : String
  peer : String
deriving DecidableEq, Repr

/-- The durable maps, plus the one in-memory field a restart rebuilds (`best`). -/
structure St where
  ents : Nat → Option Entry        -- dbkey.RaftEntry(idx) ↦ gob(WalEntry)
  lastKey : Option Nat             -- dbkey.RaftEntryLastIdx()
  inv : Bytes → Option Nat         -- dbkey.RaftEntryInvert(blockHash) ↦ idx
  blocks : Bytes → Option Block    -- blockHash ↦ proto(Block)
  hard : Option HardState          -- dbkey.RaftState()
  snap : Option Snapshot           -- dbkey.RaftSnap()
  ident : Option Identity          -- dbkey.RaftIdentity()
  ccp : Nat → Option Nat           -- dbkey.RaftConfChangeProgress(id) ↦ state
  latestNo : Option Nat            -- dbkey.LatestBlock()
  hashByNo : Nat → Option Bytes    -- blockNo ↦ blockHash
  best : Option Block              -- ChainDB.bestBlock (memory only)

def empty : St :=
  { ents := fun _ => none, lastKey := none, inv := fun _ => none, blocks := fun _ => none,
    hard := none, snap := none, ident := none, ccp := fun _ => none,
    latestNo := none, hashByNo := fun _ => none, best := none }

/-- `Set(k, v)` on one key family. -/
def upd {α β : Type} [DecidableEq α] (m : α → Option β) (k : α) (v : β) : α → Option β :=
  fun x => if x = k then some v else m x

/-- `for i := lo; i <= hi; i++ { Delete(RaftEntry(i)) }`. -/
def delRange (m : Nat → Option Entry) (lo hi : Nat) : Nat → Option Entry :=
  fun k => if lo ≤ k ∧ k ≤ hi then none else m k

/-- `GetRaftEntryLastIdx`: 0 when the key is absent. -/
def lastIdx (s : St) : Nat := s.lastKey.getD 0

/-- One position of the three parallel slices `WriteRaftEntry(ents, blocks, ccProposes)`.
`cc` is the `ID` of the conf-change proposal. -/
structure Item where
  e : Entry
  blk : Option Block
  cc : Option Nat
deriving DecidableEq, Repr

/-- How a call ended. `panic`: Go panic (`logger.Panic`, nil dereference, index out of range);
`fatal`: `logger.Fatal` (process exit); `nilHardState`: `ErrNilHardState`. -/
inductive Res
  | ok | panic | fatal | nilHardState
deriving DecidableEq, Repr

/-- `types.ConfChangeState_CONF_CHANGE_STATE_SAVED`. -/
def ccSaved : Nat := 1

/-- The loop body of `WriteRaftEntry` for one entry (operations queued on the transaction). -/
def putItem (s : St) (it : Item) : Except Res St :=
  if it.e.typ = tBlock then
    match it.blk with
    | none => .error .panic                      -- blocks[i] == nil: nil dereference in addBlock
    | some b =>
      .ok { s with blocks := upd s.blocks b.hash b,              -- addBlock
                   ents := upd s.ents it.e.index it.e,           -- Set(RaftEntry(entry.Index))
                   inv := upd s.inv b.hash it.e.index }          -- Set(RaftEntryInvert(hash), index)
  else if it.e.typ = tConf then
    match it.cc with
    | none => .error .fatal                      -- "confChangePropose must not be nil"
    | some id =>
      .ok { s with ents := upd s.ents it.e.index it.e,
                   ccp := if id = 0 then s.ccp else upd s.ccp id ccSaved }   -- writeConfChangeProgress
  else
    .ok { s with ents := upd s.ents it.e.index it.e }

def putItems : St → List Item → Except Res St
  | s, [] => .ok s
  | s, it :: rest =>
    match putItem s it with
    | .error r => .error r
    | .ok s' => putItems s' rest

/-- `lastIdx = entry.Index` in every iteration: the index of the last entry of the batch. -/
def batchLast (items : List Item) : Nat := items.foldl (fun _ it => it.e.index) 0

/-- `ChainDB.WriteRaftEntry`: delete `[ents[0].Index, last]` if `ents[0].Index ≤ last`, write the
batch (blocks, entries, inverse index, conf-change progress), set the last index; one transaction.
Nothing is committed when the call panics. -/
def writeRaftEntry (s : St) (items : List Item) : St × Res :=
  match items with
  | [] => (s, .panic)                             -- ents[0]: index out of range
  | it0 :: _ =>
    let last := lastIdx s
    let s1 := if it0.e.index ≤ last then { s with ents := delRange s.ents it0.e.index last } else s
    match putItems s1 items with
    | .error r => (s, r)
    | .ok s2 => ({ s2 with lastKey := some (batchLast items) }, .ok)

inductive GetRes
  | ok (e : Entry) | noEntry | mismatch
deriving DecidableEq, Repr

/-- `ChainDB.GetRaftEntry`. -/
def getRaftEntry (s : St) (idx : Nat) : GetRes :=
  match s.ents idx with
  | none => .noEntry
  | some e => if e.index = idx then .ok e else .mismatch

inductive BlkRes
  | ok (b : Block) | nilHash | noBlock
deriving DecidableEq, Repr

/-- `ChainDB.getBlock`: nil hash is an error; the stored block must carry the hash it is stored under. -/
def getBlock (s : St) (h : Bytes) : BlkRes :=
  if h = [] then .nilHash
  else match s.blocks h with
    | none => .noBlock
    | some b => if b.hash = h then .ok b else .noBlock

/-- `ChainDB.GetRaftEntryIndexOfBlock` (`none` = ErrNoWalEntryForBlock). -/
def getRaftEntryIndexOfBlock (s : St) (h : Bytes) : Option Nat :=
  match s.inv h with
  | none => none
  | some i => if i = 0 then none else some i

/-- `ChainDB.GetRaftEntryOfBlock` (`none` = ErrNoWalEntryForBlock). Note: the entry found at the
recorded index is returned as it is; it is not compared with the requested hash. -/
def getRaftEntryOfBlock (s : St) (h : Bytes) : Option GetRes :=
  match getRaftEntryIndexOfBlock s h with
  | none => none
  | some i => some (getRaftEntry s i)

/-- `ChainDB.ClearWAL`: identity, hard state and snapshot in one transaction, then entries
`last … 1` and the last-index key in one bulk. Index 0, the inverse index, stored blocks and
conf-change progress are left alone. -/
def clearWAL (s : St) : St :=
  let s1 := { s with ident := none, hard := none, snap := none }
  { s1 with ents := delRange s1.ents 1 (lastIdx s1), lastKey := none }

/-- `ChainDB.ResetWAL`. Not atomic: when there is no best block it panics after the WAL was
cleared and the hard state written. -/
def resetWAL (s : St) (hs : Option (Nat × Nat)) : St × Res :=
  match hs with
  | none => (s, .nilHardState)
  | some (term, commit) =>
    let s1 := clearWAL s
    let s2 := { s1 with hard := some ⟨term, 0, commit⟩ }
    match s2.best with
    | none => (s2, .panic)                        -- NewSnapshotData(nil, nil, nil) = nil → logger.Panic
    | some b =>
      let s3 := { s2 with snap := some ⟨commit, term, b⟩ }
      ({ s3 with lastKey := some commit }, .ok)

/-- The shim's `connectToChain` in one transaction: store the block, the number index, the latest
key, and the in-memory best block. -/
def connectBest (s : St) (b : Block) : St :=
  { s with blocks := upd s.blocks b.hash b, latestNo := some b.no,
           hashByNo := upd s.hashByNo b.no b.hash, best := some b }

/-- `loadChainData` of a fresh ChainDB: latest key → number index → block. -/
def loadBest (s : St) : Except Unit (Option Block) :=
  match s.latestNo with
  | none => .ok none
  | some n =>
    match s.hashByNo n with
    | none => .error ()
    | some h =>
      match getBlock s h with
      | .ok b => .ok (some b)
      | _ => .error ()

/-- Restart: a fresh ChainDB object on the same store (`Init`). Durable maps are untouched;
`none` = `Init` fails (ErrorLoadBestBlock). -/
def restart (s : St) : Option St :=
  match loadBest s with
  | .ok b => some { s with best := b }
  | .error _ => none

/-- A `raftpb.Entry` as `WalDB.SaveEntry` receives it from etcd/raft: a normal entry whose data
is nil or a marshalled block, or a conf change (with non-empty context) of proposal id `ccid`. -/
inductive RaftIn
  | normal (term index : Nat) (blk : Option Block)
  | conf (term index : Nat) (data : Bytes) (ccid : Nat)
deriving DecidableEq, Repr

/-- `WalDB.convertFromRaft` for one entry: a block entry carries the block *hash* as data. -/
def convertFromRaft : RaftIn → Item
  | .normal t i none => ⟨⟨tEmpty, t, i, []⟩, none, none⟩
  | .normal t i (some b) => ⟨⟨tBlock, t, i, b.hash⟩, some b, none⟩
  | .conf t i d id => ⟨⟨tConf, t, i, d⟩, none, some id⟩

/-- `WalDB.SaveEntry`: entries first (if any), then the hard state unless it is empty. -/
def saveEntry (s : St) (hs : HardState) (ents : List RaftIn) : St × Res :=
  let (s1, r) := if ents.isEmpty then (s, Res.ok) else writeRaftEntry s (ents.map convertFromRaft)
  if r ≠ .ok then (s1, r)
  else if hs = ⟨0, 0, 0⟩ then (s1, .ok)
  else ({ s1 with hard := some hs }, .ok)

/-- A `raftpb.Entry` as `ReadAll` hands it back to etcd/raft. -/
inductive RaftOut
  | normal (term index : Nat) (blk : Option Block)
  | conf (term index : Nat) (data : Bytes)
deriving DecidableEq, Repr

inductive ReadErr
  | hardState | noEntry | mismatch | lowTerm | nilHash | noBlock | invalidWal
deriving DecidableEq, Repr

/-- `WalDB.convertWalToRaft`: a block entry is re-materialised from the stored block. -/
def convertWalToRaft (s : St) (e : Entry) : Except ReadErr RaftOut :=
  if e.typ = tConf then .ok (.conf e.term e.index e.data)
  else if e.typ = tEmpty then .ok (.normal e.term e.index none)
  else if e.typ = tBlock then
    match getBlock s e.data with
    | .ok b => .ok (.normal e.term e.index (some b))
    | .nilHash => .error .nilHash
    | .noBlock => .error .noBlock
  else .error .invalidWal

/-- The loop of `ReadAll`: `n` entries from index `i` on; stops at the first error. -/
def readFrom (s : St) (snapTerm : Nat) : Nat → Nat → Except ReadErr (List RaftOut)
  | _, 0 => .ok []
  | i, n + 1 =>
    match getRaftEntry s i with
    | .noEntry => .error .noEntry
    | .mismatch => .error .mismatch
    | .ok e =>
      if e.term < snapTerm then .error .lowTerm
      else match convertWalToRaft s e with
        | .error r => .error r
        | .ok re =>
          match readFrom s snapTerm (i + 1) n with
          | .error r => .error r
          | .ok rest => .ok (re :: rest)

/-- `WalDB.ReadAll(snapshot)`; `snap` = (index, term) of the snapshot metadata, `none` for nil. -/
def readAll (s : St) (snap : Option (Nat × Nat)) : Except ReadErr (Option Identity × HardState × List RaftOut) :=
  match s.hard with
  | none => .error .hardState
  | some hs =>
    let snapIdx := (snap.getD (0, 0)).1
    let snapTerm := (snap.getD (0, 0)).2
    match readFrom s snapTerm (snapIdx + 1) (lastIdx s - snapIdx) with
    | .error r => .error r
    | .ok es => .ok (s.ident, hs, es)

/-- Operations of a WAL session. -/
inductive Op
  | write (items : List Item)
  | save (hs : HardState) (ents : List RaftIn)
  | hard (hs : HardState)
  | snap (sn : Snapshot)
  | ident (id : Identity)
  | restart
  | clear
  | reset (hs : Option (Nat × Nat))
  | best (b : Block)
  | ccprog (id st : Nat)
deriving Repr

/-- One operation: new state and how the call ended. -/
def step (s : St) : Op → St × Res
  | .write items => writeRaftEntry s items
  | .save hs ents => saveEntry s hs ents
  | .hard hs => ({ s with hard := some hs }, .ok)           -- WriteHardState
  | .snap sn => ({ s with snap := some sn }, .ok)           -- WriteSnapshot
  | .ident id => ({ s with ident := some id }, .ok)         -- WriteIdentity
  | .restart => match restart s with
    | some s' => (s', .ok)
    | none => (s, .panic)
  | .clear => (clearWAL s, .ok)
  | .reset hs => resetWAL s hs
  | .best b => (connectBest s b, .ok)
  | .ccprog id st => ({ s with ccp := if id = 0 then s.ccp else upd s.ccp id st }, .ok)   -- WriteConfChangeProgress

def applyOp (s : St) (op : Op) : St := (step s op).1

def run (s : St) (ops : List Op) : St := ops.foldl applyOp s

/-! ## Write units: the durable states inside one operation (crash points)

Every `dbTx.Commit()` / `bulk.Flush()` of an operation is one durable write unit. `unitStates s op`
lists the store after each unit of `op` started in `s`, in program order; a crash can leave the
disk in `s` or in any of these states. (`best` is a memory-only field: it is rebuilt by `restart`.) -/

/-- `WriteRaftEntry` is a single transaction: one unit when it succeeds, none when it panics. -/
def writeStates (s : St) (items : List Item) : List St :=
  match writeRaftEntry s items with
  | (s', .ok) => [s']
  | _ => []

/-- First commit of `ClearWAL`: identity, hard state, snapshot. -/
def clearWAL1 (s : St) : St := { s with ident := none, hard := none, snap := none }

def unitStates (s : St) : Op → List St
  | .write items => writeStates s items
  | .save hs ents =>
    if ents.isEmpty then (if hs = ⟨0, 0, 0⟩ then [] else [{ s with hard := some hs }])
    else match writeRaftEntry s (ents.map convertFromRaft) with
      | (s1, .ok) => if hs = ⟨0, 0, 0⟩ then [s1] else [s1, { s1 with hard := some hs }]
      | _ => []
  | .hard hs => [{ s with hard := some hs }]
  | .snap sn => [{ s with snap := some sn }]
  | .ident id => [{ s with ident := some id }]
  | .restart => []
  | .clear => [clearWAL1 s, clearWAL s]
  | .reset none => []
  | .reset (some (term, commit)) =>
    let s2 := { clearWAL s with hard := some ⟨term, 0, commit⟩ }
    match s2.best with
    | none => [clearWAL1 s, clearWAL s, s2]
    | some b =>
      let s3 := { s2 with snap := some ⟨commit, term, b⟩ }
      [clearWAL1 s, clearWAL s, s2, s3, { s3 with lastKey := some commit }]
  | .best b => [connectBest s b]
  | .ccprog id st => if id = 0 then [] else [{ s with ccp := upd s.ccp id st }]

/-- The store before the operation and after each of its write units. -/
def prefixStates (s : St) (op : Op) : List St := s :: unitStates s op

/-- Several operations in a row (one `Ready` of the server loop: SaveEntry, then WriteSnapshot). -/
def prefixStatesSeq : St → List Op → List St
  | s, [] => [s]
  | s, op :: rest => s :: (unitStates s op ++ (prefixStatesSeq (applyOp s op) rest).drop 1)

/-! ## The restart hand-over: HasWal → loadSnapshot → replayWAL → raft restart -/

/-- The identity the node is configured with (`cluster.identity` before the WAL is read). -/
structure Config where
  name : String
  peer : String
deriving DecidableEq, Repr

/-- `ChainDB.HasWal(identity)`. -/
inductive WalState
  | noIdentity | nameMismatch | peerMismatch | noHardState | ok
deriving DecidableEq, Repr

def hasWal (s : St) (cfg : Config) : WalState :=
  match s.ident with
  | none => .noIdentity
  | some id =>
    if id.name ≠ cfg.name then .nameMismatch
    else if id.peer ≠ cfg.peer then .peerMismatch
    else match s.hard with
      | none => .noHardState
      | some _ => .ok

/-- What `replayWAL` puts into the fresh `raft.MemoryStorage` of the restarted node. -/
structure Handed where
  snap : Option Snapshot
  hard : HardState
  ents : List RaftOut
  ident : Identity
deriving DecidableEq, Repr

inductive FatalWhy
  | read (e : ReadErr) | identity | snapOutOfDate
deriving DecidableEq, Repr

inductive HandRes
  | noWal (w : WalState)         -- the node starts as a new / joining node
  | emptyLog                     -- last = 0 and no snapshot: cluster info is fetched from a peer first
  | fatal (w : FatalWhy)         -- `logger.Fatal`: the node does not come up
  | raftPanics (h : Handed)      -- etcd/raft refuses what it is handed (newRaft / loadState)
  | ok (h : Handed)
deriving DecidableEq, Repr

/-- What etcd/raft requires of the storage it is restarted on (`raft.newRaft`: `Config.validate`,
`loadState`): a node id, and a commit index inside `[snapshot index, last index]` unless the hard state is empty.
This is library behaviour (trusted transcription of etcd/raft `raft.go`), the only part of the library the model contains. -/
def raftAccepts (nodeId snapIdx : Nat) (hs : HardState) (n : Nat) : Bool :=
  nodeId != 0 && (hs == ⟨0, 0, 0⟩ || (snapIdx ≤ hs.commit && hs.commit ≤ snapIdx + n))

/-- `startRaft` (restart branch) → `restartNode`: `HasWal`, `isEmptyLog`, `loadSnapshot`,
`replayWAL` (`ReadAll(snapshot)`, `RecoverIdentity`, `ApplySnapshot`, commit index raised to the snapshot's,
`SetHardState`, `Append`), raft restart. -/
def handOver (s : St) (cfg : Config) : HandRes :=
  match hasWal s cfg with
  | .ok =>
    if lastIdx s = 0 ∧ s.snap = none then .emptyLog
    else
      match readAll s (s.snap.map fun sn => (sn.index, sn.term)) with
      | .error e => .fatal (.read e)
      | .ok (id, hs, es) =>
        match id with
        | none => .fatal .identity
        | some idn =>
          if idn.clusterId = 0 then .fatal .identity
          else if (s.snap.map (·.index)) = some 0 then .fatal .snapOutOfDate
          else
            -- replayWAL: what a snapshot contains is committed (a crash between the snapshot and the
            -- hard state of the Ready that installed it leaves an older commit index)
            let snapIdx := (s.snap.map (·.index)).getD 0
            let hs' : HardState := if hs.commit < snapIdx then { hs with commit := snapIdx } else hs
            let h : Handed := ⟨s.snap, hs', es, idn⟩
            if raftAccepts idn.id snapIdx hs' es.length then .ok h else .raftPanics h
  | w => .noWal w

/-! ## Membership -/

/-- `consensus.Member`. `addrOk` is the verdict of `types.ParseMultiaddr` on `addr`
(an external parser; a parameter of the model). -/
structure Member where
  id : Nat
  name : String
  addr : String
  addrOk : Bool
  peer : Bytes
deriving DecidableEq, Repr

/-- `Member.IsValid`. -/
def Member.isValid (m : Member) : Bool :=
  !(m.id == 0 || m.peer.isEmpty || m.name.isEmpty || m.addr.isEmpty) && m.addrOk

/-- `Member.HasDuplicatedAttr`. -/
def Member.hasDupAttr (m x : Member) : Bool :=
  m.name == x.name || m.id == x.id || m.addr == x.addr || m.peer == x.peer

/-- The part of `Cluster` the validation reads: applied members (a map by id) and removed ids. -/
structure Cluster where
  applied : List Member
  removed : List Nat
deriving Repr

/-- `Members.getMember(id)`. -/
def getMember (ms : List Member) (id : Nat) : Option Member := ms.find? (fun p => p.id == id)

/-- `Members.hasDuplicatedMember`. -/
def hasDuplicatedMember (ms : List Member) (m : Member) : Bool := ms.any (fun p => p.hasDupAttr m)

inductive VRes
  | ok | nilMember | invalidId | alreadyRemoved | invalidMember | alreadyAdded | dup | noMember | invType
deriving DecidableEq, Repr

def ccAdd : Nat := 0
def ccRemove : Nat := 1

/-- `Cluster.validateChangeMembership(cc, member)`. -/
def validate (cl : Cluster) (ccType : Nat) (m : Option Member) : VRes :=
  match m with
  | none => .nilMember
  | some m =>
    if m.id = 0 then .invalidId
    else if cl.removed.contains m.id then .alreadyRemoved
    else if ccType = ccAdd then
      if !m.isValid then .invalidMember
      else if (getMember cl.applied m.id).isSome then .alreadyAdded
      else if hasDuplicatedMember cl.applied m then .dup
      else .ok
    else if ccType = ccRemove then
      if (getMember cl.applied m.id).isNone then .noMember else .ok
    else .invType

/-- One row of `raft.Status.Progress`. `state`: 0 probe, 1 replicate, 2 snapshot. -/
structure Prog where
  id : Nat
  state : Nat
  matchIdx : Nat
  next : Nat := matchIdx + 1      -- raft's optimistic send position (not read by the classification)
  active : Bool := true           -- raft's RecentActive (not read by the classification)
deriving DecidableEq, Repr

/-- What `Status()` / `GetClusterProgress()` read from the raft server. -/
structure Raft where
  hasNode : Bool
  statusId : Nat
  leader : Bool
  self : Nat         -- cluster.NodeID()
  lastIdx : Nat      -- raftStorage.LastIndex()
  gap : Nat          -- MaxSlowNodeGap
  prog : List Prog
deriving Repr

def healthy : Nat := 0
def slow : Nat := 1
def syncing : Nat := 2

/-- `getProgressState` inside `GetClusterProgress`. -/
def progressState (r : Raft) (p : Prog) : Nat :=
  if r.self = p.id then healthy
  else if p.state = 2 then syncing
  else if p.state = 0 || (r.lastIdx > p.matchIdx && r.lastIdx - p.matchIdx > r.gap) then slow
  else healthy

/-- `GetClusterProgress`: `(N, [(id, status)])`; empty when there is no node, the node is not the
leader, or the progress table is empty. -/
def clusterProgress (r : Raft) : Nat × List (Nat × Nat) :=
  if !r.hasNode || !r.leader then (0, [])
  else if r.prog.length = 0 then (0, [])
  else (r.prog.length, r.prog.map (fun p => (p.id, progressState r p)))

def healthyCount (ms : List (Nat × Nat)) : Nat := (ms.filter (fun x => x.2 == healthy)).length

inductive ERes
  | ok | statusEmpty | unhealthyExists | noProgress | removeHealthy | invType
deriving DecidableEq, Repr

/-- `Cluster.isEnableChangeMembership(cc)`. -/
def enable (r : Raft) (ccType nodeId : Nat) : ERes :=
  if !r.hasNode || r.statusId = 0 then .statusEmpty
  else
    let cp := clusterProgress r
    let h := healthyCount cp.2
    if ccType = ccAdd then
      if cp.2.any (fun x => x.2 != healthy) then .unhealthyExists else .ok
    else if ccType = ccRemove then
      match cp.2.lookup nodeId with
      | none => .noProgress
      | some st =>
        if st != healthy then .ok
        else if !(Aergo.Gen.RaftQuorum.removeKeepsQuorum (Int.ofNat cp.1) (Int.ofNat h)) then .removeHealthy
        else .ok
    else .invType

/-- The whole gate of a membership change (`makeProposal` then `isEnableChangeMembership`):
accepted iff both checks pass. -/
def changeAccepted (cl : Cluster) (r : Raft) (ccType : Nat) (m : Option Member) : Bool :=
  match m with
  | none => false
  | some mm => validate cl ccType m == .ok && enable r ccType mm.id == .ok

/-! ## The production request path and the raft-log path of a membership change -/

/-- `types.MembershipChange`: `typ` 0 = ADD_MEMBER, 1 = REMOVE_MEMBER. -/
structure Req where
  typ : Nat
  id : Nat
  name : String
  addr : String
  addrOk : Bool
  peer : Bytes
deriving DecidableEq, Repr

inductive CMRes
  | ok | pending | invalidReqType | invalidAttr | invalidId | v (r : VRes) | e (r : ERes) | notLeader
deriving DecidableEq, Repr

/-- `Cluster.makeProposal`: pending-change check, `NewMemberFromAddReq` / `NewMemberFromRemoveReq`,
`makeConfChange`, `validateChangeMembership`. `genId` is the id `NewMember` derives for an added member
(a hash of name, chain id and the current time — an input of the model). -/
def makeProposal (cl : Cluster) (pending : Bool) (req : Req) (genId : Nat) : Except CMRes Member :=
  if pending then .error .pending
  else if req.typ = 0 then
    if req.name.isEmpty || req.addr.isEmpty || req.peer.isEmpty then .error .invalidAttr
    else
      let m : Member := ⟨genId, req.name, req.addr, req.addrOk, req.peer⟩
      match validate cl ccAdd (some m) with
      | .ok => .ok m
      | r => .error (.v r)
  else if req.typ = 1 then
    if req.id = 0 then .error .invalidId
    else
      let m : Member := ⟨req.id, "", "", false, []⟩
      match validate cl ccRemove (some m) with
      | .ok => .ok m
      | r => .error (.v r)
  else .error .invalidReqType

/-- `Cluster.ChangeMembership(req, nowait)` up to the hand-over to raft: `makeProposal`, then
`isEnableChangeMembership`, then `submitProposal` (which succeeds when nothing is pending). -/
def changeMembership (cl : Cluster) (r : Raft) (pending : Bool) (req : Req) (genId : Nat) : CMRes :=
  match makeProposal cl pending req genId with
  | .error e => e
  | .ok m =>
    match enable r req.typ m.id with
    | .ok => .ok
    | e => .e e

/-- `BlockFactory.MakeConfChangeProposal`: only the leader; then as `ChangeMembership` without the submit. -/
def makeConfChangeProposal (cl : Cluster) (r : Raft) (pending : Bool) (req : Req) (genId : Nat) : CMRes :=
  if !r.leader then .notLeader else changeMembership cl r pending req genId

/-- `raftServer.applyConfChange` on a committed conf-change entry carrying member `m`:
`ValidateConfChangeEntry` (→ `validateChangeMembership`), and only if it passes `addMember` /
`removeMember` (the removed member's id joins the removed set). A refused entry changes nothing. -/
def applyConfChange (cl : Cluster) (ccType : Nat) (m : Member) : Cluster × VRes :=
  match validate cl ccType (some m) with
  | .ok =>
    if ccType = ccAdd then (⟨cl.applied ++ [m], cl.removed⟩, .ok)
    else (⟨cl.applied.filter (fun p => p.id != m.id), cl.removed ++ [m.id]⟩, .ok)
  | r => (cl, r)

/-! ## Cluster.Recover (snapshot catch-up, restart) -/

/-- The cluster with the removed members in full (what a snapshot carries). -/
structure ClusterF where
  applied : List Member
  removed : List Member
deriving Repr

def ClusterF.toCluster (c : ClusterF) : Cluster := ⟨c.applied, c.removed.map (·.id)⟩

/-- `Member.Equal` (id, peer id, name, address). -/
def memberEq (a b : Member) : Bool := a.id == b.id && a.peer == b.peer && a.name == b.name && a.addr == b.addr

/-- `sort.Sort(consensus.MembersByName(…))`. -/
def sortByName (ms : List Member) : List Member := ms.mergeSort (fun a b => decide (a.name ≤ b.name))

/-- The closure `membersEqual` of `isAllMembersEqual`: same length, pairwise `Equal`. -/
def membersEqual : List Member → List Member → Bool
  | [], [] => true
  | a :: x, b :: y => memberEq a b && membersEqual x y
  | _, _ => false

/-- `Cluster.isAllMembersEqual(members, removedMembers)`. -/
def isAllMembersEqual (cl : ClusterF) (ms rs : List Member) : Bool :=
  membersEqual (sortByName cl.applied) (sortByName ms) && membersEqual (sortByName cl.removed) (sortByName rs)

/-- `addMember(m, applied = true)` for each member of the snapshot on the emptied cluster:
fails (`ErrMemberAlreadyApplied`) when an id occurs twice. -/
def addAll : List Member → List Member → Option (List Member)
  | acc, [] => some acc
  | acc, m :: rest => if acc.any (fun p => p.id == m.id) then none else addAll (acc ++ [m]) rest

/-- `Cluster.Recover(snapshot)`: nothing to do when applied and removed members equal the snapshot's;
otherwise the cluster is emptied and rebuilt from the snapshot. `none` = error. The flag is `isEqual`. -/
def recover (cl : ClusterF) (ms rs : List Member) : Option (ClusterF × Bool) :=
  if isAllMembersEqual cl ms rs then some (cl, true)
  else match addAll [] ms with
    | none => none
    | some ap => some (⟨ap, rs⟩, false)

end Aergo.RaftLog
