/-
Model layer `Receipt` (C19): types/receipt.go at byte level.

  marshalBody / marshalBodyV2 (isMerkle)          receipt.go:35-127
  marshalStoreBinary{,V2}, MarshalMerkleBinary{,V2} receipt.go:129-163, 269-305
  unmarshalBody / unmarshalBodyV2                  receipt.go:165-243   (incl. the stray `pos += l`)
  unmarshalStoreBinary{,V2}                        receipt.go:245-267
  Event.marshalCommonBinary / MarshalMerkleBinary  receipt.go:620-635, 711-715
  Event.marshalStoreBinary / unmarshalStoreBinary  receipt.go:649-695
  Receipts.MarshalBinary / UnmarshalBinary         receipt.go:545-617  (block bloom = 256 bytes or absent)
  Receipts.MerkleRoot leaf list                    receipt.go:527-543

Go strings (`Ret`, `EventName`, `JsonArgs`) are byte strings; `Status` is a Go string. Integers are
their unsigned bit patterns. A decoder result `none` is a Go run-time panic (slice/index out of
range) — the decoders have no error path of their own. Slicing is modelled for slices whose capacity
equals their length (what a database read returns; the harness copies inputs into exact-size slices).
Not stored, hence not modelled: BlockNo, BlockHash, TxIndex, From, To (re-attached by SetMemoryInfo).
-/
import Aergo.Model.Enc

namespace Aergo.Receipt
open Aergo.Enc

structure Event where
  addr : Bytes      -- ContractAddress
  name : Bytes      -- EventName
  args : Bytes      -- JsonArgs
  idx : Nat         -- EventIdx (int32) as uint32 bit pattern
  txHash : Bytes    -- TxHash: part of the Merkle form only; not stored
deriving DecidableEq, Repr

structure Receipt where
  addr : Bytes      -- ContractAddress
  status : String
  ret : Bytes
  txHash : Bytes
  fee : Bytes       -- FeeUsed
  cum : Bytes       -- CumulativeFeeUsed
  gas : Nat         -- GasUsed (V2 formats only)
  feeDeleg : Bool   -- FeeDelegation (V2 formats only)
  bloom : Bytes     -- per-receipt bloom filter: empty or BloomBitByte = 256 bytes
  events : List Event
deriving DecidableEq, Repr

/-- the `switch r.Status` of marshalBody; `none` = "unsupported status in receipt" -/
def statusCode (s : String) : Option Nat :=
  if s = "SUCCESS" then some 0 else if s = "CREATED" then some 1
  else if s = "ERROR" then some 2 else if s = "RECREATED" then some 3 else none

/-- the `switch status` of unmarshalBody; an unknown byte leaves `Status` at its zero value "" -/
def statusName (b : Nat) : String :=
  if b = 0 then "SUCCESS" else if b = 1 then "CREATED"
  else if b = 2 then "ERROR" else if b = 3 then "RECREATED" else ""

/-- `binary.LittleEndian.PutUint32(l, uint32(n))` (the conversion truncates; so does `le 4`). -/
def u32 (n : Nat) : Bytes := le 4 n

/-- V2: `PutUint64(GasUsed)` and one byte 1/0 for `FeeDelegation`; nothing in the old format. -/
def gasBytes (v2 : Bool) (gas : Nat) (fd : Bool) : Bytes :=
  if v2 then le 8 gas ++ [if fd then 1 else 0] else []

/-- `if len(r.Bloom) == 0 { 0 } else { 1, Bloom }` -/
def bloomBytes (bloom : Bytes) : Bytes := if bloom.isEmpty then [0] else 1 :: bloom

def marshalBody (v2 isMerkle : Bool) (r : Receipt) : Option Bytes :=
  match statusCode r.status with
  | none => none
  | some st =>
    some (r.addr ++ ([UInt8.ofNat st]
      ++ ((if !isMerkle || st != 2 then u32 r.ret.length ++ r.ret else [])
      ++ (r.txHash ++ (u32 r.fee.length ++ (r.fee ++ (u32 r.cum.length ++ (r.cum
      ++ (gasBytes v2 r.gas r.feeDeleg
      ++ (bloomBytes r.bloom
      ++ u32 r.events.length))))))))))

/-- `Event.marshalCommonBinary` = `Event.MarshalMerkleBinary`. -/
def Event.common (e : Event) : Bytes :=
  e.addr ++ (u32 e.name.length ++ (e.name ++ (u32 e.args.length ++ (e.args ++ (e.txHash ++ u32 e.idx)))))

/-- `Event.marshalStoreBinary(r)`: a single 0 byte when the event's address is the receipt's. -/
def Event.store (raddr : Bytes) (e : Event) : Bytes :=
  (if e.addr = raddr then [0] else e.addr)
    ++ (u32 e.name.length ++ (e.name ++ (u32 e.args.length ++ (e.args ++ u32 e.idx))))

def marshalStore (v2 : Bool) (r : Receipt) : Option Bytes :=
  (marshalBody v2 false r).map (· ++ (r.events.map (Event.store r.addr)).flatten)

def marshalMerkle (v2 : Bool) (r : Receipt) : Option Bytes :=
  (marshalBody v2 true r).map (· ++ (r.events.map Event.common).flatten)

/-! ### decoders -/

/-- `data[pos : pos+n]` and advance; `none` = out of range. -/
def takeN (n : Nat) (d : Bytes) : Option (Bytes × Bytes) :=
  if n ≤ d.length then some (d.take n, d.drop n) else none

/-- little-endian value of a byte string -/
def fromLE : Bytes → Nat
  | [] => 0
  | b :: rest => b.toNat + 256 * fromLE rest

def readLE (w : Nat) (d : Bytes) : Option (Nat × Bytes) :=
  match takeN w d with
  | some (b, rest) => some (fromLE b, rest)
  | none => none

/-- V2 only: `GasUsed` (8 bytes) and the fee-delegation byte; the old format has neither (fields stay zero). -/
def readGas (v2 : Bool) (d : Bytes) : Option ((Nat × Nat) × Bytes) :=
  if v2 then do
    let (g, d) ← readLE 8 d
    let (f, d) ← readLE 1 d
    pure ((g, f), d)
  else some ((0, 0), d)

/-- `bloomCheck := data[pos]; if bloomCheck == 1 { r.Bloom = data[pos : pos+BloomBitByte] }` -/
def readBloom (d : Bytes) : Option (Bytes × Bytes) := do
  let (bc, d) ← readLE 1 d
  if bc = 1 then takeN 256 d else some ([], d)

/-- `unmarshalBody` (v2 = false) / `unmarshalBodyV2`: fields, remaining bytes, event count. -/
def unmarshalBody (v2 : Bool) (d : Bytes) : Option (Receipt × Bytes × Nat) := do
  let (addr, d) ← takeN 33 d
  let (st, d) ← readLE 1 d
  let (l, d) ← readLE 4 d
  let (ret, d) ← takeN l d
  let (tx, d) ← takeN 32 d
  let (l, d) ← readLE 4 d
  let (fee, d) ← takeN l d
  let (l, d) ← readLE 4 d          -- `l` keeps the length of CumulativeFeeUsed from here on
  let (cum, d) ← takeN l d
  let (gf, d) ← readGas v2 d
  let (bloom, d) ← readBloom d
  let (_, d) ← takeN l d           -- the stray `pos += l` (receipt.go:198 / 240)
  let (n, d) ← readLE 4 d
  pure ({ addr := addr, status := statusName st, ret := ret, txHash := tx, fee := fee, cum := cum,
          gas := gf.1, feeDeleg := gf.2 = 1, bloom := bloom, events := [] }, d, n)

/-- `Event.unmarshalStoreBinary(data, r)` -/
def Event.unstore (raddr : Bytes) (d : Bytes) : Option (Event × Bytes) := do
  let (b0, _) ← readLE 1 d
  let (addr, d) ← if b0 = 0 then some (raddr, d.drop 1) else takeN 33 d
  let (l, d) ← readLE 4 d
  let (name, d) ← takeN l d
  let (l, d) ← readLE 4 d
  let (args, d) ← takeN l d
  let (idx, d) ← readLE 4 d
  pure ({ addr := addr, name := name, args := args, idx := idx, txHash := [] }, d)

def readEvents (raddr : Bytes) : Nat → Bytes → Option (List Event × Bytes)
  | 0, d => some ([], d)
  | n + 1, d => do
    let (e, d) ← Event.unstore raddr d
    let (es, d) ← readEvents raddr n d
    pure (e :: es, d)

/-- `unmarshalStoreBinary{,V2}`: the receipt and the unread rest. -/
def unmarshalStore (v2 : Bool) (d : Bytes) : Option (Receipt × Bytes) := do
  let (r, d, n) ← unmarshalBody v2 d
  let (es, d) ← readEvents r.addr n d
  pure ({ r with events := es }, d)

/-! ### `Receipts` (all receipts of a block, plus the optional block bloom filter) -/

def marshalList (v2 : Bool) : List Receipt → Option Bytes
  | [] => some []
  | r :: rs =>
    match marshalStore v2 r, marshalList v2 rs with
    | some a, some b => some (a ++ b)
    | _, _ => none

/-- `Receipts.MarshalBinary`; `bloom` = the 256 filter bytes (`GobEncode()[24:]`) when `rs.bloom != nil`. -/
def marshalAll (v2 : Bool) (bloom : Option Bytes) (rs : List Receipt) : Option Bytes :=
  (marshalList v2 rs).map fun body =>
    (match bloom with | some b => 1 :: b | none => [0]) ++ (u32 rs.length ++ body)

def unmarshalList (v2 : Bool) : Nat → Bytes → Option (List Receipt)
  | 0, _ => some []
  | n + 1, d => do
    let (r, d) ← unmarshalStore v2 d
    let rs ← unmarshalList v2 n d
    pure (r :: rs)

/-- `Receipts.UnmarshalBinary` -/
def unmarshalAll (v2 : Bool) (d : Bytes) : Option (Option Bytes × List Receipt) := do
  let (c, d) ← readLE 1 d
  let (bloom, d) ← if c = 1 then (takeN 256 d).map (fun (b, d) => (some b, d)) else some (none, d)
  let (n, d) ← readLE 4 d
  let rs ← unmarshalList v2 n d
  pure (bloom, rs)

/-- What storage keeps of an event / a receipt: everything but the event's TxHash copy. -/
def Event.stored (e : Event) : Event := { e with txHash := [] }
def Receipt.stored (v2 : Bool) (r : Receipt) : Receipt :=
  { r with events := r.events.map Event.stored,
           gas := if v2 then r.gas else 0, feeDeleg := if v2 then r.feeDeleg else false }

/-- Decidable well-formedness under which the store codec round-trips. -/
def Event.wf (raddr : Bytes) (e : Event) : Bool :=
  e.addr.length == 33 && (e.addr == raddr || e.addr.head? != some 0) &&
  decide (e.name.length < 2 ^ 32) && decide (e.args.length < 2 ^ 32) && decide (e.idx < 2 ^ 32)

def Receipt.wf (r : Receipt) : Bool :=
  r.addr.length == 33 && (statusCode r.status).isSome && r.txHash.length == 32 &&
  decide (r.ret.length < 2 ^ 32) && decide (r.fee.length < 2 ^ 32) &&
  r.cum.isEmpty &&                                  -- because of the stray `pos += l`
  decide (r.gas < 2 ^ 64) && (r.bloom.isEmpty || r.bloom.length == 256) &&
  decide (r.events.length < 2 ^ 32) && r.events.all (Event.wf r.addr)

end Aergo.Receipt
