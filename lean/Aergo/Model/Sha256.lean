/-! SHA-256 (FIPS 180-4), used ONLY by model drivers to instantiate the hash parameter so that
verifier *verdicts* of the model can be compared with the real code. No theorem mentions it:
theorems are stated for an arbitrary hash function. Its agreement with the node's hasher is
checked by every correspondence run (a wrong digest shows up as a trace difference). -/
namespace Aergo.Sha256

def k : Array UInt32 := #[
  0x428a2f98, 0x71374491, 0xb5c0fbcf, 0xe9b5dba5, 0x3956c25b, 0x59f111f1, 0x923f82a4, 0xab1c5ed5,
  0xd807aa98, 0x12835b01, 0x243185be, 0x550c7dc3, 0x72be5d74, 0x80deb1fe, 0x9bdc06a7, 0xc19bf174,
  0xe49b69c1, 0xefbe4786, 0x0fc19dc6, 0x240ca1cc, 0x2de92c6f, 0x4a7484aa, 0x5cb0a9dc, 0x76f988da,
  0x983e5152, 0xa831c66d, 0xb00327c8, 0xbf597fc7, 0xc6e00bf3, 0xd5a79147, 0x06ca6351, 0x14292967,
  0x27b70a85, 0x2e1b2138, 0x4d2c6dfc, 0x53380d13, 0x650a7354, 0x766a0abb, 0x81c2c92e, 0x92722c85,
  0xa2bfe8a1, 0xa81a664b, 0xc24b8b70, 0xc76c51a3, 0xd192e819, 0xd6990624, 0xf40e3585, 0x106aa070,
  0x19a4c116, 0x1e376c08, 0x2748774c, 0x34b0bcb5, 0x391c0cb3, 0x4ed8aa4a, 0x5b9cca4f, 0x682e6ff3,
  0x748f82ee, 0x78a5636f, 0x84c87814, 0x8cc70208, 0x90befffa, 0xa4506ceb, 0xbef9a3f7, 0xc67178f2]

def rotr (x : UInt32) (n : UInt32) : UInt32 := (x >>> n) ||| (x <<< (32 - n))

def init : Array UInt32 := #[0x6a09e667, 0xbb67ae85, 0x3c6ef372, 0xa54ff53a, 0x510e527f, 0x9b05688c, 0x1f83d9ab, 0x5be0cd19]

/-- one 64-byte block -/
def compress (hs : Array UInt32) (block : Array UInt8) : Array UInt32 := Id.run do
  let mut w : Array UInt32 := Array.replicate 64 0
  for i in [0:16] do
    let b0 := (block[4*i]!).toUInt32
    let b1 := (block[4*i+1]!).toUInt32
    let b2 := (block[4*i+2]!).toUInt32
    let b3 := (block[4*i+3]!).toUInt32
    w := w.set! i ((b0 <<< 24) ||| (b1 <<< 16) ||| (b2 <<< 8) ||| b3)
  for i in [16:64] do
    let w15 := w[i-15]!
    let w2 := w[i-2]!
    let s0 := rotr w15 7 ^^^ rotr w15 18 ^^^ (w15 >>> 3)
    let s1 := rotr w2 17 ^^^ rotr w2 19 ^^^ (w2 >>> 10)
    w := w.set! i (w[i-16]! + s0 + w[i-7]! + s1)
  let mut a := hs[0]!
  let mut b := hs[1]!
  let mut c := hs[2]!
  let mut d := hs[3]!
  let mut e := hs[4]!
  let mut f := hs[5]!
  let mut g := hs[6]!
  let mut h := hs[7]!
  for i in [0:64] do
    let s1 := rotr e 6 ^^^ rotr e 11 ^^^ rotr e 25
    let ch := (e &&& f) ^^^ ((~~~ e) &&& g)
    let t1 := h + s1 + ch + k[i]! + w[i]!
    let s0 := rotr a 2 ^^^ rotr a 13 ^^^ rotr a 22
    let maj := (a &&& b) ^^^ (a &&& c) ^^^ (b &&& c)
    let t2 := s0 + maj
    h := g; g := f; f := e; e := d + t1; d := c; c := b; b := a; a := t1 + t2
  return #[hs[0]! + a, hs[1]! + b, hs[2]! + c, hs[3]! + d, hs[4]! + e, hs[5]! + f, hs[6]! + g, hs[7]! + h]

def sha256 (msg : List UInt8) : List UInt8 := Id.run do
  let len := msg.length
  let bitLen : UInt64 := (UInt64.ofNat len) * 8
  let padLen := (55 - len % 64 + 64) % 64
  let mut data : Array UInt8 := msg.toArray.push 0x80
  for _ in [0:padLen] do
    data := data.push 0
  for i in [0:8] do
    data := data.push (bitLen >>> (UInt64.ofNat (8 * (7 - i)))).toUInt8
  let mut hs := init
  for j in [0:data.size / 64] do
    hs := compress hs (data.extract (64 * j) (64 * j + 64))
  let mut out : Array UInt8 := #[]
  for x in hs do
    out := out.push (x >>> 24).toUInt8 |>.push (x >>> 16).toUInt8 |>.push (x >>> 8).toUInt8 |>.push x.toUInt8
  return out.toList

end Aergo.Sha256
