/-
Model layer `Slot` (C09): DPoS slot arithmetic and the block-producer entitlement test.

The integer functions come from `Aergo.Gen.Slot`, which is regenerated from
/repo/consensus/impl/dpos/slot/slot.go on every run (tie T). What is hand-written here is
only the glue that `fromUnixNs`, `IsFuture`, `DPoS.IsBlockValid` and `bp.Cluster` add.
Go's `/` and `%` on int64 truncate toward zero: `Int.tdiv`, `Int.tmod`.
-/
import Aergo.Gen.Slot

namespace Aergo.Slot
open Aergo.Gen.Slot

/-- `slot.Slot` as built by `fromUnixNs`. -/
structure Slot where
  timeNs : Int
  timeMs : Int
  prevIndex : Int
  nextIndex : Int
deriving Repr, DecidableEq

/-- `fromUnixNs` (slot.go): interval is the package variable `blockIntervalMs`. -/
def fromUnixNs (interval ns : Int) : Slot :=
  let ms := nsToMs ns
  { timeNs := ns, timeMs := ms,
    prevIndex := msToPrevIndex interval ms,
    nextIndex := msToNextIndex interval ms }

/-- `(*Slot).IsFuture` with the local clock passed in (Go reads `time.Now()`). -/
def isFuture (interval : Int) (s : Slot) (nowNs : Int) : Bool :=
  decide (s.nextIndex ≥ (fromUnixNs interval nowNs).nextIndex + 2)

/-- The owner index of the slot containing `ns`, for `n` producers. -/
def owner (interval ns n : Int) : Int :=
  Slot_NextBpIndex (fromUnixNs interval ns).nextIndex n

/-- `indexNil` of bp/cluster.go: what `BpID2Index` returns for a non-member. -/
def indexNil : Int := 65535

/-- `Cluster.Update` builds `index : PeerID → Index` by iterating the id list in order
(later duplicates win); `BpID2Index` looks the id up, `indexNil` if absent. -/
def bpID2Index (ids : List String) (id : String) : Int :=
  let rec go (l : List String) (i : Int) (acc : Int) : Int :=
    match l with
    | [] => acc
    | x :: xs => go xs (i + 1) (if x == id then i else acc)
  go ids 0 indexNil

/-- `DPoS.IsBlockValid`: the producer id must map to the index owning the timestamp's slot. -/
def isBlockValid (interval : Int) (ids : List String) (bpid : String) (tsNs : Int) : Bool :=
  Slot_IsFor (fromUnixNs interval tsNs).nextIndex (bpID2Index ids bpid) ids.length

end Aergo.Slot
