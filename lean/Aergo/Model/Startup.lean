/-
Model layer `Startup` (C19): the start-up path that decides whether a node may run on an existing chain
database with its configured hardfork heights, and the small carried-identifier rules.

  chain/chainservice.go `ChainService.checkHardfork`   (private chain: no mainnet/testnet override)
  chain/chaindb.go      `ChainDB.Hardfork`              (no record → empty map; json error → nil; else FixDbConfig)
  chain/chaindb.go      `ChainDB.WriteHardfork`         (the node's whole configuration as JSON)
  config/hardfork_gen.go `HardforkDbConfig.FixDbConfig` (keys the record lacks are added)
  types/blockchain.go   `Block.BlockHash`               (the carried Hash when non-empty, else the header digest, memoised)
  types/transaction.go  `transaction.Validate`          (carried Hash must equal CalculateTxHash)
  types/receipt.go / chain/chaindb.go / chain/chainhandle.go / consensus/impl/*: receipt format of a block =
                         `IsV2Fork(blockNo)` at every call site

The value a missing key is given by `FixDbConfig` and the treatment of an unreadable record are parameters
(`fill`, `strict`), so that the pinned behaviour and the repaired one are instances of one definition.
-/
import Aergo.Model.Hardfork
namespace Aergo.Startup
open Aergo.Hardfork

/-- What is stored under `dbkey.HardFork()` as `ChainDB.Hardfork` sees it. -/
inductive Stored
  | absent                 -- `len(data) == 0`
  | unparsable             -- `json.Unmarshal(data, &map[string]uint64)` fails
  | record (d : DbConfig)  -- a JSON object of unsigned numbers

/-- `FixDbConfig` with the value of an added key made explicit: field `i` (height `x` in the node's
configuration) missing in the record is added as `fill x`. -/
def fixFromWith (fill : Nat → Nat) (d : List (Nat × Nat)) : Nat → Config → List (Nat × Nat)
  | _, [] => d
  | i, x :: rest =>
    fixFromWith fill (if (d.lookup (i + 2)).isSome then d else d ++ [(i + 2, fill x)]) (i + 1) rest

inductive Outcome
  | started              -- check passed (or skipped); `WriteHardfork(config)` ran
  | refused (e : Compat) -- `CheckCompatibility` returned an error; nothing written
  | unreadable           -- (repaired variant only) the stored record cannot be read; nothing written
deriving DecidableEq, Repr

/-- `checkHardfork` with the two parameters. -/
def checkHardforkWith (fill : Nat → Nat) (strict : Bool) (c : Config) (s : Stored) (best : Nat) : Outcome :=
  match s with
  | .absent => .started
  | .unparsable => if strict then .unreadable else .started
  | .record d =>
    let d' : DbConfig := { d with entries := fixFromWith fill d.entries 0 c }
    if d'.entries.isEmpty && d'.badKeys == 0 then .started
    else match checkCompatibility c d' best with
      | .ok => .started
      | e => .refused e

/-- The pinned code: a missing key gets the node's own height, an unreadable record counts as "no record". -/
def checkHardfork (c : Config) (s : Stored) (best : Nat) : Outcome := checkHardforkWith id false c s best

/-- The repair proposed in notes/C19.md: a missing key means "never activated so far" (`never` = MaxUint64),
an unreadable record refuses the start. -/
def checkHardforkRepaired (never : Nat) (c : Config) (s : Stored) (best : Nat) : Outcome :=
  checkHardforkWith (fun _ => never) true c s best

/-- The record `WriteHardfork` leaves for a configuration: one key `V<i+2>` per field. -/
def recFrom : Nat → Config → List (Nat × Nat)
  | _, [] => []
  | i, x :: rest => (i + 2, x) :: recFrom (i + 1) rest

def recordOf (c : Config) : DbConfig := { entries := recFrom 0 c, badKeys := 0 }

/-- The stored record after a start: rewritten with the node's configuration iff the node started. -/
def recordAfter (o : Outcome) (c : Config) (s : Stored) : Stored :=
  match o with
  | .started => .record (recordOf c)
  | _ => s

/-- One data directory over any number of starts: `(configuration, best block number at that start)`;
returns the configuration of the last start that was accepted (`old` if none was). -/
def lastAccepted (check : Config → Stored → Nat → Outcome) (old : Config) : List (Config × Nat) → Config
  | [] => old
  | (c, best) :: rest =>
    match check c (.record (recordOf old)) best with
    | .started => lastAccepted check c rest
    | _ => lastAccepted check old rest

/-! ### carried identifiers -/

/-- `Block.BlockHash()`: the carried `Hash` when it is non-empty, else the digest of the header. -/
def blockHash (carried digest : List UInt8) : List UInt8 := if carried.isEmpty then digest else carried

/-- `transaction.Validate`, the hash clause: the carried `Hash` must be the digest of the body. -/
def txHashOk (carried digest : List UInt8) : Bool := carried == digest

/-- Receipt format of the block at height `no` (1 = before the V2 fork, 2 = from it on): the same function at the
producer (`blockfactory.go`), the validator (`chainhandle.go`), the writer and the reader (`chaindb.go`). -/
def receiptFormat (c : Config) (no : Nat) : Nat :=
  match c with
  | [] => 1
  | v2 :: _ => if isFork v2 no then 2 else 1

end Aergo.Startup
