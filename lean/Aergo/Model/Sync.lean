/-
Model layer `Sync` (C17): the block synchroniser.

Transcribed from /repo (function by function; see notes/C17.md for the line map):

* syncer/finder.go          binarySearch, hasSameHash (as the `probe` parameter), lightscan, getAncestor
                            (acceptance rule), fullscan
* chain/chainanchor.go      getAnchorsNew (heights of the anchors, LastNo)
* syncer/hashfetcher.go     requestHashSet, GetHahsesRsp (empty reply dropped), isValidResponse,
                            processHashSet, isFinished and the body of the run loop
* syncer/blockfetcher.go    schedule, searchCandidateTask (getNewHashSet, addNewFetchTasks), popNextTask,
                            runTask, checkTaskTimeout, processFailedTask, findFinished, isMatched,
                            isPeerMatched, SortedTaskQueue.Push, PeerSet (addNew, pushFree, popFree,
                            processPeerFail, isAllBad)
* syncer/blockprocessor.go  run, isValidResponse, GetBlockChunkRsp, GetBlockChunkRspError,
                            AddBlockResponse, addConnectTask, getNextBlockToConnect, pushToConnQueue,
                            popFromConnQueue
* syncer/syncerservice.go   verifySeq, the `!isRunning` garbage filter of Receive, handleSyncStart (guards),
                            Reset
* p2p/blkreceiver.go        BlocksChunkReceiver.ReceiveResp / handleInWaiting / cancelReceiving

Conventions. Block ids (hashes) are opaque and modelled by `Nat` tokens chosen by the harness
(equal tokens ⇔ equal byte strings); the model never hashes anything. `uint64` heights are `Nat`
(the only place where wrap-around is reachable, `LastAnchor-1` in fullscan, is modelled
explicitly). Time is a tick counter: a running task carries its age and `tick d` ages every
running task by `d`; the task has timed out when `age > timeout` (`now.Sub(started) > timeout`).
Go channels, goroutines and timers are not modelled: every function below is one synchronous
step of the state machine; which step comes next is the environment's choice (the event list).
A Go `panic` is an explicit outcome (`Err.panic`).
-/

namespace Aergo.Sync

/-! ## Finder -/

/-- What one round of `hasSameHash` (plus the local `GetHashByNo` before it) yields for a height. -/
inductive Probe
  | same       -- remote hash at this height equals the local one
  | diff       -- remote hash differs, or the remote has no block at this height (`BlockHash == nil`, no error)
  | localErr   -- local `GetHashByNo` failed (height above the local best block)
  | remoteErr  -- the reply carried an error, or no reply before the timeout, or quit
deriving DecidableEq, Repr

inductive FindRes
  | ok (a : Option Nat)
  | localErr
  | remoteErr
deriving DecidableEq, Repr

/-- `Finder.binarySearch(left, right)`; `last` is the variable `lastMatch`. -/
def binarySearch (probe : Nat → Probe) (lo hi : Nat) (last : Option Nat) : FindRes :=
  if lo ≤ hi then
    match probe ((lo + hi) / 2) with
    | .localErr => .localErr
    | .remoteErr => .remoteErr
    | .same => binarySearch probe ((lo + hi) / 2 + 1) hi (some ((lo + hi) / 2))
    | .diff =>
      if (lo + hi) / 2 = 0 then .ok last
      else binarySearch probe lo ((lo + hi) / 2 - 1) last
  else .ok last
termination_by hi + 1 - lo
decreasing_by all_goals omega

/-- The heights probed, in order (the `GetHashByNo` requests the finder sends). -/
def bsProbes (probe : Nat → Probe) (lo hi : Nat) : List Nat :=
  if lo ≤ hi then
    (lo + hi) / 2 ::
      match probe ((lo + hi) / 2) with
      | .localErr => []
      | .remoteErr => []
      | .same => bsProbes probe ((lo + hi) / 2 + 1) hi
      | .diff => if (lo + hi) / 2 = 0 then [] else bsProbes probe lo ((lo + hi) / 2 - 1)
  else []
termination_by hi + 1 - lo
decreasing_by all_goals omega

def maxAnchors : Nat := 32
def skip : Nat := 16

/-- Heights of the anchors `getAnchorsNew` collects, from `no` downwards, at most `fuel` of them. -/
def anchorsFrom : Nat → Nat → List Nat
  | 0, _ => []
  | fuel + 1, no =>
    no :: (if no = 0 then [] else anchorsFrom fuel (if no < skip then 0 else no - skip))

/-- `getAnchorsNew`: anchor heights of a chain whose best block is `best` (never empty). -/
def anchors (best : Nat) : List Nat := anchorsFrom maxAnchors best

/-- `LastNo` returned with the anchors: the lowest anchor height. -/
def lastAnchorOf (best : Nat) : Nat := (anchors best).getLast?.getD 0

/-- Acceptance rule of `getAncestor`: a reply is taken if it is nil or not below `LastAnchor`;
anything else is skipped and the finder keeps waiting. -/
def lightAccept (lastAnchor : Nat) (r : Option Nat) : Bool :=
  match r with
  | none => true
  | some n => decide (lastAnchor ≤ n)

inductive FinderOut
  | ancestor (no : Nat)     -- FinderResult{Ancestor}
  | noAncestor              -- FinderResult{Ancestor: nil}  (the service turns it into ErrFinderInternal)
  | alreadyDone             -- ErrAlreadySyncDone
  | timeout                 -- ErrorGetSyncAncestorTimeout: no acceptable reply arrived
  | localErr
  | remoteErr
deriving DecidableEq, Repr

def uint64Max : Nat := 18446744073709551615

/-- `finder.ctx.LastAnchor - 1` in uint64 arithmetic. -/
def predU64 (n : Nat) : Nat := if n = 0 then uint64Max else n - 1

/-- The body of `Finder.start`: lightscan, then fullscan when lightscan found nothing.
`replies` are the `GetSyncAncestorRsp` heights that reach the finder before its timer fires. -/
def finder (fullOnly : Bool) (best target : Nat) (replies : List (Option Nat)) (probe : Nat → Probe) : FinderOut :=
  let full (lastAnchor : Nat) : FinderOut :=
    match binarySearch probe 0 (predU64 lastAnchor) none with
    | .ok (some a) => .ancestor a
    | .ok none => .noAncestor
    | .localErr => .localErr
    | .remoteErr => .remoteErr
  if fullOnly then full (best + 1)
  else
    let la := lastAnchorOf best
    match replies.find? (lightAccept la) with
    | none => .timeout
    | some (some n) => if target ≤ n then .alreadyDone else .ancestor n
    | some none => full la

/-! ## HashFetcher -/

structure HF where
  lastHash : Nat
  lastNo : Nat
  reqCount : Nat
  target : Nat
  maxReq : Nat
deriving DecidableEq, Repr

/-- A `GetHashesRsp` as it reaches the syncer. -/
structure HashesRsp where
  prevHash : Nat
  prevNo : Nat
  count : Nat
  hashes : List Nat
  err : Bool
deriving DecidableEq, Repr

/-- `requestHashSet`: the count asked for next (sent with `PrevInfo = (lastHash, lastNo)`). -/
def HF.nextCount (h : HF) : Nat :=
  if h.target < h.lastNo + h.maxReq then h.target - h.lastNo else h.maxReq

def HF.request (h : HF) : HF := { h with reqCount := h.nextCount }

inductive HFOut
  | dropped                                   -- empty reply: `GetHahsesRsp` returns before the channel
  | ignored                                   -- wrong echo, no error: nothing happens (timer restarts)
  | stopErr                                   -- reply carried an error → stopSyncer(err)
  | stopInvalid                               -- lastHashNo > target → ErrInvalidHashSet
  | pushed (startNo : Nat) (hashes : List Nat) (finished : Bool)
                                              -- hash set handed to the BlockFetcher; finished ⇒ CloseFetcher, else next request
deriving DecidableEq, Repr

/-- `GetHahsesRsp` + one iteration of the run loop on `responseCh`. -/
def HF.response (h : HF) (m : HashesRsp) : HF × HFOut :=
  if m.hashes.isEmpty then (h, .dropped)
  else if m.err then (h, .stopErr)
  else if ¬ (h.lastNo = m.prevNo ∧ h.lastHash = m.prevHash) ∨ h.reqCount ≠ m.count then (h, .ignored)
  else
    let startNo := m.prevNo + 1
    let lastHashNo := startNo + m.hashes.length - 1
    if h.target < lastHashNo then (h, .stopInvalid)
    else
      let h1 := { h with lastHash := m.hashes.getLast?.getD 0, lastNo := lastHashNo }
      if h1.lastNo = h1.target then (h1, .pushed startNo m.hashes true)
      else (h1.request, .pushed startNo m.hashes false)

/-! ## BlockFetcher and BlockProcessor -/

structure Blk where
  hash : Nat
  prev : Nat
  no : Nat
deriving DecidableEq, Repr

/-- `FetchTask`. `peer` is the `SyncPeer.No` of the peer it runs on. -/
structure Task where
  startNo : Nat
  hashes : List Nat
  peer : Option Nat
  retry : Nat
  age : Nat
deriving DecidableEq, Repr

structure Peer where
  no : Nat
  failCnt : Nat
deriving DecidableEq, Repr

/-- `ConnectTask`. -/
structure ConnTask where
  blocks : List Blk
  firstNo : Nat
  cur : Nat
deriving DecidableEq, Repr

structure Cfg where
  maxFetchSize : Nat
  maxFetchTasks : Nat
  maxPendingConn : Nat
  timeout : Nat
deriving DecidableEq, Repr

def maxPeerFailCount : Nat := 3

inductive Err
  | allPeerBad     -- ErrAllPeerBad
  | rspErr         -- the error carried by an AddBlockRsp
  | invalidAdd     -- ErrSyncMsg: nil hash or not the block being connected
  | panic          -- Go panic (nil `curBlock`, index out of range) → RecoverSyncer → ErrSyncerPanic
deriving DecidableEq, Repr

/-- What the fetcher/processor send to other actors. -/
inductive Out
  | fetch (peer : Nat) (hashes : List Nat)     -- GetBlockChunks to P2P
  | addBlock (b : Blk)                         -- AddBlock to the chain service
  | stop (e : Option Err)                      -- SyncStop to the syncer (none = success)
deriving DecidableEq, Repr

structure St where
  cfg : Cfg
  target : Nat
  hfq : List (Nat × List Nat)        -- hash sets waiting in hfCh
  curHashSet : Bool                  -- bf.curHashSet != nil
  running : List Task
  pending : List Task
  retryQ : List Task
  free : List Peer
  total : Nat
  bad : Nat
  connQ : List ConnTask
  curConn : Option ConnTask
  prev : Blk                         -- bproc.prevBlock (the ancestor at first; never nil)
  curBlock : Option Blk
  halted : Bool                      -- the run loop has returned after an error
deriving DecidableEq, Repr

/-- `newBlockFetcher` + `init` with `n` running peers (`addNew` numbers them 0..n-1). -/
def St.init (cfg : Cfg) (anc : Blk) (target npeers : Nat) : St :=
  { cfg, target, hfq := [], curHashSet := false, running := [], pending := [], retryQ := [],
    free := (List.range npeers).map fun i => ⟨i, 0⟩, total := npeers, bad := 0,
    connQ := [], curConn := none, prev := anc, curBlock := none, halted := false }

/-- `pushToConnQueue`: insert before the first entry with a greater `firstNo`
(`sort.Search` on the sorted queue). -/
def pushConn : List ConnTask → ConnTask → List ConnTask
  | [], t => [t]
  | c :: r, t => if t.firstNo < c.firstNo then t :: c :: r else c :: pushConn r t

/-- `popFromConnQueue`. -/
def popConn (s : St) : Option (ConnTask × List ConnTask) :=
  match s.connQ with
  | [] => none
  | c :: r => if c.firstNo ≠ s.prev.no + 1 then none else some (c, r)

/-- `getNextBlockToConnect` followed by `connectBlock` of its result. -/
def connectNext (s : St) : Except Err (St × List Out) :=
  if s.curBlock.isSome then .ok (s, [])
  else
    -- request next block of current Request
    let cc : Option ConnTask :=
      match s.curConn with
      | none => none
      | some c => if c.cur + 1 ≥ c.blocks.length then none else some { c with cur := c.cur + 1 }
    let s := { s with curConn := cc }
    -- pop from pending request
    let r : Option (St × ConnTask) :=
      match cc with
      | some c => some (s, c)
      | none =>
        match popConn s with
        | none => none
        | some (c, q) => some ({ s with connQ := q, curConn := some c }, c)
    match r with
    | none => .ok (s, [])
    | some (s, c) =>
      match c.blocks[c.cur]? with
      | none => .error .panic
      | some b => .ok ({ s with curBlock := some b }, [.addBlock b])

/-- `isValidResponse` on a `GetBlockChunksRsp`: error flag, emptiness, hash linkage inside the chunk. -/
def linked : List Blk → Bool
  | [] => true
  | [_] => true
  | a :: b :: r => a.hash == b.prev && linked (b :: r)

def validChunk (err : Bool) (blocks : List Blk) : Bool :=
  !err && !blocks.isEmpty && linked blocks

/-- `FetchTask.isMatched`. -/
def isMatched (t : Task) (peer : Nat) (blocks : List Blk) : Bool :=
  t.hashes.length == blocks.length && t.peer == some peer && t.hashes == blocks.map (·.hash)

/-- `findFinished`: remove and return the first running task that matches. -/
def findTask (p : Task → Bool) : List Task → Option (Task × List Task)
  | [] => none
  | t :: r =>
    if p t then some (t, r)
    else match findTask p r with
      | none => none
      | some (x, r') => some (x, t :: r')

/-- `SortedTaskQueue.Push`: before the first task with a greater `startNo`. -/
def pushRetry : List Task → Task → List Task
  | [], t => [t]
  | c :: r, t => if t.startNo < c.startNo then t :: c :: r else c :: pushRetry r t

/-- `processFailedTask(task, false)` (with `PeerSet.processPeerFail`). The failed peer is
identified by the task; its fail count lives with the task's peer record `p`. -/
def failTask (s : St) (t : Task) (p : Peer) : Except Err St :=
  let p := { p with failCnt := p.failCnt + 1 }
  let s := if p.failCnt ≥ maxPeerFailCount then { s with bad := s.bad + 1 }
           else { s with free := s.free ++ [p] }
  let t := { t with retry := t.retry + 1, peer := none }
  let s := { s with retryQ := pushRetry s.retryQ t }
  if s.total = s.bad then .error .allPeerBad else .ok s

end Aergo.Sync
