/-
Model layer `Sync` (C17): the block synchroniser.

Transcribed from /repo (function by function; see notes/C17.md for the line map):

* syncer/finder.go          binarySearch, hasSameHash (as the `probe` parameter), lightscan, getAncestor
                            (acceptance rule), fullscan
* chain/chainanchor.go      getAnchorsNew (heights of the anchors, LastNo)
* syncer/hashfetcher.go     requestHashSet, GetHahsesRsp (empty reply dropped), isValidResponse,
                            processHashSet, isFinished and the body of the run loop
* syncer/blockfetcher.go    schedule, searchCandidateTask (getNewHashSet, addNewFetchTasks), popNextTask,
                            runTask, checkTaskTimeout, processFailedTask, findFinished, isMatched,
                            isPeerMatched, SortedTaskQueue.Push, PeerSet (addNew, pushFree, popFree,
                            processPeerFail, isAllBad)
* syncer/blockprocessor.go  run, isValidResponse, GetBlockChunkRsp, GetBlockChunkRspError,
                            AddBlockResponse, addConnectTask, getNextBlockToConnect, pushToConnQueue,
                            popFromConnQueue
* syncer/syncerservice.go   verifySeq, the `!isRunning` garbage filter of Receive, handleSyncStart (guards),
                            Reset
* p2p/blkreceiver.go        BlocksChunkReceiver.ReceiveResp / handleInWaiting / cancelReceiving

Conventions. Block ids (hashes) are opaque and modelled by `Nat` tokens chosen by the harness
(equal tokens ⇔ equal byte strings); the model never hashes anything. `uint64` heights are `Nat`
(the only place where wrap-around is reachable, `LastAnchor-1` in fullscan, is modelled
explicitly). Time is a tick counter: a running task carries its age and `tick d` ages every
running task by `d`; the task has timed out when `age > timeout` (`now.Sub(started) > timeout`).
Go channels, goroutines and timers are not modelled: every function below is one synchronous
step of the state machine; which step comes next is the environment's choice (the event list).
A Go `panic` is an explicit outcome (`Err.panic`).
-/

namespace Aergo.Sync

/-! ## Finder -/

/-- What one round of `hasSameHash` (plus the local `GetHashByNo` before it) yields for a height. -/
inductive Probe
  | same       -- remote hash at this height equals the local one
  | diff       -- remote hash differs, or the remote has no block at this height (`BlockHash == nil`, no error)
  | localErr   -- local `GetHashByNo` failed (height above the local best block)
  | remoteErr  -- the reply carried an error, or no reply before the timeout, or quit
deriving DecidableEq, Repr

inductive FindRes
  | ok (a : Option Nat)
  | localErr
  | remoteErr
deriving DecidableEq, Repr

/-- `Finder.binarySearch(left, right)`; `last` is the variable `lastMatch`. -/
def binarySearch (probe : Nat → Probe) (lo hi : Nat) (last : Option Nat) : FindRes :=
  if lo ≤ hi then
    match probe ((lo + hi) / 2) with
    | .localErr => .localErr
    | .remoteErr => .remoteErr
    | .same => binarySearch probe ((lo + hi) / 2 + 1) hi (some ((lo + hi) / 2))
    | .diff =>
      if (lo + hi) / 2 = 0 then .ok last
      else binarySearch probe lo ((lo + hi) / 2 - 1) last
  else .ok last
termination_by hi + 1 - lo
decreasing_by all_goals omega

/-- The heights asked of the remote peer, in order (the `GetHashByNo` requests the finder sends;
a height whose local hash is missing is not asked). -/
def bsProbes (probe : Nat → Probe) (lo hi : Nat) : List Nat :=
  if lo ≤ hi then
    match probe ((lo + hi) / 2) with
    | .localErr => []
    | .remoteErr => [(lo + hi) / 2]
    | .same => (lo + hi) / 2 :: bsProbes probe ((lo + hi) / 2 + 1) hi
    | .diff => (lo + hi) / 2 :: (if (lo + hi) / 2 = 0 then [] else bsProbes probe lo ((lo + hi) / 2 - 1))
  else []
termination_by hi + 1 - lo
decreasing_by all_goals omega

def maxAnchors : Nat := 32
def skip : Nat := 16

/-- Heights of the anchors `getAnchorsNew` collects, from `no` downwards, at most `fuel` of them. -/
def anchorsFrom : Nat → Nat → List Nat
  | 0, _ => []
  | fuel + 1, no =>
    no :: (if no = 0 then [] else anchorsFrom fuel (if no < skip then 0 else no - skip))

/-- `getAnchorsNew`: anchor heights of a chain whose best block is `best` (never empty). -/
def anchors (best : Nat) : List Nat := anchorsFrom maxAnchors best

/-- `LastNo` returned with the anchors: the lowest anchor height. -/
def lastAnchorOf (best : Nat) : Nat := (anchors best).getLast?.getD 0

/-- Acceptance rule of `getAncestor`: a reply is taken if it is nil or not below `LastAnchor`;
anything else is skipped and the finder keeps waiting. -/
def lightAccept (lastAnchor : Nat) (r : Option Nat) : Bool :=
  match r with
  | none => true
  | some n => decide (lastAnchor ≤ n)

inductive FinderOut
  | ancestor (no : Nat)     -- FinderResult{Ancestor}
  | noAncestor              -- FinderResult{Ancestor: nil}  (the service turns it into ErrFinderInternal)
  | alreadyDone             -- ErrAlreadySyncDone
  | timeout                 -- ErrorGetSyncAncestorTimeout: no acceptable reply arrived
  | localErr
  | remoteErr
deriving DecidableEq, Repr

def uint64Max : Nat := 18446744073709551615

/-- `finder.ctx.LastAnchor - 1` in uint64 arithmetic. -/
def predU64 (n : Nat) : Nat := if n = 0 then uint64Max else n - 1

/-- What an honest peer answers to `GetSyncAncestor` when it is handed all anchors
(`ChainService.findAncestor`): the first, i.e. highest, anchor that is on its main chain. -/
def honestLightReply (best : Nat) (same : Nat → Bool) : Option Nat := (anchors best).find? same

/-- `Finder.fullscan`: binary search over `0 .. LastAnchor-1`. -/
def fullscan (probe : Nat → Probe) (lastAnchor : Nat) : FinderOut :=
  match binarySearch probe 0 (predU64 lastAnchor) none with
  | .ok (some a) => .ancestor a
  | .ok none => .noAncestor
  | .localErr => .localErr
  | .remoteErr => .remoteErr

/-- The body of `Finder.start`: lightscan, then fullscan when lightscan found nothing.
`replies` are the `GetSyncAncestorRsp` heights that reach the finder before its timer fires. -/
def finder (fullOnly : Bool) (best target : Nat) (replies : List (Option Nat)) (probe : Nat → Probe) : FinderOut :=
  if fullOnly then fullscan probe (best + 1)
  else
    match replies.find? (lightAccept (lastAnchorOf best)) with
    | none => .timeout
    | some (some n) => if target ≤ n then .alreadyDone else .ancestor n
    | some none => fullscan probe (lastAnchorOf best)

/-! ## HashFetcher -/

structure HF where
  lastHash : Nat
  lastNo : Nat
  reqCount : Nat
  target : Nat
  maxReq : Nat
deriving DecidableEq, Repr

/-- A `GetHashesRsp` as it reaches the syncer. -/
structure HashesRsp where
  prevHash : Nat
  prevNo : Nat
  count : Nat
  hashes : List Nat
  err : Bool
deriving DecidableEq, Repr

/-- `requestHashSet`: the count asked for next (sent with `PrevInfo = (lastHash, lastNo)`). -/
def HF.nextCount (h : HF) : Nat :=
  if h.target < h.lastNo + h.maxReq then h.target - h.lastNo else h.maxReq

def HF.request (h : HF) : HF := { h with reqCount := h.nextCount }

inductive HFOut
  | dropped                                   -- empty reply: `GetHahsesRsp` returns before the channel
  | ignored                                   -- wrong echo, no error: nothing happens (timer restarts)
  | stopErr                                   -- reply carried an error → stopSyncer(err)
  | stopInvalid                               -- lastHashNo > target → ErrInvalidHashSet
  | pushed (startNo : Nat) (hashes : List Nat) (finished : Bool)
                                              -- hash set handed to the BlockFetcher; finished ⇒ CloseFetcher, else next request
deriving DecidableEq, Repr

/-- `GetHahsesRsp` + one iteration of the run loop on `responseCh`. -/
def HF.response (h : HF) (m : HashesRsp) : HF × HFOut :=
  if m.hashes.isEmpty then (h, .dropped)
  else if m.err then (h, .stopErr)
  else if ¬ (h.lastNo = m.prevNo ∧ h.lastHash = m.prevHash) ∨ h.reqCount ≠ m.count then (h, .ignored)
  else
    let startNo := m.prevNo + 1
    let lastHashNo := startNo + m.hashes.length - 1
    if h.target < lastHashNo then (h, .stopInvalid)
    else
      let h1 := { h with lastHash := m.hashes.getLast?.getD 0, lastNo := lastHashNo }
      if h1.lastNo = h1.target then (h1, .pushed startNo m.hashes true)
      else (h1.request, .pushed startNo m.hashes false)

/-! ## BlockFetcher and BlockProcessor -/

structure Blk where
  hash : Nat
  prev : Nat
  no : Nat
deriving DecidableEq, Repr

/-- `SyncPeer` (its `ID` is determined by `No`). -/
structure Peer where
  no : Nat
  failCnt : Nat
deriving DecidableEq, Repr

/-- `FetchTask`. `peer` is the `*SyncPeer` it runs on (nil while queued). -/
structure Task where
  startNo : Nat
  hashes : List Nat
  peer : Option Peer
  retry : Nat
  age : Nat
deriving DecidableEq, Repr

/-- `ConnectTask`. -/
structure ConnTask where
  blocks : List Blk
  firstNo : Nat
  cur : Nat
deriving DecidableEq, Repr

structure Cfg where
  maxFetchSize : Nat
  maxFetchTasks : Nat
  maxPendingConn : Nat
  timeout : Nat
deriving DecidableEq, Repr

def maxPeerFailCount : Nat := 3

inductive Err
  | allPeerBad     -- ErrAllPeerBad
  | rspErr         -- the error carried by an AddBlockRsp
  | invalidAdd     -- ErrSyncMsg: nil hash or not the block being connected
  | panic          -- Go panic (nil `curBlock`, index out of range) → RecoverSyncer → ErrSyncerPanic
deriving DecidableEq, Repr

/-- What the fetcher/processor send to other actors. -/
inductive Out
  | fetch (peer : Nat) (hashes : List Nat)     -- GetBlockChunks to P2P
  | addBlock (b : Blk)                         -- AddBlock to the chain service
  | stop (e : Option Err)                      -- SyncStop to the syncer (none = success)
deriving DecidableEq, Repr

structure St where
  cfg : Cfg
  target : Nat
  hfq : List (Nat × List Nat)        -- hash sets waiting in hfCh
  curHashSet : Bool                  -- bf.curHashSet != nil
  running : List Task
  pending : List Task
  retryQ : List Task
  free : List Peer
  total : Nat
  bad : Nat
  connQ : List ConnTask
  curConn : Option ConnTask
  prev : Blk                         -- bproc.prevBlock (the ancestor at first; never nil)
  curBlock : Option Blk
  halted : Bool                      -- the run loop has returned after an error
deriving DecidableEq, Repr

/-- `newBlockFetcher` + `init` with `n` running peers (`addNew` numbers them 0..n-1). -/
def St.init (cfg : Cfg) (anc : Blk) (target npeers : Nat) : St :=
  { cfg, target, hfq := [], curHashSet := false, running := [], pending := [], retryQ := [],
    free := (List.range npeers).map fun i => ⟨i, 0⟩, total := npeers, bad := 0,
    connQ := [], curConn := none, prev := anc, curBlock := none, halted := false }

/-- `pushToConnQueue`: insert before the first entry with a greater `firstNo`
(`sort.Search` on the sorted queue). -/
def pushConn : List ConnTask → ConnTask → List ConnTask
  | [], t => [t]
  | c :: r, t => if t.firstNo < c.firstNo then t :: c :: r else c :: pushConn r t

/-- `popFromConnQueue`. -/
def popConn (s : St) : Option (ConnTask × List ConnTask) :=
  match s.connQ with
  | [] => none
  | c :: r => if c.firstNo ≠ s.prev.no + 1 then none else some (c, r)

/-- First part of `getNextBlockToConnect`: step to the next block of the current request; the
request is finished (nil) when its blocks are used up. -/
def advanceCur : Option ConnTask → Option ConnTask
  | none => none
  | some c => if c.cur + 1 ≥ c.blocks.length then none else some { c with cur := c.cur + 1 }

/-- Second part: the request the next block comes from — the current one if it has a block left,
otherwise the head of the queue if `popFromConnQueue` releases it. -/
def pickConn (s : St) : Option (St × ConnTask) :=
  match advanceCur s.curConn with
  | some c => some ({ s with curConn := some c }, c)
  | none =>
    match popConn s with
    | none => none
    | some (c, q) => some ({ s with connQ := q, curConn := some c }, c)

/-- `getNextBlockToConnect` followed by `connectBlock` of its result. -/
def connectNext (s : St) : Except Err (St × List Out) :=
  if s.curBlock.isSome then .ok (s, [])
  else
    match pickConn s with
    | none => .ok ({ s with curConn := none }, [])
    | some (s1, c) =>
      match c.blocks[c.cur]? with
      | none => .error .panic
      | some b => .ok ({ s1 with curBlock := some b }, [.addBlock b])

/-- `isValidResponse` on a `GetBlockChunksRsp`: error flag, emptiness, hash linkage inside the chunk. -/
def linked : List Blk → Bool
  | [] => true
  | [_] => true
  | a :: b :: r => a.hash == b.prev && linked (b :: r)

def validChunk (err : Bool) (blocks : List Blk) : Bool :=
  !err && !blocks.isEmpty && linked blocks

/-- `FetchTask.isMatched`. -/
def isMatched (t : Task) (peer : Nat) (blocks : List Blk) : Bool :=
  t.hashes.length == blocks.length && t.peer.map (·.no) == some peer && t.hashes == blocks.map (·.hash)

/-- `findFinished`: remove and return the first running task that matches. -/
def findTask (p : Task → Bool) : List Task → Option (Task × List Task)
  | [] => none
  | t :: r =>
    if p t then some (t, r)
    else match findTask p r with
      | none => none
      | some (x, r') => some (x, t :: r')

/-- `SortedTaskQueue.Push`: before the first task with a greater `startNo`. -/
def pushRetry : List Task → Task → List Task
  | [], t => [t]
  | c :: r, t => if t.startNo < c.startNo then t :: c :: r else c :: pushRetry r t

/-- `PeerSet.processPeerFail(peer, false)` for a peer whose fail count has just been incremented:
to the bad list at `MaxPeerFailCount`, otherwise to the back of the free list. -/
def failPeer (s : St) (p : Peer) : St :=
  if p.failCnt ≥ maxPeerFailCount then { s with bad := s.bad + 1 } else { s with free := s.free ++ [p] }

/-- `processFailedTask(task, false)`: the task's peer gets one more failure (`failPeer`), the task
goes to the retry queue with `retry+1` and no peer; `ErrAllPeerBad` when every peer is bad. A task
without a peer is a nil dereference in Go. -/
def failTask (s : St) (t : Task) : Except Err St :=
  match t.peer with
  | none => .error .panic
  | some p =>
    let s1 := failPeer s { p with failCnt := p.failCnt + 1 }
    let s2 := { s1 with retryQ := pushRetry s1.retryQ { t with retry := t.retry + 1, peer := none } }
    if s2.total = s2.bad then .error .allPeerBad else .ok s2

/-- `addNewFetchTasks`: cut a hash set into tasks of at most `maxFetchSize` hashes.
(`fuel` bounds the loop; `hashes.length` iterations suffice when `size > 0`.) -/
def cutTasks (size : Nat) : Nat → Nat → List Nat → List Task
  | 0, _, _ => []
  | fuel + 1, startNo, hashes =>
    if hashes.isEmpty then []
    else
      let n := if size = 0 then hashes.length else min size hashes.length
      ⟨startNo, hashes.take n, none, 0, 0⟩ :: cutTasks size fuel (startNo + n) (hashes.drop n)

/-- `searchCandidateTask`. Returns the state (a new hash set may have been taken from `hfCh`) and
the candidate. When no hash set was ever received and none is waiting the Go code blocks on the
channel; the model returns no candidate (the step is re-tried when the hash set arrives). -/
def searchCandidate (s : St) : St × Option Task :=
  match s.retryQ with
  | t :: _ => (s, some t)
  | [] =>
    match s.pending with
    | t :: _ => (s, some t)
    | [] =>
      match s.hfq with
      | [] => (s, none)
      | (startNo, hashes) :: q =>
        let ts := cutTasks s.cfg.maxFetchSize hashes.length startNo hashes
        let s := { s with hfq := q, curHashSet := true, pending := ts }
        (s, ts.head?)

/-- `schedule`: one pass of the `for bf.peers.free > 0` loop per unit of fuel. -/
def scheduleLoop : Nat → St → Except Err (St × List Out)
  | 0, s => .ok (s, [])
  | fuel + 1, s =>
    match s.free with
    | [] => .ok (s, [])
    | p :: free' =>
      if s.running.length ≥ s.cfg.maxFetchTasks then .ok (s, [])
      else
        let (s, cand) := searchCandidate s
        match cand with
        | none => .ok (s, [])
        | some t =>
          if s.connQ.length ≥ s.cfg.maxPendingConn ∧ t.retry = 0 then .ok (s, [])
          else if s.total = s.bad then .error .allPeerBad
          else
            -- popNextTask + runTask
            let s := if t.retry > 0 then { s with retryQ := s.retryQ.tail } else { s with pending := s.pending.tail }
            let t := { t with peer := some p, age := 0 }
            let s := { s with free := free', running := s.running ++ [t] }
            match scheduleLoop fuel s with
            | .error e => .error e
            | .ok (s, outs) => .ok (s, .fetch p.no t.hashes :: outs)

def schedule (s : St) : Except Err (St × List Out) := scheduleLoop (s.free.length + 1) s

/-- `checkTaskTimeout` after the clock advanced by `d`: running tasks are visited front to back,
each timed-out one is removed and failed; the first `ErrAllPeerBad` aborts the walk. -/
def timeoutWalk (s : St) : List Task → List Task → Except Err St
  | [], keep => .ok { s with running := keep.reverse }
  | t :: r, keep =>
    if t.age > s.cfg.timeout then
      match failTask s t with
      | .error e => .error e
      | .ok s => timeoutWalk s r keep
    else timeoutWalk s r (t :: keep)

def tick (s : St) (d : Nat) : Except Err St :=
  let run := s.running.map fun t => { t with age := t.age + d }
  timeoutWalk { s with running := run } run []

/-- `pushFreePeer(task.syncPeer)`. -/
def freePeer (s : St) : Option Peer → St
  | some p => { s with free := s.free ++ [p] }
  | none => s

/-- `GetBlockChunkRsp` (and `GetBlockChunkRspError`). -/
def chunkRsp (s : St) (peer : Nat) (err : Bool) (blocks : List Blk) : Except Err (St × List Out) :=
  if validChunk err blocks then
    match findTask (fun t => isMatched t peer blocks) s.running with
    | none => .ok (s, [])                     -- dropped unknown block response
    | some (t, run) =>
      let s := freePeer { s with running := run } t.peer
      -- addConnectTask
      let c : ConnTask := ⟨blocks, (blocks.head?.map (·.no)).getD 0, 0⟩
      connectNext { s with connQ := pushConn s.connQ c }
  else
    match findTask (fun t => t.peer.map (·.no) == some peer) s.running with
    | none => .ok (s, [])                     -- dropped unknown block error message
    | some (t, run) =>
      match failTask { s with running := run } t with
      | .error e => .error e
      | .ok s => .ok (s, [])

/-- `stopSyncer(nil)` when the block just connected is the target. -/
def stopOuts (s : St) (cb : Blk) : List Out := if cb.no = s.target then [.stop none] else []

/-- `AddBlockResponse`. -/
def addRsp (s : St) (no hash : Nat) (err nilHash : Bool) : Except Err (St × List Out) :=
  if err then .error .rspErr
  else if nilHash then .error .invalidAdd
  else
    match s.curBlock with
    | none => .error .panic
    | some cb =>
      if cb.no ≠ no ∨ cb.hash ≠ hash then .error .invalidAdd
      else
        match connectNext { s with prev := cb, curBlock := none } with
        | .error e => .error e
        | .ok (s', outs) => .ok (s', stopOuts s cb ++ outs)

/-- Events: what the environment (hash fetcher, peers through P2P, chain service, the ticker) does. -/
inductive Ev
  | hashSet (startNo : Nat) (hashes : List Nat)            -- the HashFetcher puts a hash set into hfCh
  | sched                                                   -- `schedule()`
  | tick (d : Nat)                                          -- the clock advances by d, then `checkTaskTimeout()`
  | chunk (peer : Nat) (err : Bool) (blocks : List Blk)     -- GetBlockChunksRsp → `blockProcessor.run`
  | addRsp (no hash : Nat) (err nilHash : Bool)             -- AddBlockRsp → `blockProcessor.run`
deriving DecidableEq, Repr

/-- One step. An error makes the run loop call `stopSyncer(err)` and return (`halted`). -/
def step (s : St) (e : Ev) : St × List Out :=
  if s.halted then (s, [])
  else
    let r : Except Err (St × List Out) :=
      match e with
      | .hashSet startNo hashes => .ok ({ s with hfq := s.hfq ++ [(startNo, hashes)] }, [])
      | .sched => schedule s
      | .tick d => (tick s d).map fun s => (s, [])
      | .chunk peer err blocks => chunkRsp s peer err blocks
      | .addRsp no hash err nilHash => addRsp s no hash err nilHash
    match r with
    | .ok x => x
    | .error e => ({ s with halted := true }, [.stop (some e)])

def run (s : St) : List Ev → St × List Out
  | [] => (s, [])
  | e :: es =>
    let (s1, o1) := step s e
    let (s2, o2) := run s1 es
    (s2, o1 ++ o2)

/-- The blocks handed to the chain service, in order. -/
def delivered : List Out → List Blk
  | [] => []
  | .addBlock b :: r => b :: delivered r
  | _ :: r => delivered r

/-! ## Syncer service: session sequence filter -/

/-- Message kinds `Syncer.Receive`/`handleMessage` distinguish. -/
inductive MsgKind
  | syncStart | anchorsRsp | ancestorRsp | finderResult | hashesRsp | hashByNoRsp
  | blockChunksRsp | addBlockRsp | syncStop | closeFetcher | blockChunksReq | other
deriving DecidableEq, Repr

/-- Kinds whose message struct carries the session sequence that `verifySeq` compares. -/
def MsgKind.carriesSeq : MsgKind → Bool
  | .anchorsRsp | .ancestorRsp | .finderResult | .hashesRsp | .hashByNoRsp
  | .blockChunksRsp | .syncStop | .closeFetcher => true
  | _ => false

/-- `verifySeq`. -/
def verifySeq (cur : Nat) (k : MsgKind) (seq : Nat) : Bool :=
  if k.carriesSeq then cur == seq else true

/-- Kinds dropped by `Receive` while no session is running. -/
def MsgKind.garbageWhenIdle : MsgKind → Bool
  | .ancestorRsp | .finderResult | .hashesRsp | .hashByNoRsp | .blockChunksReq
  | .blockChunksRsp | .addBlockRsp | .syncStop | .closeFetcher => true
  | _ => false

/-- Does a message reach its handler? (`Receive` then `handleMessage`/`verifySeq`.) -/
def accepted (cur : Nat) (running : Bool) (k : MsgKind) (seq : Nat) : Bool :=
  !(!running && k.garbageWhenIdle) && verifySeq cur k seq

/-- Session-level view of the service: sequence number, running flag, and (while running) the
session's target. -/
structure Svc where
  seq : Nat
  running : Bool
  target : Nat
deriving DecidableEq, Repr

def Svc.init : Svc := ⟨1, false, 0⟩

/-- `handleSyncStart`: ignored while running or when the target is not above the local best. -/
def Svc.syncStart (v : Svc) (target best : Nat) : Svc :=
  if v.running then v
  else if target ≤ best then v
  else ⟨v.seq + 1, true, target⟩

/-- `Reset` (through an accepted `SyncStop`, a failed `FinderResult`, or a recovered panic). -/
def Svc.reset (v : Svc) : Svc := if v.running then { v with running := false, target := 0 } else v

/-- A `SyncStop` (or a failed `FinderResult`) carrying sequence `seq`: resets the session if it
passes `Receive`'s garbage filter and `verifySeq`, otherwise changes nothing. -/
def Svc.stop (v : Svc) (seq : Nat) : Svc :=
  if accepted v.seq v.running .syncStop seq then v.reset else v

def Svc.finderFail (v : Svc) (seq : Nat) : Svc :=
  if accepted v.seq v.running .finderResult seq then v.reset else v

/-! ## P2P BlocksChunkReceiver -/

inductive RStatus | waiting | canceled | finished
deriving DecidableEq, Repr

structure Recv where
  want : List Nat          -- blockHashes
  got : List Blk           -- got[0..offset)
  status : RStatus
deriving DecidableEq, Repr

inductive RecvErr | remotePeerFail | missingHash | tooMany | unexpected | tooBig | tooFew
deriving DecidableEq, Repr

inductive RecvOut
  | nothing
  | rsp (blocks : List Blk)       -- GetBlockChunksRsp{Blocks, Err: nil}
  | rspErr (e : RecvErr)          -- GetBlockChunksRsp{Err}
deriving DecidableEq, Repr

/-- The "add to got" loop of `handleInWaiting`; `big b` = `block.Size() > MaxBlockSize`.
Blocks accepted before an offending one stay in `got`. -/
def recvAdd (want : List Nat) (big : Blk → Bool) : List Blk → List Blk → List Blk × Option RecvErr
  | got, [] => (got, none)
  | got, b :: r =>
    match want[got.length]? with
    | none => (got, some .tooMany)
    | some h =>
      if h ≠ b.hash then (got, some .unexpected)
      else if big b then (got, some .tooBig)
      else recvAdd want big (got ++ [b]) r

/-- One partial response reaching `ReceiveResp`. -/
structure Part where
  timedOut : Bool     -- br.timeout.Before(now)
  statusOk : Bool     -- body is a ResponseMessage with status OK
  blocks : List Blk
  hasNext : Bool
deriving DecidableEq, Repr

def Recv.receive (r : Recv) (big : Blk → Bool) (p : Part) : Recv × RecvOut :=
  match r.status with
  | .canceled => (r, .nothing)
  | .finished => (r, .nothing)
  | .waiting =>
    if p.timedOut then ({ r with status := .finished }, .nothing)
    else if !p.statusOk then ({ r with status := .finished }, .rspErr .remotePeerFail)
    else if p.blocks.isEmpty then ({ r with status := .finished }, .rspErr .missingHash)
    else
      match recvAdd r.want big r.got p.blocks with
      | (got, some e) => ({ r with got, status := if p.hasNext then .canceled else .finished }, .rspErr e)
      | (got, none) =>
        if p.hasNext then ({ r with got }, .nothing)
        else if got.length < r.want.length then ({ r with got, status := .finished }, .rspErr .tooFew)
        else ({ r with got, status := .finished }, .rsp got)

/-- A receiver fed a sequence of parts; the outputs in order. -/
def Recv.feed (big : Blk → Bool) : Recv → List Part → Recv × List RecvOut
  | r, [] => (r, [])
  | r, p :: ps =>
    let (r1, o) := r.receive big p
    let (r2, os) := Recv.feed big r1 ps
    (r2, o :: os)

/-! ## Syncer service: the whole session behind the sequence filter

`Svc` above keeps only the counters. `Sys σ` keeps the whole session as an opaque value of type `σ`
(`isRunning`, `ctx`, `finder`, `hashFetcher`, `blockFetcher` — whatever they hold), so that
statements about a stop request can quantify over *every* state a session can be in. The session's
own behaviour is a parameter (`handle`); `Syncer.Receive`, `verifySeq`, `handleSyncStart`'s guards
and `Reset` are transcribed. -/

/-- A message as `Syncer.Receive` sees it: its kind, the sequence number it carries (meaningless for
the kinds that carry none) and the rest of its content. -/
structure Msg (π : Type) where
  kind : MsgKind
  seq : Nat
  body : π

/-- Outcome of a handler of the running session: carry on in a new session state, or `Reset`
(the handler returned an error, or panicked and `RecoverSyncerSelf` reset the service). -/
inductive Verdict (σ : Type)
  | carryOn (s : σ)
  | reset

structure Sys (σ : Type) where
  seq : Nat
  sess : Option σ        -- none: `isRunning = false`, ctx/finder/hashFetcher/blockFetcher nil
deriving DecidableEq

/-- `NewSyncer`. -/
def Sys.init {σ : Type} : Sys σ := ⟨1, none⟩

/-- `Receive` followed by `handleMessage`. `start seq body` stands for `handleSyncStart` after the
`isRunning` guard: `none` when the request is skipped (target not above the local best block),
otherwise the fresh session created under the new sequence number `seq`. `handle` is what the
running session does with an accepted message of any other kind. -/
def Sys.recv {σ π : Type} (start : Nat → π → Option σ) (handle : σ → MsgKind → π → Verdict σ)
    (v : Sys σ) (m : Msg π) : Sys σ :=
  if !accepted v.seq v.sess.isSome m.kind m.seq then v
  else
    match m.kind with
    | .syncStart =>
      match v.sess with
      | some _ => v
      | none =>
        match start (v.seq + 1) m.body with
        | none => v
        | some s => ⟨v.seq + 1, some s⟩
    | .syncStop => ⟨v.seq, none⟩
    | k =>
      match v.sess with
      | none => v
      | some s =>
        match handle s k m.body with
        | .carryOn s' => ⟨v.seq, some s'⟩
        | .reset => ⟨v.seq, none⟩

/-- The service fed a list of messages. -/
def Sys.feed {σ π : Type} (start : Nat → π → Option σ) (handle : σ → MsgKind → π → Verdict σ) :
    Sys σ → List (Msg π) → Sys σ
  | v, [] => v
  | v, m :: ms => Sys.feed start handle (Sys.recv start handle v m) ms

/-- Message content the correspondence harness uses (`sys …` lines). -/
inductive SysBody
  | none
  | start (target best : Nat)    -- SyncStart{TargetNo}; `best` is the local best block at that moment
  | fail                         -- FinderResult carrying an error
deriving DecidableEq, Repr

/-- `handleSyncStart`'s second guard, the session being represented by its target. -/
def sysStart (_seq : Nat) : SysBody → Option Nat
  | .start target best => if target ≤ best then none else some target
  | _ => none

/-- The only accepted non-stop message the harness sends to a running session is a failed
`FinderResult` (→ `Reset(ErrFinderInternal)`). -/
def sysHandle (s : Nat) : MsgKind → SysBody → Verdict Nat
  | .finderResult, .fail => .reset
  | _, _ => .carryOn s

/-! ## Below the syncer: how the answers to the finder's and the hash fetcher's requests are made

Serving side: chain/chainhandle.go `findAncestor`, p2p/subproto/block.go `handleGetAncestorReq`.
Requesting side: p2p/ancestorreceiver.go, p2p/hashbynoreceiver.go, p2p/hashreceiver.go (`ReceiveResp`), and
syncer/finder.go `hasSameHash` on top of the hash-by-no answer. Block ids are tokens as everywhere in this
file; the token `0` is the nil hash. -/

/-- `ResultStatus` of a p2p response, as far as the code below distinguishes it. -/
inductive WStatus
  | ok
  | notFound      -- NOT_FOUND: the peer looked and has nothing to name
  | failed        -- ABORTED, INTERNAL, RESOURCE_EXHAUSTED, ...: the peer could not look
deriving DecidableEq, Repr

/-- `ChainService.findAncestor(hashes)` of the serving node. `store h` is the height of the block the
node stores under id `h` (on any branch), `main n` the id of its main-chain block at height `n`: the first
listed id whose block is stored and is the main-chain block at its height. -/
def findAncestor (store : Nat → Option Nat) (main : Nat → Option Nat) : List Nat → Option (Nat × Nat)
  | [] => none
  | h :: hs =>
    match store h with
    | none => findAncestor store main hs
    | some n => if main n = some h then some (h, n) else findAncestor store main hs

/-- `handleGetAncestorReq`: status, id and height of the `GetAncestorResponse`. `answered`: the node's own
chain service replied to its P2P module within the actor time limit (otherwise ABORTED). -/
def serveAncestor (answered : Bool) (found : Option (Nat × Nat)) : WStatus × Nat × Nat :=
  if !answered then (.failed, 0, 0)
  else
    match found with
    | none => (.notFound, 0, 0)
    | some (h, n) => (.ok, h, n)

/-- `AncestorReceiver.ReceiveResp`: what the syncer is told. `none`: nothing (the receiver's time limit had
elapsed); `some none`: `GetSyncAncestorRsp{Ancestor: nil}`; `some (some (h, n))`: the peer's `BlockInfo`. -/
def ancRecv (timedOut : Bool) (st : WStatus) (h n : Nat) : Option (Option (Nat × Nat)) :=
  if timedOut then none
  else
    match st with
    | .ok => some (some (h, n))
    | _ => some none

/-- What `BlockHashByNoReceiver.ReceiveResp` tells the syncer. -/
inductive HbnOut
  | nothing            -- time limit elapsed: no message
  | hash (h : Nat)     -- GetHashByNoRsp{BlockHash}
  | err                -- GetHashByNoRsp{Err: RemotePeerFailError}
deriving DecidableEq, Repr

def hbnRecv (timedOut : Bool) (st : WStatus) (h : Nat) : HbnOut :=
  if timedOut then .nothing
  else
    match st with
    | .ok => .hash h
    | _ => .err

/-- `binarySearch`'s local lookup followed by `hasSameHash` on the answer: no message before the finder's own
timer is a remote error; a nil hash without error counts as "different". -/
def probeOf (localHash : Option Nat) (o : HbnOut) : Probe :=
  match localHash with
  | none => .localErr
  | some lh =>
    match o with
    | .nothing => .remoteErr
    | .err => .remoteErr
    | .hash h => if h = 0 then .diff else if h = lh then .same else .diff

/-- Acceptance rule of `getAncestor` on the `BlockInfo` itself: only the height is looked at. -/
def lightAcceptId (lastAnchor : Nat) (r : Option (Nat × Nat)) : Bool :=
  match r with
  | none => true
  | some (_, n) => decide (lastAnchor ≤ n)

inductive FinderOutId
  | ancestor (hash no : Nat)     -- FinderResult{Ancestor: &BlockInfo{Hash, No}}
  | noAncestor
  | alreadyDone
  | timeout
  | localErr
  | remoteErr
deriving DecidableEq, Repr

/-- The finder with the ids it hands on. The light scan passes the peer's `BlockInfo` on as it is (the hash
is not compared with the local chain; `handleFinderResult` then looks the block up by that hash). The full
scan hands on the LOCAL id at the height found (`lastMatch = {midHash, mid}`); `localMain n` is the local
main-chain id at height `n`. -/
def finderId (fullOnly : Bool) (best target : Nat) (localMain : Nat → Option Nat)
    (replies : List (Option (Nat × Nat))) (probe : Nat → Probe) : FinderOutId :=
  let full (la : Nat) : FinderOutId :=
    match fullscan probe la with
    | .ancestor a =>
      match localMain a with
      | some h => .ancestor h a
      | none => .localErr
    | .noAncestor => .noAncestor
    | .alreadyDone => .alreadyDone
    | .timeout => .timeout
    | .localErr => .localErr
    | .remoteErr => .remoteErr
  if fullOnly then full (best + 1)
  else
    match replies.find? (lightAcceptId (lastAnchorOf best)) with
    | none => .timeout
    | some (some (h, n)) => if target ≤ n then .alreadyDone else .ancestor h n
    | some none => full (lastAnchorOf best)

/-! ### p2p/hashreceiver.go `BlockHashesReceiver` -/

structure HRecv where
  reqCnt : Nat
  got : List Nat
  status : RStatus
deriving DecidableEq, Repr

inductive HRecvErr | remotePeerFail | missingHash | wrongHash | tooMany
deriving DecidableEq, Repr

inductive HRecvOut
  | nothing
  | rsp (hashes : List Nat) (count : Nat)    -- GetHashesRsp{Hashes, PrevInfo (echo of the request), Count: len(got)}
  | rspErr (e : HRecvErr)                    -- GetHashesRsp{PrevInfo, Err}
deriving DecidableEq, Repr

/-- One partial `GetHashesResponse`; a hash is its token and whether it has the length of a block id. -/
structure HPart where
  timedOut : Bool
  statusOk : Bool
  hashes : List (Nat × Bool)
  hasNext : Bool
deriving DecidableEq, Repr

/-- The "add to got" loop of `handleInWaiting`. -/
def hrecvAdd (reqCnt : Nat) : List Nat → List (Nat × Bool) → List Nat × Option HRecvErr
  | got, [] => (got, none)
  | got, (h, lenOk) :: r =>
    if !lenOk then (got, some .wrongHash)
    else if got.length ≥ reqCnt then (got, some .tooMany)
    else hrecvAdd reqCnt (got ++ [h]) r

def HRecv.receive (r : HRecv) (p : HPart) : HRecv × HRecvOut :=
  match r.status with
  | .canceled => (r, .nothing)
  | .finished => (r, .nothing)
  | .waiting =>
    if p.timedOut then ({ r with status := .finished }, .nothing)
    else if !p.statusOk then ({ r with status := .finished }, .rspErr .remotePeerFail)
    else if p.hashes.isEmpty then ({ r with status := .finished }, .rspErr .missingHash)
    else
      match hrecvAdd r.reqCnt r.got p.hashes with
      | (got, some e) => ({ r with got, status := if p.hasNext then .canceled else .finished }, .rspErr e)
      | (got, none) =>
        if p.hasNext then ({ r with got }, .nothing)
        else ({ r with got, status := .finished }, .rsp got got.length)

def HRecv.feed : HRecv → List HPart → HRecv × List HRecvOut
  | r, [] => (r, [])
  | r, p :: ps =>
    let (r1, o) := r.receive p
    let (r2, os) := HRecv.feed r1 ps
    (r2, o :: os)

/-! ### The two exchanges of the finder, end to end -/

/-- The local chain as the finder reads it: ids `lm n` up to the best block. -/
def localOf (best : Nat) (lm : Nat → Nat) (n : Nat) : Option Nat := if n ≤ best then some (lm n) else none

/-- One hash-by-no exchange with a node whose main chain is `main`: the serving handler (NOT_FOUND where it has
no block), `BlockHashByNoReceiver`, `hasSameHash`. -/
def probeX (best : Nat) (lm : Nat → Nat) (main : Nat → Option Nat) (i : Nat) : Probe :=
  probeOf (localOf best lm i)
    (hbnRecv false (match main i with | some _ => .ok | none => .notFound) ((main i).getD 0))

/-- The ancestor exchange: the finder's anchor list (ids of the local main chain at the anchor heights) handed
to the serving node, its `findAncestor`, its handler (`answered`: its chain service replied in time), the
requesting node's `AncestorReceiver` (in time). -/
def lightExchange (answered : Bool) (best : Nat) (lm : Nat → Nat) (store main : Nat → Option Nat) :
    Option (Option (Nat × Nat)) :=
  let r := serveAncestor answered (findAncestor store main ((anchors best).map lm))
  ancRecv false r.1 r.2.1 r.2.2

end Aergo.Sync
