/-
Model layer `Trie` (C10, C11): the sparse Merkle trie of /repo/pkg/trie.

Abstraction of the storage layout: a (sub)tree at height `h` is
  * `empty`            — a nil node,
  * `leaf k v`         — a *shortcut* node: the only key of this subtree, stored at the subtree root;
                         `k` is the part of the key below this node (`h` bits, most significant first),
  * `node l r`         — an interior node with children at height `h-1`.
Keys are 256-bit strings; inside a subtree all keys share the prefix that led there, so the Go
code's `bitIsSet(key, TrieHeight-height)` is the head of the remaining bits and `bytes.Compare` on
full keys is the lexicographic order on the remaining bits. A value `none` in a batch is Go's
`DefaultLeaf` (delete).

`update`, `moveUp`, `addShortcut` transcribe `Trie.update`, `maybeMoveUpShortcut`+`interiorHash`,
`maybeAddShortcutToKV` of pkg/trie/trie.go; `get`, `merkleProof` transcribe trie_tools.go and
trie_merkle_proof.go. The 4-level batch layout, the node cache and the DB are storage detail below
this model (the correspondence harness exercises them through the real code: commit, reopen at
historical roots, store monitor).
-/
namespace Aergo.Trie

/-- Subtree. `V` is the type of values (32-byte hashes in the node). -/
inductive T (V : Type) where
  | empty : T V
  | leaf (k : List Bool) (v : V) : T V
  | node (l r : T V) : T V
deriving Repr, DecidableEq

/-- A batch entry: remaining key bits and new value (`none` = DefaultLeaf = delete). -/
abbrev KV (V : Type) := List Bool × Option V

/-- `bytes.Compare` restricted to keys with a common prefix: lexicographic on the remaining bits. -/
def cmp : List Bool → List Bool → Ordering
  | [], [] => .eq
  | [], _ :: _ => .lt
  | _ :: _, [] => .gt
  | a :: as, b :: bs =>
    if a == b then cmp as bs else if a then .gt else .lt

/-- The loop of `maybeAddShortcutToKV` (third branch): index `i`, flag `higher`, accumulated result.
`kvs` is the whole batch (Go slices `keys[:i]`, `keys[i:]`). With the `fix:` commit the
delete branch returns immediately. -/
def addShortcutLoop {V : Type} (kvs : List (KV V)) (sk : List Bool) (sv : V) :
    List (KV V) → Nat → Bool → List (KV V)
  | [], _, _ => []
  | (k, v) :: rest, i, higher =>
    if k = sk then
      match v with
      | some _ => kvs                                  -- "Do nothing if the shortcut is simply updated"
      | none => kvs.take i ++ kvs.drop (i + 1)         -- "Delete shortcut if it is updated to DefaultLeaf"
    else if !higher && cmp sk k == .gt then addShortcutLoop kvs sk sv rest (i + 1) true
    else if higher && cmp sk k == .lt then kvs.take i ++ [(sk, some sv)] ++ kvs.drop i
    else addShortcutLoop kvs sk sv rest (i + 1) higher

/-- `maybeAddShortcutToKV`: merge the shortcut (sk, sv) of the subtree into the sorted batch. -/
def addShortcut {V : Type} (kvs : List (KV V)) (sk : List Bool) (sv : V) : List (KV V) :=
  match kvs, kvs.getLast? with
  | (k0, _) :: _, some (kl, _) =>
    if cmp sk k0 == .lt then (sk, some sv) :: kvs
    else if cmp sk kl == .gt then kvs ++ [(sk, some sv)]
    else addShortcutLoop kvs sk sv kvs 0 false
  | _, _ => [(sk, some sv)]   -- Go indexes keys[0]: never called with an empty batch

/-- `maybeMoveUpShortcut` followed, when it declines, by `interiorHash`: result node and `deleted` flag. -/
def moveUp {V : Type} (l r : T V) : T V × Bool :=
  match l, r with
  | .empty, .empty => (.empty, true)
  | .empty, .leaf k v => (.leaf (true :: k) v, true)
  | .leaf k v, .empty => (.leaf (false :: k) v, true)
  | l, r => (.node l r, false)

def headBit : List Bool → Bool
  | b :: _ => b
  | [] => false

/-- drop the bit consumed at this level -/
def tails {V : Type} (kvs : List (KV V)) : List (KV V) := kvs.map fun kv => (kv.1.tail, kv.2)

/-- `updateRight` / `updateLeft` / `updateParallel` on the two halves `lk`, `rk` of the batch, with
the recursive call `upd` (= `update (h-1)`). -/
def splitCore {V : Type} (upd : T V → List (KV V) → T V × Bool) (l r : T V) (lk rk : List (KV V)) : T V × Bool :=
  match lk, rk with
  | [], _ :: _ =>
    let (r', d) := upd r (tails rk)
    if d then moveUp l r' else (.node l r', false)
  | _ :: _, [] =>
    let (l', d) := upd l (tails lk)
    if d then moveUp l' r else (.node l' r, false)
  | _, _ =>
    let (l', dl) := upd l (tails lk)
    let (r', dr) := upd r (tails rk)
    if dl || dr then moveUp l' r' else (.node l' r', false)

/-- `splitKeys` (cut the sorted batch at the first key whose bit is set), then `splitCore`. -/
def splitGen {V : Type} (upd : T V → List (KV V) → T V × Bool) (l r : T V) (kvs : List (KV V)) : T V × Bool :=
  splitCore upd l r (kvs.takeWhile fun kv => !headBit kv.1) (kvs.dropWhile fun kv => !headBit kv.1)

/-- The part of `Trie.update` after the node is loaded: the one-key-into-an-empty-subtree case
("Store shortcut node"), else `splitGen`. -/
def split {V : Type} (upd : T V → List (KV V) → T V × Bool) (l r : T V) (kvs : List (KV V)) : T V × Bool :=
  match l, r, kvs with
  | .empty, .empty, [(k, some v)] => (.leaf k v, false)
  | .empty, .empty, [(_, none)] => (.empty, true)
  | _, _, _ => splitGen upd l r kvs

/-- `Trie.update` at height `h`: new subtree and the `deleted` flag of `mresult`. -/
def update {V : Type} : Nat → T V → List (KV V) → T V × Bool
  | 0, _, kvs =>
    match kvs with
    | (k, some v) :: _ => (.leaf k v, false)
    | (_, none) :: _ => (.empty, true)
    | [] => (.empty, true)            -- Go: values[0] panics; unreachable for a non-empty batch
  | h + 1, t, kvs =>
    -- loadChildren; a shortcut is merged into the batch and the subtree is considered default
    match t with
    | .leaf sk sv =>
      let kvs' := addShortcut kvs sk sv
      if kvs'.isEmpty then (.empty, true) else split (update h) .empty .empty kvs'
    | .node l r => split (update h) l r kvs
    | .empty => split (update h) .empty .empty kvs

/-- `Trie.get`. -/
def get {V : Type} : T V → List Bool → Option V
  | .empty, _ => none
  | .leaf sk sv, k => if sk = k then some sv else none
  | .node l r, b :: k => if b then get r k else get l k
  | .node _ _, [] => none

/-- `Trie.GetKeys` order: right subtree first, then left. Remaining-bit keys with their prefix restored. -/
def keysOf {V : Type} : T V → List Bool → List (List Bool)
  | .empty, _ => []
  | .leaf k _, p => [p ++ k]
  | .node l r, p => keysOf r (p ++ [true]) ++ keysOf l (p ++ [false])

/-- A whole trie: `Update` on a nil root with an empty tree. -/
def updateRoot {V : Type} (H : Nat) (t : T V) (kvs : List (KV V)) : T V := (update H t kvs).1

/-! ### Hash terms
The model never evaluates SHA-256. `term` prints the hash *input structure*; the harness evaluates it
with the node's own hasher: `L key value h` ↦ `hash(key, value, [byte h])`, `N l r` ↦ `hash(l, r)`
with `E` ↦ DefaultLeaf inside a node, and a whole-tree `E` ↦ nil root. -/

def bitsToHex (bits : List Bool) : String :=
  let rec nibbles : List Bool → List Nat
    | a :: b :: c :: d :: rest => ((if a then 8 else 0) + (if b then 4 else 0) + (if c then 2 else 0) + (if d then 1 else 0)) :: nibbles rest
    | _ => []
  String.ofList ((nibbles bits).map fun n => if n < 10 then Char.ofNat (48 + n) else Char.ofNat (87 + n))

/-- `rp` is the path prefix in reverse (cheap to extend). Output tokens are accumulated in reverse. -/
def termAcc (h : Nat) (rp : List Bool) : T String → List String → List String
  | .empty, acc => "E" :: acc
  | .leaf k v, acc => toString h :: v :: bitsToHex (rp.reverseAux k) :: "L" :: acc
  | .node l r, acc => termAcc (h - 1) (true :: rp) r (termAcc (h - 1) (false :: rp) l ("N" :: acc))

def term (h : Nat) (t : T String) : List String := (termAcc h [] t []).reverse

/-! ### Merkle proofs (trie_merkle_proof.go) -/

/-- A sibling subtree on the audit path: its height, the path prefix leading to it, the subtree.
What the Go code appends is its hash (`lnode[:HashLength]`, or `DefaultLeaf` for an empty sibling). -/
abbrev Sib (V : Type) := Nat × List Bool × T V

structure Proof (V : Type) where
  /-- siblings, deepest first (Go appends while returning from the recursion) -/
  ap : List (Sib V)
  included : Bool
  /-- (proofKey, proofVal): the foreign leaf met on the path of a non-included key (full key) -/
  proofKV : Option (List Bool × V)
  /-- the value of an included key -/
  value : Option V

/-- `Trie.merkleProof` at height `h`, below path prefix `p`, for the remaining key bits `k`. -/
def merkleProof {V : Type} : Nat → List Bool → T V → List Bool → Proof V
  | _, _, .empty, _ => ⟨[], false, none, none⟩
  | _, p, .leaf sk sv, k => if sk = k then ⟨[], true, none, some sv⟩ else ⟨[], false, some (p ++ sk, sv), none⟩
  | h, p, .node l r, b :: k =>
    if b then
      let pr := merkleProof (h - 1) (p ++ [true]) r k
      { pr with ap := pr.ap ++ [(h - 1, p ++ [false], l)] }
    else
      let pr := merkleProof (h - 1) (p ++ [false]) l k
      { pr with ap := pr.ap ++ [(h - 1, p ++ [true], r)] }
  | _, _, .node _ _, [] => ⟨[], false, none, none⟩

abbrev Bytes := List UInt8

/-- The hash function and the key encoding are parameters: `H` is applied to the concatenation of
the Go `hash(data...)` arguments; `enc` packs the 256 key bits into 32 bytes. -/
structure HashCtx where
  H : Bytes → Bytes
  enc : List Bool → Bytes

/-- `[]byte{byte(height)}` -/
def byteOf (h : Nat) : UInt8 := UInt8.ofNat (h % 256)

/-- `DefaultLeaf` -/
def defaultLeaf : Bytes := [0]

/-- The hash by which a parent refers to a subtree (`leafHash` / `interiorHash`; an empty child is `DefaultLeaf`). -/
def hashT (c : HashCtx) : Nat → List Bool → T Bytes → Bytes
  | _, _, .empty => defaultLeaf
  | h, p, .leaf k v => c.H (c.enc (p ++ k) ++ v ++ [byteOf h])
  | h, p, .node l r => c.H (hashT c (h - 1) (p ++ [false]) l ++ hashT c (h - 1) (p ++ [true]) r)

/-- `Trie.Root`: nil for the empty trie. -/
def rootOf (c : HashCtx) (H : Nat) (t : T Bytes) : Bytes :=
  match t with
  | .empty => []
  | t => hashT c H [] t

/-- `verifyInclusion`, recursing from the root: key bits from the top, siblings *root first*
(the Go code indexes `ap[len(ap)-keyIndex-1]`), `leaf` the hash at the bottom of the path. -/
def vUp (c : HashCtx) : List Bool → List Bytes → Bytes → Bytes
  | b :: ks, s :: rest, leaf => if b then c.H (s ++ vUp c ks rest leaf) else c.H (vUp c ks rest leaf ++ s)
  | _, _, leaf => leaf

/-- `Trie.VerifyInclusion` (`ap` deepest first, as produced by `MerkleProof`). -/
def verifyInclusion (c : HashCtx) (H : Nat) (root : Bytes) (ap : List Bytes) (key : List Bool) (value : Bytes) : Bool :=
  root == vUp c key ap.reverse (c.H (c.enc key ++ value ++ [byteOf (H - ap.length)]))

/-- `Trie.VerifyNonInclusion`. `proofKey = none` is Go's `len(proofKey) == 0`. -/
def verifyNonInclusion (c : HashCtx) (H : Nat) (root : Bytes) (ap : List Bytes) (key : List Bool)
    (value : Bytes) (proofKey : Option (List Bool)) : Bool :=
  match proofKey with
  | none =>
    if ap.isEmpty then root.isEmpty            -- the empty subtree is the whole trie: nil root
    else root == vUp c key ap.reverse defaultLeaf
  | some pk =>
    if pk = key then false                     -- the key's own leaf proves inclusion, not absence
    else verifyInclusion c H root ap pk value && (key.take ap.length == pk.take ap.length)

/-- Compressed proofs: `bits` says, root first, whether the sibling at that depth is stored
(`bitIsSet(bitmap, length-keyIndex-1)`), `ap` holds the stored siblings root first
(`ap[len(ap)-apIndex-1]`). A set bit with no sibling left is Go's index-out-of-range panic: `none`. -/
def vUpC (c : HashCtx) : List Bool → List Bool → List Bytes → Bytes → Option Bytes
  | b :: ks, true :: bits, s :: rest, leaf =>
    (vUpC c ks bits rest leaf).map fun x => if b then c.H (s ++ x) else c.H (x ++ s)
  | _ :: _, true :: _, [], _ => none
  | b :: ks, false :: bits, ap, leaf =>
    (vUpC c ks bits ap leaf).map fun x => if b then c.H (defaultLeaf ++ x) else c.H (x ++ defaultLeaf)
  | _, _, _, leaf => some leaf

/-- The plain audit path a compressed proof stands for (root first). -/
def expand : List Bool → List Bytes → Option (List Bytes)
  | true :: bits, s :: rest => (expand bits rest).map (s :: ·)
  | true :: _, [] => none
  | false :: bits, ap => (expand bits ap).map (defaultLeaf :: ·)
  | [], _ => some []

end Aergo.Trie
