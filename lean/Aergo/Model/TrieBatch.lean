/-
Storage layer of the trie (C10): a *batch* is a 4-level subtree stored as one DB value —
31 slots, slot 0 a flag (1 = the batch root is a shortcut), slots 1..30 the nodes in heap order,
each 33 bytes (32-byte hash + flag byte, or key/value ++ 0x02 for a shortcut's pair).
`serializeBatch` (trie_cache.go) / `parseBatch` (trie.go) transcribed.
-/
namespace Aergo.TrieBatch

abbrev Bytes := List UInt8

structure Batch where
  shortcut : Bool
  /-- slots 1..30 (`none` = nil / empty) -/
  slots : List (Option Bytes)
deriving Repr, DecidableEq

/-- big-endian bit list of the 4-byte bitmap: bit i of `bitIsSet(bits, i)` -/
def bitmapBytes (bits : List Bool) : Bytes :=
  let rec go : List Bool → Bytes
    | a :: b :: c :: d :: e :: f :: g :: h :: rest =>
      UInt8.ofNat ((if a then 128 else 0) + (if b then 64 else 0) + (if c then 32 else 0) + (if d then 16 else 0) +
        (if e then 8 else 0) + (if f then 4 else 0) + (if g then 2 else 0) + (if h then 1 else 0)) :: go rest
    | _ => []
  go bits

def byteBits (b : UInt8) : List Bool :=
  (List.range 8).map fun i => (b.toNat >>> (7 - i)) % 2 == 1

/-- `CacheDB.serializeBatch`: bitmap (bit i-1 for a non-empty slot i, bit 31 for a shortcut batch) then the non-empty slots. -/
def serialize (b : Batch) : Bytes :=
  let present := b.slots.map fun s => match s with | some x => !x.isEmpty | none => false
  let bits := (present ++ List.replicate (31 - present.length) false).take 31 ++ [b.shortcut]
  bitmapBytes bits ++ (b.slots.filterMap fun s => match s with | some x => if x.isEmpty then none else some x | none => none).flatten

/-- Go slice `val[a:b]`; `none` = out of range (panic). -/
def slice (v : Bytes) (a b : Nat) : Option Bytes :=
  if a ≤ b ∧ b ≤ v.length then some ((v.drop a).take (b - a)) else none

/-- `Trie.parseBatch`. `none` = a Go slice-bounds panic (value shorter than its bitmap announces). -/
def parse (v : Bytes) : Option Batch :=
  if v.length < 4 then none else
  let bits := (v.take 4).flatMap byteBits
  if bits.getD 31 false then do
    let k ← slice v 4 37
    let x ← slice v 37 70
    pure { shortcut := true, slots := some k :: some x :: List.replicate 28 none }
  else
    let rec go (i j : Nat) (fuel : Nat) : Option (List (Option Bytes)) :=
      match fuel with
      | 0 => some []
      | fuel + 1 =>
        if bits.getD i false then do
          let s ← slice v (4 + 33 * j) (4 + 33 * (j + 1))
          let rest ← go (i + 1) (j + 1) fuel
          pure (some s :: rest)
        else do
          let rest ← go (i + 1) j fuel
          pure (none :: rest)
    (go 0 0 30).map fun sl => { shortcut := false, slots := sl }

end Aergo.TrieBatch
