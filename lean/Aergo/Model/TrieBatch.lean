/-
Storage layer of the trie (C10): a *batch* is a 4-level subtree stored as one DB value —
31 slots, slot 0 a flag (1 = the batch root is a shortcut), slots 1..30 the nodes in heap order,
each 33 bytes (32-byte hash + flag byte, or key/value ++ 0x02 for a shortcut's pair).
`CacheDB.serializeBatch` (trie_cache.go) and `Trie.parseBatch` (trie.go) transcribed: the value is a
4-byte bitmap (bit i-1: slot i present; bit 31: shortcut batch) followed by the present slots.
`parse` consumes the payload 33 bytes at a time, which is what the Go code's absolute slices
`val[4+33*j : 4+33*(j+1)]` read.
-/
namespace Aergo.TrieBatch

abbrev Bytes := List UInt8

structure Batch where
  shortcut : Bool
  /-- slots 1..30 (`none` = nil / empty) -/
  slots : List (Option Bytes)
deriving Repr, DecidableEq

def mkByte (a b c d e f g h : Bool) : UInt8 :=
  UInt8.ofNat ((if a then 128 else 0) + (if b then 64 else 0) + (if c then 32 else 0) + (if d then 16 else 0) +
    (if e then 8 else 0) + (if f then 4 else 0) + (if g then 2 else 0) + (if h then 1 else 0))

/-- `bitSet(bits, i)` for all i at once: pack bits, most significant first. -/
def packBits : List Bool → Bytes
  | a :: b :: c :: d :: e :: f :: g :: h :: rest => mkByte a b c d e f g h :: packBits rest
  | _ => []

/-- `bitIsSet(byte, 0..7)` -/
def byteBits (x : UInt8) : List Bool :=
  [x.toNat / 128 % 2 == 1, x.toNat / 64 % 2 == 1, x.toNat / 32 % 2 == 1, x.toNat / 16 % 2 == 1,
   x.toNat / 8 % 2 == 1, x.toNat / 4 % 2 == 1, x.toNat / 2 % 2 == 1, x.toNat % 2 == 1]

def present (s : Option Bytes) : Bool :=
  match s with
  | some x => !x.isEmpty
  | none => false

/-- the 32 bitmap bits: one per slot 1..30, bit 30 unused, bit 31 = shortcut batch -/
def bitsOf (b : Batch) : List Bool :=
  let p := b.slots.map present
  (p ++ List.replicate (31 - p.length) false).take 31 ++ [b.shortcut]

def payloadOf (slots : List (Option Bytes)) : Bytes :=
  (slots.filterMap fun s => match s with | some x => if x.isEmpty then none else some x | none => none).flatten

/-- `CacheDB.serializeBatch` -/
def serialize (b : Batch) : Bytes := packBits (bitsOf b) ++ payloadOf b.slots

/-- read the slots announced by `bits` from the payload, 33 bytes each; `none` = slice out of range (Go panics) -/
def readSlots : List Bool → Bytes → Option (List (Option Bytes))
  | [], _ => some []
  | true :: bits, p =>
    if p.length < 33 then none else (readSlots bits (p.drop 33)).map (some (p.take 33) :: ·)
  | false :: bits, p => (readSlots bits p).map (none :: ·)

/-- `Trie.parseBatch`. -/
def parse (v : Bytes) : Option Batch :=
  if v.length < 4 then none else
  let bits := (v.take 4).flatMap byteBits
  let p := v.drop 4
  if bits.getD 31 false then
    if p.length < 66 then none
    else some { shortcut := true, slots := some (p.take 33) :: some ((p.drop 33).take 33) :: List.replicate 28 none }
  else
    (readSlots (bits.take 30) p).map fun sl => { shortcut := false, slots := sl }

/-- What survives a store/load cycle: a shortcut batch keeps only its key and value slots. -/
def norm (b : Batch) : Batch :=
  if b.shortcut then { b with slots := b.slots.take 2 ++ List.replicate 28 none } else b

/-- A batch as the trie builds it: 30 slots, every present slot 33 bytes, no empty-but-non-nil slot;
a shortcut batch has its key and value in slots 1 and 2. -/
def WF (b : Batch) : Prop :=
  b.slots.length = 30 ∧ (∀ s ∈ b.slots, ∀ x, s = some x → x.length = 33) ∧
  (b.shortcut = true → ∃ k v rest, b.slots = some k :: some v :: rest)

end Aergo.TrieBatch
