/-
Model layer `TrieCompress` (C11): the compressed Merkle proofs of /repo/pkg/trie/trie_merkle_proof.go at
the byte level - what `merkleProofCompressed` GENERATES (bitmap of `len/8+1` bytes, the non-default
siblings, the length) and what `VerifyInclusionC` / `VerifyNonInclusionC` read back from a bitmap
(`bitIsSet(bitmap, length-keyIndex-1)`, `ap[len(ap)-apIndex-1]`). `Model/Trie.lean` has the
bit-list core (`vUpC`, `expand`); this file adds the packing, so that the driver's `provec`,
`vincc`, `vexcc` lines are computed by definitions the theorems of `Props/C11.lean` talk about.
-/
import Aergo.Model.Trie

namespace Aergo.Trie

/-- `bitSet` / `bitIsSet` of pkg/trie/util.go: 8 bits per byte, most significant first. An incomplete
trailing group is dropped (the callers pad to a multiple of 8). -/
def packBits : List Bool → Bytes
  | a :: b :: c :: d :: e :: f :: g :: h :: rest =>
    UInt8.ofNat ((if a then 128 else 0) + (if b then 64 else 0) + (if c then 32 else 0) + (if d then 16 else 0) +
      (if e then 8 else 0) + (if f then 4 else 0) + (if g then 2 else 0) + (if h then 1 else 0)) :: packBits rest
  | _ => []

/-- the 8 bits of a byte, most significant first -/
def byteBits (b : UInt8) : List Bool :=
  [b.toNat / 128 % 2 == 1, b.toNat / 64 % 2 == 1, b.toNat / 32 % 2 == 1, b.toNat / 16 % 2 == 1,
   b.toNat / 8 % 2 == 1, b.toNat / 4 % 2 == 1, b.toNat / 2 % 2 == 1, b.toNat % 2 == 1]

/-- all bits of a byte string -/
def unpackBits (bs : Bytes) : List Bool := bs.flatMap byteBits

/-- `bitIsSet(bitmap, i)`; `none` = index out of range (Go panics). -/
def bitAt (bm : Bytes) (i : Nat) : Option Bool := (unpackBits bm)[i]?

/-- `!bytes.Equal(node, DefaultLeaf)` -/
def stored (s : Bytes) : Bool := s != defaultLeaf

/-- `merkleProofCompressed` applied to the plain audit path `ap` (deepest sibling first): the bitmap of
`len/8+1` bytes with bit `i` set iff `ap[i]` is not `DefaultLeaf`, the siblings that are not, the length. -/
def compress (ap : List Bytes) : Bytes × List Bytes × Nat :=
  (packBits (ap.map stored ++ List.replicate ((ap.length / 8 + 1) * 8 - ap.length) false), ap.filter stored, ap.length)

/-- The bits the compressed verifiers read, root first: `bitIsSet(bitmap, length-keyIndex-1)` for
`keyIndex = 0 … length-1`, i.e. the first `len` bits of the bitmap in reverse. The first one read is
bit `len-1`, the highest: the Go code panics (`none`) exactly when that one is beyond the bitmap. -/
def readBits (bm : Bytes) (len : Nat) : Option (List Bool) :=
  let bits := unpackBits bm
  if len ≤ bits.length then some (bits.take len).reverse else none

/-- The root hash `verifyInclusionC` computes; `none` = a Go panic (bitmap or audit path or key too short). -/
def rootC (c : HashCtx) (bm : Bytes) (key : List Bool) (leaf : Bytes) (apC : List Bytes) (len : Nat) : Option Bytes :=
  match readBits bm len with
  | none => none
  | some bits => if len > key.length then none else vUpC c key bits apC.reverse leaf

/-- `Trie.VerifyInclusionC(bitmap, key, value, ap, length)`; `none` = panic. -/
def verifyInclusionC (c : HashCtx) (H : Nat) (root bm : Bytes) (key : List Bool) (value : Bytes)
    (apC : List Bytes) (len : Nat) : Option Bool :=
  (rootC c bm key (c.H (c.enc key ++ value ++ [byteOf (H - len)])) apC len).map (root == ·)

/-- `Trie.VerifyNonInclusionC(ap, length, bitmap, key, value, proofKey)`; `none` = panic. -/
def verifyNonInclusionC (c : HashCtx) (H : Nat) (root bm : Bytes) (key : List Bool) (value : Bytes)
    (proofKey : Option (List Bool)) (apC : List Bytes) (len : Nat) : Option Bool :=
  match proofKey with
  | none =>
    if len == 0 then some root.isEmpty
    else (rootC c bm key defaultLeaf apC len).map (root == ·)
  | some pk =>
    if pk = key then some false else
    match verifyInclusionC c H root bm pk value apC len with
    | none => none
    | some false => some false
    | some true => if len > key.length then none else some (key.take len == pk.take len)

/-! ### What the node serves: `StateDB.GetAccountAndProof` / `GetVarAndProof` (state/statedb/statedb.go) -/

/-- the hashes the Go code appends to the audit path (`lnode[:HashLength]` / `DefaultLeaf`) -/
def sibH (c : HashCtx) (ap : List (Sib Bytes)) : List Bytes := ap.map fun s => hashT c s.1 s.2.1 s.2.2

/-- `types.AccountProof` / `types.ContractVarProof` without the compression fields. `value` is what
`loadStateData(dbKey)` / `loadData(store, dbKey)` returned for an included key (the leaf value `dbKey` itself is
cleared: "the wallet should check that state hashes to proofVal"). -/
structure NodeProof where
  inclusion : Bool
  value : Option Bytes
  proofKey : Option (List Bool)
  proofVal : Bytes
  ap : List Bytes

/-- The common part of the two functions after `TrieQuery` chose the trie `t`: `load` is the state DB read. -/
def assemble (c : HashCtx) (Ht : Nat) (load : Bytes → Bytes) (t : T Bytes) (k : List Bool) : NodeProof :=
  let p := merkleProof Ht [] t k
  if p.included then ⟨true, p.value.map load, none, [], sibH c p.ap⟩
  else ⟨false, none, p.proofKV.map (·.1), (match p.proofKV with | some kv => kv.2 | none => []), sibH c p.ap⟩

/-- `GetAccountAndProof(id, root, _)`: `cur` is the trie the instance is positioned at, `req` the trie with the
requested root; no root in the request (`none`) means the latest trie (`TrieQuery`: `len(root) != 0`). -/
def getAccountProof (c : HashCtx) (Ht : Nat) (load : Bytes → Bytes) (cur : T Bytes) (req : Option (T Bytes)) (k : List Bool) : NodeProof :=
  assemble c Ht load (req.getD cur) k

/-- `GetVarAndProof(key, storageRoot, _)` (after fix cdf2eb39: `trieQueryAt`): the proof is taken in the trie with
the given storage root, empty or not - never in the (account) trie `cur` the instance is positioned at. (Before the
fix it went through `TrieQuery` and a contract without storage was answered from `cur`.) -/
def getVarProof (c : HashCtx) (Ht : Nat) (load : Bytes → Bytes) (_cur storage : T Bytes) (k : List Bool) : NodeProof :=
  assemble c Ht load storage k

/-- What a light client does with a `NodeProof` against the root it trusts: an included value must hash (`vh`:
SHA-256 of the marshalled state / of the variable's bytes) to a leaf the audit path connects to the root. -/
def walletAccepts (c : HashCtx) (Ht : Nat) (vh : Bytes → Bytes) (root : Bytes) (k : List Bool) (pr : NodeProof) : Bool :=
  if pr.inclusion then
    match pr.value with
    | some x => verifyInclusion c Ht root pr.ap k (vh x)
    | none => false
  else verifyNonInclusion c Ht root pr.ap k pr.proofVal pr.proofKey

end Aergo.Trie
