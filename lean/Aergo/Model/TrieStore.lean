/-
Storage layer of the trie (C10), above `TrieBatch` (the codec) and below `Trie` (the abstract tree):
which batch the Go code builds for a subtree, under which key it is stored, and how `Trie.get`
reads a key back through `loadChildren` / `loadBatch` / `parseBatch` on a store.

Layout (pkg/trie/trie.go): a subtree whose root sits at a height that is a multiple of 4 is one
*batch*: 31 slots, slot 0 the shortcut flag, slots 1..30 the four levels below the batch root in heap
order (children of slot i are 2i+1 and 2i+2). `interiorHash` writes the two children's
`hash ++ flag` (flag 1 = shortcut, 0 = interior; nil for an empty child) into slots 2i+1, 2i+2;
`leafHash` writes `key ++ [2]`, `value ++ [2]` there for a shortcut at slot i (i = 0: a shortcut
batch, `batch[0] = 1`). Slots 15..30 are the roots of the batches one level down: `storeNode` files
every batch under the hash of its root, `CacheDB.commit` writes `serializeBatch(batch)` under that key.

A slot is addressed here by the *path* from the batch root (`false` = left); `idx` is its heap index
and `paths30` lists the paths in heap order, so slot i of the batch is `slotP … (path i)`.
-/
import Aergo.Model.Trie
import Aergo.Model.TrieBatch

namespace Aergo.TrieStore
open Aergo.Trie Aergo.TrieBatch
variable {V : Type}

/-- What a slot holds, before hashing / byte encoding. -/
inductive Slot (V : Type) where
  /-- `hash(subtree) ++ [flag]`: the subtree `t` at height `h` below the path prefix `p` -/
  | ref (flag : UInt8) (h : Nat) (p : List Bool) (t : T V)
  /-- `key ++ [2]` of a shortcut (the full key) -/
  | key (k : List Bool)
  /-- `value ++ [2]` of a shortcut -/
  | val (v : V)

def isLeaf : T V → Bool
  | .leaf _ _ => true
  | _ => false

/-- The entry by which a parent slot refers to the child subtree (`mresult.update`). -/
def refOf (h : Nat) (p : List Bool) : T V → Option (Slot V)
  | .empty => none
  | .leaf k v => some (.ref 1 h p (.leaf k v))
  | .node l r => some (.ref 0 h p (.node l r))

/-- The slot reached by `path` (non-empty) from a subtree `t` at height `h`, prefix `p`. -/
def slotP : Nat → List Bool → T V → List Bool → Option (Slot V)
  | _, _, _, [] => none
  | h, p, t, b :: bs =>
    match t with
    | .empty => none
    | .leaf k v => if bs.isEmpty then (if b then some (.val v) else some (.key (p ++ k))) else none
    | .node l r =>
      if bs.isEmpty then refOf (h - 1) (p ++ [b]) (if b then r else l)
      else slotP (h - 1) (p ++ [b]) (if b then r else l) bs

/-- all paths of length `n`, lexicographic (`false` first) -/
def pathsN : Nat → List (List Bool)
  | 0 => [[]]
  | n + 1 => (pathsN n).flatMap fun q => [q ++ [false], q ++ [true]]

/-- the paths of slots 1..30 in heap order -/
def paths30 : List (List Bool) := pathsN 1 ++ pathsN 2 ++ pathsN 3 ++ pathsN 4

/-- heap index of the slot at `path` (`2i+1` left, `2i+2` right) -/
def idx (path : List Bool) : Nat := path.foldl (fun i b => 2 * i + (if b then 2 else 1)) 0

/-- slots 1..30 of the batch of subtree `t` -/
def layout (h : Nat) (p : List Bool) (t : T V) : List (Option (Slot V)) := paths30.map (slotP h p t)

/-- bytes of a slot -/
def render (c : HashCtx) : Slot Trie.Bytes → Trie.Bytes
  | .ref flag h p t => hashT c h p t ++ [flag]
  | .key k => c.enc k ++ [2]
  | .val v => v ++ [2]

/-- **The batch the trie stores for the subtree `t`** (rooted at a batch boundary, `h % 4 = 0`). -/
def batchOf (c : HashCtx) (h : Nat) (p : List Bool) (t : T Trie.Bytes) : Batch :=
  { shortcut := isLeaf t, slots := (layout h p t).map (Option.map (render c)) }

/-- the subtree at the end of `path` -/
def descend : T V → List Bool → Option (T V)
  | t, [] => some t
  | .node l r, b :: bs => descend (if b then r else l) bs
  | _, _ :: _ => none

/-- **All (key, value) pairs of a committed tree**: one per non-empty batch root, the tree being at
height `4 * n`. Key = hash of the batch root, value = the serialised batch. -/
def pairsOf (c : HashCtx) : Nat → List Bool → T Trie.Bytes → List (Trie.Bytes × Trie.Bytes)
  | _, _, .empty => []
  | 0, p, t => [(hashT c 0 p t, serialize (batchOf c 0 p t))]
  | n + 1, p, t =>
    (hashT c (4 * (n + 1)) p t, serialize (batchOf c (4 * (n + 1)) p t)) ::
      (pathsN 4).flatMap fun q =>
        match descend t q with
        | some s => pairsOf c n (p ++ q) s
        | none => []

/-! ### The store -/

/-- The DB restricted to the trie's key space: 32-byte hash ↦ value (`dbkey.Trie` prefix left out). -/
abbrev Store := Trie.Bytes → Option Trie.Bytes

def emptyStore : Store := fun _ => none

/-- `txn.Set(key, value)` -/
def put (σ : Store) (k v : Trie.Bytes) : Store := fun k' => if k' = k then some v else σ k'

/-- `CacheDB.commit`: every pair is `Set` (in list order; later writes win). -/
def commitS (σ : Store) (ps : List (Trie.Bytes × Trie.Bytes)) : Store := ps.foldl (fun s kv => put s kv.1 kv.2) σ

/-- The store after committing the trees `ts` one after the other, starting from an empty DB.
(The Go code writes only the batches created since the last commit — `updatedNodes`; the model
writes all batches of the committed tree. That the real store holds the model's bytes under the
model's keys is checked by the correspondence harness, op `sbatch`.) -/
def storeAfter (c : HashCtx) (n : Nat) (ts : List (T Trie.Bytes)) : Store :=
  ts.foldl (fun σ t => commitS σ (pairsOf c n [] t)) emptyStore

/-! ### Reading through the store: `Trie.get` on a fresh instance (no cache, nothing uncommitted) -/

inductive Res where
  /-- an error return ("trie node unavailable") or a Go run-time panic (slice/index out of range) -/
  | err
  | ok (v : Option Trie.Bytes)
deriving DecidableEq, Repr

/-- One frame of `Trie.get`: either an answer or the arguments of the recursive call. -/
inductive Step where
  | done (r : Res)
  | down (node : Trie.Bytes) (batch : Batch) (i : Nat)

/-- Go `batch[i]`, 1 ≤ i ≤ 30 (`none` = index out of range; the inner option is a nil slot). -/
def slotAt (b : Batch) (i : Nat) : Option (Option Trie.Bytes) := if i = 0 then none else b.slots[i - 1]?

/-- `loadChildren`: (batch, iBatch, isShortcut). At a batch boundary the batch is fetched from the
store under `root[:HashLength]` (`loadBatch` with empty caches, then `parseBatch`). -/
def loadChildren (σ : Store) (root : Trie.Bytes) (h i : Nat) (batch : Batch) : Option (Batch × Nat × Bool) :=
  if h % 4 = 0 then
    match σ (root.take 32) with
    | none => none
    | some val => if val.isEmpty then none else (parse val).map fun b => (b, 0, b.shortcut)
  else
    match slotAt batch i with
    | none => none
    | some none => some (batch, i, false)
    | some (some x) =>
      if x.isEmpty then some (batch, i, false) else
      match x[32]? with
      | none => none
      | some f => some (batch, i, f == 1)

/-- `Trie.get` after `loadChildren` returned (batch, iBatch, isShortcut): compare the shortcut's key,
or pick the child by the key bit `bitIsSet(key, TrieHeight - height)`. -/
def afterLoad (c : HashCtx) (Ht : Nat) (key : List Bool) (h : Nat) (ld : Batch × Nat × Bool) : Step :=
  match ld with
  | (b, j, sc) =>
    match slotAt b (2 * j + 1), slotAt b (2 * j + 2) with
    | some ln, some rn =>
      let lnode := ln.getD []
      let rnode := rn.getD []
      if sc then
        -- `lnode[:HashLength]`, `rnode[:HashLength]`: a slot shorter than 32 bytes is a slice panic
        if lnode.length < 32 then .done .err
        else if lnode.take 32 = c.enc key then
          (if rnode.length < 32 then .done .err else .done (.ok (some (rnode.take 32))))
        else .done (.ok none)
      else
        match key[Ht - h]? with
        | none => .done .err
        | some bit => if bit then .down rnode b (2 * j + 2) else .down lnode b (2 * j + 1)
    | _, _ => .done .err

/-- The body of `Trie.get` up to its recursive call. `key` is the full key, `Ht` the trie height. -/
def getStep (c : HashCtx) (σ : Store) (Ht : Nat) (key : List Bool) (h : Nat) (root : Trie.Bytes) (batch : Batch) (i : Nat) : Step :=
  if root.isEmpty then .done (.ok none) else
  match loadChildren σ root h i batch with
  | none => .done .err
  | some ld => afterLoad c Ht key h ld

/-- `Trie.get(root, key, batch, iBatch, height)` on the store `σ`. -/
def getS (c : HashCtx) (σ : Store) (Ht : Nat) (key : List Bool) : Nat → Trie.Bytes → Batch → Nat → Res
  | h, root, batch, i =>
    match getStep c σ Ht key h root batch i with
    | .done r => r
    | .down node b j =>
      match h with
      | 0 => .err            -- unreachable: at height 0 `Ht - h` is past the key
      | h' + 1 => getS c σ Ht key h' node b j

/-- `NewTrie(root, hash, store).Get(key)` -/
def getRoot (c : HashCtx) (σ : Store) (Ht : Nat) (root : Trie.Bytes) (key : List Bool) : Res :=
  getS c σ Ht key Ht root { shortcut := false, slots := [] } 0

end Aergo.TrieStore
