/-
Storage layer of the trie (C10): the bookkeeping of `updatedNodes` during one `Trie.Update` — which
batches `storeNode` records for the next commit and which `deleteOldNode` drops again — threaded through
the same recursion as `Trie.update` (Model/Trie.lean), call site by call site:

  height 0            put: `leafHash` → `storeNode(batch, h, root, 0)`; delete: `deleteOldNode(root)`
  shortcut at a batch root, before its key joins the batch:            `deleteOldNode(root)`
  "Store shortcut node" (one key into an empty subtree), at a batch root: `storeNode`
  `interiorHash` at a batch root:                                       `storeNode`
  `maybeMoveUpShortcut`, both children gone, at a batch root:           `deleteOldNode(root)`
  `moveUpShortcut`:  at a batch root `storeNode` (the batch becomes a shortcut batch);
                     one level above a batch root `deleteOldNode(shortcut)` (the child's shortcut batch);
                     else nothing
  `storeNode(batch, h, oldRoot, height)`:  `updatedNodes[h] = batch`; unless the hash is unchanged, `deleteOldNode(oldRoot)`

`root`/`oldRoot` is always the reference the *old* tree holds at that position (nil for an empty
subtree, and nil below a shortcut whose key has joined the batch). What is recorded for a batch root is
`batchOf` of the new subtree — that the in-memory batch has exactly these slots when `storeNode` runs is
not modelled here (slot level: exercised by the harness ops `sbatch`/`ser` on the committed bytes).

Keys are compared as whole hashes: the Go code copies the first 32 bytes of a reference
(`copy(node[:], root)`), which is the bare hash; the nil root gives the all-zero key.
-/
import Aergo.Model.TrieStore

namespace Aergo.TrieStore
open Aergo.Trie Aergo.TrieBatch

/-- `CacheDB.updatedNodes`: hash of a batch root ↦ its batch (kept serialised: what `commit` writes) -/
abbrev UN := List (Trie.Bytes × Trie.Bytes)

def zeroKey : Trie.Bytes := List.replicate 32 0

/-- `var node Hash; copy(node[:], root)` -/
def nodeKey (root : Trie.Bytes) : Trie.Bytes := if root.isEmpty then zeroKey else root

/-- `deleteOldNode(root)`: `delete(updatedNodes, node)` -/
def delU (un : UN) (root : Trie.Bytes) : UN := un.filter fun kv => kv.1 != nodeKey root

/-- `updatedNodes[node] = batch` -/
def setU (un : UN) (k v : Trie.Bytes) : UN := (k, v) :: un.filter fun kv => kv.1 != k

/-- the bare hash of the old node at a position (`[]` = nil root) -/
def oldRoot (c : HashCtx) (h : Nat) (p : List Bool) (t : T Trie.Bytes) : Trie.Bytes :=
  match t with
  | .empty => []
  | t => hashT c h p t

/-- `storeNode(batch, h, oldRoot, height)` for the new subtree `new` at a batch root -/
def storeNodeU (c : HashCtx) (un : UN) (h : Nat) (p : List Bool) (new : T Trie.Bytes) (old : Trie.Bytes) : UN :=
  let k := hashT c h p new
  let un1 := setU un k (serialize (batchOf c h p new))
  if !old.isEmpty && k == old then un1 else delU un1 old

abbrev ResU := (T Trie.Bytes × Bool) × UN

/-- `interiorHash` -/
def interiorU (c : HashCtx) (h : Nat) (p : List Bool) (old : Trie.Bytes) (l r : T Trie.Bytes) (un : UN) : ResU :=
  ((.node l r, false), if h % 4 = 0 then storeNodeU c un h p (.node l r) old else un)

/-- `moveUpShortcut`: the child `leaf k v` on side `b` moves up to height `h` -/
def shortcutUpU (c : HashCtx) (h : Nat) (p : List Bool) (old : Trie.Bytes) (b : Bool) (k : List Bool) (v : Trie.Bytes)
    (un : UN) : ResU :=
  ((.leaf (b :: k) v, true),
    if h % 4 = 0 then storeNodeU c un h p (.leaf (b :: k) v) old
    else if (h - 1) % 4 = 0 then delU un (hashT c (h - 1) (p ++ [b]) (.leaf k v))
    else un)

/-- `maybeMoveUpShortcut`, then `interiorHash` when it declines (the tree part is `Trie.moveUp`) -/
def moveUpU (c : HashCtx) (h : Nat) (p : List Bool) (old : Trie.Bytes) (l r : T Trie.Bytes) (un : UN) : ResU :=
  match l, r with
  | .empty, .empty => ((.empty, true), if h % 4 = 0 then delU un old else un)
  | .empty, .leaf k v => shortcutUpU c h p old true k v un
  | .leaf k v, .empty => shortcutUpU c h p old false k v un
  | l, r => interiorU c h p old l r un

/-- `updateRight` / `updateLeft` / `updateParallel` (left before right); `upd b` is the recursive call on child `b` -/
def splitCoreU (c : HashCtx) (h : Nat) (p : List Bool) (old : Trie.Bytes)
    (upd : Bool → T Trie.Bytes → List (KV Trie.Bytes) → UN → ResU)
    (l r : T Trie.Bytes) (lk rk : List (KV Trie.Bytes)) (un : UN) : ResU :=
  match lk, rk with
  | [], _ :: _ =>
    let ((r', d), un1) := upd true r (tails rk) un
    if d then moveUpU c h p old l r' un1 else interiorU c h p old l r' un1
  | _ :: _, [] =>
    let ((l', d), un1) := upd false l (tails lk) un
    if d then moveUpU c h p old l' r un1 else interiorU c h p old l' r un1
  | _, _ =>
    let ((l', dl), un1) := upd false l (tails lk) un
    let ((r', dr), un2) := upd true r (tails rk) un1
    if dl || dr then moveUpU c h p old l' r' un2 else interiorU c h p old l' r' un2

/-- the part of `Trie.update` after the node is loaded (`Trie.split`) -/
def splitU (c : HashCtx) (h : Nat) (p : List Bool) (old : Trie.Bytes)
    (upd : Bool → T Trie.Bytes → List (KV Trie.Bytes) → UN → ResU)
    (l r : T Trie.Bytes) (kvs : List (KV Trie.Bytes)) (un : UN) : ResU :=
  match l, r, kvs with
  | .empty, .empty, [(k, some v)] =>
    ((.leaf k v, false), if h % 4 = 0 then storeNodeU c un h p (.leaf k v) old else un)
  | .empty, .empty, [(_, none)] => ((.empty, true), un)
  | _, _, _ =>
    splitCoreU c h p old upd l r (kvs.takeWhile fun kv => !headBit kv.1) (kvs.dropWhile fun kv => !headBit kv.1) un

/-- **`Trie.update` with `updatedNodes` threaded through**: height, path prefix, old subtree, batch. -/
def updU (c : HashCtx) : Nat → List Bool → T Trie.Bytes → List (KV Trie.Bytes) → UN → ResU
  | 0, p, t, kvs, un =>
    match kvs with
    | (k, some v) :: _ => ((.leaf k v, false), storeNodeU c un 0 p (.leaf k v) (oldRoot c 0 p t))
    | (_, none) :: _ => ((.empty, true), delU un (oldRoot c 0 p t))
    | [] => ((.empty, true), un)
  | h + 1, p, t, kvs, un =>
    let old := oldRoot c (h + 1) p t
    match t with
    | .leaf sk sv =>
      let kvs' := addShortcut kvs sk sv
      let un1 := if (h + 1) % 4 = 0 then delU un old else un
      if kvs'.isEmpty then ((.empty, true), un1)
      else splitU c (h + 1) p old (fun b => updU c h (p ++ [b])) .empty .empty kvs' un1
    | .node l r => splitU c (h + 1) p old (fun b => updU c h (p ++ [b])) l r kvs un
    | .empty => splitU c (h + 1) p old (fun b => updU c h (p ++ [b])) .empty .empty kvs un

/-- the batch roots of a tree of height `4 * n`: path from the root and hash -/
def batchRoots (c : HashCtx) : Nat → List Bool → T Trie.Bytes → List (List Bool × Trie.Bytes)
  | _, _, .empty => []
  | 0, p, t => [(p, hashT c 0 p t)]
  | n + 1, p, t =>
    (p, hashT c (4 * (n + 1)) p t) ::
      (pathsN 4).flatMap fun q =>
        match descend t q with
        | some s => batchRoots c n (p ++ q) s
        | none => []

end Aergo.TrieStore
