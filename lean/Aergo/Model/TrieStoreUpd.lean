/-
Storage layer of the trie (C10): the bookkeeping of `updatedNodes` during one `Trie.Update` — which
batches `storeNode` records for the next commit and which `deleteOldNode` drops again — threaded through
the same recursion as `Trie.update` (Model/Trie.lean), call site by call site:

  height 0            put: `leafHash` → `storeNode(batch, h, root, 0)`; delete: `deleteOldNode(root)`
  shortcut at a batch root, before its key joins the batch:            `deleteOldNode(root)`
  "Store shortcut node" (one key into an empty subtree), at a batch root: `storeNode`
  `interiorHash` at a batch root:                                       `storeNode`
  `maybeMoveUpShortcut`, both children gone, at a batch root:           `deleteOldNode(root)`
  `moveUpShortcut`:  at a batch root `storeNode` (the batch becomes a shortcut batch);
                     one level above a batch root `deleteOldNode(shortcut)` (the child's shortcut batch);
                     else nothing
  `storeNode(batch, h, oldRoot, height)`:  `updatedNodes[h] = batch`; unless the hash is unchanged, `deleteOldNode(oldRoot)`

`root`/`oldRoot` is always the reference the *old* tree holds at that position (nil for an empty
subtree, and nil below a shortcut whose key has joined the batch). What is recorded for a batch root is
`batchOf` of the new subtree — that the in-memory batch has exactly these slots when `storeNode` runs is
not modelled here (slot level: exercised by the harness ops `sbatch`/`ser` on the committed bytes).

Keys are compared as whole hashes: the Go code copies the first 32 bytes of a reference
(`copy(node[:], root)`), which is the bare hash; the nil root gives the all-zero key.
-/
import Aergo.Model.TrieStore

namespace Aergo.TrieStore
open Aergo.Trie Aergo.TrieBatch

/-- `CacheDB.updatedNodes`: hash of a batch root ↦ its batch (kept serialised: what `commit` writes) -/
abbrev UN := List (Trie.Bytes × Trie.Bytes)

def zeroKey : Trie.Bytes := List.replicate 32 0

/-- `var node Hash; copy(node[:], root)` -/
def nodeKey (root : Trie.Bytes) : Trie.Bytes := if root.isEmpty then zeroKey else root

/-- `deleteOldNode(root)`: `delete(updatedNodes, node)` -/
def delU (un : UN) (root : Trie.Bytes) : UN := un.filter fun kv => kv.1 != nodeKey root

/-- `updatedNodes[node] = batch` -/
def setU (un : UN) (k v : Trie.Bytes) : UN := (k, v) :: un.filter fun kv => kv.1 != k

/-- the bare hash of the old node at a position (`[]` = nil root) -/
def oldRoot (c : HashCtx) (h : Nat) (p : List Bool) (t : T Trie.Bytes) : Trie.Bytes :=
  match t with
  | .empty => []
  | t => hashT c h p t

/-- What is recorded for a batch root: height, prefix, new subtree ↦ the value `commit` will write.
The trie records `batchVal c`; the driver, which only compares keys, records nothing. -/
abbrev ValFn := Nat → List Bool → T Trie.Bytes → Trie.Bytes

def batchVal (c : HashCtx) : ValFn := fun h p t => serialize (batchOf c h p t)

/-- `storeNode(batch, h, oldRoot, height)` for the new subtree `new` at a batch root -/
def storeNodeU (c : HashCtx) (val : ValFn) (un : UN) (h : Nat) (p : List Bool) (new : T Trie.Bytes) (old : Trie.Bytes) : UN :=
  let k := hashT c h p new
  let un1 := setU un k (val h p new)
  if !old.isEmpty && k == old then un1 else delU un1 old

abbrev ResU := (T Trie.Bytes × Bool) × UN

/-- `interiorHash` -/
def interiorU (c : HashCtx) (val : ValFn) (h : Nat) (p : List Bool) (old : Trie.Bytes) (l r : T Trie.Bytes) (un : UN) : ResU :=
  ((.node l r, false), if h % 4 = 0 then storeNodeU c val un h p (.node l r) old else un)

/-- `moveUpShortcut`: the child `leaf k v` on side `b` moves up to height `h` -/
def shortcutUpU (c : HashCtx) (val : ValFn) (h : Nat) (p : List Bool) (old : Trie.Bytes) (b : Bool) (k : List Bool) (v : Trie.Bytes)
    (un : UN) : ResU :=
  ((.leaf (b :: k) v, true),
    if h % 4 = 0 then storeNodeU c val un h p (.leaf (b :: k) v) old
    else if (h - 1) % 4 = 0 then delU un (hashT c (h - 1) (p ++ [b]) (.leaf k v))
    else un)

/-- `maybeMoveUpShortcut`, then `interiorHash` when it declines (the tree part is `Trie.moveUp`) -/
def moveUpU (c : HashCtx) (val : ValFn) (h : Nat) (p : List Bool) (old : Trie.Bytes) (l r : T Trie.Bytes) (un : UN) : ResU :=
  match l, r with
  | .empty, .empty => ((.empty, true), if h % 4 = 0 then delU un old else un)
  | .empty, .leaf k v => shortcutUpU c val h p old true k v un
  | .leaf k v, .empty => shortcutUpU c val h p old false k v un
  | l, r => interiorU c val h p old l r un

/-- `updateRight` / `updateLeft` / `updateParallel` (left before right); `upd b` is the recursive call on child `b` -/
def splitCoreU (c : HashCtx) (val : ValFn) (h : Nat) (p : List Bool) (old : Trie.Bytes)
    (upd : Bool → T Trie.Bytes → List (KV Trie.Bytes) → UN → ResU)
    (l r : T Trie.Bytes) (lk rk : List (KV Trie.Bytes)) (un : UN) : ResU :=
  match lk, rk with
  | [], _ :: _ =>
    let ((r', d), un1) := upd true r (tails rk) un
    if d then moveUpU c val h p old l r' un1 else interiorU c val h p old l r' un1
  | _ :: _, [] =>
    let ((l', d), un1) := upd false l (tails lk) un
    if d then moveUpU c val h p old l' r un1 else interiorU c val h p old l' r un1
  | _, _ =>
    let ((l', dl), un1) := upd false l (tails lk) un
    let ((r', dr), un2) := upd true r (tails rk) un1
    if dl || dr then moveUpU c val h p old l' r' un2 else interiorU c val h p old l' r' un2

/-- the part of `Trie.update` after the node is loaded (`Trie.split`) -/
def splitU (c : HashCtx) (val : ValFn) (h : Nat) (p : List Bool) (old : Trie.Bytes)
    (upd : Bool → T Trie.Bytes → List (KV Trie.Bytes) → UN → ResU)
    (l r : T Trie.Bytes) (kvs : List (KV Trie.Bytes)) (un : UN) : ResU :=
  match l, r, kvs with
  | .empty, .empty, [(k, some v)] =>
    ((.leaf k v, false), if h % 4 = 0 then storeNodeU c val un h p (.leaf k v) old else un)
  | .empty, .empty, [(_, none)] => ((.empty, true), un)
  | _, _, _ =>
    splitCoreU c val h p old upd l r (kvs.takeWhile fun kv => !headBit kv.1) (kvs.dropWhile fun kv => !headBit kv.1) un

/-- **`Trie.update` with `updatedNodes` threaded through**: height, path prefix, old subtree, batch. -/
def updU (c : HashCtx) (val : ValFn) : Nat → List Bool → T Trie.Bytes → List (KV Trie.Bytes) → UN → ResU
  | 0, p, t, kvs, un =>
    match kvs with
    | (k, some v) :: _ => ((.leaf k v, false), storeNodeU c val un 0 p (.leaf k v) (oldRoot c 0 p t))
    | (_, none) :: _ => ((.empty, true), delU un (oldRoot c 0 p t))
    | [] => ((.empty, true), un)
  | h + 1, p, t, kvs, un =>
    -- `root` is only looked at where a batch starts (`iBatch == 0`)
    let old := if (h + 1) % 4 = 0 then oldRoot c (h + 1) p t else []
    match t with
    | .leaf sk sv =>
      let kvs' := addShortcut kvs sk sv
      let un1 := if (h + 1) % 4 = 0 then delU un old else un
      if kvs'.isEmpty then ((.empty, true), un1)
      else splitU c val (h + 1) p old (fun b => updU c val h (p ++ [b])) .empty .empty kvs' un1
    | .node l r => splitU c val (h + 1) p old (fun b => updU c val h (p ++ [b])) l r kvs un
    | .empty => splitU c val (h + 1) p old (fun b => updU c val h (p ++ [b])) .empty .empty kvs un

/-- the batch roots of a tree of height `4 * n`: path from the root and hash -/
def batchRoots (c : HashCtx) : Nat → List Bool → T Trie.Bytes → List (List Bool × Trie.Bytes)
  | _, _, .empty => []
  | 0, p, t => [(p, hashT c 0 p t)]
  | n + 1, p, t =>
    (p, hashT c (4 * (n + 1)) p t) ::
      (pathsN 4).flatMap fun q =>
        match descend t q with
        | some s => batchRoots c n (p ++ q) s
        | none => []

/-- **One block, the way the node does it**: a fresh instance at the current root (`updatedNodes` empty), one
`Update` with the block's batch, then `Commit` writes exactly what `updatedNodes` holds. State: the store and the tree
of the current root (height `4 * n`). -/
def blockStep (c : HashCtx) (n : Nat) (st : Store × T Trie.Bytes) (b : List (KV Trie.Bytes)) : Store × T Trie.Bytes :=
  let r := updU c (batchVal c) (4 * n) [] st.2 b []
  (commitS st.1 r.2, r.1.1)

/-- the store and the tree after the blocks `bs`, starting from an empty DB and the empty trie -/
def runBlocks (c : HashCtx) (n : Nat) (bs : List (List (KV Trie.Bytes))) : Store × T Trie.Bytes :=
  bs.foldl (blockStep c n) (emptyStore, .empty)

/-! ### The same with the hashes kept in the tree

`updU` recomputes the hash of a subtree wherever the Go code merely reads the reference stored in the
parent's batch (`root`, `lnode`, `rnode`) or passes on the hash it has just computed (`mresult.update`).
`TH` keeps that hash at every node, `updUH` is `updU` on such trees: one hash evaluation per node the
Go code hashes. (Lemmas/TrieStoreUpdH.lean: on a correctly annotated tree `updUH` and `updU` agree.) -/

/-- a tree with the hash of every non-empty subtree cached at its root -/
inductive TH where
  | empty : TH
  | leaf (k : List Bool) (v : Trie.Bytes) (hs : Trie.Bytes) : TH
  | node (l r : TH) (hs : Trie.Bytes) : TH

namespace TH

def erase : TH → T Trie.Bytes
  | .empty => .empty
  | .leaf k v _ => .leaf k v
  | .node l r _ => .node l.erase r.erase

/-- the hash by which a parent refers to the subtree (`DefaultLeaf` for an empty one) -/
def ref : TH → Trie.Bytes
  | .empty => defaultLeaf
  | .leaf _ _ hs => hs
  | .node _ _ hs => hs

/-- the bare hash as an old root (`[]` = nil) -/
def root : TH → Trie.Bytes
  | .empty => []
  | .leaf _ _ hs => hs
  | .node _ _ hs => hs

end TH

/-- `leafHash`; `rp` is the path prefix in reverse (cheap to extend on the way down) -/
def mkLeaf (c : HashCtx) (h : Nat) (rp k : List Bool) (v : Trie.Bytes) : TH :=
  .leaf k v (c.H (c.enc (rp.reverseAux k) ++ v ++ [byteOf h]))

/-- `interiorHash` -/
def mkNode (c : HashCtx) (l r : TH) : TH := .node l r (c.H (l.ref ++ r.ref))

abbrev ValFnH := Nat → List Bool → TH → Trie.Bytes

def storeNodeUH (val : ValFnH) (un : UN) (h : Nat) (rp : List Bool) (new : TH) (old : Trie.Bytes) : UN :=
  let k := new.root
  let un1 := setU un k (val h rp new)
  if !old.isEmpty && k == old then un1 else delU un1 old

abbrev ResUH := (TH × Bool) × UN

def interiorUH (c : HashCtx) (val : ValFnH) (h : Nat) (rp : List Bool) (old : Trie.Bytes) (l r : TH) (un : UN) : ResUH :=
  let new := mkNode c l r
  ((new, false), if h % 4 = 0 then storeNodeUH val un h rp new old else un)

def shortcutUpUH (c : HashCtx) (val : ValFnH) (h : Nat) (rp : List Bool) (old : Trie.Bytes) (b : Bool) (k : List Bool)
    (v childHash : Trie.Bytes) (un : UN) : ResUH :=
  let new := mkLeaf c h rp (b :: k) v
  ((new, true),
    if h % 4 = 0 then storeNodeUH val un h rp new old
    else if (h - 1) % 4 = 0 then delU un childHash
    else un)

def moveUpUH (c : HashCtx) (val : ValFnH) (h : Nat) (rp : List Bool) (old : Trie.Bytes) (l r : TH) (un : UN) : ResUH :=
  match l, r with
  | .empty, .empty => ((.empty, true), if h % 4 = 0 then delU un old else un)
  | .empty, .leaf k v hs => shortcutUpUH c val h rp old true k v hs un
  | .leaf k v hs, .empty => shortcutUpUH c val h rp old false k v hs un
  | l, r => interiorUH c val h rp old l r un

def splitCoreUH (c : HashCtx) (val : ValFnH) (h : Nat) (rp : List Bool) (old : Trie.Bytes)
    (upd : Bool → TH → List (KV Trie.Bytes) → UN → ResUH)
    (l r : TH) (lk rk : List (KV Trie.Bytes)) (un : UN) : ResUH :=
  match lk, rk with
  | [], _ :: _ =>
    let ((r', d), un1) := upd true r (tails rk) un
    if d then moveUpUH c val h rp old l r' un1 else interiorUH c val h rp old l r' un1
  | _ :: _, [] =>
    let ((l', d), un1) := upd false l (tails lk) un
    if d then moveUpUH c val h rp old l' r un1 else interiorUH c val h rp old l' r un1
  | _, _ =>
    let ((l', dl), un1) := upd false l (tails lk) un
    let ((r', dr), un2) := upd true r (tails rk) un1
    if dl || dr then moveUpUH c val h rp old l' r' un2 else interiorUH c val h rp old l' r' un2

def splitUH (c : HashCtx) (val : ValFnH) (h : Nat) (rp : List Bool) (old : Trie.Bytes)
    (upd : Bool → TH → List (KV Trie.Bytes) → UN → ResUH)
    (l r : TH) (kvs : List (KV Trie.Bytes)) (un : UN) : ResUH :=
  match l, r, kvs with
  | .empty, .empty, [(k, some v)] =>
    let new := mkLeaf c h rp k v
    ((new, false), if h % 4 = 0 then storeNodeUH val un h rp new old else un)
  | .empty, .empty, [(_, none)] => ((.empty, true), un)
  | _, _, _ =>
    splitCoreUH c val h rp old upd l r (kvs.takeWhile fun kv => !headBit kv.1) (kvs.dropWhile fun kv => !headBit kv.1) un

/-- `updU` on hash-annotated trees (`rp`: the path prefix in reverse) -/
def updUH (c : HashCtx) (val : ValFnH) : Nat → List Bool → TH → List (KV Trie.Bytes) → UN → ResUH
  | 0, rp, t, kvs, un =>
    match kvs with
    | (k, some v) :: _ => let new := mkLeaf c 0 rp k v; ((new, false), storeNodeUH val un 0 rp new t.root)
    | (_, none) :: _ => ((.empty, true), delU un t.root)
    | [] => ((.empty, true), un)
  | h + 1, rp, t, kvs, un =>
    let old := if (h + 1) % 4 = 0 then t.root else []
    match t with
    | .leaf sk sv _ =>
      let kvs' := addShortcut kvs sk sv
      let un1 := if (h + 1) % 4 = 0 then delU un old else un
      if kvs'.isEmpty then ((.empty, true), un1)
      else splitUH c val (h + 1) rp old (fun b => updUH c val h (b :: rp)) .empty .empty kvs' un1
    | .node l r _ => splitUH c val (h + 1) rp old (fun b => updUH c val h (b :: rp)) l r kvs un
    | .empty => splitUH c val (h + 1) rp old (fun b => updUH c val h (b :: rp)) .empty .empty kvs un

def descendH : TH → List Bool → Option TH
  | t, [] => some t
  | .node l r _, b :: bs => descendH (if b then r else l) bs
  | _, _ :: _ => none

/-- `batchRoots` on an annotated tree: path and cached hash of every batch root -/
def batchRootsH : Nat → List Bool → TH → List (List Bool × Trie.Bytes)
  | _, _, .empty => []
  | 0, p, t => [(p, t.root)]
  | n + 1, p, t =>
    (p, t.root) ::
      (pathsN 4).flatMap fun q =>
        match descendH t q with
        | some s => batchRootsH n (p ++ q) s
        | none => []

end Aergo.TrieStore
