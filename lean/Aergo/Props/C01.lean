/-
C01 — Ledger conservation: executing blocks never mints or burns native coin.

"For every block a node produces or validates, the sum of the balances of all accounts (user accounts,
the staking, naming and reward-vault system accounts, and the block producer's coinbase) is the same
after the block as before it: every unit debited from one account (transfer amount, fee, stake, name
price, voting reward) is credited to exactly one other account. The only permitted exception is a
producer configured without a coinbase account, in which case the supply shrinks by exactly the sum of
the fees recorded in the block's receipts."

The theorems are about `Aergo.Model.Ledger` (transcription of chainhandle.go:executeTx / resetAccount /
NewTxExecutor / blockExecutor.execute / sendRewardCoinbase, contract.go:Execute, state/account.go,
types/transaction.go validation, fee/*.go, the stake / vote / name governance paths and
dpos.go:sendVotingReward; tied to the source by the correspondence run of harness/c01 against
`model-c01`). `World.total` sums over *all* account records. No bound on the number of accounts,
transactions per block or blocks; every fork version, fee regime and tx type.

Clause by clause:
* a unit debited is credited exactly once ............ `sendBalance_conserves`, `subBalance_exact`,
                                                        `validate_covers_fee`
* per transaction, every type and outcome ............ `executeTx_conserves_partial`, `receipt_fee`
* rewards ............................................ `votingReward_conserves`, `coinbaseReward_exact`
* per block, with / without coinbase ................. `block_conserves_partial`, `validated_block_conserves_partial`
* along any branch (hence across reorganisations) .... `branch_conserves_partial`

The pinned code violates the per-transaction statement in one input shape, which has its negation
witness below and is excluded by exactly one hypothesis of the `_partial` theorems:
* the balance-for-fee check of `contract.Execute` failing *after* the VM has committed a transfer to a
  third account (a fee-delegation call in which the contract sends away what it holds; also a version < 2
  TRANSFER with empty payload to a contract) — `fee_check_after_vm_commit_mints`; excluded by
  `leak = false` (known finding `C01-vm-fee-check-after-commit`).
Two further shapes this check found — `v1setOwner` whose new owner is the sender (DESIGN §5 lead 11) and a
paid `v1createName`/`v1updateName` once the owner of the name contract is `aergo.name` itself, both
crediting a second `AccountState` copy that `executeTx` then overwrote — were repaired in /repo
(fix: "name transactions credited a second copy of an account that executeTx overwrites"); the model is
the repaired code and the theorems cover name transactions at full strength; the two former witnesses
are kept as regression tests (`setOwner_owner_is_sender_conserves`, `name_owner_is_name_contract_conserves`).
The one other hypothesis is `SenderOK`, two facts about a *signed* transaction (C04) cut down to the tx
shape each is needed for: a REDEPLOY whose recipient is its own sender is not sent by a contract, and a
deployed contract's address is not the sender's own. Until fix 343afa85 a third and a wider second clause
were needed — and were NOT guaranteed by signature verification: a tx sent under a *name* whose destination
is a contract is signed by the name's owner and executes as the contract account; addressed to that contract
it minted whatever the script sent to third parties (found by this check: the verifier's own `verifyTx`
decides which generated txs the oracles apply to). `executeTx` now uses the sender's record as the receiver's
whenever the resolved recipient is the sender's own account; the model is the repaired code and the two
former necessity witnesses are regression tests (`contract_calling_itself_conserves`,
`sender_aergo_name_conserves`). That a fee-delegation recipient is a contract is not assumed either: the model
carries the `CheckFeeDelegation` precondition (`fee_delegation_recipient_is_a_contract`).
-/
import Aergo.Lemmas.LedgerBlock
import Aergo.Lemmas.LedgerFee

namespace Aergo.Props.C01
open Aergo.Ledger

/-! ### tie T: the fee formulas of the model are the ones in /repo/fee/*.go

`Aergo.Gen.Fee` is regenerated from fee/fee.go, fee/gas.go, fee/payload.go by `goext bigfn` on every run
(big.Int exact, uint64/int64 wrapping, `init()` values as definitions, `zeroFee` as a parameter); a
function that leaves the translated subset makes the translator fail. Every theorem below that mentions
`txBaseFee`, `validateMaxFee`, `gasLimit` … is therefore a statement about the source's formulas. -/

/-- **The model's fee functions are the generated ones** on the domain a node can reach: payload length
< 2^63 (a Go `int`), gas limit < 2^64 (`uint64` field), gas price > 0 (else `big.Int.Div` panics), every
fork version, zero-fee or not, every balance. Pairs are `(value, err ≠ nil)`. -/
theorem fee_formulas_are_the_source (c : Ctx) (n gl bal usedFee sBal rBal : Nat) (isFD : Bool)
    (hn : n < 2 ^ 63) (hgl : gl < 2 ^ 64) (hg : 0 < c.gasPrice) :
    Aergo.Gen.Fee.TxGas c.zeroFee n = txGas c n ∧
    Aergo.Gen.Fee.PayloadFee c.zeroFee n = payloadFee c n ∧
    Aergo.Gen.Fee.MaxPayloadFee c.zeroFee n = maxPayloadFee c n ∧
    Aergo.Gen.Fee.TxBaseFee c.zeroFee c.version c.gasPrice n = txBaseFee c n ∧
    Aergo.Gen.Fee.GasEnabled c.zeroFee c.version = gasEnabled c ∧
    (∀ b : Int, Aergo.Gen.Fee.MaxGasLimit b c.gasPrice = maxGasLimit b c.gasPrice) ∧
    Aergo.Gen.Fee.TxMaxFee c.zeroFee c.version n gl bal c.gasPrice =
      (match txMaxFee c n gl bal with
       | none => (0, true)
       | some f => ((f : Int), false)) ∧
    Aergo.Gen.Fee.GasLimit c.zeroFee c.version isFD gl n c.gasPrice usedFee sBal rBal =
      (match gasLimit c isFD gl n usedFee sBal rBal with
       | some v => ((v : Int), false)
       | none => (((if isFD || gl == 0 then 0 else gl : Nat) : Int), true)) :=
  ⟨gen_TxGas c n hn, gen_PayloadFee c n hn, gen_MaxPayloadFee c n hn, gen_TxBaseFee c n hn, gen_GasEnabled c,
   fun b => gen_MaxGasLimit b c.gasPrice hg, gen_TxMaxFee c n gl bal hn hg,
   gen_GasLimit c isFD gl n usedFee sBal rBal hn hgl hg⟩

/-- test: the generated definitions compute (version 3, gas price 2: base fee 2 × 100000; version 1, payload of
300 bytes: 0.002 AERGO + 100 × 5000 GAER; a gas limit one below the tx gas is refused) -/
example : Aergo.Gen.Fee.TxBaseFee false 3 2 0 = 200000 ∧
    Aergo.Gen.Fee.TxBaseFee false 1 2 300 = 2000000000000000 + 100 * 5000000000000 ∧
    Aergo.Gen.Fee.TxMaxFee false 3 0 99999 1000000 2 = (0, true) ∧
    Aergo.Gen.Fee.GasLimit false 3 false 100001 0 2 200000 1000000 0 = (1, false) := by decide

/-! ### a unit debited is credited exactly once -/

/-- `state.SendBalance`: if it succeeds, what the sender's record loses the receiver's record gains;
on equal account ids it is a no-op; it fails (and changes nothing) iff the sender holds less than the
amount. -/
theorem sendBalance_conserves (s r : Copy) (amt : Nat) :
    (∀ s' r', sendBal s r amt = some (s', r') →
        s'.cur.bal + r'.cur.bal = s.cur.bal + r.cur.bal ∧ s'.id = s.id ∧ r'.id = r.id ∧
        (s.id = r.id → s' = s ∧ r' = r) ∧
        (s.id ≠ r.id → s'.cur.bal = s.cur.bal - amt ∧ r'.cur.bal = r.cur.bal + amt ∧ amt ≤ s.cur.bal)) ∧
    (sendBal s r amt = none ↔ s.id ≠ r.id ∧ s.cur.bal < amt) := by
  constructor
  · intro s' r' h
    have q := sendBal_spec h
    obtain ⟨q1, q2, q3, q4, q5, q6, q7, q8, q9, q10, q11, q12, q13, q14, q15, q16, q17⟩ := q
    exact ⟨q15, q1, q2, q16, fun hne => ⟨(q17 hne).2.1, (q17 hne).2.2, (q17 hne).1⟩⟩
  · unfold sendBal
    by_cases h1 : s.id = r.id
    · simp [h1]
    · by_cases h2 : s.cur.bal < amt <;> simp [h1, h2]

/-- test: both branches of `sendBalance_conserves` are inhabited -/
example : sendBal { id := 1, cur := { bal := 5 } } { id := 2 } 3 = some ({ id := 1, cur := { bal := 2 } }, { id := 2, cur := { bal := 3 } })
    ∧ sendBal { id := 1, cur := { bal := 5 } } { id := 2 } 6 = none := by decide

/-- `AccountState.SubBalance` (`big.Int.Sub` then `Bytes()`, which drops the sign) is exact subtraction
whenever the balance covers the amount — and is *not* otherwise: the model keeps Go's `|a − b|`. -/
theorem subBalance_exact (cp : Copy) (x : Nat) :
    (x ≤ cp.cur.bal → (cp.subBalance x).cur.bal = cp.cur.bal - x) ∧
    (cp.cur.bal < x → (cp.subBalance x).cur.bal = x - cp.cur.bal) := by
  simp only [Copy.subBalance, Copy.setBal, absSub]
  constructor
  · intro h; simp [h]
  · intro h; simp [Nat.not_le.mpr h]

/-- Validation covers the fee: a transaction of type NORMAL/TRANSFER/CALL/DEPLOY/REDEPLOY that passes
`ValidateWithSenderState` leaves, after the amount, at least the base fee `executeTx` charges when no
contract runs (every fork version, zero-fee or not, with or without an explicit gas limit); and
`ValidateMaxFee` on any balance covers the base fee (the fee-delegation case). -/
theorem validate_covers_fee (c : Ctx) (tx : Tx) (st : Acct) :
    (validateSender c tx st = none →
      (tx.type = .normal ∨ tx.type = .redeploy ∨ tx.type = .transfer ∨ tx.type = .call ∨ tx.type = .deploy) →
      tx.amount + txBaseFee c tx.payloadLen ≤ st.bal) ∧
    (∀ b, validateMaxFee c tx b = none → txBaseFee c tx.payloadLen ≤ b) := by
  refine ⟨fun h ht => ?_, fun b h => base_le_maxFee h⟩
  have := validateSender_cov h ht
  omega

/-- test: a concrete sender that passes validation exactly at the boundary (version 3, gas price 2) -/
def ctxV3 : Ctx :=
  { version := 3, gasPrice := 2, zeroFee := false, isPublic := true, coinbase := none, blockNo := 9, namePrice := 1, stakingMin := 1 }

example : validateSender ctxV3 { type := .transfer, sender := 10, recipient := some 11, amount := 7, nonce := 1 } { bal := 200007 } = none
  ∧ validateSender ctxV3 { type := .transfer, sender := 10, recipient := some 11, amount := 7, nonce := 1 } { bal := 200006 } ≠ none := by
  decide

/-! ### one transaction

Full statement (FALSE on the pinned tree — see the witness `fee_check_after_vm_commit_mints`):
  `∀ c w bp tx, (executeTx c w bp tx).w.total + (executeTx c w bp tx).bp = w.total + bp`. -/

/-- **Every transaction conserves Σ balances + BpReward**: for every fork version and fee regime, every
tx type (transfer, call, deploy, redeploy, multicall, fee delegation, stake, unstake, vote, name
create/update/setOwner), every outcome (applied, failed with an ERROR receipt, rejected), every scripted
VM behaviour — outside the one defect shape excluded by `leak = false`. -/
theorem executeTx_conserves_partial (c : Ctx) (w : World) (bp : Nat) (tx : Tx)
    (hsig : SenderOK w tx)
    (hl : (executeTx c w bp tx).leak = false) :
    (executeTx c w bp tx).w.total + (executeTx c w bp tx).bp = w.total + bp :=
  executeTx_total hsig hl

/-- `SenderOK` is what signature verification gives (C04 `Signable`: the sender is a key account — no code,
not aergo.name — and a contract it deploys lives elsewhere), and strictly less: a contract account or
aergo.name as the sender (a tx sent under a name, signed by the name's owner) is covered by the theorem,
also when the tx is addressed to the sender itself. -/
theorem signable_is_senderOK (w : World) (tx : Tx) (h : Signable w tx) : SenderOK w tx := h.senderOK

/-- **The recipient of an executed fee-delegation transaction is a contract** — formerly the hypothesis
`FdTarget`, now a consequence of the model's transcription of `CheckFeeDelegation`'s precondition (`GetABI`:
"cannot find contract"): a FEEDELEGATION tx to an account without code is rejected, whatever else holds. -/
theorem fee_delegation_recipient_is_a_contract (c : Ctx) (w : World) (bp : Nat) (tx : Tx) (r : Addr)
    (ht : tx.type = .feeDelegation) (hr : tx.recipient = some r)
    (hx : ∀ e, (executeTx c w bp tx).outcome ≠ .rejected e) : (w.acct r).code = true :=
  fdTarget_enforced hx ht r hr

/-! worlds and contexts used by the tests and witnesses below -/

def ctxPriv : Ctx :=
  { version := 2, gasPrice := 1, zeroFee := true, isPublic := false, coinbase := none, blockNo := 9, namePrice := 3, stakingMin := 10 }
def ctxPub : Ctx :=
  { version := 3, gasPrice := 1, zeroFee := false, isPublic := true, coinbase := some 8, blockNo := 9, namePrice := 3, stakingMin := 10 }
/-- aergo.system 0, aergo.name 500, users 10 and 11, a contract 100 created by 10 -/
def w0 : World :=
  { accts := [(0, {}), (1, { bal := 500 }), (10, { bal := 1000000 }), (11, { bal := 1000000 }), (100, { bal := 700000, code := true })]
    creator := [(100, 10)] }

def txTransfer : Tx := { type := .transfer, sender := 10, recipient := some 11, amount := 40, nonce := 1 }
def txStake : Tx :=
  { type := .governance, sender := 10, recipient := some 0, amount := 10, nonce := 1, payloadLen := 9, gov := .stake }

/-- test (non-vacuity): the hypotheses hold for a fee-paying transfer and a stake, which are applied -/
example : SenderOK w0 txTransfer ∧
    (executeTx ctxPub w0 0 txTransfer).leak = false ∧ (executeTx ctxPub w0 0 txTransfer).outcome = .success ∧
    (executeTx ctxPub w0 0 txTransfer).bp = 100000 ∧
    (executeTx ctxPriv w0 0 txStake).outcome = .success := by
  refine ⟨⟨by decide, by decide⟩, by decide, by decide, by decide, by decide⟩

/-- a fee-delegation call to the contract 100, and the same to the plain account 11 -/
def txFdOk : Tx :=
  { type := .feeDelegation, sender := 10, recipient := some 100, amount := 0, nonce := 1, payloadLen := 50, script := { fee := 1000 } }

/-- test: both sides of the fee-delegation precondition — to a contract the tx is applied (the contract pays
base fee 100000 (the 50-byte payload is within the 200 free bytes) + VM fee 1000), to an account without code it is rejected -/
example : (executeTx ctxPub w0 0 txFdOk).outcome = .success ∧ (executeTx ctxPub w0 0 txFdOk).w.bal 100 = 700000 - 101000 ∧
    (executeTx ctxPub w0 0 { txFdOk with recipient := some 11 }).outcome = .rejected .other := by
  refine ⟨by decide, by decide, by decide⟩

/-- aergo.name itself sends `v1setOwner 11` to aergo.name (the account field "aergo.name"; admitted by the
signature verifier only if the name contract has an owner, which this world has not: a probe) -/
def txNameByName : Tx :=
  { type := .governance, sender := 1, recipient := some 1, amount := 0, nonce := 1, payloadLen := 9, gov := .setOwner 11
    acctName := some 0 }

/-- regression test (fix 343afa85, "one account, one live record"): with aergo.name as the sender of a name
transaction `receiver = sender`; the 500 units move to the new owner and the one record of aergo.name that
is written shows the debit. (Before the fix `sender` and `receiver` were two records of aergo.name and the
stale one was written: 500 units minted.) -/
theorem sender_aergo_name_conserves :
    (executeTx ctxPriv w0 0 txNameByName).outcome = .success ∧
    (executeTx ctxPriv w0 0 txNameByName).w.total + (executeTx ctxPriv w0 0 txNameByName).bp = w0.total + 0 ∧
    (executeTx ctxPriv w0 0 txNameByName).w.bal 1 = 0 ∧ (executeTx ctxPriv w0 0 txNameByName).w.bal 11 = 1000500 := by
  refine ⟨by decide, by decide, by decide, by decide⟩

/-- the contract 100 as the sender of a call to itself whose script sends 5 units to account 11: a tx sent
under a name whose destination is the contract, signed by the name's owner (the contract's creator) -/
def txSelfCall : Tx :=
  { type := .call, sender := 100, recipient := some 100, amount := 0, nonce := 1, payloadLen := 40
    script := { fee := 10, xfers := [(11, 5)] }, acctName := some 7 }

/-- regression test for the repaired defect `C01-name-owner-sends-as-contract-to-itself` (fix 343afa85): the
VM runs on the one record of the contract, which is the record the success branch writes: the 5 units the
script sent away are debited (and the fee is paid by the contract account). Before the fix the VM debited a
second record that was never written: 5 units minted. -/
theorem contract_calling_itself_conserves :
    SenderOK w0 txSelfCall ∧ ¬ Signable w0 txSelfCall ∧
    (executeTx ctxPub w0 0 txSelfCall).outcome = .success ∧
    (executeTx ctxPub w0 0 txSelfCall).w.total + (executeTx ctxPub w0 0 txSelfCall).bp = w0.total + 0 ∧
    (executeTx ctxPub w0 0 txSelfCall).w.bal 100 = 700000 - 5 - 100010 ∧ (executeTx ctxPub w0 0 txSelfCall).w.bal 11 = 1000005 := by
  refine ⟨⟨by decide, by decide⟩, fun h => absurd h.noCode (by decide), by decide, by decide, by decide, by decide⟩

/-- a contract "redeploying" itself (REDEPLOY still works on two records of the one account) -/
def txSelfRedeploy : Tx :=
  { type := .redeploy, sender := 100, recipient := some 100, amount := 0, nonce := 1, payloadLen := 40
    script := { fee := 10, xfers := [(11, 5)] } }

/-- **`SenderOK.noCode` is necessary** (negation witness for the statement without it) in a world where the
contract is recorded as its own creator — no execution of the pinned code produces such a record (the creator
is the deploying account, `fresh`), but the theorem quantifies over all worlds: the VM debits the receiver's
record, the success branch writes the sender's. -/
theorem contract_redeploying_itself_mints :
    ¬ SenderOK { w0 with creator := [(100, 100)] } txSelfRedeploy ∧
    (executeTx ctxPriv { w0 with creator := [(100, 100)] } 0 txSelfRedeploy).outcome = .success ∧
    (executeTx ctxPriv { w0 with creator := [(100, 100)] } 0 txSelfRedeploy).leak = false ∧
    (executeTx ctxPriv { w0 with creator := [(100, 100)] } 0 txSelfRedeploy).w.total +
      (executeTx ctxPriv { w0 with creator := [(100, 100)] } 0 txSelfRedeploy).bp = w0.total + 0 + 5 := by
  refine ⟨fun h => absurd (h.noCode rfl rfl) (by decide), by decide, by decide, by decide⟩

/-- test: the hypothesis admits a contract as the sender of a transfer to somebody else, and the theorem's
conclusion holds there -/
example : SenderOK w0 { txTransfer with sender := 100 } ∧ ¬ Signable w0 { txTransfer with sender := 100 } ∧
    (executeTx ctxPub w0 0 { txTransfer with sender := 100 }).outcome = .success ∧
    (executeTx ctxPub w0 0 { txTransfer with sender := 100 }).w.total + (executeTx ctxPub w0 0 { txTransfer with sender := 100 }).bp = w0.total := by
  refine ⟨⟨by decide, by decide⟩, fun h => absurd h.noCode (by decide), by decide, by decide⟩

/-- `v1setOwner` naming the sender (10) as the new owner of the name contract -/
def txSetOwnerSelf : Tx :=
  { type := .governance, sender := 10, recipient := some 1, amount := 0, nonce := 1, payloadLen := 9, gov := .setOwner 10 }

/-- regression test for the repaired defect `C01-setOwner-owner-is-sender` (DESIGN §5 lead 11): the 500
units held by aergo.name reach the sender's *own* record; the supply is unchanged. (Before the fix they
were credited to a second record of the sender that `sender.PutState()` overwrote: supply − 500.) -/
theorem setOwner_owner_is_sender_conserves :
    (executeTx ctxPriv w0 0 txSetOwnerSelf).outcome = .success ∧
    (executeTx ctxPriv w0 0 txSetOwnerSelf).w.total + (executeTx ctxPriv w0 0 txSetOwnerSelf).bp = w0.total + 0 ∧
    (executeTx ctxPriv w0 0 txSetOwnerSelf).w.bal 10 = 1000500 ∧ (executeTx ctxPriv w0 0 txSetOwnerSelf).w.bal 1 = 0 := by
  refine ⟨by decide, by decide, by decide, by decide⟩

/-- the owner of the name contract has been set to aergo.name itself (by an earlier `v1setOwner`) -/
def w1 : World := { w0 with names := [(0, (1, 1))] }
def txCreateName : Tx :=
  { type := .governance, sender := 11, recipient := some 1, amount := 3, nonce := 1, payloadLen := 9, gov := .nameCreate 5 }

/-- regression test for the repaired defect `C01-name-owner-is-aergo.name`: the price of the name reaches
the receiver's own record of aergo.name; the supply is unchanged. (Before the fix it was credited to a
second record of aergo.name that `receiver.PutState()` overwrote: supply − 3.) -/
theorem name_owner_is_name_contract_conserves :
    (executeTx ctxPriv w1 0 txCreateName).outcome = .success ∧
    (executeTx ctxPriv w1 0 txCreateName).w.total + (executeTx ctxPriv w1 0 txCreateName).bp = w1.total + 0 ∧
    (executeTx ctxPriv w1 0 txCreateName).w.bal 1 = 503 := by
  refine ⟨by decide, by decide, by decide⟩

/-- a fee-delegation call: the contract (100) pays the fee and its script sends all it holds to 11 -/
def txFdDrain : Tx :=
  { type := .feeDelegation, sender := 10, recipient := some 100, amount := 0, nonce := 1, payloadLen := 50
    script := { fee := 1000, xfers := [(11, 700000)] } }

/-- **Defect witness** (known finding `C01-vm-fee-check-after-commit`): the VM call succeeds and the transfer
to account 11 is written; then `Execute` finds the contract unable to pay the fee, the tx gets an ERROR
receipt, the contract's record is reset (its debit is lost) and charged the fee only: 700000 units are
minted. -/
theorem fee_check_after_vm_commit_mints :
    (executeTx ctxPub w0 0 txFdDrain).outcome = .failed ∧
    (executeTx ctxPub w0 0 txFdDrain).w.total + (executeTx ctxPub w0 0 txFdDrain).bp = w0.total + 0 + 700000 ∧
    (executeTx ctxPub w0 0 txFdDrain).leak = true := by
  refine ⟨by decide, by decide, by decide⟩

/-- **Receipt fee**: an executed transaction writes exactly one receipt and `BpReward` grows by exactly
the fee recorded in it (status ERROR iff the tx failed at run time); a rejected one writes none and
leaves world and `BpReward` as they were. -/
theorem receipt_fee (c : Ctx) (w : World) (bp : Nat) (tx : Tx) :
    (∃ e, (executeTx c w bp tx).outcome = .rejected e ∧ (executeTx c w bp tx).w = w ∧
        (executeTx c w bp tx).bp = bp ∧ (executeTx c w bp tx).receipt = none) ∨
    (∃ rc, (executeTx c w bp tx).receipt = some rc ∧ (executeTx c w bp tx).bp = bp + rc.fee ∧
      (((executeTx c w bp tx).outcome = .success ∧ rc.status ≠ .error) ∨
       ((executeTx c w bp tx).outcome = .failed ∧ rc.status = .error))) := by
  rcases executeTx_shape c w bp tx with ⟨e, h1, h2, h3, h4, _⟩ | h
  · exact Or.inl ⟨e, h1, h2, h3, h4⟩
  · exact Or.inr h

/-! ### rewards -/

/-- `sendVotingReward` (vault → winner, capped by the vault's balance) conserves Σ balances, whoever the
winner is — including the vault itself or nobody. -/
theorem votingReward_conserves (w : World) (winner : Option Addr) (amt : Nat) :
    (votingReward w winner amt).total = w.total := votingReward_total w winner amt

/-- `sendRewardCoinbase` credits exactly the accumulated `BpReward` to the coinbase; without a coinbase
account nothing is credited. -/
theorem coinbaseReward_exact (w : World) (bp : Nat) (cb : Option Addr) :
    (coinbaseReward w bp cb).total = w.total + (if cb.isSome then bp else 0) := coinbaseReward_total w bp cb

/-! ### blocks

Full statement (false on the pinned tree because of the tx-level defect):
  `produceBlock w b = (w', rs) → (coinbase ≠ none → w'.total = w.total) ∧ (coinbase = none → w'.total + sumFees rs = w.total)`
for every block. Proved: the same under `TxsOK`, i.e. every transaction of the block is `SenderOK` and not
flagged `leak` at the state it is executed on. -/

/-- **A produced block conserves the supply**: with a coinbase account Σ balances is unchanged; without
one it shrinks by exactly the sum of the fees in the block's receipts. Any number of transactions, a
rejected transaction is dropped by the producer and leaves no trace. -/
theorem block_conserves_partial (w : World) (b : Block)
    (hok : TxsOK b.ctx { w := w.beginBlock } b.txs) :
    (b.ctx.coinbase ≠ none → (produceBlock w b).1.total = w.total) ∧
    (b.ctx.coinbase = none → (produceBlock w b).1.total + sumFees (produceBlock w b).2 = w.total) := by
  have hi : BState.Inv w.total { w := w.beginBlock } := ⟨by simp [beginBlock_total], rfl⟩
  have hinv := produceTxs_inv hi hok
  unfold produceBlock
  simp only [payRewards_total]
  constructor
  · intro hcb
    have : b.ctx.coinbase.isSome = true := by cases h : b.ctx.coinbase <;> simp_all
    simp [this]; exact hinv.1
  · intro hcb
    simp [hcb]
    have := hinv.1; have := hinv.2
    omega

/-- **A validated block conserves the supply** (`blockExecutor.execute`): if the block is accepted the
same two equalities hold; if any transaction is rejected the block is refused and nothing is committed. -/
theorem validated_block_conserves_partial (w : World) (b : Block) (w' : World) (rs : List Receipt)
    (hok : TxsOK b.ctx { w := w.beginBlock } b.txs) (h : validateBlock w b = some (w', rs)) :
    (b.ctx.coinbase ≠ none → w'.total = w.total) ∧
    (b.ctx.coinbase = none → w'.total + sumFees rs = w.total) := by
  have hi : BState.Inv w.total { w := w.beginBlock } := ⟨by simp [beginBlock_total], rfl⟩
  unfold validateBlock at h
  split at h
  · cases h
  · rename_i s hs
    cases h
    have hinv := validateTxs_inv hi hok hs
    simp only [payRewards_total]
    constructor
    · intro hcb
      have : b.ctx.coinbase.isSome = true := by cases h : b.ctx.coinbase <;> simp_all
      simp [this]; exact hinv.1
    · intro hcb
      simp [hcb]
      have := hinv.1; have := hinv.2
      omega

def txGap : Tx := { type := .transfer, sender := 10, recipient := some 11, amount := 40, nonce := 5 }
def blk1 : Block := { ctx := ctxPub, txs := [txTransfer, txGap], reward := { winner := some 11, amount := 7 } }

/-- test (non-vacuity): a block with an applied transfer and a rejected one (nonce gap) satisfies `TxsOK`,
is refused by the validator and, with the rejected tx dropped, conserves the supply -/
example : TxsOK blk1.ctx { w := w0.beginBlock } blk1.txs ∧ validateBlock w0 blk1 = none ∧
    (produceBlock w0 blk1).1.total = w0.total ∧ sumFees (produceBlock w0 blk1).2 = 100000 := by
  refine ⟨⟨⟨⟨by decide, by decide⟩, by decide⟩,
    ⟨⟨by decide, by decide⟩, by decide⟩, trivial⟩,
    by decide, by decide, by decide⟩

/-! ### branches -/

/-- every block of a branch satisfies `TxsOK` at the state it is executed on -/
def BranchOK : World → List Block → Prop
  | _, [] => True
  | w, b :: bs => TxsOK b.ctx { w := w.beginBlock } b.txs ∧
      match validateBlock w b with
      | some (w', _) => BranchOK w' bs
      | none => True

/-- fees burnt along a branch: Σ receipt fees of the blocks produced without a coinbase -/
def burnt : World → List Block → Nat
  | _, [] => 0
  | w, b :: bs =>
    match validateBlock w b with
    | some (w', rs) => (if b.ctx.coinbase.isNone then sumFees rs else 0) + burnt w' bs
    | none => 0

/-- **Along any branch** — any list of blocks executed one after the other, hence also the blocks
re-executed from the fork point by a reorganisation — the supply at the tip equals the supply at the
root minus the fees of the blocks that had no coinbase. By induction over the list; no bound. -/
theorem branch_conserves_partial (bs : List Block) : ∀ (w w' : World), BranchOK w bs →
    validateBranch w bs = some w' → w'.total + burnt w bs = w.total := by
  induction bs with
  | nil => intro w w' _ h; simp [validateBranch] at h; subst h; simp [burnt]
  | cons b bs ih =>
    intro w w' hok h
    unfold validateBranch at h
    unfold BranchOK at hok
    unfold burnt
    split at h
    · cases h
    · rename_i w1 rs hv
      rw [hv] at hok
      simp only [hv]
      have hb := validated_block_conserves_partial w b w1 rs hok.1 hv
      have := ih w1 w' hok.2 h
      cases hc : b.ctx.coinbase with
      | none =>
        have := hb.2 hc
        simp
        omega
      | some a =>
        have := hb.1 (by simp [hc])
        simp
        omega

end Aergo.Props.C01
