/-
C02 — Deterministic execution: same block + same prior state ⇒ same roots everywhere.

"Executing a given block on a given prior state always yields byte-identical state root, receipts and
receipts root, no matter how often it is repeated, on which node, in which order hash maps happen to
iterate or how goroutines are scheduled. In particular every block that the block-production path builds
(which skips transactions that fail) is accepted, with identical roots, by the validation path of a fresh
node that re-executes it from the parent state."

What a theorem can say here. In a model, execution is a function: "same input ⇒ same output" is `rfl` and
proves nothing. The content of the property is
 (a) every place where the Go code walks a `map` (the runtime re-randomises the order on every `range`) or
     chooses between ready channels must produce an order-independent result, and
 (b) the producer path (skips failing txs, may stop on a timeout) and the validator path (executes exactly
     the block's list, rejects on the first failure) agree.

(a) Tie T: `tools/goext nondet` regenerates, on every run, the inventory of all such places — and of the other
    syntactic sources of order / timing / node dependence: `sort.*` calls, context polls, environment reads,
    `reflect` map walks, `%p` — in every package of the module that `chain`, `consensus/chain` or
    `consensus/impl/dpos` transitively import (`Aergo.Gen.NondetSites`; `closure_scanned`);
    `Aergo.Nondet.table` maps each one to a theorem of this file, to the reason why it cannot feed state, or to
    "sampled only" (goroutines, code behind the VM stub). `all_sites_covered` fails on an unmapped site;
    `cited_theorems_exist` fails on a dangling name. The classification is tied to what the loop **body** does:
    for every map iteration the extractor summarises the body (early exits, non-local write targets, callees,
    state-writing callees, fingerprint) and `all_loops_match` / `loop_class_rules` compare it with the summary recorded
    when the site was classified (`thm` sites are pinned by fingerprint, `noState` sites call no state writer).
    For every state-feeding map iteration `Aergo.Determ` has a model that takes the iteration order as an
    argument, and the theorems below prove the result invariant under permutation of that argument, for all
    states, all map sizes, all orders:
      stateBuffer.export/stage, bufferIndex.rollback, StateDB.updateStorage/Commit, storageCache.Snapshot/
      Rollback, CacheDB.commit, SetGenesis, VoteResult.buildVoteList + sort, vpr.apply (both loops),
      swapTxMapping;
    loops that `return err` from inside the `range` refine an order-free specification (`tryFold_spec`), and the
    per-loop results lift to whole histories of loops by induction (`runVisits_perm_invariant`).
    `sort.Sort`/`sort.Slice` are modelled as *any* algorithm returning a sorted permutation.
(b) `producer_validator_agree`, by induction over the candidate list, for any transaction executor that reads an
    explicit environment (execution mode, context ended, node-local inputs) and answers ok / error / timeout inside
    the VM, under `hrb` (an unsuccessful run leaves the block state unchanged: `NewTxExecutor` snapshot /
    rollback — C12/C03) and `henv` (a successful run is reproduced by a validator of any node);
    `validate_node_independent`, `block_producer_validator_agree` (the reward goes to the header's coinbase account).

Findings recorded here:
 * `VoteList.Less` (types/vote.go) as it is on the pinned tree (after repair 1c75543b) is a strict total
   order on tallies whose candidates are pairwise different and of one length class (`less_strict_total`),
   so the vote list is unique (`voteList_order_unique`). Before the repair it was not
   (`lessOld_ties`: class C15-less-tie-candidate-prefix; the harness keeps probing that shape).
   Across length classes (a 39-byte candidate against another length, only possible with malformed
   genesis BP ids) `Less` is still not asymmetric: `less_mixed_classes_not_asymmetric`.
 * `vpr.lowest` depends on the iteration order of `v.changes` (`vprLowest_order_dependent`); it is read only
   by `vpr.equals` (tests), so it is listed as not state-feeding.

Not carried by a theorem: goroutine scheduling (`Trie.updateParallel`, `loadCache`, the tx signature
verifier) — the two subtree updates are independent recursive calls in the model (C10: the result is the
canonical tree of the resulting map, `Aergo.Props.C10.history_independent`), the interleavings themselves
are sampled by harness c02 (every block re-executed k times under GOMAXPROCS 1, 4, 16); everything inside
LuaJIT/SQLite (VM stub).
-/
import Lean.Elab.Command
import Aergo.Lemmas.Determ
import Aergo.Model.Nondet
import Aergo.Gen.NondetSites
import Aergo.Gen.NondetSynth
import Aergo.Props.C10
import Aergo.Props.C12

namespace Aergo.Props.C02
open Aergo.Determ

/-- the theorems `Aergo.Nondet.table` may cite, by name (`theoremIndex` at the end of the file resolves each of
them to a declaration) -/
def theoremNames : List String := [
  "Aergo.Props.C02.buildVoteList_order_invariant",
  "Aergo.Props.C02.voteList_order_unique",
  "Aergo.Props.C02.vprApply_perm_invariant",
  "Aergo.Props.C02.vprRowWrites_perm_invariant",
  "Aergo.Props.C02.export_perm_invariant",
  "Aergo.Props.C02.dbSets_perm_invariant",
  "Aergo.Props.C02.idxRollback_perm_invariant",
  "Aergo.Props.C02.updateStorage_perm_invariant",
  "Aergo.Props.C02.cacheSnapshot_perm_invariant",
  "Aergo.Props.C02.cacheRollback_perm_invariant",
  "Aergo.Props.C02.genesisBalances_perm_invariant",
  "Aergo.Props.C02.swapDeletes_perm_invariant",
  "Aergo.Props.C02.swapReoffer_perm",
  "Aergo.Props.C02.producer_validator_agree"]

/-! ### Tie T: the nondeterminism inventory

String equality evaluated inside the kernel is very slow, defeq of string literals is immediate: the positions of
the generated items in the hand tables are computed by the `#eval` below (native code, not trusted) and the kernel
only checks, by `rfl`, that the table entries at these positions *are* the generated items. -/

/-- marker: the `#eval` below computes the position certificates (`siteIdx`, `loopIdx`, `loopCoverIdx`, `citedIdx`,
`closureIdx`) and reports every problem of the inventory at once -/
def nondetInventoryCertificates : Unit := ()

open Lean Elab Command in
#eval show CommandElabM Unit from do
  -- every problem is reported (not only the first one); a certificate that cannot be computed stays undefined,
  -- so the theorem that needs it fails as well
  let problems ← IO.mkRef (#[] : Array String)
  let defIdx (name : String) (sub sup : List String) (what : String) : CommandElabM Unit := do
    match Aergo.Nondet.positions sub sup with
    | .error missing => problems.modify (·.push s!"{what}: {missing}")
    | .ok idx => elabCommand (← `(def $(mkIdent (Name.mkSimple name)) : List Nat := $(quote idx)))
  defIdx "siteIdx" Aergo.Gen.NondetSites.sites Aergo.Nondet.keys
    "unclassified nondeterminism site(s) in the consensus-critical packages (add them to Aergo.Nondet.table)"
  let d := Aergo.Nondet.loopDiffs Aergo.Gen.NondetSites.loops
  unless d.isEmpty do
    problems.modify (·.push s!"map iteration(s) whose body no longer is what was classified: {d}")
  defIdx "loopIdx" (Aergo.Gen.NondetSites.loops.map (·.1)) (Aergo.Nondet.loopTable.map (·.key))
    "map iteration(s) without a row in Aergo.Nondet.loopTable"
  defIdx "loopCoverIdx" (Aergo.Gen.NondetSites.loops.map (·.1)) Aergo.Nondet.keys
    "map iteration(s) without an entry in Aergo.Nondet.table"
  defIdx "citedIdx" Aergo.Nondet.citedTheorems theoremNames
    "theorem(s) cited by Aergo.Nondet.table that are not in theoremIndex"
  defIdx "closureIdx" Aergo.Gen.NondetSites.closure Aergo.Gen.NondetSites.scannedDirs
    "package(s) imported by the block-execution roots but not in the scan list of tools/props.d/C02.json"
  let ps ← problems.get
  unless ps.isEmpty do
    throwError "{"\n".intercalate ps.toList}"

private theorem pick_mem {α : Type} (xs : List α) : ∀ (idx : List Nat) (l : List α),
    Aergo.Nondet.pick xs idx = some l → ∀ a ∈ l, a ∈ xs
  | [], l, h, a, ha => by
    simp only [Aergo.Nondet.pick, Option.some.injEq] at h
    subst h; cases ha
  | i :: is, l, h, a, ha => by
    simp only [Aergo.Nondet.pick] at h
    cases hx : xs[i]? with
    | none => simp [hx] at h
    | some x =>
      cases hr : Aergo.Nondet.pick xs is with
      | none => simp [hx, hr] at h
      | some r =>
        simp only [hx, hr, Option.some.injEq] at h
        subst h
        rcases List.mem_cons.1 ha with rfl | ha
        · exact List.mem_of_getElem? hx
        · exact pick_mem xs is r hr a ha

set_option maxRecDepth 100000 in
/-- the keys of the table at the certified positions are exactly the generated sites (kernel: literal defeq) -/
private theorem sites_at : Aergo.Nondet.pick Aergo.Nondet.keys siteIdx = some Aergo.Gen.NondetSites.sites := by rfl

/-- Every `range` over a map (or unresolved operand), `.Range(f)`, `time.Now/Since/Until`, use of `rand`, `go`
statement, `select` statement, `sort.*` call, context poll, environment read, `reflect` map walk and `%p` format
that the extractor finds in the packages of the *current* source that block execution imports has an entry in
`Aergo.Nondet.table`: it is mapped to a theorem of this file, to the reason why it cannot feed state, to "not a
map", or to "sampled only". -/
theorem all_sites_covered : ∀ s ∈ Aergo.Gen.NondetSites.sites, ∃ c, (s, c) ∈ Aergo.Nondet.table := by
  intro s hs
  have := pick_mem _ _ _ sites_at s hs
  obtain ⟨e, he, rfl⟩ := List.mem_map.1 this
  exact ⟨e.2, he⟩

/-! #### the loop bodies -/

/-- the recorded rows of the generated loops, in the order of `Gen.loops` -/
def loopRows : List Aergo.Nondet.LoopRow := (Aergo.Nondet.pick Aergo.Nondet.loopTable loopIdx).getD []

private theorem loopRows_sub : ∀ r ∈ loopRows, r ∈ Aergo.Nondet.loopTable := by
  intro r hr
  unfold loopRows at hr
  cases h : Aergo.Nondet.pick Aergo.Nondet.loopTable loopIdx with
  | none => simp [h] at hr
  | some l => simp only [h, Option.getD_some] at hr; exact pick_mem _ _ _ h r hr

set_option maxRecDepth 100000 in
private theorem loopRows_len : loopRows.length = Aergo.Gen.NondetSites.loops.length := by rfl

set_option maxRecDepth 100000 in
/-- kernel: literal defeq of the recorded summaries with the generated ones (fingerprint where pinned) -/
private theorem loopRows_view : loopRows.map Aergo.Nondet.viewRow =
    Aergo.Nondet.viewGen (loopRows.map (·.pin.isSome)) Aergo.Gen.NondetSites.loops := by rfl

/-- one generated row agrees with one recorded row: same early exits, write targets, callees, state-writing
callees, and the same fingerprint when the row is pinned -/
def RowAgrees (g : String × String × List String × List String × List String × String) (r : Aergo.Nondet.LoopRow) : Prop :=
  r.key = g.1 ∧ r.exits = g.2.1 ∧ r.writes = g.2.2.1 ∧ r.calls = g.2.2.2.1 ∧ r.stateCalls = g.2.2.2.2.1 ∧
    ∀ h, r.pin = some h → h = g.2.2.2.2.2

private theorem view_agrees : ∀ (rows : List Aergo.Nondet.LoopRow)
    (gens : List (String × String × List String × List String × List String × String)),
    rows.length = gens.length →
    rows.map Aergo.Nondet.viewRow = Aergo.Nondet.viewGen (rows.map (·.pin.isSome)) gens →
    ∀ g ∈ gens, ∃ r ∈ rows, RowAgrees g r
  | [], [], _, _, g, hg => by cases hg
  | [], _ :: _, hl, _, _, _ => by simp at hl
  | _ :: _, [], hl, _, _, _ => by simp at hl
  | r :: rs, g0 :: gs, hl, hv, g, hg => by
    simp only [List.map_cons, Aergo.Nondet.viewGen, List.zipWith_cons_cons, List.cons.injEq] at hv
    rcases List.mem_cons.1 hg with rfl | hg
    · refine ⟨r, List.mem_cons_self, ?_⟩
      have h1 := hv.1
      simp only [Aergo.Nondet.viewRow, Prod.mk.injEq] at h1
      obtain ⟨k1, k2, k3, k4, k5, k6⟩ := h1
      refine ⟨k1, k2, k3, k4, k5, ?_⟩
      intro h hp
      simp only [hp, Option.isSome_some, if_true, Option.getD_some] at k6
      exact k6
    · have hl' : rs.length = gs.length := by simpa using hl
      obtain ⟨r', hr', ha⟩ := view_agrees rs gs hl' hv.2 g hg
      exact ⟨r', List.mem_cons_of_mem _ hr', ha⟩

/-- **The classification is tied to the loop bodies.** For every map iteration of the *current* source (every
`range` over a map or unresolved operand, every `.Range(f)`) the body summary the extractor computes — early exits,
non-local write targets, callees, state-writing callees — is the one recorded in `Aergo.Nondet.loopTable` when the
site was classified, and for the bodies a model of `Aergo.Determ` transcribes also the fingerprint of the printed
body. A loop that starts to call `PutState`, to append to an outer slice or to `break` no longer matches, whatever
its class; an edit of a transcribed body has to be re-read against its model. -/
theorem all_loops_match : ∀ g ∈ Aergo.Gen.NondetSites.loops, ∃ r ∈ Aergo.Nondet.loopTable, RowAgrees g r := by
  intro g hg
  obtain ⟨r, hr, ha⟩ := view_agrees loopRows _ loopRows_len loopRows_view g hg
  exact ⟨r, loopRows_sub r hr, ha⟩

/-- the table entries of the generated loops, in the order of `Gen.loops` -/
def loopCovers : List (String × Aergo.Nondet.Cover) := (Aergo.Nondet.pick Aergo.Nondet.table loopCoverIdx).getD []

set_option maxRecDepth 100000 in
private theorem loopCovers_keys : loopCovers.map (·.1) = loopRows.map (·.key) := by rfl

set_option maxRecDepth 100000 in
private theorem loopCovers_len : loopCovers.length = loopRows.length := by rfl

set_option maxRecDepth 100000 in
private theorem loop_rules_hold :
    (List.zipWith (fun e r => Aergo.Nondet.classRule e.2 r) loopCovers loopRows).all id = true := by decide +kernel

private theorem zip_rules : ∀ (es : List (String × Aergo.Nondet.Cover)) (rs : List Aergo.Nondet.LoopRow),
    es.length = rs.length → es.map (·.1) = rs.map (·.key) →
    (List.zipWith (fun e r => Aergo.Nondet.classRule e.2 r) es rs).all id = true →
    ∀ r ∈ rs, ∃ c, (r.key, c) ∈ es ∧ Aergo.Nondet.classRule c r = true
  | [], [], _, _, _, r, hr => by cases hr
  | [], _ :: _, hl, _, _, _, _ => by simp at hl
  | _ :: _, [], hl, _, _, _, _ => by simp at hl
  | e :: es, r0 :: rs, hl, hk, ha, r, hr => by
    simp only [List.map_cons, List.cons.injEq] at hk
    simp only [List.zipWith_cons_cons, List.all_cons, id, Bool.and_eq_true] at ha
    rcases List.mem_cons.1 hr with rfl | hr
    · refine ⟨e.2, ?_, ha.1⟩
      rw [← hk.1]; exact List.mem_cons_self
    · have hl' : es.length = rs.length := by simpa using hl
      obtain ⟨c, hc, hrule⟩ := zip_rules es rs hl' hk.2 ha.2 r hr
      exact ⟨c, List.mem_cons_of_mem _ hc, hrule⟩

/-- **Class rules of the loops.** Every recorded row of a generated loop has its site in `Aergo.Nondet.table` and
obeys the rule of its class: a site mapped to a theorem is pinned by the fingerprint of its body (the model the
theorem is about was transcribed from exactly that body); a site classified `noState` calls no state-writing
function (`stateCalls = []`: block state, receipts, state database writers, by name). -/
theorem loop_class_rules : ∀ r ∈ loopRows, ∃ c, (r.key, c) ∈ Aergo.Nondet.table ∧ Aergo.Nondet.classRule c r = true := by
  intro r hr
  obtain ⟨c, hc, hrule⟩ := zip_rules loopCovers loopRows loopCovers_len loopCovers_keys loop_rules_hold r hr
  refine ⟨c, ?_, hrule⟩
  unfold loopCovers at hc
  cases h : Aergo.Nondet.pick Aergo.Nondet.table loopCoverIdx with
  | none => simp [h] at hc
  | some l => simp only [h, Option.getD_some] at hc; exact pick_mem _ _ _ h _ hc

/-! #### the scan list -/

set_option maxRecDepth 100000 in
private theorem closure_at :
    Aergo.Nondet.pick Aergo.Gen.NondetSites.scannedDirs closureIdx = some Aergo.Gen.NondetSites.closure := by rfl

/-- **The scan list is closed under imports.** Every package of this module that `chain`, `consensus/chain` or
`consensus/impl/dpos` transitively import (computed from the current source) is scanned completely. A package
that block execution starts to use cannot stay outside the inventory. -/
theorem closure_scanned : ∀ p ∈ Aergo.Gen.NondetSites.closure, p ∈ Aergo.Gen.NondetSites.scannedDirs :=
  pick_mem _ _ _ closure_at

/-- Self-test of the extractor on a synthetic package with known answers (`corpus/C02/synth`, regenerated on
every run like the real inventory): maps behind named types, fields, promoted fields, fields and functions
of another package of the module, method results, locals, multi-value results are found; slices, strings,
channels, integers are not listed; an unresolvable operand is listed as `range?`; `sort.*` calls, context
polls (of a `context.Context`, or `ctxpoll?` on an unresolvable receiver, but not `Err()` of a type of the module),
environment reads, `reflect` map walks and `%p` formats are listed. A *test* of the tool. -/
theorem extractor_selftest : Aergo.Gen.NondetSynth.sites = [
    "a/a.go:clocks:go:clocks",
    "a/a.go:clocks:go:func() {}",
    "a/a.go:clocks:rand:crand.Read",
    "a/a.go:clocks:rand:rand.Intn",
    "a/a.go:clocks:rand:rand.New",
    "a/a.go:clocks:rand:rand.NewSource",
    "a/a.go:clocks:select:<-c | default",
    "a/a.go:clocks:time:time.Now",
    "a/a.go:clocks:time:time.Now#1",
    "a/a.go:clocks:time:time.Since",
    "a/a.go:holder.effects:ctxpoll:ctx.Deadline",
    "a/a.go:holder.effects:ctxpoll:ctx.Err",
    "a/a.go:holder.effects:ctxpoll?:unknown.Err",
    "a/a.go:holder.effects:env:os.Getenv",
    "a/a.go:holder.effects:env:runtime.NumCPU",
    "a/a.go:holder.effects:mapkeys:reflect.ValueOf(h.m).MapKeys",
    "a/a.go:holder.effects:maprange:h.m",
    "a/a.go:holder.effects:maprange:h.m#1",
    "a/a.go:holder.effects:maprange:h.m#2",
    "a/a.go:holder.effects:ptrfmt:fmt.Sprintf",
    "a/a.go:holder.effects:sort:sort.Slice",
    "a/a.go:holder.effects:sort:sort.Strings",
    "a/a.go:holder.effects:syncmap:h.sm.Range",
    "a/a.go:holder.ranges:maprange:b.Index()",
    "a/a.go:holder.ranges:maprange:b.Registry",
    "a/a.go:holder.ranges:maprange:fmap()",
    "a/a.go:holder.ranges:maprange:h.box.All()",
    "a/a.go:holder.ranges:maprange:h.box.Items",
    "a/a.go:holder.ranges:maprange:h.box.Nested.Set",
    "a/a.go:holder.ranges:maprange:h.inner",
    "a/a.go:holder.ranges:maprange:h.l",
    "a/a.go:holder.ranges:maprange:h.m",
    "a/a.go:holder.ranges:maprange:h.m#1",
    "a/a.go:holder.ranges:maprange:param",
    "a/a.go:holder.ranges:maprange:pkgMap",
    "a/a.go:holder.ranges:maprange:x",
    "a/a.go:holder.ranges:maprange:z",
    "a/a.go:holder.ranges:range?:unknown.Field",
    "a/a.go:holder.ranges:syncmap:h.sm.Range",
    "a/a.go:var initialised:maprange:pkgMap"] := by rfl

/-- Self-test of the loop-body summary: early exits (`return`, `break` but not the `break` of an inner `switch`,
`continue outer`, `return false` of a `.Range` callback, not the `return` of a nested function literal), writes
(non-local targets only, index expressions abstracted, `delete`), calls (logger chain left out), state-writing
calls by name. A *test* of the tool. -/
theorem extractor_selftest_loops :
    (Aergo.Gen.NondetSynth.loops.take 4).map (fun g => (g.1, g.2.1, g.2.2.1, g.2.2.2.1, g.2.2.2.2.1)) = [
    ("a/a.go:holder.effects:maprange:h.m", "return", ["h.box.Items[_]", "out", "total"],
      [".Put", "append", "fmt.Errorf", "fmt.Sprint"], [".Put"]),
    ("a/a.go:holder.effects:maprange:h.m#1", "break", ["delete(h.m)"], [], []),
    ("a/a.go:holder.effects:maprange:h.m#2", "continue outer", [], ["func"], []),
    ("a/a.go:holder.effects:syncmap:h.sm.Range", "return false", ["total"], [], [])] := by rfl

/-! ### Vote list: `VoteList.Less` and `buildVoteList` -/

/-- **`Less` is a strict total order** on entries of one length class with different candidates:
asymmetric, transitive, and it decides every such pair. (All candidates of a BP tally are 39-byte peer ids,
all candidates of a proposal tally are short decimal strings; candidates are the keys of `rmap`.) -/
theorem less_strict_total :
    (∀ a b, SameClass a b → less a b = true → less b a = true → False) ∧
    (∀ a b c, SameClass a b → SameClass b c → less a b = true → less b c = true → less a c = true) ∧
    (∀ a b, SameClass a b → a.cand ≠ b.cand → less a b = true ∨ less b a = true) :=
  ⟨fun _ _ h => less_asymm h, fun _ _ _ h1 h2 => less_trans h1 h2, fun _ _ h => less_total h⟩

/-- Non-vacuity and a *test* on the tie shape of DESIGN lead 4: a secp256k1 peer id and the id of the negated
key (same X, parity byte at index 6) with equal tallies are ordered, one way only. -/
example :
    let p : Entry := ⟨[0, 0x25, 8, 2, 0x12, 0x21, 2] ++ List.replicate 32 0x44, 5⟩
    let q : Entry := ⟨[0, 0x25, 8, 2, 0x12, 0x21, 3] ++ List.replicate 32 0x44, 5⟩
    SameClass p q ∧ p.cand ≠ q.cand ∧ less q p = true ∧ less p q = false := by decide

/-- `VoteList.Less` before repair 1c75543b (no `bytes.Compare` fallback). -/
private def lessOld (a b : Entry) : Bool :=
  if a.amt < b.amt then true
  else if a.amt = b.amt then lessKey a b.cand < lessKey a a.cand
  else false

/-- The defect the repair removed (class `C15-less-tie-candidate-prefix`): the two ids above tie under the
old comparison, so both arrangements were "sorted" and the ranking bytes depended on map order. -/
example :
    let p : Entry := ⟨[0, 0x25, 8, 2, 0x12, 0x21, 2] ++ List.replicate 32 0x44, 5⟩
    let q : Entry := ⟨[0, 0x25, 8, 2, 0x12, 0x21, 3] ++ List.replicate 32 0x44, 5⟩
    p.cand ≠ q.cand ∧ lessOld p q = false ∧ lessOld q p = false := by decide

/-- Across length classes the pinned `Less` is *not* asymmetric: which slice is compared is decided by the
left operand only. Witness: a 39-byte candidate with seven leading zero bytes against a 38-byte one.
Unreachable through transactions (BP candidates are re-framed in 39-byte chunks, proposal candidates are
numbers of at most 27 digits); reachable only from a genesis file with malformed BP ids. -/
theorem less_mixed_classes_not_asymmetric :
    ∃ a b : Entry, a.cand ≠ b.cand ∧ less a b = true ∧ less b a = true :=
  ⟨⟨List.replicate 7 0 ++ [1] ++ List.replicate 31 0, 1⟩, ⟨[255] ++ List.replicate 37 0, 1⟩, by decide⟩

/-- **The vote list is unique.** Whatever order the map was iterated in and whatever (correct) sorting
algorithm ran: any two arrangements of one tally that `sort.Sort(sort.Reverse(·))` may return — permutations
without a `Less`-ascent — are the same list, provided the candidates are pairwise different (map keys) and
of one length class. -/
theorem voteList_order_unique (votes out out' : List Entry)
    (hkeys : (votes.map (·.cand)).Nodup) (hclass : Uniform votes)
    (ho : out.Perm votes) (ho' : out'.Perm votes) (hs : RankSorted out) (hs' : RankSorted out') : out = out' :=
  rankSorted_unique hkeys hclass ho ho' hs hs'

/-- The executable model of `buildVoteList` does not depend on the iteration order of `vr.rmap`: two
iteration orders of one map give the same list (and that list is a `Less`-sorted arrangement, i.e. the one
of `voteList_order_unique`). -/
theorem buildVoteList_order_invariant (order order' : List Entry) (p : order.Perm order')
    (hkeys : (order.map (·.cand)).Nodup) (hclass : Uniform order) :
    buildVoteList order = buildVoteList order' ∧ RankSorted (buildVoteList order) ∧
      (buildVoteList order).Perm order := by
  have hclass' : Uniform order' := fun a ha b hb => hclass a (p.symm.subset ha) b (p.symm.subset hb)
  refine ⟨?_, rankSort_sorted order hclass, rankSort_perm order⟩
  exact rankSorted_unique hkeys hclass (rankSort_perm order) ((rankSort_perm order').trans p.symm)
    (rankSort_sorted order hclass) (rankSort_sorted order' hclass')

/-- Non-vacuity / *test*: three BP candidates, two of them tied in amount and sharing bytes 7.., in two
iteration orders. -/
example :
    let c1 : Entry := ⟨[0, 0x25, 8, 2, 0x12, 0x21, 2] ++ List.replicate 32 0x44, 5⟩
    let c2 : Entry := ⟨[0, 0x25, 8, 2, 0x12, 0x21, 3] ++ List.replicate 32 0x44, 5⟩
    let c3 : Entry := ⟨[0, 0x25, 8, 2, 0x12, 0x21, 2] ++ List.replicate 32 0x11, 9⟩
    buildVoteList [c1, c2, c3] = [c3, c1, c2] ∧ buildVoteList [c3, c2, c1] = [c3, c1, c2] ∧
      buildVoteList [c2, c1, c3] = [c3, c1, c2] := by decide

/-! ### Voting-power rank: `vpr.apply` -/

/-- **`vpr.apply` does not depend on the iteration order of `v.changes`**: powers, every bucket (as the list
that is serialised into the system contract's storage and walked by `pickVotingRewardWinner`) and the total
power are the same for any two orders, for every rank satisfying the representation invariant (which
`apply` preserves, `vprApply_preserves_inv`). -/
theorem vprApply_perm_invariant (v : Vpr) (hv : v.Inv) (order order' : List (Nat × Int)) (p : order.Perm order')
    (hkeys : (order.map (·.1)).Nodup) : v.apply order = v.apply order' := by
  unfold Vpr.apply
  have pf := p.filter (fun c => c.2 ≠ 0)
  have hk : ((order.filter (fun c => c.2 ≠ 0)).map (·.1)).Nodup :=
    List.Nodup.sublist ((List.filter_sublist).map _) hkeys
  refine foldl_perm_inv Vpr.applyStep Vpr.Inv (fun s a h => Vpr.inv_applyStep s a h) pf ?_ v hv
  intro x hx y hy s hs
  by_cases hxy : x.1 = y.1
  · rw [eq_of_key_eq (·.1) hk x hx y hy hxy]
  · exact Vpr.applyStep_comm s hs hxy

theorem vprApply_preserves_inv (v : Vpr) (hv : v.Inv) (order : List (Nat × Int)) : (v.apply order).Inv := by
  unfold Vpr.apply
  generalize order.filter (fun c => c.2 ≠ 0) = l
  induction l generalizing v with
  | nil => exact hv
  | cons a l ih => exact ih _ (Vpr.inv_applyStep v a hv)

/-- Non-vacuity / *test*: two voters of one bucket and one of another, a voter leaving (power back to 0). -/
example :
    let v0 := Vpr.empty.apply [(5, 10), (3, 7)]
    v0.Inv ∧ v0.apply [(5, -10), (9, 2), (3, 1)] = v0.apply [(3, 1), (9, 2), (5, -10)] ∧
      (v0.apply [(5, -10), (9, 2), (3, 1)]).powers = [(9, 2), (3, 8)] := by
  refine ⟨vprApply_preserves_inv _ Vpr.inv_empty _, by decide, by decide⟩

/-- The second loop of `vpr.apply` (`for i := range updRows { store.write(s, i) }`): the `SetData` calls for
two iteration orders of the set of updated rows are permutations of each other and one row is written with one
value, so they leave the same storage (`dbSets_perm_invariant`). -/
theorem vprRowWrites_perm_invariant {α : Type} (v : Vpr) (rows rows' : List Nat) (p : rows.Perm rows')
    (enc : KL → α) (db : Fun α) :
    dbSets db ((v.rowWrites rows).map (fun w => (w.1, enc w.2))) =
      dbSets db ((v.rowWrites rows').map (fun w => (w.1, enc w.2))) := by
  unfold dbSets Vpr.rowWrites
  simp only [List.map_map]
  refine List.Perm.foldl_eq' (p.map _) ?_ db
  intro x hx y hy d
  obtain ⟨i, hi, rfl⟩ := List.mem_map.1 hx
  obtain ⟨j, hj, rfl⟩ := List.mem_map.1 hy
  by_cases hij : i = j
  · subst hij; rfl
  · exact Fun.upd_comm d hij _ _

/-- `vpr.lowest` *does* depend on the iteration order: two new voters with equal power, visited in either
order, leave `lowest` pointing at different voters. The field is read by `vpr.equals` only (never by block
execution), hence "not state-feeding" in the table — recorded so that nobody starts using it. -/
theorem vprLowest_order_dependent :
    ∃ order order' : List (Nat × Int), order.Perm order' ∧ lowestAfter order ≠ lowestAfter order' :=
  ⟨[(1, 5), (2, 5)], [(2, 5), (1, 5)], List.Perm.swap _ _ _, by decide⟩

/-! ### State buffer, storage cache, trie cache -/

/-- **`stateBuffer.export`**: the entries collected in two iteration orders of `buffer.indexes` and sorted by
key (by any sorting algorithm) are the same list — the sorted output of distinct keys is unique. With
`Aergo.Props.C12.export_survivors` that list is "the latest surviving write of every key, ascending". -/
theorem export_perm_invariant {α : Type} (top : Nat → Option α) (order order' : List Nat) (p : order.Perm order')
    (out out' : List (Nat × α)) (h : IsExport (collect top order) out) (h' : IsExport (collect top order') out') :
    out = out' :=
  sorted_perm_unique (fun a b => a.1 < b.1) (fun a b h1 h2 => by omega) (p.filterMap _) h.1 h'.1 h.2 h'.2

/-- Non-vacuity: a buffer with keys 7, 2, 5 (5 holds only a meta entry), iterated in two orders. -/
example :
    let top : Nat → Option Nat := fun k => if k = 7 then some 70 else if k = 2 then some 20 else none
    IsExport (collect top [7, 2, 5]) [(2, 20), (7, 70)] ∧ IsExport (collect top [5, 2, 7]) [(2, 20), (7, 70)] := by
  refine ⟨⟨?_, by decide⟩, ⟨?_, by decide⟩⟩
  · exact List.Perm.swap _ _ _
  · exact List.Perm.refl _

/-- **`txn.Set` per map entry** (`stateBuffer.stage`, `StateDB.Commit`, `CacheDB.commit`): writing the pairs in
two orders leaves the same database, provided two pairs with one key carry one value (map keys are
distinct; the keys of `stage` are hashes of the values). -/
theorem dbSets_perm_invariant {α : Type} (db : Fun α) (order order' : List (Nat × α)) (p : order.Perm order')
    (hfun : ∀ x ∈ order, ∀ y ∈ order, x.1 = y.1 → x.2 = y.2) : dbSets db order = dbSets db order' := by
  unfold dbSets
  refine List.Perm.foldl_eq' p ?_ db
  intro x hx y hy d
  by_cases hxy : x.1 = y.1
  · have : x = y := Prod.ext hxy (hfun x hx y hy hxy)
    rw [this]
  · exact Fun.upd_comm d hxy _ _

/-- Reduction form for content-addressed writes (`key = H value`): two orders give the same database, or the
batch contains an explicit collision of `H`. Collision resistance is not assumed. -/
theorem stage_perm_invariant_or_collision {α : Type} (H : α → Nat) (db : Fun α) (vals vals' : List α)
    (p : vals.Perm vals') :
    dbSets db (vals.map (fun v => (H v, v))) = dbSets db (vals'.map (fun v => (H v, v))) ∨
      ∃ v ∈ vals, ∃ w ∈ vals, v ≠ w ∧ H v = H w := by
  by_cases hc : ∃ v ∈ vals, ∃ w ∈ vals, v ≠ w ∧ H v = H w
  · exact .inr hc
  · left
    refine dbSets_perm_invariant db _ _ (p.map _) ?_
    intro x hx y hy hxy
    obtain ⟨v, hv, rfl⟩ := List.mem_map.1 hx
    obtain ⟨w, hw, rfl⟩ := List.mem_map.1 hy
    by_cases hvw : v = w
    · rw [hvw]
    · exact absurd ⟨v, hv, w, hw, hvw, hxy⟩ hc

/-- **`bufferIndex.rollback`** (deletes from the map it is iterating): the index after a rollback does not
depend on the iteration order. -/
theorem idxRollback_perm_invariant (idx : Fun (List Nat)) (snapshot : Nat) (order order' : List Nat)
    (p : order.Perm order') : idxRollback idx snapshot order = idxRollback idx snapshot order' := by
  unfold idxRollback
  refine List.Perm.foldl_eq' p ?_ idx
  intro x _ y _ m
  by_cases hxy : x = y
  · rw [hxy]
  · have hyx : y ≠ x := fun e => hxy e.symm
    -- each step reads and writes its own key only
    have step : ∀ (m : Fun (List Nat)) (k k' : Nat), k' ≠ k →
        ((match m k with
          | none => m
          | some st => m.upd k (if st.dropWhile (fun i => decide (snapshot ≤ i)) = [] then none
              else some (st.dropWhile (fun i => decide (snapshot ≤ i))))) k') = m k' := by
      intro m k k' hk
      cases m k with
      | none => rfl
      | some st => exact Fun.upd_other m hk _
    funext z
    simp only
    cases hx : m x <;> cases hy : m y <;> simp [Fun.upd, hx, hy, hxy, hyx] <;>
      (by_cases h1 : z = x <;> by_cases h2 : z = y <;> simp_all)

/-- **`StateDB.updateStorage`**: the accounts buffer, seen as `getState` sees it (latest entry per key — which
is all `export` reads, C12), is the same for any two iteration orders of `Cache.storages`; so is the
outcome "some storage failed to update" (then the buffer is rolled back to where it was). -/
theorem updateStorage_perm_invariant (view : Fun Acct) (order order' : List (Nat × Stor)) (p : order.Perm order')
    (hkeys : (order.map (·.1)).Nodup) : updateStorage view order = updateStorage view order' := by
  unfold updateStorage
  rw [p.any_eq]
  split
  · rfl
  · congr 1
    refine List.Perm.foldl_eq' p ?_ view
    intro x hx y hy b
    by_cases hxy : x.1 = y.1
    · rw [eq_of_key_eq (·.1) hkeys x hx y hy hxy]
    · have hyx : y.1 ≠ x.1 := fun e => hxy e.symm
      by_cases dx : x.2.dirty <;> by_cases dy : y.2.dirty <;> simp only [dx, dy, if_true, if_false]
      · rw [Fun.upd_other b hyx, Fun.upd_other b hxy]
        exact Fun.upd_comm b hxy _ _
      all_goals rfl

/-- Non-vacuity / *test*: two dirty storages and a clean one, account 4 not yet in the buffer. -/
example :
    let view : Fun Acct := fun k => if k = 1 then some ⟨3, 100, 0⟩ else none
    (updateStorage view [(1, ⟨true, true, 11⟩), (4, ⟨true, true, 44⟩), (6, ⟨true, false, 66⟩)]).map
        (fun b => (b 1, b 4, b 6)) = some (some ⟨3, 100, 11⟩, some ⟨0, 0, 44⟩, none) := by decide

/-- **`storageCache.Snapshot`**: the snapshot map is the same for any iteration order. -/
theorem cacheSnapshot_perm_invariant (rev : Nat → Nat) (order order' : List Nat) (p : order.Perm order') :
    cacheSnapshot rev order = cacheSnapshot rev order' := by
  unfold cacheSnapshot
  refine List.Perm.foldl_eq' p ?_ _
  intro x _ y _ m
  by_cases hxy : x = y
  · rw [hxy]
  · exact Fun.upd_comm m hxy _ _

/-- **`storageCache.Rollback`** (rolls back or deletes entries of the map it is iterating): the cache after
the rollback is the same for any iteration order. -/
theorem cacheRollback_perm_invariant {β : Type} (rb : β → Nat → β) (snap : Fun Nat) (cache : Fun β)
    (order order' : List Nat) (p : order.Perm order') :
    cacheRollback rb snap cache order = cacheRollback rb snap cache order' := by
  unfold cacheRollback
  refine List.Perm.foldl_eq' p ?_ cache
  intro x _ y _ c
  by_cases hxy : x = y
  · rw [hxy]
  · have hyx : y ≠ x := fun e => hxy e.symm
    funext z
    cases hx : c x <;> cases hy : c y <;> cases sx : snap x <;> cases sy : snap y <;>
      simp [Fun.upd, hx, hy, sx, sy, hxy, hyx] <;>
      (by_cases h1 : z = x <;> by_cases h2 : z = y <;> simp_all)

/-- **`SetGenesis`**: the balances after crediting every entry of `genesis.Balance` are the same for any
iteration order (several address strings may decode to one account: addition commutes). -/
theorem genesisBalances_perm_invariant (view : Nat → Nat) (order order' : List (Nat × Nat)) (p : order.Perm order') :
    genesisBalances view order = genesisBalances view order' := by
  unfold genesisBalances
  refine List.Perm.foldl_eq' p ?_ view
  intro x _ y _ b
  funext k
  show (if k = y.1 then (if k = x.1 then b k + x.2 else b k) + y.2 else (if k = x.1 then b k + x.2 else b k)) =
    (if k = x.1 then (if k = y.1 then b k + y.2 else b k) + x.2 else (if k = y.1 then b k + y.2 else b k))
  by_cases h1 : k = x.1 <;> by_cases h2 : k = y.1
  · simp only [if_pos h1, if_pos h2]; omega
  · simp only [if_pos h1, if_neg h2]
  · simp only [if_neg h1, if_pos h2]
  · simp only [if_neg h1, if_neg h2]

/-- **`swapTxMapping`**, first loop: the tx index after deleting the abandoned transactions is the same for any
iteration order of `oldTxs`. -/
theorem swapDeletes_perm_invariant {α : Type} (db : Fun α) (order order' : List Nat) (p : order.Perm order') :
    swapDeletes db order = swapDeletes db order' := by
  unfold swapDeletes
  refine List.Perm.foldl_eq' p ?_ db
  intro x _ y _ d
  by_cases hxy : x = y
  · rw [hxy]
  · exact Fun.upd_comm d hxy _ _

/-- `swapTxMapping`, second loop: one `MemPoolPut` per abandoned transaction, in map order. The *set* of
re-offered transactions does not depend on the order (the messages are a permutation); the order in which the
mempool receives them is not chain state (C13: the pool sorts per account by nonce). -/
theorem swapReoffer_perm {τ : Type} (order order' : List τ) (p : order.Perm order') (msg : τ → τ) :
    (order.map msg).Perm (order'.map msg) := p.map msg

/-! ### Producer and validator, on different nodes -/

section exec
variable {σ τ ρ ν κ : Type}

/-- **Every block the producer builds is accepted by the validator of any other node with the same state and
receipts.** `exec` is any transaction executor; besides state and transaction it reads an `Env`: the execution
mode, whether the execution context had already ended, and the node (configuration, mempool, clock). Hypotheses:

* `hrb` — what `NewTxExecutor` establishes with its snapshot/rollback pair (C12 `rollback_restores`, C03): an
  execution that does not succeed — an error *or a timeout raised inside the VM after the call has written* —
  leaves the block state as it was;
* `henv` — a *successful* execution is reproduced by a validator of any node: mode, context and node-local inputs
  may decide *whether* the producer's run succeeds (a deadline can only make it stop), never *what* a
  successful run yields. (This is the assumption about `executeTx` that harness c02 tests with two nodes whose
  node-local inputs differ; the `example`s below show that the statement is false without either hypothesis.)

`cands` carries, per candidate, what the block factory's own checks said (`Pre`: whichever branch of the
`select` on the block-generation context was taken, whatever the contract-timeout check answered) and whether the
context had ended when the candidate's execution started (`ctx.Err()` polled inside the execution). Then
re-executing exactly the collected transactions from the same prior state on node `n'` succeeds on every one of
them and ends in the producer's block state with the producer's receipts. -/
theorem producer_validator_agree (exec : Env ν → σ → τ → Out × σ × ρ)
    (hrb : ∀ e s t, (exec e s t).1 ≠ .ok → (exec e s t).2.1 = s)
    (henv : ∀ e n' s t, (exec e s t).1 = .ok → exec (Env.validator n') s t = exec e s t)
    (n n' : ν) (s : σ) (cands : List (Pre × Bool × τ)) :
    validate exec n' s (gather exec n s cands).1 =
      some ((gather exec n s cands).2.1, (gather exec n s cands).2.2) := by
  induction cands generalizing s with
  | nil => rfl
  | cons c rest ih =>
    obtain ⟨pre, d, t⟩ := c
    cases pre with
    | go =>
      simp only [gather]
      cases hok : (exec ⟨true, d, n⟩ s t).1 with
      | ok =>
        simp only [validate, henv _ n' s t hok, hok]
        rw [ih]; rfl
      | fail =>
        simp only
        rw [hrb _ s t (by rw [hok]; decide)]
        exact ih s
      | timeout =>
        simp only
        rw [hrb _ s t (by rw [hok]; decide)]
        rfl
    | tmo => rfl
    | vmtmo => rfl

/-- **Validation does not depend on the validating node**: two nodes re-executing one transaction list from one
prior state reach the same verdict, state and receipts (`henv` for validator environments). -/
theorem validate_node_independent (exec : Env ν → σ → τ → Out × σ × ρ)
    (henv : ∀ e n' s t, (exec e s t).1 = .ok → exec (Env.validator n') s t = exec e s t)
    (n₁ n₂ : ν) (s : σ) (txs : List τ) : validate exec n₁ s txs = validate exec n₂ s txs := by
  induction txs generalizing s with
  | nil => rfl
  | cons t ts ih =>
    simp only [validate]
    cases h1 : (exec (Env.validator n₁) s t).1 with
    | ok =>
      have e := henv _ n₂ s t h1
      simp only [e, h1, ih]
    | fail =>
      cases h2 : (exec (Env.validator n₂) s t).1 with
      | ok => have e := henv _ n₁ s t h2; rw [e, h2] at h1; cases h1
      | fail => rfl
      | timeout => rfl
    | timeout =>
      cases h2 : (exec (Env.validator n₂) s t).1 with
      | ok => have e := henv _ n₁ s t h2; rw [e, h2] at h1; cases h1
      | fail => rfl
      | timeout => rfl

/-- **Block level, with the reward**: the producer pays the block reward to *its own* configured coinbase
account and writes that account into the header; a validator — whatever its own configuration — pays the
account of the header. So the whole block (tx loop + reward) is accepted by any node with the producer's state
and receipts. -/
theorem block_producer_validator_agree (exec : Env ν → σ → τ → Out × σ × ρ) (reward : κ → σ → σ) (cb : ν → κ)
    (hrb : ∀ e s t, (exec e s t).1 ≠ .ok → (exec e s t).2.1 = s)
    (henv : ∀ e n' s t, (exec e s t).1 = .ok → exec (Env.validator n') s t = exec e s t)
    (n n' : ν) (s : σ) (cands : List (Pre × Bool × τ)) :
    validateBlock exec reward n' s (produceBlock exec reward cb n s cands).1 =
      some ((produceBlock exec reward cb n s cands).2.1, (produceBlock exec reward cb n s cands).2.2) := by
  simp only [validateBlock, produceBlock, producer_validator_agree exec hrb henv n n' s cands, Option.map_some]

/-- Without "an unsuccessful execution leaves the state unchanged" the statement is false — in particular for a
*timeout inside the VM after partial writes*: a *test* executor that keeps what a timed-out call wrote (here +100)
makes the producer's block state differ from what any validator computes for the block. -/
example :
    let exec : Env Unit → Nat → Nat → Out × Nat × Nat := fun _ s t =>
      if t = 0 then (.timeout, s + 100, 0) else (.ok, s + t, t)
    validate exec () 0 (gather exec () 0 [(.go, false, 5), (.go, false, 0)]).1 ≠
      some ((gather exec () 0 [(.go, false, 5), (.go, false, 0)]).2.1,
        (gather exec () 0 [(.go, false, 5), (.go, false, 0)]).2.2) := by decide

/-- Without `henv` the statement is false: a *test* executor that credits the fee to the coinbase account
configured on the *executing node* (instead of leaving the reward to the block level, which uses the header)
succeeds everywhere but yields another state on a node configured differently. -/
example :
    let exec : Env Nat → Nat → Nat → Out × Nat × Nat := fun e s t => (.ok, s + t + e.node, t)
    validate exec 7 0 (gather exec 3 0 [(.go, false, 5)]).1 ≠
      some ((gather exec 3 0 [(.go, false, 5)]).2.1, (gather exec 3 0 [(.go, false, 5)]).2.2) := by decide

/-- ... and the same one level up: a *test* validator that pays the reward to its own configured account
(`chain.CoinbaseAccount`) instead of the header's ends in another state as soon as the two nodes are configured
differently (state = balances of accounts 0 and 1; producer configured with account 0, validator with 1). -/
example :
    let exec : Env Nat → Nat × Nat → Nat → Out × (Nat × Nat) × Nat := fun _ s t => (.ok, s, t)
    let reward : Nat → Nat × Nat → Nat × Nat := fun k s => if k = 0 then (s.1 + 10, s.2) else (s.1, s.2 + 10)
    let wrongValidateBlock := fun (n' : Nat) (s : Nat × Nat) (b : Blk Nat Nat) =>
      (validate exec n' s b.txs).map (fun v => (reward n' v.1, v.2))
    wrongValidateBlock 1 (0, 0) (produceBlock exec reward id 0 (0, 0) [(.go, false, 5)]).1 ≠
        some ((produceBlock exec reward id 0 (0, 0) [(.go, false, 5)]).2.1,
          (produceBlock exec reward id 0 (0, 0) [(.go, false, 5)]).2.2) ∧
      validateBlock exec reward 1 (0, 0) (produceBlock exec reward id 0 (0, 0) [(.go, false, 5)]).1 =
        some ((produceBlock exec reward id 0 (0, 0) [(.go, false, 5)]).2.1,
          (produceBlock exec reward id 0 (0, 0) [(.go, false, 5)]).2.2) := by decide

/-- Non-vacuity / *test*: a failing candidate is skipped, a timeout inside the VM and a timeout found by the block
factory's checks end the collection; an executor whose success does not read the environment but which times
out in producer mode once the context has ended satisfies both hypotheses. -/
example :
    let exec : Env Unit → Nat → Nat → Out × Nat × Nat := fun e s t =>
      if e.producer && e.ctxDone then (.timeout, s, 0) else if t % 2 = 0 then (.fail, s, 0) else (.ok, s + t, 10 * t)
    gather exec () 0 [(.go, false, 1), (.go, false, 2), (.go, false, 3), (.go, true, 9), (.go, false, 7)] = ([1, 3], 4, [10, 30]) ∧
      gather exec () 0 [(.go, false, 1), (.tmo, false, 5), (.go, false, 7)] = ([1], 1, [10]) ∧
      validate exec () 0 [1, 3] = some (4, [10, 30]) ∧
      (∀ e s t, (exec e s t).1 ≠ .ok → (exec e s t).2.1 = s) := by
  refine ⟨by decide, by decide, by decide, ?_⟩
  intro e s t
  simp only
  split
  · intro _; rfl
  · split
    · intro _; rfl
    · intro h; exact absurd rfl h

/-- The producer only ever drops candidates: the block's list is a sublist of the candidates, in order. -/
theorem gather_sublist (exec : Env ν → σ → τ → Out × σ × ρ) (n : ν) (s : σ) (cands : List (Pre × Bool × τ)) :
    (gather exec n s cands).1.Sublist (cands.map (·.2.2)) := by
  induction cands generalizing s with
  | nil => exact List.Sublist.slnil
  | cons c rest ih =>
    obtain ⟨pre, d, t⟩ := c
    cases pre with
    | go =>
      simp only [gather, List.map_cons]
      cases (exec ⟨true, d, n⟩ s t).1 with
      | ok => simp only; exact (ih _).cons_cons t
      | fail => simp only; exact (ih _).cons t
      | timeout => exact List.nil_sublist _
    | tmo => exact List.nil_sublist _
    | vmtmo => exact List.nil_sublist _

end exec

/-! ### Loops that return early, histories of loops -/

/-- **A loop that returns the error of the first failing entry** (`stateBuffer.stage`, `StateDB.Commit`,
`storageCache.Rollback`, the row-writing loop of `vpr.apply`, `SetGenesis`) refines the order-free specification
"fails iff some entry fails, otherwise the fold over all entries". -/
theorem tryFold_spec {α β : Type} (bad : α → Bool) (f : β → α → β) (b : β) (order : List α) :
    tryFold bad f b order = if order.any bad then none else some (order.foldl f b) := by
  induction order generalizing b with
  | nil => rfl
  | cons a as ih =>
    simp only [tryFold, List.any_cons, List.foldl_cons]
    by_cases h : bad a = true
    · simp [h]
    · have h' : bad a = false := by simpa using h
      simp only [h', Bool.false_eq_true, if_false, Bool.false_or]
      exact ih (f b a)

/-- ... hence neither the verdict nor (on success) the result depends on the iteration order, whenever the
loop without the early return does not (`hperm`: the corresponding `*_perm_invariant` theorem of this file). On
failure the caller discards the batch (`bulk.DiscardLast`, the block is rejected), so the order-dependent prefix
that was visited is never used. -/
theorem tryFold_perm_invariant {α β : Type} (bad : α → Bool) (f : β → α → β) (b : β) (order order' : List α)
    (p : order.Perm order') (hperm : order.foldl f b = order'.foldl f b) :
    tryFold bad f b order = tryFold bad f b order' := by
  rw [tryFold_spec, tryFold_spec, p.any_eq, hperm]

/-- Non-vacuity / *test*: three entries, the second one fails: `none` in both orders; without it the sum. -/
example : tryFold (fun a => a == 2) (fun (b a : Nat) => b + a) 0 [1, 2, 3] = none ∧
    tryFold (fun a => a == 2) (fun (b a : Nat) => b + a) 0 [3, 2, 1] = none ∧
    tryFold (fun a => a == 9) (fun (b a : Nat) => b + a) 0 [3, 2, 1] = some 6 := by decide

/-- **From one loop to whole histories.** Block execution walks many maps, many times, each time in an order of
the runtime's choosing. If every loop body is order-independent *on the states it is run on* (`inv`: the
representation invariant the loops preserve — e.g. `Vpr.Inv`, distinct keys — and `good`: the side condition on
the visited entries, closed under permutation), then two histories that run the same loops on permuted orders end
in the same state. This lifts the per-site theorems (`vprApply_perm_invariant`, `dbSets_perm_invariant`, …,
each an instance of `hstep`) from one iteration to all executions, by induction over the history. -/
theorem runVisits_perm_invariant {σ κ : Type} (inv : σ → Prop) (good : σ → List κ → Prop)
    (vs vs' : List (Visit σ κ))
    (hrel : SameUpToOrder vs vs')
    (hstep : ∀ v ∈ vs, ∀ s o', inv s → good s v.order → v.order.Perm o' → v.run s v.order = v.run s o')
    (hinv : ∀ v ∈ vs, ∀ s, inv s → good s v.order → inv (v.run s v.order))
    (hgood : ∀ v ∈ vs, ∀ s, inv s → good s v.order)
    (s : σ) (hs : inv s) : runVisits s vs = runVisits s vs' := by
  induction hrel generalizing s with
  | nil => rfl
  | @cons v v' rest rest' hr hp _ ih =>
    have hg := hgood v List.mem_cons_self s hs
    have h1 : v.run s v.order = v'.run s v'.order := by
      rw [← hr]; exact hstep v List.mem_cons_self s v'.order hs hg hp
    simp only [runVisits, List.foldl_cons]
    rw [← h1]
    exact ih (fun w hw => hstep w (List.mem_cons_of_mem _ hw))
      (fun w hw => hinv w (List.mem_cons_of_mem _ hw))
      (fun w hw => hgood w (List.mem_cons_of_mem _ hw))
      _ (hinv v List.mem_cons_self s hs hg)

/-- Non-vacuity / *test*: a history of two `vpr.apply` loops on permuted orders (instance of `hstep` =
`vprApply_perm_invariant`, `inv` = `Vpr.Inv`, `good` = distinct keys). -/
example :
    let v1 : Visit Vpr (Nat × Int) := ⟨Vpr.apply, [(5, 10), (3, 7)]⟩
    let v1' : Visit Vpr (Nat × Int) := ⟨Vpr.apply, [(3, 7), (5, 10)]⟩
    let v2 : Visit Vpr (Nat × Int) := ⟨Vpr.apply, [(5, -10), (9, 2), (3, 1)]⟩
    let v2' : Visit Vpr (Nat × Int) := ⟨Vpr.apply, [(9, 2), (3, 1), (5, -10)]⟩
    runVisits Vpr.empty [v1, v2] = runVisits Vpr.empty [v1', v2'] := by decide

/-- The instance for the voting-power rank, for all histories: any number of `vpr.apply` rounds, each visited in
an arbitrary order of its (distinct-key) change set, ends in the same rank. -/
theorem vprHistory_perm_invariant (rounds rounds' : List (List (Nat × Int)))
    (hperm : PermEach rounds rounds')
    (hkeys : ∀ o ∈ rounds, (o.map (·.1)).Nodup) :
    runVisits Vpr.empty (rounds.map (fun o => ⟨Vpr.apply, o⟩)) =
      runVisits Vpr.empty (rounds'.map (fun o => ⟨Vpr.apply, o⟩)) := by
  refine runVisits_perm_invariant Vpr.Inv (fun _ o => (o.map (·.1)).Nodup) _ _ ?_ ?_ ?_ ?_ _ Vpr.inv_empty
  · induction hperm with
    | nil => exact SameUpToOrder.nil
    | cons h _ ih =>
      exact SameUpToOrder.cons rfl h (ih (fun o ho => hkeys o (List.mem_cons_of_mem _ ho)))
  · intro v hv s o' hs hg hp
    obtain ⟨o, _, rfl⟩ := List.mem_map.1 hv
    exact vprApply_perm_invariant s hs o o' hp hg
  · intro v hv s hs _
    obtain ⟨o, _, rfl⟩ := List.mem_map.1 hv
    exact vprApply_preserves_inv s hs o
  · intro v hv s _
    obtain ⟨o, ho, rfl⟩ := List.mem_map.1 hv
    exact hkeys o ho

/-! ### The table's citations -/

/-- The theorems `Aergo.Nondet.table` may cite; the double-backquote literals are resolved by the elaborator,
so each of them is a declaration. -/
def theoremIndex : List (String × Lean.Name) := [
  ("Aergo.Props.C02.buildVoteList_order_invariant", ``buildVoteList_order_invariant),
  ("Aergo.Props.C02.voteList_order_unique", ``voteList_order_unique),
  ("Aergo.Props.C02.vprApply_perm_invariant", ``vprApply_perm_invariant),
  ("Aergo.Props.C02.vprRowWrites_perm_invariant", ``vprRowWrites_perm_invariant),
  ("Aergo.Props.C02.export_perm_invariant", ``export_perm_invariant),
  ("Aergo.Props.C02.dbSets_perm_invariant", ``dbSets_perm_invariant),
  ("Aergo.Props.C02.idxRollback_perm_invariant", ``idxRollback_perm_invariant),
  ("Aergo.Props.C02.updateStorage_perm_invariant", ``updateStorage_perm_invariant),
  ("Aergo.Props.C02.cacheSnapshot_perm_invariant", ``cacheSnapshot_perm_invariant),
  ("Aergo.Props.C02.cacheRollback_perm_invariant", ``cacheRollback_perm_invariant),
  ("Aergo.Props.C02.genesisBalances_perm_invariant", ``genesisBalances_perm_invariant),
  ("Aergo.Props.C02.swapDeletes_perm_invariant", ``swapDeletes_perm_invariant),
  ("Aergo.Props.C02.swapReoffer_perm", ``swapReoffer_perm),
  ("Aergo.Props.C02.producer_validator_agree", ``producer_validator_agree)]

set_option maxRecDepth 100000 in
/-- the names of `theoremIndex` are the list `theoremNames` the certificate was computed against -/
private theorem index_names : theoremIndex.map (·.1) = theoremNames := by rfl

set_option maxRecDepth 100000 in
private theorem cited_at : Aergo.Nondet.pick theoremNames citedIdx = some Aergo.Nondet.citedTheorems := by rfl

/-- Every theorem name the site table cites is one of `theoremIndex` (a renamed or deleted theorem must not
leave a site "covered"); that each index entry is a declaration is checked by the elaborator (``name). -/
theorem cited_theorems_exist : ∀ n ∈ Aergo.Nondet.citedTheorems, ∃ d, (n, d) ∈ theoremIndex := by
  intro n hn
  have := pick_mem _ _ _ cited_at n hn
  rw [← index_names] at this
  obtain ⟨e, he, rfl⟩ := List.mem_map.1 this
  exact ⟨e.2, he⟩

end Aergo.Props.C02
