/-
C03 — Transaction atomicity: a tx applies fully, as fee+nonce only, or not at all.

"Each transaction in a block has exactly one of three outcomes: it succeeds and all of its effects are
applied; it fails at run time and the only effects are the fee charged to the payer and the sender's
nonce advance, with an ERROR receipt; or it is rejected and the state is exactly as if it had never
been submitted. A block that fails validation at any point leaves the node's state, indexes and best
block exactly as they were."

The theorems are about `Aergo.Model.Ledger` (the same transcription of executeTx / resetAccount /
NewTxExecutor / blockExecutor.execute / contract.Execute as C01, tied to the source by the
correspondence run of harness/c03 against `model-c03`; the rollback the executor performs on a rejected
tx is `Aergo.Model.Buffer`'s, C12). `World` holds every account record, every contract's storage, the
creator records, staking records and total, vote flags and both views of the name table, so an equality
of worlds is a full-state statement. No bound on accounts, storage, transactions or blocks.

Clause by clause:
* exactly one of three outcomes; receipts .................. `executeTx_trichotomy`
* failed at run time = fee + nonce only, world equality ..... `failed_only_fee_and_nonce_partial`
* rejected = nothing (block state, BpReward, receipts) ...... `rejected_leaves_no_trace`, `rollback_exact` (C12)
* succeeded = all effects: the copy-free reference for a
  plain transfer (every tx type: oracle of harness/c03) ...... `transfer_applies_exactly`
* a block that fails at any position commits nothing ........ `refused_block_noop`, `refused_iff_some_tx_rejected`
* the block a producer builds is accepted, same state ....... `producer_validator_agree`

Violated on the pinned tree (negation witness, class `C03-vm-fee-check-after-commit`): a tx with an
ERROR receipt that nevertheless leaves a third account credited — `failed_tx_leaves_residue`; the
`_partial` theorem excludes exactly the results flagged `leak`. The two name-contract defects this
check found as well (`setOwner-owner-is-sender`, `name-owner-is-aergo.name`: SUCCESS receipts whose
effects were not all applied) are repaired in /repo; regression tests in `Props/C01.lean`.

Not carried by a theorem (see notes/C03.md): the node-level half of the last clause (chain DB indexes,
best block, bad-block cache: the chain-service harness of C05/C07) — here the block level is the block
executor on a BlockState and the state DB root; "all effects applied" for tx types other than the plain
transfer is checked by the harness' reference (`expectSuccess`) against the real code, not proved.
-/
import Aergo.Lemmas.LedgerAtomic
import Aergo.Lemmas.LedgerFee
import Aergo.Props.C12

namespace Aergo.Props.C03
open Aergo.Ledger

/-! ### tie T: the fees the outcomes below speak of are the source's -/

/-- **The base fee and the gas limit of the model are the functions generated from /repo/fee/*.go**
(`goext bigfn`, regenerated on every run): the fee an ERROR receipt charges at least
(`failed_only_fee_and_nonce_partial`), the fee of a transfer (`transfer_applies_exactly`) and the
"not enough gas" run-time failure are statements about the source's formulas. The complete list of tied
functions is `Props.C01.fee_formulas_are_the_source`. -/
theorem base_fee_is_the_source (c : Ctx) (n gl usedFee sBal rBal : Nat) (isFD : Bool)
    (hn : n < 2 ^ 63) (hgl : gl < 2 ^ 64) (hg : 0 < c.gasPrice) :
    Aergo.Gen.Fee.TxBaseFee c.zeroFee c.version c.gasPrice n = txBaseFee c n ∧
    ((Aergo.Gen.Fee.GasLimit c.zeroFee c.version isFD gl n c.gasPrice usedFee sBal rBal).2 = true ↔
      gasLimit c isFD gl n usedFee sBal rBal = none) := by
  refine ⟨gen_TxBaseFee c n hn, ?_⟩
  rw [gen_GasLimit c isFD gl n usedFee sBal rBal hn hgl hg]
  cases gasLimit c isFD gl n usedFee sBal rBal <;> simp

/-! ### three outcomes -/

/-- **Trichotomy.** `executeTx` ends in exactly one of three ways, for every transaction type, state,
fork version and fee regime:
* *applied*: one receipt with status SUCCESS/CREATED/RECREATED, `BpReward` + its fee;
* *failed at run time*: one receipt with status ERROR, `BpReward` + its fee;
* *rejected*: no receipt, world and `BpReward` exactly as before.
(What the world is in the first two cases: `transfer_applies_exactly`, `failed_only_fee_and_nonce_partial`.) -/
theorem executeTx_trichotomy (c : Ctx) (w : World) (bp : Nat) (tx : Tx) :
    let r := executeTx c w bp tx
    (r.outcome = .success ∧ ∃ rc, r.receipt = some rc ∧ rc.status ≠ .error ∧ r.bp = bp + rc.fee) ∨
    (r.outcome = .failed ∧ ∃ rc, r.receipt = some rc ∧ rc.status = .error ∧ r.bp = bp + rc.fee) ∨
    (∃ e, r.outcome = .rejected e ∧ r.w = w ∧ r.bp = bp ∧ r.receipt = none) := by
  intro r
  rcases executeTx_shape c w bp tx with ⟨e, h1, h2, h3, h4, _⟩ | ⟨rc, h1, h2, h3 | h3⟩
  · exact Or.inr (Or.inr ⟨e, h1, h2, h3, h4⟩)
  · exact Or.inl ⟨h3.1, rc, h1, h3.2, h2⟩
  · exact Or.inr (Or.inl ⟨h3.1, rc, h1, h3.2, h2⟩)

/-- the three outcomes exclude each other -/
theorem outcomes_exclusive (o : Outcome) :
    ¬ (o = .success ∧ o = .failed) ∧ (∀ e, ¬ (o = .success ∧ o = .rejected e)) ∧ (∀ e, ¬ (o = .failed ∧ o = .rejected e)) := by
  refine ⟨?_, ?_, ?_⟩
  · rintro ⟨rfl, h⟩; cases h
  · rintro e ⟨rfl, h⟩; cases h
  · rintro e ⟨rfl, h⟩; cases h

/-! ### failed at run time: fee and nonce only

Full statement (false on the pinned tree, see `failed_tx_leaves_residue`): the same without `hl`. -/

/-- **A transaction that fails at run time changes exactly fee and nonce.** The *whole world* after it —
all accounts, every contract's storage, creator records, staking, votes, names — equals the world
before with the fee taken from the payer (the sender; the called contract for a fee-delegation tx to
another account) and the sender's nonce set to the tx nonce; the payer could afford the fee; the receipt
says ERROR. For every tx type, VM script, fork version; no assumption on the sender. Excluded: results
flagged `leak` (the VM had committed a transfer / shared-storage write before `Execute`'s
balance-for-fee check failed). -/
theorem failed_only_fee_and_nonce_partial (c : Ctx) (w : World) (bp : Nat) (tx : Tx)
    (hf : (executeTx c w bp tx).outcome = .failed) (hl : (executeTx c w bp tx).leak = false) :
    ∃ rc, (executeTx c w bp tx).receipt = some rc ∧ rc.status = .error ∧
      (executeTx c w bp tx).bp = bp + rc.fee ∧
      (executeTx c w bp tx).w = chargeFeeNonce w (tx.type = .feeDelegation) tx.sender rc.contract rc.fee tx.nonce ∧
      rc.fee ≤ (if (tx.type = .feeDelegation) ∧ tx.sender ≠ rc.contract then w.bal rc.contract else w.bal tx.sender) :=
  executeTx_failed_exact rfl hf hl

/-! contexts and worlds for the tests and the witness -/

def ctxPub : Ctx :=
  { version := 3, gasPrice := 1, zeroFee := false, isPublic := true, coinbase := some 8, blockNo := 9, namePrice := 3, stakingMin := 10 }
/-- aergo.system, aergo.name 500, users 10 and 11, a contract 100 (created by 10) holding 700000 with one storage entry -/
def w0 : World :=
  { accts := [(0, {}), (1, { bal := 500 }), (10, { bal := 1000000 }), (11, { bal := 1000000 }), (100, { bal := 700000, code := true })]
    creator := [(100, 10)], stor := [(100, [(1, 7)])] }

/-- a call whose script writes storage, sends 5 to account 11 and then fails inside the VM -/
def txVmFail : Tx :=
  { type := .call, sender := 10, recipient := some 100, amount := 9, nonce := 1, payloadLen := 40
    script := { fee := 300, err := .vm, xfers := [(11, 5)], sets := [(1, 8)] } }

/-- test (non-vacuity): the call fails at run time, is not flagged, and leaves exactly fee + nonce:
sender 1000000 − (100000 + 300), nonce 1; contract, account 11 and the storage untouched -/
example : (executeTx ctxPub w0 0 txVmFail).outcome = .failed ∧ (executeTx ctxPub w0 0 txVmFail).leak = false ∧
    (executeTx ctxPub w0 0 txVmFail).w = { w0 with accts := [(0, {}), (1, { bal := 500 }), (10, { bal := 899700, nonce := 1 }),
      (11, { bal := 1000000 }), (100, { bal := 700000, code := true })] } := by
  refine ⟨by decide, by decide, by decide⟩

/-- a fee-delegation call: the contract (100) pays the fee and its script sends all it holds to 11 -/
def txFdDrain : Tx :=
  { type := .feeDelegation, sender := 10, recipient := some 100, amount := 0, nonce := 1, payloadLen := 50
    script := { fee := 1000, xfers := [(11, 700000)] } }

/-- **Defect witness** (class `C03-vm-fee-check-after-commit`): the receipt says ERROR, yet account 11
keeps the 700000 the contract sent it (and the contract keeps them too: `resetAccount` restores its
record): more than fee and nonce changed. -/
theorem failed_tx_leaves_residue :
    (executeTx ctxPub w0 0 txFdDrain).outcome = .failed ∧
    (executeTx ctxPub w0 0 txFdDrain).w ≠ chargeFeeNonce w0 true 10 100 101000 1 ∧
    (executeTx ctxPub w0 0 txFdDrain).w.bal 11 = 1700000 ∧
    (executeTx ctxPub w0 0 txFdDrain).leak = true := by
  refine ⟨by decide, by decide, by decide, by decide⟩

/-! ### rejected: nothing -/

/-- **A rejected transaction leaves no trace in the block state**: world (accounts, storage, governance
records), `BpReward` and the receipts list are the values of before — what `NewTxExecutor`'s
`Snapshot` / `Rollback` pair yields (`rollback_exact`). -/
theorem rejected_leaves_no_trace (c : Ctx) (s : BState) (tx : Tx) (e : Rej)
    (h : (txExec c s tx).1 = .rejected e) : (txExec c s tx).2 = s :=
  txExec_rejected h

/-- test: a nonce gap is rejected -/
example : (txExec ctxPub { w := w0 } { type := .transfer, sender := 10, recipient := some 11, amount := 1, nonce := 3 }).1 = .rejected .nonceHigh := by
  decide

/-- **Rollback exactness** (C12's `block_rollback`, restated): after a block snapshot, *any* history of
account puts, writes through contract handles, staging of further contracts and nested rollbacks,
followed by `BlockState.Rollback` to the snapshot, returns the state-DB value of snapshot time itself —
which is why the model may return the input world for a rejected transaction. -/
theorem rollback_exact (s0 s' : Aergo.Buffer.SDB) (h0 : s0.Inv) (ops : List Aergo.Buffer.SDB.Op)
    (hr : Aergo.Buffer.SDB.run s0.blockSnapshot s0 ops = some s') :
    s'.blockRollback s0.blockSnapshot = some s0 :=
  Aergo.Props.C12.block_rollback s0 s' h0 ops hr

/-! ### succeeded: all effects -/

/-- **A plain transfer, if applied, is applied exactly**: between two different accounts, receiver
without code: sender − amount − base fee and the tx nonce, receiver + amount, `BpReward` + base fee, as
a world equality (nothing else changes). The two `AccountState` copies and the order of `PutState`s
leave no other trace — the defects of C01 are exactly the cases where such an equality fails. -/
theorem transfer_applies_exactly (c : Ctx) (w : World) (bp : Nat) (tx : Tx) (r : Addr)
    (ht : tx.type = .transfer) (hr : tx.recipient = some r) (hne : tx.sender ≠ r)
    (hcode : (w.acct r).code = false) (hs : (executeTx c w bp tx).outcome = .success) :
    tx.amount + txBaseFee c tx.payloadLen ≤ w.bal tx.sender ∧
    (executeTx c w bp tx).w =
      (w.put tx.sender (({ w.acct tx.sender with bal := w.bal tx.sender - tx.amount - txBaseFee c tx.payloadLen } : Acct).setNonce tx.nonce)).put
        r { w.acct r with bal := w.bal r + tx.amount } ∧
    (executeTx c w bp tx).bp = bp + txBaseFee c tx.payloadLen :=
  transfer_effects rfl ht hr hne hcode hs

/-- test (non-vacuity): such a transfer is applied -/
example : (executeTx ctxPub w0 0 { type := .transfer, sender := 10, recipient := some 11, amount := 40, nonce := 1 }).outcome = .success := by
  decide

/-! ### blocks -/

/-- **A refused block changes nothing**: the committed state after a block the executor refuses is the
committed state of before. -/
theorem refused_block_noop (w : World) (b : Block) (h : validateBlock w b = none) : applyBlock w b = w := by
  simp [applyBlock, h]

/-- **A block is refused iff some transaction is rejected at its position** — the first, the last or any
one in between, after arbitrary applied and failed transactions before it. -/
theorem refused_iff_some_tx_rejected (w : World) (b : Block) :
    validateBlock w b = none ↔
      ∃ pre tx post s' e, b.txs = pre ++ tx :: post ∧
        validateTxs b.ctx { w := w.beginBlock } pre = some s' ∧ (txExec b.ctx s' tx).1 = .rejected e := by
  unfold validateBlock
  rw [← validateTxs_none_iff]
  cases validateTxs b.ctx { w := w.beginBlock } b.txs <;> simp

/-- **Producer and validator agree**: the transactions a producer keeps (dropping the rejected ones),
run by the validating executor from the same block state, are all accepted and end in the very same
block state (world, `BpReward`, receipts). -/
theorem producer_validator_agree (c : Ctx) (s : BState) (txs : List Tx) :
    validateTxs c s (keptTxs c s txs) = some (produceTxs c s txs) :=
  validate_kept c txs s

def txGap : Tx := { type := .transfer, sender := 10, recipient := some 11, amount := 1, nonce := 3 }
def txOk : Tx := { type := .transfer, sender := 10, recipient := some 11, amount := 40, nonce := 1 }

/-- test: a block with a rejected tx in the middle is refused, state unchanged; the producer keeps two of three -/
example : validateBlock w0 { ctx := ctxPub, txs := [txOk, txGap, txVmFail] } = none ∧
    applyBlock w0 { ctx := ctxPub, txs := [txOk, txGap, txVmFail] } = w0 ∧
    (keptTxs ctxPub { w := w0 } [txOk, txGap, { txVmFail with nonce := 2 }]).length = 2 := by
  refine ⟨by decide, by decide, by decide⟩

end Aergo.Props.C03
