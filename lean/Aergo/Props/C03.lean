/-
C03 — Transaction atomicity: a tx applies fully, as fee+nonce only, or not at all.

"Each transaction in a block has exactly one of three outcomes: it succeeds and all of its effects are
applied; it fails at run time and the only effects are the fee charged to the payer and the sender's
nonce advance, with an ERROR receipt; or it is rejected and the state is exactly as if it had never
been submitted. A block that fails validation at any point leaves the node's state, indexes and best
block exactly as they were."

The theorems are about `Aergo.Model.Ledger` (the same transcription of executeTx / resetAccount /
NewTxExecutor / blockExecutor.execute / contract.Execute as C01, tied to the source by the
correspondence run of harness/c03 against `model-c03`; the rollback the executor performs on a rejected
tx is `Aergo.Model.Buffer`'s, C12). `World` holds every account record, every contract's storage, the
creator records, staking records and total, vote flags and both views of the name table, so an equality
of worlds is a full-state statement. No bound on accounts, storage, transactions or blocks.

Clause by clause:
* exactly one of three outcomes; receipts .................. `executeTx_trichotomy`
* failed at run time = fee + nonce only, world equality ..... `failed_only_fee_and_nonce_partial`
* rejected = nothing (block state, BpReward, receipts) ...... `rejected_leaves_no_trace`, `rollback_exact` (C12)
* succeeded = all effects, as an equality of the world with a copy-free specification of the intended
  effects, per transaction type:
    plain payments (NORMAL/TRANSFER/CALL, no code) .......... `transfer_applies_exactly`, `payment_applies_exactly`,
                                                              `self_payment_applies_exactly`
    stake / unstake / voteBP ................................ `stake_applies_exactly`, `unstake_applies_exactly`,
                                                              `vote_applies_exactly`
    name create / update / setOwner ......................... `name_create_applies_exactly`, `name_update_applies_exactly`,
                                                              `set_owner_applies_exactly`
    contract call, DEPLOY, REDEPLOY, FEEDELEGATION with a
    scripted VM (transfers, storage writes, VM fee) ......... `vm_transaction_applies_exactly`
    a contract account's tx to itself (`receiver = sender`) .. `contract_self_call_applies_exactly`
    MULTICALL (scripted; `receiver = sender`) ............... `multicall_applies_exactly`,
                                                              `multicall_without_script_not_applied`
* a block that fails at any position commits nothing ........ `refused_block_noop`, `refused_iff_some_tx_rejected`
* the block a producer builds is accepted, same state ....... `producer_validator_agree`
* the fees these statements speak of are the source's ....... `base_fee_is_the_source` (tie T, `Gen/Fee.lean`)

Violated on the pinned tree (negation witness, class `C03-vm-fee-check-after-commit`): a tx with an
ERROR receipt that nevertheless leaves a third account credited — `failed_tx_leaves_residue`; the
`_partial` theorem excludes exactly the results flagged `leak`. The two name-contract defects this
check found as well (`setOwner-owner-is-sender`, `name-owner-is-aergo.name`: SUCCESS receipts whose
effects were not all applied) are repaired in /repo; regression tests in `Props/C01.lean`.

Not carried by a theorem (see notes/C03.md): the node-level half of the last clause (chain DB indexes,
best block, bad-block cache: the chain-service harness of C05/C07) — here the block level is the block
executor on a BlockState and the state DB root. The success theorems do not cover a system account as the
sender of a governance tx to itself and a REDEPLOY or DEPLOY whose target is the sender's own account (no
signed tx has these shapes); `v1unstake` carries the invariant "staking total ≥ the amount" as a hypothesis.
Effects outside the model's world (which code blob, vote tallies, recovery points) are observed by the
harness only (`checkHidden`, `checkTally` in harness/ledger).
-/
import Aergo.Lemmas.LedgerAtomic
import Aergo.Lemmas.LedgerEffects
import Aergo.Lemmas.LedgerFee
import Aergo.Props.C12

namespace Aergo.Props.C03
open Aergo.Ledger

/-! ### tie T: the fees the outcomes below speak of are the source's -/

/-- **The base fee and the gas limit of the model are the functions generated from /repo/fee/*.go**
(`goext bigfn`, regenerated on every run): the fee an ERROR receipt charges at least
(`failed_only_fee_and_nonce_partial`), the fee of a transfer (`transfer_applies_exactly`) and the
"not enough gas" run-time failure are statements about the source's formulas. The complete list of tied
functions is `Props.C01.fee_formulas_are_the_source`. -/
theorem base_fee_is_the_source (c : Ctx) (n gl usedFee sBal rBal : Nat) (isFD : Bool)
    (hn : n < 2 ^ 63) (hgl : gl < 2 ^ 64) (hg : 0 < c.gasPrice) :
    Aergo.Gen.Fee.TxBaseFee c.zeroFee c.version c.gasPrice n = txBaseFee c n ∧
    ((Aergo.Gen.Fee.GasLimit c.zeroFee c.version isFD gl n c.gasPrice usedFee sBal rBal).2 = true ↔
      gasLimit c isFD gl n usedFee sBal rBal = none) := by
  refine ⟨gen_TxBaseFee c n hn, ?_⟩
  rw [gen_GasLimit c isFD gl n usedFee sBal rBal hn hgl hg]
  cases gasLimit c isFD gl n usedFee sBal rBal <;> simp

/-! ### three outcomes -/

/-- **Trichotomy.** `executeTx` ends in exactly one of three ways, for every transaction type, state,
fork version and fee regime:
* *applied*: one receipt with status SUCCESS/CREATED/RECREATED, `BpReward` + its fee;
* *failed at run time*: one receipt with status ERROR, `BpReward` + its fee;
* *rejected*: no receipt, world and `BpReward` exactly as before.
(What the world is in the first two cases: `transfer_applies_exactly`, `failed_only_fee_and_nonce_partial`.) -/
theorem executeTx_trichotomy (c : Ctx) (w : World) (bp : Nat) (tx : Tx) :
    let r := executeTx c w bp tx
    (r.outcome = .success ∧ ∃ rc, r.receipt = some rc ∧ rc.status ≠ .error ∧ r.bp = bp + rc.fee) ∨
    (r.outcome = .failed ∧ ∃ rc, r.receipt = some rc ∧ rc.status = .error ∧ r.bp = bp + rc.fee) ∨
    (∃ e, r.outcome = .rejected e ∧ r.w = w ∧ r.bp = bp ∧ r.receipt = none) := by
  intro r
  rcases executeTx_shape c w bp tx with ⟨e, h1, h2, h3, h4, _⟩ | ⟨rc, h1, h2, h3 | h3⟩
  · exact Or.inr (Or.inr ⟨e, h1, h2, h3, h4⟩)
  · exact Or.inl ⟨h3.1, rc, h1, h3.2, h2⟩
  · exact Or.inr (Or.inl ⟨h3.1, rc, h1, h3.2, h2⟩)

/-- the three outcomes exclude each other -/
theorem outcomes_exclusive (o : Outcome) :
    ¬ (o = .success ∧ o = .failed) ∧ (∀ e, ¬ (o = .success ∧ o = .rejected e)) ∧ (∀ e, ¬ (o = .failed ∧ o = .rejected e)) := by
  refine ⟨?_, ?_, ?_⟩
  · rintro ⟨rfl, h⟩; cases h
  · rintro e ⟨rfl, h⟩; cases h
  · rintro e ⟨rfl, h⟩; cases h

/-! ### failed at run time: fee and nonce only

Full statement (false on the pinned tree, see `failed_tx_leaves_residue`): the same without `hl`. -/

/-- **A transaction that fails at run time changes exactly fee and nonce.** The *whole world* after it —
all accounts, every contract's storage, creator records, staking, votes, names — equals the world
before with the fee taken from the payer (the sender; the called contract for a fee-delegation tx to
another account) and the sender's nonce set to the tx nonce; the payer could afford the fee; the receipt
says ERROR. For every tx type, VM script, fork version; no assumption on the sender. Excluded: results
flagged `leak` (the VM had committed a transfer / shared-storage write before `Execute`'s
balance-for-fee check failed). -/
theorem failed_only_fee_and_nonce_partial (c : Ctx) (w : World) (bp : Nat) (tx : Tx)
    (hf : (executeTx c w bp tx).outcome = .failed) (hl : (executeTx c w bp tx).leak = false) :
    ∃ rc, (executeTx c w bp tx).receipt = some rc ∧ rc.status = .error ∧
      (executeTx c w bp tx).bp = bp + rc.fee ∧
      (executeTx c w bp tx).w = chargeFeeNonce w (tx.type = .feeDelegation) tx.sender rc.contract rc.fee tx.nonce ∧
      rc.fee ≤ (if (tx.type = .feeDelegation) ∧ tx.sender ≠ rc.contract then w.bal rc.contract else w.bal tx.sender) :=
  executeTx_failed_exact rfl hf hl

/-! contexts and worlds for the tests and the witness -/

def ctxPub : Ctx :=
  { version := 3, gasPrice := 1, zeroFee := false, isPublic := true, coinbase := some 8, blockNo := 9, namePrice := 3, stakingMin := 10 }
/-- aergo.system, aergo.name 500, users 10 and 11, a contract 100 (created by 10) holding 700000 with one storage entry -/
def w0 : World :=
  { accts := [(0, {}), (1, { bal := 500 }), (10, { bal := 1000000 }), (11, { bal := 1000000 }), (100, { bal := 700000, code := true })]
    creator := [(100, 10)], stor := [(100, [(1, 7)])] }

/-- a call whose script writes storage, sends 5 to account 11 and then fails inside the VM -/
def txVmFail : Tx :=
  { type := .call, sender := 10, recipient := some 100, amount := 9, nonce := 1, payloadLen := 40
    script := { fee := 300, err := .vm, xfers := [(11, 5)], sets := [(1, 8)] } }

/-- test (non-vacuity): the call fails at run time, is not flagged, and leaves exactly fee + nonce:
sender 1000000 − (100000 + 300), nonce 1; contract, account 11 and the storage untouched -/
example : (executeTx ctxPub w0 0 txVmFail).outcome = .failed ∧ (executeTx ctxPub w0 0 txVmFail).leak = false ∧
    (executeTx ctxPub w0 0 txVmFail).w = { w0 with accts := [(0, {}), (1, { bal := 500 }), (10, { bal := 899700, nonce := 1 }),
      (11, { bal := 1000000 }), (100, { bal := 700000, code := true })] } := by
  refine ⟨by decide, by decide, by decide⟩

/-- a fee-delegation call: the contract (100) pays the fee and its script sends all it holds to 11 -/
def txFdDrain : Tx :=
  { type := .feeDelegation, sender := 10, recipient := some 100, amount := 0, nonce := 1, payloadLen := 50
    script := { fee := 1000, xfers := [(11, 700000)] } }

/-- **Defect witness** (class `C03-vm-fee-check-after-commit`): the receipt says ERROR, yet account 11
keeps the 700000 the contract sent it (and the contract keeps them too: `resetAccount` restores its
record): more than fee and nonce changed. -/
theorem failed_tx_leaves_residue :
    (executeTx ctxPub w0 0 txFdDrain).outcome = .failed ∧
    (executeTx ctxPub w0 0 txFdDrain).w ≠ chargeFeeNonce w0 true 10 100 101000 1 ∧
    (executeTx ctxPub w0 0 txFdDrain).w.bal 11 = 1700000 ∧
    (executeTx ctxPub w0 0 txFdDrain).leak = true := by
  refine ⟨by decide, by decide, by decide, by decide⟩

/-! ### rejected: nothing -/

/-- **A rejected transaction leaves no trace in the block state**: world (accounts, storage, governance
records), `BpReward` and the receipts list are the values of before — what `NewTxExecutor`'s
`Snapshot` / `Rollback` pair yields (`rollback_exact`). -/
theorem rejected_leaves_no_trace (c : Ctx) (s : BState) (tx : Tx) (e : Rej)
    (h : (txExec c s tx).1 = .rejected e) : (txExec c s tx).2 = s :=
  txExec_rejected h

/-- test: a nonce gap is rejected -/
example : (txExec ctxPub { w := w0 } { type := .transfer, sender := 10, recipient := some 11, amount := 1, nonce := 3 }).1 = .rejected .nonceHigh := by
  decide

/-- **Rollback exactness** (C12's `block_rollback`, restated): after a block snapshot, *any* history of
account puts, writes through contract handles, staging of further contracts and nested rollbacks,
followed by `BlockState.Rollback` to the snapshot, returns the state-DB value of snapshot time itself —
which is why the model may return the input world for a rejected transaction. -/
theorem rollback_exact (s0 s' : Aergo.Buffer.SDB) (h0 : s0.Inv) (ops : List Aergo.Buffer.SDB.Op)
    (hr : Aergo.Buffer.SDB.run s0.blockSnapshot s0 ops = some s') :
    s'.blockRollback s0.blockSnapshot = some s0 :=
  Aergo.Props.C12.block_rollback s0 s' h0 ops hr

/-! ### succeeded: all effects -/

/-- **A plain transfer, if applied, is applied exactly**: between two different accounts, receiver
without code: sender − amount − base fee and the tx nonce, receiver + amount, `BpReward` + base fee, as
a world equality (nothing else changes). The two `AccountState` copies and the order of `PutState`s
leave no other trace — the defects of C01 are exactly the cases where such an equality fails. -/
theorem transfer_applies_exactly (c : Ctx) (w : World) (bp : Nat) (tx : Tx) (r : Addr)
    (ht : tx.type = .transfer) (hr : tx.recipient = some r) (hne : tx.sender ≠ r)
    (hcode : (w.acct r).code = false) (hs : (executeTx c w bp tx).outcome = .success) :
    tx.amount + txBaseFee c tx.payloadLen ≤ w.bal tx.sender ∧
    (executeTx c w bp tx).w =
      (w.put tx.sender (({ w.acct tx.sender with bal := w.bal tx.sender - tx.amount - txBaseFee c tx.payloadLen } : Acct).setNonce tx.nonce)).put
        r { w.acct r with bal := w.bal r + tx.amount } ∧
    (executeTx c w bp tx).bp = bp + txBaseFee c tx.payloadLen :=
  transfer_effects rfl ht hr hne hcode hs

/-- test (non-vacuity): such a transfer is applied -/
example : (executeTx ctxPub w0 0 { type := .transfer, sender := 10, recipient := some 11, amount := 40, nonce := 1 }).outcome = .success := by
  decide

/-! The same for every other transaction type of the model: the world after a successful transaction
*equals* a copy-free specification of its intended effects (`Lemmas/LedgerEffects.lean`); each theorem also
returns the preconditions its success implies. The hypotheses only name the shape of the transaction. -/

/-- **A plain payment** of type NORMAL, TRANSFER or CALL to another account without code — as
`transfer_applies_exactly`, for all three types (a CALL to a non-contract is a payment before version 3
and fails at run time from version 3 on). -/
theorem payment_applies_exactly (c : Ctx) (w : World) (bp : Nat) (tx : Tx) (r : Addr)
    (ht : tx.type = .transfer ∨ tx.type = .normal ∨ tx.type = .call) (hr : tx.recipient = some r) (hne : tx.sender ≠ r)
    (hcode : (w.acct r).code = false) (hs : (executeTx c w bp tx).outcome = .success) :
    tx.amount + txBaseFee c tx.payloadLen ≤ w.bal tx.sender ∧
    (executeTx c w bp tx).w =
      (w.put tx.sender (({ w.acct tx.sender with bal := w.bal tx.sender - tx.amount - txBaseFee c tx.payloadLen } : Acct).setNonce tx.nonce)).put
        r { w.acct r with bal := w.bal r + tx.amount } ∧
    (executeTx c w bp tx).bp = bp + txBaseFee c tx.payloadLen :=
  plain_send_effects rfl ht hr hne hcode hs

/-- **A payment to oneself** (sender = recipient, a key account): base fee and nonce, nothing else — the two
`receiver = sender` (one live record). -/
theorem self_payment_applies_exactly (c : Ctx) (w : World) (bp : Nat) (tx : Tx)
    (ht : tx.type = .transfer ∨ tx.type = .normal ∨ tx.type = .call) (hr : tx.recipient = some tx.sender)
    (hcode : (w.acct tx.sender).code = false) (hs : (executeTx c w bp tx).outcome = .success) :
    tx.amount + txBaseFee c tx.payloadLen ≤ w.bal tx.sender ∧
    (executeTx c w bp tx).w =
      w.put tx.sender (({ w.acct tx.sender with bal := w.bal tx.sender - txBaseFee c tx.payloadLen } : Acct).setNonce tx.nonce) ∧
    (executeTx c w bp tx).bp = bp + txBaseFee c tx.payloadLen :=
  self_send_effects rfl ht hr hcode hs

/-- test: a self-payment and a NORMAL payment are applied -/
example : (executeTx ctxPub w0 0 { type := .transfer, sender := 10, recipient := some 10, amount := 40, nonce := 1 }).outcome = .success ∧
    (executeTx ctxPub w0 0 { type := .normal, sender := 10, recipient := some 11, amount := 40, nonce := 1 }).outcome = .success := by
  refine ⟨by decide, by decide⟩

/-- **`v1stake`**: the amount moves from the sender to aergo.system, the staking record grows by it and is
stamped with the block number, the staking total grows, the sender gets the tx nonce; no fee. Success
implies the amount was covered and the resulting stake reaches the minimum. (`stakeEffects`) -/
theorem stake_applies_exactly (c : Ctx) (w : World) (bp : Nat) (tx : Tx)
    (ht : tx.type = .governance) (hr : tx.recipient = some aSystem) (hg : tx.gov = .stake)
    (hne : tx.sender ≠ aSystem) (hs : (executeTx c w bp tx).outcome = .success) :
    tx.amount ≤ w.bal tx.sender ∧ c.stakingMin ≤ staked w tx.sender + tx.amount ∧
    (executeTx c w bp tx).w = stakeEffects c w tx ∧ (executeTx c w bp tx).bp = bp :=
  stake_effects rfl ht hr hg hne hs

/-- **`v1unstake`**: the amount moves from aergo.system back to the sender, the staking record and the
total shrink by it. Success implies the stake and aergo.system's balance covered it and what stays is zero
or at least the minimum. Hypothesis `htot`: the staking total is at least the amount (the total is the sum
of the records in every reachable state; the code computes `|total − amount|`). (`unstakeEffects`) -/
theorem unstake_applies_exactly (c : Ctx) (w : World) (bp : Nat) (tx : Tx)
    (ht : tx.type = .governance) (hr : tx.recipient = some aSystem) (hg : tx.gov = .unstake)
    (hne : tx.sender ≠ aSystem) (htot : tx.amount ≤ w.stakeTotal) (hs : (executeTx c w bp tx).outcome = .success) :
    tx.amount ≤ staked w tx.sender ∧ tx.amount ≤ w.bal aSystem ∧
    (staked w tx.sender - tx.amount = 0 ∨ c.stakingMin ≤ staked w tx.sender - tx.amount) ∧
    (executeTx c w bp tx).w = unstakeEffects c w tx ∧ (executeTx c w bp tx).bp = bp :=
  unstake_effects rfl ht hr hg hne htot hs

/-- **`v1voteBP`** (as far as the ledger model goes): the staking record is re-stamped, the vote flag is
set, the sender gets the tx nonce; no balance moves. Success implies the sender has a stake. (`voteEffects`) -/
theorem vote_applies_exactly (c : Ctx) (w : World) (bp : Nat) (tx : Tx)
    (ht : tx.type = .governance) (hr : tx.recipient = some aSystem) (hg : tx.gov = .voteBP)
    (hne : tx.sender ≠ aSystem) (hs : (executeTx c w bp tx).outcome = .success) :
    0 < staked w tx.sender ∧ (executeTx c w bp tx).w = voteEffects c w tx ∧ (executeTx c w bp tx).bp = bp :=
  vote_effects rfl ht hr hg hne hs

/-- a later block (the staking delay has passed) and a world in which account 10 has staked 50 -/
def ctxLate : Ctx := { ctxPub with blockNo := 100000 }
def wStaked : World :=
  { w0 with accts := [(0, { bal := 50 }), (1, { bal := 500 }), (10, { bal := 1000000 }), (11, { bal := 1000000 }), (100, { bal := 700000, code := true })]
            staking := [(10, (50, 0))], stakeTotal := 50 }
def txStake : Tx := { type := .governance, sender := 10, recipient := some 0, amount := 10, nonce := 1, payloadLen := 9, gov := .stake }

/-- test: stake, unstake (all of it) and vote are applied; after the stake aergo.system holds 10 more -/
example : (executeTx ctxPub w0 0 txStake).outcome = .success ∧ (executeTx ctxPub w0 0 txStake).w.bal 0 = 10 ∧
    (executeTx ctxLate wStaked 0 { txStake with gov := .unstake, amount := 50 }).outcome = .success ∧
    (executeTx ctxLate wStaked 0 { txStake with gov := .voteBP, amount := 0 }).outcome = .success := by
  refine ⟨by decide, by decide, by decide, by decide⟩

/-- **`v1createName n`**: the name is recorded for the sender (owner and destination), the price goes to the
owner of the name contract if one is set, else to aergo.name (`nameBeneficiary`; a sender who is that owner
pays nothing), the sender gets the tx nonce; no fee. Success implies the price was offered and covered and
the name was free. (`payNameEffects`) -/
theorem name_create_applies_exactly (c : Ctx) (w : World) (bp : Nat) (tx : Tx) (n : Nat)
    (ht : tx.type = .governance) (hr : tx.recipient = some aName) (hg : tx.gov = .nameCreate n)
    (hne : tx.sender ≠ aName) (hs : (executeTx c w bp tx).outcome = .success) :
    c.namePrice ≤ tx.amount ∧ tx.amount ≤ w.bal tx.sender ∧ w.ownerOf n = none ∧
    (executeTx c w bp tx).w =
      payNameEffects { w with names := mset w.names n (tx.sender, tx.sender) } (nameBeneficiary w) tx.sender tx.amount tx.nonce ∧
    (executeTx c w bp tx).bp = bp :=
  nameCreate_effects rfl ht hr hg hne hs

/-- **`v1updateName n to`**: the name now points to `to` and is owned by `to`'s creator if `to` is a contract,
by `to` otherwise; the price is paid as for a creation. Success implies the tx was sent under the name itself
or by (the address of) its owner, and the name was already visible in the last committed block.
(`payNameEffects`) -/
theorem name_update_applies_exactly (c : Ctx) (w : World) (bp : Nat) (tx : Tx) (n : Nat) (to : Addr)
    (ht : tx.type = .governance) (hr : tx.recipient = some aName) (hg : tx.gov = .nameUpdate n to)
    (hne : tx.sender ≠ aName) (hs : (executeTx c w bp tx).outcome = .success) :
    c.namePrice ≤ tx.amount ∧ tx.amount ≤ w.bal tx.sender ∧
    (tx.acctName = some n ∨ (tx.acctName = none ∧ w.ownerOf n = some tx.sender)) ∧ (mget w.namesInit n).isSome ∧
    (executeTx c w bp tx).w =
      payNameEffects { w with names := mset w.names n ((mget w.creator to).getD to, to) } (nameBeneficiary w)
        tx.sender tx.amount tx.nonce ∧
    (executeTx c w bp tx).bp = bp :=
  nameUpdate_effects rfl ht hr hg hne hs

/-- **`v1setOwner a`**: `a` becomes the owner of the name contract and receives everything aergo.name holds
(nothing moves if `a` is aergo.name itself; if `a` is the sender, the sender's own record is credited — the
repaired defect of C01); the sender gets the tx nonce. Success implies no owner was set. (`setOwnerEffects`) -/
theorem set_owner_applies_exactly (c : Ctx) (w : World) (bp : Nat) (tx : Tx) (a : Addr)
    (ht : tx.type = .governance) (hr : tx.recipient = some aName) (hg : tx.gov = .setOwner a)
    (hne : tx.sender ≠ aName) (hs : (executeTx c w bp tx).outcome = .success) :
    w.ownerOf nAergoName = none ∧ (executeTx c w bp tx).w = setOwnerEffects w tx.sender a tx.nonce ∧
    (executeTx c w bp tx).bp = bp :=
  setOwner_effects rfl ht hr hg hne hs

/-- a world in which account 11 owns name 5 since the last committed block -/
def wNamed : World := { w0 with names := [(5, (11, 11))], namesInit := [(5, (11, 11))] }
def txName : Tx := { type := .governance, sender := 11, recipient := some 1, amount := 3, nonce := 1, payloadLen := 9, gov := .nameCreate 6 }

/-- test: create, update and setOwner (to the sender itself) are applied; after the setOwner the sender holds
aergo.name's 500 units -/
example : (executeTx ctxPub w0 0 txName).outcome = .success ∧
    (executeTx ctxPub wNamed 0 { txName with gov := .nameUpdate 5 100 }).outcome = .success ∧
    (executeTx ctxPub w0 0 { txName with gov := .setOwner 11, amount := 0 }).outcome = .success ∧
    (executeTx ctxPub w0 0 { txName with gov := .setOwner 11, amount := 0 }).w.bal 11 = 1000500 := by
  refine ⟨by decide, by decide, by decide, by decide⟩

/-- **A transaction that runs the VM** — a CALL / NORMAL / TRANSFER to a contract, a DEPLOY (or legacy NORMAL
without recipient), a REDEPLOY, a FEEDELEGATION call — with the sender different from the target: if it is
applied, the script ran to its end and the world is `vmWorld`: every third party of the script's transfers
credited in script order, the contract's storage writes staged (plus the creator record and the code flag
on a deploy), the sender at − amount + what the script sent it − the fee (unless delegated) with the tx
nonce, the contract at + amount − what the script sent out (− the fee if delegated); `BpReward` + the fee
(base fee + the VM's fee). Success implies the amount, every transfer of the script and the fee were covered. -/
theorem vm_transaction_applies_exactly (c : Ctx) (w : World) (bp : Nat) (tx : Tx)
    (hg : tx.type ≠ .governance) (hm : tx.type ≠ .multicall) (hne : tx.sender ≠ tx.target)
    (hvm : tx.deploys = true ∨ (w.acct tx.target).code = true)
    (hs : (executeTx c w bp tx).outcome = .success) :
    tx.script.err = .ok ∧ tx.amount ≤ w.bal tx.sender ∧
    sentOut tx.target tx.script.xfers ≤ w.bal tx.target + tx.amount ∧
    txBaseFee c tx.payloadLen + tx.script.fee ≤
      (if tx.type = .feeDelegation then w.bal tx.target + tx.amount - sentOut tx.target tx.script.xfers
       else w.bal tx.sender - tx.amount + sentTo tx.sender tx.target tx.script.xfers) ∧
    (executeTx c w bp tx).w =
      vmWorld w tx tx.target tx.deploys (decide (tx.type = .feeDelegation)) (txBaseFee c tx.payloadLen + tx.script.fee) ∧
    (executeTx c w bp tx).bp = bp + (txBaseFee c tx.payloadLen + tx.script.fee) :=
  vm_effects rfl hg hm hne hvm hs

/-- a call of contract 100 whose script pays 5 to account 11 and 7 back to the sender and writes storage -/
def txCall : Tx :=
  { type := .call, sender := 10, recipient := some 100, amount := 9, nonce := 1, payloadLen := 40
    script := { fee := 300, xfers := [(11, 5), (10, 7)], sets := [(1, 8)] } }

/-- test: a call, a deploy (new address 200, its script pays 5 of the 9 it received to account 11) and a
fee-delegation call are applied; the call leaves the
contract at 700000 + 9 − 12 and the sender at 1000000 − 9 + 7 − (100000 + 300) -/
example : (executeTx ctxPub w0 0 txCall).outcome = .success ∧
    (executeTx ctxPub w0 0 txCall).w.bal 100 = 699997 ∧ (executeTx ctxPub w0 0 txCall).w.bal 10 = 899698 ∧
    (executeTx ctxPub w0 0 { txCall with type := .deploy, recipient := none, newAddr := 200, script := { fee := 300, xfers := [(11, 5)] } }).outcome = .success ∧
    (executeTx ctxPub w0 0 { txCall with type := .feeDelegation, amount := 0 }).outcome = .success := by
  refine ⟨by decide, by decide, by decide, by decide, by decide⟩

/-- **A contract account's transaction to itself** (sent under a name whose destination is the contract, signed
by the name's owner; `receiver = sender` since fix 343afa85): if it is applied, the script ran to its end and
the world is `ownVmWorld`: the amount does not move, every third party of the script's transfers is credited,
the storage writes are staged, and the ONE record of the account shows − what the script sent out − the fee,
with the tx nonce. (Before the fix the debit went to a second record that was never written: the defect
`C03-name-owner-sends-as-contract-to-itself` — a SUCCESS receipt whose effects were not all applied.) -/
theorem contract_self_call_applies_exactly (c : Ctx) (w : World) (bp : Nat) (tx : Tx)
    (hg : tx.type ≠ .governance) (hm : tx.type ≠ .multicall) (hrd : tx.type ≠ .redeploy)
    (hr : tx.recipient = some tx.sender) (hcode : (w.acct tx.sender).code = true)
    (hs : (executeTx c w bp tx).outcome = .success) :
    tx.script.err = .ok ∧
    sentOut tx.sender tx.script.xfers + (txBaseFee c tx.payloadLen + tx.script.fee) ≤ w.bal tx.sender ∧
    (executeTx c w bp tx).w = ownVmWorld w tx (txBaseFee c tx.payloadLen + tx.script.fee) ∧
    (executeTx c w bp tx).bp = bp + (txBaseFee c tx.payloadLen + tx.script.fee) :=
  own_vm_effects rfl hg hm hrd hr hcode hs

/-- test: the contract 100 calling itself (script: 5 to account 11) is applied -/
example : (executeTx ctxPub w0 0 { txCall with sender := 100, amount := 0, script := { fee := 10, xfers := [(11, 5)] } }).outcome = .success ∧
    (executeTx ctxPub w0 0 { txCall with sender := 100, amount := 0, script := { fee := 10, xfers := [(11, 5)] } }).w.bal 100 = 700000 - 5 - 100010 := by
  refine ⟨by decide, by decide⟩

/-- **A MULTICALL, if applied, is applied exactly** (`receiver = sender`: the sender's own record is the
"contract"; a multicall has no storage of its own): its payload was a multicall script that ran to its end,
every target of the script's transfers is credited in script order and the sender's ONE record shows − what
was sent − the fee (base fee + the VM's), with the tx nonce; nothing is staged. (`multiWorld`) -/
theorem multicall_applies_exactly (c : Ctx) (w : World) (bp : Nat) (tx : Tx)
    (ht : tx.type = .multicall) (hs : (executeTx c w bp tx).outcome = .success) :
    tx.script.multi = true ∧ tx.script.err = .ok ∧
    sentOut tx.sender tx.script.xfers + (txBaseFee c tx.payloadLen + tx.script.fee) ≤ w.bal tx.sender ∧
    (executeTx c w bp tx).w = multiWorld w tx (txBaseFee c tx.payloadLen + tx.script.fee) ∧
    (executeTx c w bp tx).bp = bp + (txBaseFee c tx.payloadLen + tx.script.fee) :=
  multicall_effects rfl ht hs

/-- a MULTICALL whose payload is no multicall script finds no code in the scripted VM: it fails at run time
(fee + nonce, `failed_only_fee_and_nonce_partial`) or is rejected, it is never applied -/
theorem multicall_without_script_not_applied (c : Ctx) (w : World) (bp : Nat) (tx : Tx)
    (ht : tx.type = .multicall) (hm : tx.script.multi = false) : (executeTx c w bp tx).outcome ≠ .success :=
  multicall_not_applied ht hm

/-- a multicall that pays 5 to account 11 and 7 to account 100 -/
def txMulti : Tx :=
  { type := .multicall, sender := 10, recipient := none, amount := 0, nonce := 1, payloadLen := 60
    script := { fee := 300, xfers := [(11, 5), (100, 7)], multi := true } }

/-- test: the multicall is applied (sender − 12 − (100000 + 300)); without the script flag it fails at run time -/
example : (executeTx ctxPub w0 0 txMulti).outcome = .success ∧ (executeTx ctxPub w0 0 txMulti).w.bal 10 = 1000000 - 12 - 100300 ∧
    (executeTx ctxPub w0 0 txMulti).w.bal 100 = 700007 ∧
    (executeTx ctxPub w0 0 { txMulti with script := { fee := 300 } }).outcome = .failed := by
  refine ⟨by decide, by decide, by decide, by decide⟩

/-! ### blocks -/

/-- **A refused block changes nothing**: the committed state after a block the executor refuses is the
committed state of before. -/
theorem refused_block_noop (w : World) (b : Block) (h : validateBlock w b = none) : applyBlock w b = w := by
  simp [applyBlock, h]

/-- **A block is refused iff some transaction is rejected at its position** — the first, the last or any
one in between, after arbitrary applied and failed transactions before it. -/
theorem refused_iff_some_tx_rejected (w : World) (b : Block) :
    validateBlock w b = none ↔
      ∃ pre tx post s' e, b.txs = pre ++ tx :: post ∧
        validateTxs b.ctx { w := w.beginBlock } pre = some s' ∧ (txExec b.ctx s' tx).1 = .rejected e := by
  unfold validateBlock
  rw [← validateTxs_none_iff]
  cases validateTxs b.ctx { w := w.beginBlock } b.txs <;> simp

/-- **Producer and validator agree**: the transactions a producer keeps (dropping the rejected ones),
run by the validating executor from the same block state, are all accepted and end in the very same
block state (world, `BpReward`, receipts). -/
theorem producer_validator_agree (c : Ctx) (s : BState) (txs : List Tx) :
    validateTxs c s (keptTxs c s txs) = some (produceTxs c s txs) :=
  validate_kept c txs s

def txGap : Tx := { type := .transfer, sender := 10, recipient := some 11, amount := 1, nonce := 3 }
def txOk : Tx := { type := .transfer, sender := 10, recipient := some 11, amount := 40, nonce := 1 }

/-- test: a block with a rejected tx in the middle is refused, state unchanged; the producer keeps two of three -/
example : validateBlock w0 { ctx := ctxPub, txs := [txOk, txGap, txVmFail] } = none ∧
    applyBlock w0 { ctx := ctxPub, txs := [txOk, txGap, txVmFail] } = w0 ∧
    (keptTxs ctxPub { w := w0 } [txOk, txGap, { txVmFail with nonce := 2 }]).length = 2 := by
  refine ⟨by decide, by decide, by decide⟩

end Aergo.Props.C03
