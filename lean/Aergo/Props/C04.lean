/-
C04 — Authorisation and replay protection for executed transactions.

"A transaction changes state only if it carries a valid signature of its sender account's key (or of the
registered owner of the sender name), is bound to this chain's identifier, and its nonce is exactly the
sender's current nonce plus one. Consequently, along the main chain every account's executed nonces form the
sequence 1,2,3,... without gaps or repeats and no transaction hash is executed twice, even across
reorganisations that return transactions to the pool."

Model: `Aergo.Auth` (Model/Auth.lean). `H` (SHA-256) and `Verify pk msg sig` (ECDSA verification) are
arbitrary functions: the theorems say WHICH message and WHICH key the code hands to `Verify`, never that
`Verify` is unforgeable; a hash collision is only ever concluded for the two explicit inputs at hand
(`Collision H x y`, Lemmas/Enc.lean) — never as an unrestricted existential. `body` (what a transaction does
apart from the nonce) and `env` (fees, system-contract checks) are arbitrary as well. The digest field lists
`txSignSpec`/`txHashSpec` are regenerated from the source on every run (`Aergo.Gen.Enc`).

Since the deepening round (three defects found by it, all repaired in /repo: bd63ef2d header fork version, d1ee2c8f
pool dump, 7dc29266 verified account) the statements also cover: the chain id a block's HEADER carries
(`chain_id_bound`: every executed transaction is bound to the hash of this chain's id in the version the NODE is
configured with for the block's number — `header_version_check_needed` shows the check of bd63ef2d is what makes it
true), the pool as trust anchor (`pool_invariant` over every history of a pool incl. the start-up dump,
`shortcut_sound`: the block-level short-cut resolved against such a pool, `load_verify_needed`), and the node's own
blocks (`produced_block_authorised`, `produced_nonces_trace`: the block factory's gathering from such a pool; `node_nonces_seq`,
`node_chain_id_bound`, `node_no_hash_twice`: a node's main chain as any mix of received and own blocks).

A rejected transaction / block yields no new world at all (`Except.error`): "changes state only if" is the
statement that an `.ok` result implies the gate conditions, which is what the theorems below say.
All statements are for every world, every transaction list, every branch (list of blocks) — no size bound. The
only arithmetic guard is the uint64 one: fewer than 2^64 transactions per account (the code's `nonce+1` wraps;
the wrap itself is in the model, see `nonce_wraps`).
-/
import Aergo.Lemmas.Auth

namespace Aergo.Props.C04
open Aergo.Enc Aergo.Gen.Enc Aergo.Auth

variable (H : Bytes → Bytes) (Verify : Bytes → Bytes → Bytes → Bool)

/-! ### 1. Nonce: exactly the sender's current nonce plus one -/

/-- `ValidateWithSenderState` accepts ⇒ tx.nonce = state.nonce + 1 (in uint64 arithmetic, as the code computes it). -/
theorem nonce_exact (env : Env) (stNonce stBal : Nat) (t : Tx)
    (h : validateSender env stNonce stBal t = none) : t.nonce = wrap64 (stNonce + 1) :=
  validateSender_none h

/-- Below the uint64 limit that is literally `nonce + 1`. -/
theorem nonce_exact_succ (env : Env) (stNonce stBal : Nat) (t : Tx) (hlt : stNonce + 1 < 2 ^ 64)
    (h : validateSender env stNonce stBal t = none) : t.nonce = stNonce + 1 := by
  rw [nonce_exact env stNonce stBal t h, wrap64, Nat.mod_eq_of_lt hlt]

/-- Both directions of the comparison are needed: a lower nonce is `nonceLow`, a higher one `nonceHigh`
(whatever balance / fee checks say in between never makes the answer "ok"). -/
theorem nonce_wrong_rejected (env : Env) (stNonce stBal : Nat) (t : Tx) (h : t.nonce ≠ wrap64 (stNonce + 1)) :
    validateSender env stNonce stBal t ≠ none :=
  fun hn => h (validateSender_none hn)

private def env0 : Env := { isPublic := false, maxAER := 1000, maxFee := fun _ _ => some 0, sysCheck := fun _ _ => none }
private def tx0 : Tx :=
  { nonce := 8, account := [2, 1], recipient := [3], amount := [5], payload := [], gasLimit := 0, gasPrice := [],
    type := 4, chainIdHash := [9], sign := [7], hash := [], size := 10, gov := none, cmd := .none }

/-- Non-vacuity (test on sample values): state nonce 7, balance 100, transfer of 5 with nonce 8 is accepted,
nonce 7 and 9 are not. -/
example : validateSender env0 7 100 tx0 = none ∧ validateSender env0 7 100 { tx0 with nonce := 7 } = some .nonceLow
    ∧ validateSender env0 7 100 { tx0 with nonce := 9 } = some .nonceHigh := by decide

/-- The uint64 wrap of the code is in the model (test on sample values): with state nonce 2^64−1 the code
computes `nonce+1 = 0` and accepts nonce 0. This is why the sequence theorems carry the guard "< 2^64". -/
theorem nonce_wraps : validateSender env0 (2 ^ 64 - 1) 100 { tx0 with nonce := 0 } = none := by decide

/-! ### 2. Chain identifier and transaction identifier -/

/-- `Validate` accepts ⇒ the body's ChainIdHash is the one the caller passed (the executing block's
`bi.ChainIdHash()`, resp. the pool's `acceptChainIdHash`) and the carried Hash is the digest of exactly these fields. -/
theorem chainid_bound (mx : Nat) (cid : Bytes) (isPublic : Bool) (t : Tx) (h : validate H mx cid isPublic t = none) :
    t.chainIdHash = cid ∧ t.hash = H (hashInput t) := by
  unfold validate at h
  split at h
  · cases h
  · rename_i h1
    split at h
    · cases h
    · split at h
      · cases h
      · split at h
        · cases h
        · rename_i h4
          exact ⟨(Classical.not_not.mp h1).symm, Classical.not_not.mp h4⟩

/-- A transaction made for another chain id (or another fork version of this chain's id) is rejected before
anything else is looked at. -/
theorem foreign_chain_rejected (mx : Nat) (cid : Bytes) (isPublic : Bool) (t : Tx) (h : t.chainIdHash ≠ cid) :
    validate H mx cid isPublic t = some .chainId := by
  unfold validate
  rw [if_pos (fun hc => h hc.symm)]

/-- Test on sample values: hypotheses of `chainid_bound` are satisfiable (hash = identity). -/
example : validate id 1000 [9] false { tx0 with hash := hashInput tx0 } = none := by decide

/-! ### 3. Which fields the two digests cover (regenerated lists) -/

/-- The signing digest reads every body field except `Sign`; the identifier reads every body field. -/
theorem digests_cover :
    (∀ f ∈ fieldsOfTxBody, f ≠ "Sign" → covers txSignSpec f = true) ∧ covers txSignSpec "Sign" = false ∧
    (∀ f ∈ fieldsOfTxBody, covers txHashSpec f = true) := by decide

/-- The identifier's input is the signing input followed by the signature: equal identifiers inputs of
signatures of equal length mean equal signed message and equal signature. -/
theorem hash_binds_signature (t t' : Tx) (h : hashInput t = hashInput t') (hl : t.sign.length = t'.sign.length) :
    signInput t = signInput t' ∧ t.sign = t'.sign :=
  sign_of_hashInput h hl

/-! ### 4. The signature gate -/

/-- What must have happened for a transaction of an accepted block: its sender field is present and either
`Verify` was evaluated to true on (key of the sender — the registered owner for a name —, digest of exactly
these fields without Sign, the Sign field), or — address senders only, node not syncing — a transaction with
the same carried hash sits in the mempool. -/
def Authorised (ns : Names) (useMempool : Bool) (hit : Tx → Bool) (t : Tx) : Prop :=
  t.account ≠ [] ∧
  (Verify (blockKey ns t) (H (signInput t)) t.sign = true ∨ (useMempool = true ∧ t.named = false ∧ hit t = true))

theorem authorised_of_blockSigOk (ns : Names) (useMempool : Bool) (hit : Tx → Bool) (t : Tx)
    (h : blockSigOk H Verify ns useMempool hit t = true) : Authorised H Verify ns useMempool hit t := by
  unfold blockSigOk at h
  split at h
  · cases h
  · rename_i hacc
    refine ⟨by intro hc; simp [hc] at hacc, ?_⟩
    split at h
    · rename_i hh
      simp only [Bool.and_eq_true, Bool.not_eq_true'] at hh
      exact Or.inr ⟨hh.1.1, hh.1.2, hh.2⟩
    · exact Or.inl h

/-- **sig_gate.** A block is accepted (`execBlock = ok`, the only way its transactions change the state)
only if every one of its transactions is `Authorised` w.r.t. the names of the state the block builds on, and
passed `Validate` for the block's chain-id hash. -/
theorem sig_gate (env : Env) (body : Body) (cid : Bytes) (useMempool : Bool) (hit : Tx → Bool)
    (W W' : World) (txs : List Tx) (log : List LogEntry)
    (h : execBlock H Verify env body cid useMempool hit W txs = .ok (W', log)) :
    ∀ t ∈ txs, Authorised H Verify W.led.names useMempool hit t ∧ validate H env.maxAER cid env.isPublic t = none := by
  unfold execBlock at h
  split at h
  · cases h
  · rename_i W1 log1 hex
    split at h
    · rename_i hall
      simp only [Except.ok.injEq, Prod.mk.injEq] at h
      obtain ⟨_, hlog⟩ := h
      subst hlog
      obtain ⟨_, hmap, hval⟩ := execTxs_ok H hex
      intro t ht
      refine ⟨authorised_of_blockSigOk H Verify _ _ _ t (List.all_eq_true.mp hall t ht), ?_⟩
      rw [← hmap] at ht
      obtain ⟨e, he, rfl⟩ := List.mem_map.mp ht
      exact (hval e he).1
    · cases h

/-- A block containing a transaction that fails the block-level signature check is rejected, whatever its
execution does (in particular also right after a block whose execution failed: the verdict is this block's). -/
theorem forged_block_rejected (env : Env) (body : Body) (cid : Bytes) (useMempool : Bool) (hit : Tx → Bool)
    (W : World) (txs : List Tx) (t : Tx) (ht : t ∈ txs)
    (hbad : blockSigOk H Verify W.led.names useMempool hit t = false) :
    ∃ e, execBlock H Verify env body cid useMempool hit W txs = .error e := by
  unfold execBlock
  split
  · exact ⟨_, rfl⟩
  · split
    · rename_i hall
      have := List.all_eq_true.mp hall t ht
      rw [hbad] at this; cases this
    · exact ⟨_, rfl⟩

/-- The pool's gate: a transaction is admitted only after `Validate` for the chain-id hash the pool accepts
(next block's version of this chain's id), `Verify` on (sender key — a name's registered destination —,
digest of exactly these fields, Sign), and with a nonce above the state nonce of the account it is filed under
(the verified address of a name sender, else the sender field). -/
theorem pool_gate (env : Env) (acceptCid : Bytes) (W : World) (inP : Bytes → Bool)
    (extra : World → Bytes → Tx → Option Nat) (t : Tx) (acc : Bytes)
    (h : poolAdmit H Verify env acceptCid W inP extra t = .ok acc) :
    inP t.hash = false ∧ validate H env.maxAER acceptCid env.isPublic t = none ∧
    Verify (poolKey W.led.names t) (H (signInput t)) t.sign = true ∧
    acc = listAccount (if t.named then poolKey W.led.names t else []) t ∧
    wrap64 (W.nonce acc + 1) ≤ t.nonce := by
  unfold poolAdmit at h
  split at h
  · cases h
  · rename_i hin
    split at h
    · cases h
    · rename_i verified hpv
      unfold poolVerify at hpv
      split at hpv
      · cases hpv
      · rename_i hval
        split at hpv
        · rename_i hver
          simp only [Except.ok.injEq] at hpv
          subst hpv
          simp only [] at h
          split at h
          · rename_i hs
            split at h
            · cases h
            · simp only [Except.ok.injEq] at h
              subst h
              exact ⟨by simpa using hin, hval, hver, rfl, validateSender_high_or_none (Or.inr hs)⟩
          · rename_i hs
            split at h
            · cases h
            · simp only [Except.ok.injEq] at h
              subst h
              exact ⟨by simpa using hin, hval, hver, rfl, validateSender_high_or_none (Or.inl hs)⟩
          · cases h
        · cases hpv

/-- The mempool short-cut of `sig_gate` resolved: the block's transaction `t` (address sender) has the carried
hash of a pooled transaction `p` that went through the pool's gate; both passed `Validate`, so both carried
hashes are digests of their own fields. Then either the two digest inputs are an explicit SHA-256 collision,
or `Verify` was evaluated to true on exactly `t`'s key, `t`'s signing digest and `t`'s signature.
(`hl`: the identifier input is a concatenation without length prefixes, so the split between the signed
part and the signature is only determined when the two signatures have the same length.) -/
theorem sig_gate_hit (mx : Nat) (cid cid' : Bytes) (pub : Bool) (ns : Names) (t p : Tx)
    (ht : validate H mx cid pub t = none) (hp : validate H mx cid' pub p = none)
    (hpv : Verify (poolKey ns p) (H (signInput p)) p.sign = true)
    (hhit : p.hash = t.hash)
    (ha : t.account.length = 33) (ha' : p.account.length = 33) (hl : p.sign.length = t.sign.length) :
    Collision H (hashInput p) (hashInput t) ∨ Verify t.account (H (signInput t)) t.sign = true := by
  have h1 := (chainid_bound H mx cid pub t ht).2
  have h2 := (chainid_bound H mx cid' pub p hp).2
  by_cases heq : hashInput p = hashInput t
  · right
    obtain ⟨hs, hsig⟩ := sign_of_hashInput heq hl
    have hacc := account_of_hashInput heq ha' ha
    have hk : poolKey ns p = t.account := by
      unfold poolKey Tx.named
      rw [if_neg (by simp [ha', nameLength]), hacc]
    rw [hk, hs, hsig] at hpv
    exact hpv
  · left
    exact ⟨heq, by rw [← h1, ← h2, hhit]⟩

/-! ### 5. Name senders -/

/-- **named_sender_gate.** In an accepted block every transaction whose sender field is a name (≤ 12 bytes)
had `Verify` evaluated to true with the key registered as the name's OWNER in the state the block builds on —
no mempool short-cut (repair b35524dc) — on the digest of exactly its fields and its Sign field. -/
theorem named_sender_gate (env : Env) (body : Body) (cid : Bytes) (useMempool : Bool) (hit : Tx → Bool)
    (W W' : World) (txs : List Tx) (log : List LogEntry)
    (h : execBlock H Verify env body cid useMempool hit W txs = .ok (W', log)) :
    ∀ t ∈ txs, t.named = true → Verify (getOwner W.led.names t.account) (H (signInput t)) t.sign = true := by
  intro t ht hn
  obtain ⟨⟨_, hor⟩, _⟩ := sig_gate H Verify env body cid useMempool hit W W' txs log h t ht
  rcases hor with hv | ⟨_, hnn, _⟩
  · simpa [blockKey, hn] using hv
  · rw [hn] at hnn; cases hnn

/-- The account whose nonce and balance an executed transaction uses is what its sender field resolves to
(`name.Resolve`: an address is itself, a name its registered destination), and on the producer path
(`verified ≠ []`: the account the pool verified the signature against) that account must still be the same,
otherwise `executeTx` rejects (`ErrSignNotMatch`). -/
theorem producer_verified_account (env : Env) (body : Body) (cid : Bytes) (W W' : World) (verified : Bytes) (t : Tx)
    (e : LogEntry) (h : executeTx H env body cid W verified t = .ok (W', e)) :
    e.account = getAddress W.led.names t.account ∧ (verified = [] ∨ verified = getAddress W.led.names t.account) := by
  obtain ⟨h1, _, h3, _⟩ := executeTx_ok H h
  exact ⟨h1, by rw [← h1]; exact h3⟩

/-- Pool admission of a name sender after the name moved: the pool verified against the destination the name
had then (`acc`); if the name now resolves elsewhere, the producer-path execution is rejected. -/
theorem stale_verified_account_rejected (env : Env) (body : Body) (cid : Bytes) (W : World) (verified : Bytes) (t : Tx)
    (hne : verified ≠ []) (hmoved : verified ≠ getAddress W.led.names t.account) :
    executeTx H env body cid W verified t = .error .signMismatch := by
  unfold executeTx
  simp only []
  rw [if_pos]
  simp only [Bool.and_eq_true, Bool.not_eq_true', decide_eq_true_eq]
  refine ⟨?_, hmoved⟩
  cases verified with
  | nil => exact absurd rfl hne
  | cons _ _ => rfl

/-! ### 6. Executed nonces along a branch -/

/-- **executed_nonces_seq.** Along ANY branch (any list of blocks that is valid from world `W` on — in particular the main
chain from genesis, before or after any reorganisation, since a reorganisation only selects another branch),
the nonces account `a` executed — successes and run-time failures alike — are `n+1, n+2, …, n+k` where `n` is
its nonce in `W`, and its nonce afterwards is `n+k`. From genesis (`n = 0`): 1, 2, 3, …, without gaps or repeats. -/
theorem executed_nonces_seq (env : Env) (body : Body) (cidOf : Nat → Bytes) (useMempool : Bool)
    (hitOf : Nat → Tx → Bool) (i : Nat) (W W' : World) (blocks : List (List Tx)) (log : List LogEntry)
    (h : runBranch H Verify env body cidOf useMempool hitOf i W blocks = some (W', log))
    (a : Bytes) (hb : W.nonce a + log.length < 2 ^ 64) :
    noncesOf a log = List.range' (W.nonce a + 1) (noncesOf a log).length ∧
    W'.nonce a = W.nonce a + (noncesOf a log).length :=
  trace_seq (runBranch_ok H Verify h).1 a hb

/-- From a genesis state (all nonces 0): exactly 1, 2, …, k. -/
theorem executed_nonces_from_genesis (env : Env) (body : Body) (cidOf : Nat → Bytes) (useMempool : Bool)
    (hitOf : Nat → Tx → Bool) (W W' : World) (blocks : List (List Tx)) (log : List LogEntry)
    (hg : ∀ a, W.nonce a = 0)
    (h : runBranch H Verify env body cidOf useMempool hitOf 0 W blocks = some (W', log))
    (a : Bytes) (hb : log.length < 2 ^ 64) :
    noncesOf a log = List.range' 1 (noncesOf a log).length := by
  have := (executed_nonces_seq H Verify env body cidOf useMempool hitOf 0 W W' blocks log h a (by rw [hg]; omega)).1
  rw [hg] at this
  exact this

/-! ### 7. No transaction hash twice -/

theorem trace_nonce_lt {n n' : Bytes → Nat} {log : List LogEntry} (h : Trace n log n') :
    ∀ e ∈ log, e.tx.nonce < 2 ^ 64 := by
  induction h with
  | nil => simp
  | cons hs _ ih =>
    intro e he
    rcases List.mem_cons.mp he with rfl | hm
    · rw [hs.1, wrap64]; exact Nat.mod_lt _ (by decide)
    · exact ih e hm

/-- **no_hash_twice.** If two executed transactions of a branch (positions `i < j` of its log) carry the same hash,
then either their two digest inputs are an explicit SHA-256 collision, or the very same digest input was
executed for two DIFFERENT accounts (possible only when the sender field is a name / not a 33-byte address:
the name moved, or the bytes split differently into fields — see `no_hash_twice_addr`). It is never the same
account: that would need the same nonce twice. -/
theorem no_hash_twice (env : Env) (body : Body) (cidOf : Nat → Bytes) (useMempool : Bool)
    (hitOf : Nat → Tx → Bool) (k : Nat) (W W' : World) (blocks : List (List Tx)) (log : List LogEntry)
    (h : runBranch H Verify env body cidOf useMempool hitOf k W blocks = some (W', log))
    (hb : ∀ a, W.nonce a + log.length < 2 ^ 64)
    (i j : Nat) (hij : i < j) (hj : j < log.length)
    (hh : (log[i]'(by omega)).tx.hash = (log[j]'hj).tx.hash) :
    Collision H (hashInput (log[i]'(by omega)).tx) (hashInput (log[j]'hj).tx) ∨
    (hashInput (log[i]'(by omega)).tx = hashInput (log[j]'hj).tx ∧ (log[i]'(by omega)).account ≠ (log[j]'hj).account) := by
  obtain ⟨htr, hval⟩ := runBranch_ok H Verify h
  have hi : i < log.length := by omega
  obtain ⟨⟨ci, hvi⟩, _⟩ := hval _ (List.getElem_mem hi)
  obtain ⟨⟨cj, hvj⟩, _⟩ := hval _ (List.getElem_mem hj)
  have h1 := (chainid_bound H _ _ _ _ hvi).2
  have h2 := (chainid_bound H _ _ _ _ hvj).2
  by_cases heq : hashInput (log[i]'hi).tx = hashInput (log[j]'hj).tx
  · right
    refine ⟨heq, ?_⟩
    intro hacc
    have hn := nonce_of_hashInput heq (trace_nonce_lt htr _ (List.getElem_mem hi)) (trace_nonce_lt htr _ (List.getElem_mem hj))
    exact trace_no_repeat htr hb i j hij hj hacc hn
  · left
    exact ⟨heq, by rw [← h1, ← h2, hh]⟩

/-- For address senders (33-byte sender fields, the only ones a real public key can stand behind) the second
alternative is impossible: the same hash executed twice along a branch IS an explicit collision of the two
digest inputs. -/
theorem no_hash_twice_addr (env : Env) (body : Body) (cidOf : Nat → Bytes) (useMempool : Bool)
    (hitOf : Nat → Tx → Bool) (k : Nat) (W W' : World) (blocks : List (List Tx)) (log : List LogEntry)
    (h : runBranch H Verify env body cidOf useMempool hitOf k W blocks = some (W', log))
    (hb : ∀ a, W.nonce a + log.length < 2 ^ 64)
    (i j : Nat) (hij : i < j) (hj : j < log.length)
    (hh : (log[i]'(by omega)).tx.hash = (log[j]'hj).tx.hash)
    (hai : (log[i]'(by omega)).tx.account.length = 33) (haj : (log[j]'hj).tx.account.length = 33) :
    Collision H (hashInput (log[i]'(by omega)).tx) (hashInput (log[j]'hj).tx) := by
  rcases no_hash_twice H Verify env body cidOf useMempool hitOf k W W' blocks log h hb i j hij hj hh with hc | ⟨heq, hne⟩
  · exact hc
  · exfalso
    apply hne
    obtain ⟨_, hval⟩ := runBranch_ok H Verify h
    have hi : i < log.length := by omega
    obtain ⟨_, nsi, hacci⟩ := hval _ (List.getElem_mem hi)
    obtain ⟨_, nsj, haccj⟩ := hval _ (List.getElem_mem hj)
    have hfield := account_of_hashInput heq hai haj
    rw [hacci, haccj]
    unfold getAddress
    rw [if_pos (Or.inl (by simpa [addressLength] using hai)), if_pos (Or.inl (by simpa [addressLength] using haj)), hfield]

/-- Corollary under the usual reading "SHA-256 is injective on the inputs that occur": no repeat. -/
theorem no_hash_twice_of_injective (hH : Function.Injective H) (env : Env) (body : Body) (cidOf : Nat → Bytes)
    (useMempool : Bool) (hitOf : Nat → Tx → Bool) (k : Nat) (W W' : World) (blocks : List (List Tx)) (log : List LogEntry)
    (h : runBranch H Verify env body cidOf useMempool hitOf k W blocks = some (W', log))
    (hb : ∀ a, W.nonce a + log.length < 2 ^ 64)
    (i j : Nat) (hij : i < j) (hj : j < log.length)
    (hai : (log[i]'(by omega)).tx.account.length = 33) (haj : (log[j]'hj).tx.account.length = 33) :
    (log[i]'(by omega)).tx.hash ≠ (log[j]'hj).tx.hash := by
  intro hh
  obtain ⟨hne, heq⟩ := no_hash_twice_addr H Verify env body cidOf useMempool hitOf k W W' blocks log h hb i j hij hj hh hai haj
  exact hne (hH heq)

/-! ### 8. Reorganisation: transactions returned to the pool -/

/-- **reorg_reoffer_safe.** After a reorganisation the transactions of the abandoned branch are sent back through the
FULL admission against the new best state `W`: whatever is in the pool afterwards was there before or passed
`Validate` (accepted chain-id hash), `Verify` (key resolved in the NEW state) and has a nonce above the NEW
state nonce of its account — so a transaction that the new branch already executed (nonce ≤ state nonce) is
not taken back, and one that is taken back can only execute at its exact turn (`nonce_exact`). -/
theorem reorg_reoffer_safe (env : Env) (acceptCid : Bytes) (W : World) (extra : World → Bytes → Tx → Option Nat) :
    ∀ (olds : List Tx) (P : List PEntry), ∀ e ∈ reoffer H Verify env acceptCid W extra P olds,
      e ∈ P ∨ (e.tx ∈ olds ∧ validate H env.maxAER acceptCid env.isPublic e.tx = none ∧
               Verify (poolKey W.led.names e.tx) (H (signInput e.tx)) e.tx.sign = true ∧
               wrap64 (W.nonce e.acc + 1) ≤ e.tx.nonce) := by
  intro olds
  induction olds with
  | nil => intro P e he; exact Or.inl he
  | cons t ts ih =>
    intro P e he
    simp only [reoffer] at he
    split at he
    · rename_i acc hadm
      rcases ih _ e he with hin | ⟨hm, hrest⟩
      · rcases List.mem_append.mp hin with hP | hnew
        · exact Or.inl hP
        · simp only [List.mem_singleton] at hnew
          subst hnew
          obtain ⟨_, hv, hver, _, hn⟩ := pool_gate H Verify env acceptCid W _ extra t acc hadm
          exact Or.inr ⟨List.mem_cons_self, hv, hver, hn⟩
      · exact Or.inr ⟨List.mem_cons_of_mem _ hm, hrest⟩
    · rcases ih _ e he with hin | ⟨hm, hrest⟩
      · exact Or.inl hin
      · exact Or.inr ⟨List.mem_cons_of_mem _ hm, hrest⟩

/-- A returned transaction whose nonce the new branch has already consumed is refused (`nonceLow`). -/
theorem reoffer_refuses_executed (env : Env) (acceptCid : Bytes) (W : World) (inP : Bytes → Bool)
    (extra : World → Bytes → Tx → Option Nat) (t : Tx) (acc : Bytes)
    (h : poolAdmit H Verify env acceptCid W inP extra t = .ok acc) (hlt : W.nonce acc + 1 < 2 ^ 64) :
    W.nonce acc < t.nonce := by
  have := (pool_gate H Verify env acceptCid W inP extra t acc h).2.2.2.2
  rw [wrap64, Nat.mod_eq_of_lt hlt] at this
  omega

/-! ### 9. The chain id of the block header (repair bd63ef2d) -/

/-- A chain of received blocks is a branch in the sense of `runBranch`, with the chain-id hash of block `j` = hash of
the chain id its header carries: every branch theorem above (`executed_nonces_seq`, `no_hash_twice`, …) applies to it. -/
theorem chain_is_branch (env : Env) (body : Body) (hc : HdrCid → Bytes) (cfgVer : Nat → Nat) (hdrOf : Nat → HdrCid)
    (useMempool : Bool) (hitOf : Nat → Tx → Bool) (i : Nat) (best : HdrCid) (W W' : World) (blocks : List (List Tx))
    (hlog : List (Nat × LogEntry))
    (h : runChain H Verify env body hc cfgVer hdrOf useMempool hitOf i best W blocks = some (W', hlog)) :
    runBranch H Verify env body (fun j => hc (hdrOf j)) useMempool hitOf i W blocks = some (W', hlog.map (·.2)) :=
  (runChainWith_ok H Verify (fun _ _ _ _ ha => (acceptHeader_iff.mp ha).1) h).1

/-- **chain_id_bound.** Along any chain of blocks the node connects on top of a block carrying chain id `best` (in
particular: from genesis), every executed transaction sits in the block it is logged for and its `ChainIdHash` is the
hash `hc` of THIS chain's identifier (`best.rest`: magic, net flags, consensus) in the hard-fork version the node's own
configuration gives for that block's number (`cfgVer j`) — whatever the block's producer wrote into the header. -/
theorem chain_id_bound (env : Env) (body : Body) (hc : HdrCid → Bytes) (cfgVer : Nat → Nat) (hdrOf : Nat → HdrCid)
    (useMempool : Bool) (hitOf : Nat → Tx → Bool) (i : Nat) (best : HdrCid) (W W' : World) (blocks : List (List Tx))
    (hlog : List (Nat × LogEntry))
    (h : runChain H Verify env body hc cfgVer hdrOf useMempool hitOf i best W blocks = some (W', hlog)) :
    ∀ p ∈ hlog, (∃ b, blocks[p.1 - i]? = some b ∧ p.2.tx ∈ b) ∧ hdrOf p.1 = ⟨cfgVer p.1, best.rest⟩ ∧
      p.2.tx.chainIdHash = hc ⟨cfgVer p.1, best.rest⟩ := by
  intro p hp
  obtain ⟨_, _, hin, hv, ⟨prev, hprev, ha⟩⟩ :=
    (runChainWith_ok H Verify (fun _ _ _ _ ha => (acceptHeader_iff.mp ha).1) h).2 p hp
  obtain ⟨hrest, hver⟩ := acceptHeader_iff.mp ha
  have hh : hdrOf p.1 = ⟨cfgVer p.1, best.rest⟩ := by
    cases hq : hdrOf p.1 with
    | mk v r =>
      rw [hq] at hrest hver
      simp only at hrest hver
      rw [hver, hrest, hprev]
  refine ⟨hin, hh, ?_⟩
  rw [← hh]
  exact (chainid_bound H _ _ _ _ hv).1

/-- Without the version comparison (the code before bd63ef2d: `ValidChildOf` only) the statement is false: the
transactions of an accepted block are bound to whatever version the block's producer put into the header. -/
theorem chain_id_bound_unchecked_partial (env : Env) (body : Body) (hc : HdrCid → Bytes) (cfgVer : Nat → Nat) (hdrOf : Nat → HdrCid)
    (useMempool : Bool) (hitOf : Nat → Tx → Bool) (i : Nat) (best : HdrCid) (W W' : World) (blocks : List (List Tx))
    (hlog : List (Nat × LogEntry))
    (h : runChainWith H Verify acceptHeaderUnchecked env body hc cfgVer hdrOf useMempool hitOf i best W blocks = some (W', hlog)) :
    ∀ p ∈ hlog, (hdrOf p.1).rest = best.rest ∧ p.2.tx.chainIdHash = hc (hdrOf p.1) := by
  have hacc : ∀ cv b n h, acceptHeaderUnchecked cv b n h = true → h.rest = b.rest := by
    intro cv b n h ha
    unfold acceptHeaderUnchecked validChildOf at ha
    exact (beq_iff_eq.mp ha).symm
  intro p hp
  obtain ⟨_, _, _, hv, ⟨prev, hprev, ha⟩⟩ := (runChainWith_ok H Verify hacc h).2 p hp
  exact ⟨by rw [hacc _ _ _ _ ha, hprev], (chainid_bound H _ _ _ _ hv).1⟩

/-! ### 10. The pool as trust anchor (repair d1ee2c8f) and the node's own blocks (repair 7dc29266) -/

/-- **pool_invariant.** Whatever a node's pool holds — after any history of submissions, re-offers after reorganisations,
start-up loads of the dump file and removals — went through the pool's gate when it came in. -/
theorem pool_invariant (env : Env) (extra : World → Bytes → Tx → Option Nat) (P : List PEntry)
    (h : PoolReach H Verify env extra P) : ∀ e ∈ P, Gated H Verify env e := by
  induction h with
  | empty => intro e he; cases he
  | @offer P W acceptCid t acc _ hadm ih =>
    intro e he
    rcases List.mem_append.mp he with h1 | h2
    · exact ih e h1
    · simp only [List.mem_singleton] at h2
      subst h2
      obtain ⟨_, hv, hver, hacc, _⟩ := pool_gate H Verify env acceptCid W _ extra t acc hadm
      exact ⟨acceptCid, W.led.names, hv, hver, hacc⟩
  | @load P W acceptCid t acc _ hadm ih =>
    intro e he
    rcases List.mem_append.mp he with h1 | h2
    · exact ih e h1
    · simp only [List.mem_singleton] at h2
      subst h2
      obtain ⟨_, hv, hver, hacc, _⟩ := pool_gate H Verify env acceptCid W _ extra t acc hadm
      exact ⟨acceptCid, W.led.names, hv, hver, hacc⟩
  | drop keep _ ih =>
    intro e he
    exact ih e (List.mem_filter.mp he).1

/-- **shortcut_sound.** The mempool short-cut of `sig_gate` resolved against a pool with ANY history: a transaction of an
accepted block either had `Verify` evaluated to true on (its sender key / the owner of its sender name, its signing
digest, its signature) by the block-level verifier, or — address senders, node consulting its pool — the pool holds an
entry with the same carried hash that passed the pool's gate; that entry's digest input is then either the very same
byte string as the transaction's, or the two are an explicit SHA-256 collision. -/
theorem shortcut_sound (env : Env) (extra : World → Bytes → Tx → Option Nat) (P : List PEntry)
    (hP : PoolReach H Verify env extra P) (body : Body) (cid : Bytes) (useMempool : Bool)
    (W W' : World) (txs : List Tx) (log : List LogEntry)
    (h : execBlock H Verify env body cid useMempool (fun t => inPool P t.hash) W txs = .ok (W', log)) :
    ∀ t ∈ txs, Verify (blockKey W.led.names t) (H (signInput t)) t.sign = true ∨
      (t.named = false ∧ ∃ e ∈ P, e.tx.hash = t.hash ∧ Gated H Verify env e ∧
        (hashInput e.tx = hashInput t ∨ Collision H (hashInput e.tx) (hashInput t))) := by
  intro t ht
  obtain ⟨⟨_, hor⟩, hv⟩ := sig_gate H Verify env body cid useMempool _ W W' txs log h t ht
  rcases hor with hver | ⟨_, hnn, hhit⟩
  · exact Or.inl hver
  · right
    refine ⟨hnn, ?_⟩
    unfold inPool at hhit
    obtain ⟨e, he, heq⟩ := List.any_eq_true.mp hhit
    have hhash : e.tx.hash = t.hash := by simpa using heq
    have hg := pool_invariant H Verify env extra P hP e he
    refine ⟨e, he, hhash, hg, ?_⟩
    obtain ⟨cid', ns, hve, _, _⟩ := hg
    have h1 := (chainid_bound H _ _ _ _ hv).2
    have h2 := (chainid_bound H _ _ _ _ hve).2
    by_cases hin : hashInput e.tx = hashInput t
    · exact Or.inl hin
    · exact Or.inr ⟨hin, by rw [← h1, ← h2, hhash]⟩

/-- The short-cut for 33-byte senders, without any assumption on signature lengths: the SAME BYTE STRING the block's
transaction hashes to its identifier (`hashInput t` = signing input followed by the signature) was authorised by the key
of `t`'s own sender account — as the pooled entry's split of these bytes into signed part and signature (DER signatures
are 70–72 bytes and the digest input has no length prefixes, so only equal signature lengths give `Verify` on `t`'s own
split: `sig_gate_hit`). -/
theorem sig_gate_hit_bytes (mx : Nat) (cid cid' : Bytes) (pub : Bool) (ns : Names) (t p : Tx)
    (ht : validate H mx cid pub t = none) (hp : validate H mx cid' pub p = none)
    (hpv : Verify (poolKey ns p) (H (signInput p)) p.sign = true)
    (hhit : p.hash = t.hash)
    (ha : t.account.length = 33) (ha' : p.account.length = 33) :
    Collision H (hashInput p) (hashInput t) ∨
    (signInput p ++ p.sign = signInput t ++ t.sign ∧ Verify t.account (H (signInput p)) p.sign = true) := by
  have h1 := (chainid_bound H mx cid pub t ht).2
  have h2 := (chainid_bound H mx cid' pub p hp).2
  by_cases heq : hashInput p = hashInput t
  · right
    have hacc := account_of_hashInput heq ha' ha
    have hk : poolKey ns p = t.account := by
      unfold poolKey Tx.named
      rw [if_neg (by simp [ha', nameLength]), hacc]
    rw [hk] at hpv
    refine ⟨?_, hpv⟩
    rw [← hashInput_eq, ← hashInput_eq]
    exact heq
  · left
    exact ⟨heq, by rw [← h1, ← h2, hhit]⟩

/-- **produced_block_authorised.** The node's OWN block (block factory: candidates from the pool, `executeTx` with the
verified account, committed without any block-level signature check): every transaction in it is an entry of the pool
— so it passed the pool's gate (`Validate`, `Verify` on the key it is filed under) —, passed `Validate` again for the
block's chain-id hash, and, for a name sender, the address the pool verified the signature against is — at THIS
attempt, every attempt (repair 7dc29266) — still the account the name resolves to, the one whose nonce and balance it uses. -/
theorem produced_block_authorised (env : Env) (extra : World → Bytes → Tx → Option Nat) (P : List PEntry)
    (hP : PoolReach H Verify env extra P) (body : Body) (cid : Bytes) (W : World) (cands : List PEntry)
    (hc : ∀ p ∈ cands, p ∈ P) :
    ∀ e ∈ (produceBlock H env body cid W cands).2, ∃ p ∈ P, p.tx = e.tx ∧ Gated H Verify env p ∧
      validate H env.maxAER cid env.isPublic e.tx = none ∧
      (e.tx.named = true → p.acc = e.account) ∧
      (e.tx.named = false → Verify e.tx.account (H (signInput e.tx)) e.tx.sign = true) := by
  intro e he
  obtain ⟨p, hp, htx, hv, hver, _⟩ := (gatherTxs_ok H (env := env) (body := body) (cid := cid) (cands := cands) (W := W)).2 e he
  have hg := pool_invariant H Verify env extra P hP p (hc p hp)
  refine ⟨p, hc p hp, htx, hg, hv, ?_, ?_⟩
  · intro hn
    have hvo : verifiedOf p = p.acc := by unfold verifiedOf; rw [htx, hn]; rfl
    rw [hvo] at hver
    rcases hver with hnil | hacc
    · -- an empty list account: the pool files under the sender field when there is no verified account, and `Validate`
      -- refuses an empty sender field
      exfalso
      obtain ⟨_, ns, _, _, hacc⟩ := hg
      have hne : e.tx.account ≠ [] := by
        intro hemp
        unfold validate at hv
        rw [if_neg] at hv
        · rw [if_neg] at hv
          · rw [if_pos (by simp [hemp])] at hv; cases hv
          · intro hs; rw [if_pos hs] at hv; cases hv
        · intro hcid; rw [if_pos hcid] at hv; cases hv
      rw [hnil, htx, hn] at hacc
      simp only [if_true] at hacc
      unfold listAccount at hacc
      split at hacc
      · exact hne hacc.symm
      · rename_i hk
        rw [← hacc] at hk
        exact hk rfl
    · exact hacc
  · intro hn
    obtain ⟨_, ns, _, hverify, _⟩ := hg
    have : poolKey ns p.tx = e.tx.account := by unfold poolKey; rw [htx, hn]; rfl
    rw [this, htx] at hverify
    exact hverify

/-- The nonce bookkeeping of an own block is that of any block: its log is a nonce trace from the parent's nonces
(so `Lemmas.trace_seq` / `trace_no_repeat` apply to chains containing own blocks as well). -/
theorem produced_nonces_trace (env : Env) (body : Body) (cid : Bytes) (W : World) (cands : List PEntry) :
    Trace W.nonce (produceBlock H env body cid W cands).2 (produceBlock H env body cid W cands).1.nonce :=
  (gatherTxs_ok H (env := env) (body := body) (cid := cid) (cands := cands) (W := W)).1

/-! ### 10b. A node's main chain: any mix of received and own blocks -/

/-- **node_nonces_seq.** Along the main chain of a node — every block either received (header check, execution, signature
verdict) or produced by the node itself from its pool — the nonces account `a` executed are `n+1, …, n+k` (from genesis:
1, 2, 3, …) and its state nonce afterwards is `n+k`. -/
theorem node_nonces_seq (env : Env) (body : Body) (hc : HdrCid → Bytes) (cfgVer : Nat → Nat) (i : Nat) (best : HdrCid)
    (W W' : World) (steps : List NodeStep) (log : List LogEntry)
    (h : runNode H Verify env body hc cfgVer i best W steps = some (W', log))
    (a : Bytes) (hb : W.nonce a + log.length < 2 ^ 64) :
    noncesOf a log = List.range' (W.nonce a + 1) (noncesOf a log).length ∧
    W'.nonce a = W.nonce a + (noncesOf a log).length :=
  trace_seq (runNode_ok H Verify h).1 a hb

/-- **node_chain_id_bound.** … and every executed transaction, in received and own blocks alike, is bound to the hash of
this chain's identifier in the version the node is configured with for some block number of that chain. -/
theorem node_chain_id_bound (env : Env) (body : Body) (hc : HdrCid → Bytes) (cfgVer : Nat → Nat) (i : Nat) (best : HdrCid)
    (W W' : World) (steps : List NodeStep) (log : List LogEntry)
    (h : runNode H Verify env body hc cfgVer i best W steps = some (W', log)) :
    ∀ e ∈ log, ∃ j, i ≤ j ∧ j < i + steps.length ∧ e.tx.chainIdHash = hc ⟨cfgVer j, best.rest⟩ ∧
      e.tx.hash = H (hashInput e.tx) := by
  intro e he
  obtain ⟨j, hlo, hhi, hv⟩ := (runNode_ok H Verify h).2 e he
  exact ⟨j, hlo, hhi, (chainid_bound H _ _ _ _ hv).1, (chainid_bound H _ _ _ _ hv).2⟩

/-- **node_no_hash_twice.** … and the same carried hash at two positions of the node's log means an explicit collision of
the two digest inputs or the same bytes executed for two different accounts (name senders only, cf. `no_hash_twice_addr`). -/
theorem node_no_hash_twice (env : Env) (body : Body) (hc : HdrCid → Bytes) (cfgVer : Nat → Nat) (k : Nat) (best : HdrCid)
    (W W' : World) (steps : List NodeStep) (log : List LogEntry)
    (h : runNode H Verify env body hc cfgVer k best W steps = some (W', log))
    (hb : ∀ a, W.nonce a + log.length < 2 ^ 64)
    (i j : Nat) (hij : i < j) (hj : j < log.length)
    (hh : (log[i]'(by omega)).tx.hash = (log[j]'hj).tx.hash) :
    Collision H (hashInput (log[i]'(by omega)).tx) (hashInput (log[j]'hj).tx) ∨
    (hashInput (log[i]'(by omega)).tx = hashInput (log[j]'hj).tx ∧ (log[i]'(by omega)).account ≠ (log[j]'hj).account) := by
  obtain ⟨htr, _⟩ := runNode_ok H Verify h
  have hi : i < log.length := by omega
  obtain ⟨_, _, _, _, h1⟩ := node_chain_id_bound H Verify env body hc cfgVer k best W W' steps log h _ (List.getElem_mem hi)
  obtain ⟨_, _, _, _, h2⟩ := node_chain_id_bound H Verify env body hc cfgVer k best W W' steps log h _ (List.getElem_mem hj)
  by_cases heq : hashInput (log[i]'hi).tx = hashInput (log[j]'hj).tx
  · right
    refine ⟨heq, ?_⟩
    intro hacc
    have hn := nonce_of_hashInput heq (trace_nonce_lt htr _ (List.getElem_mem hi)) (trace_nonce_lt htr _ (List.getElem_mem hj))
    exact trace_no_repeat htr hb i j hij hj hacc hn
  · left
    exact ⟨heq, by rw [← h1, ← h2, hh]⟩

/-! ### 11. Non-vacuity: a concrete branch (tests on sample values, identity hash, ideal signatures) -/

-- evaluating the model on sample values by `decide` needs a deeper elaborator recursion limit (not a proof device)
set_option maxRecDepth 100000

private def kA : Bytes := List.replicate 33 2
private def kB : Bytes := List.replicate 33 3
private def cid0 : Bytes := [9, 9]
private def envT : Env := zeroFeeEnv false (10 ^ 30)

/-- a transfer of `amt` from `a` to `b` with nonce `n`, signed with key `k` -/
private def xfer (a b k : Bytes) (n amt : Nat) : Tx :=
  let t : Tx := { nonce := n, account := a, recipient := b, amount := [UInt8.ofNat amt], payload := [], gasLimit := 0, gasPrice := [],
                  type := 4, chainIdHash := cid0, sign := [], hash := [], size := 100, gov := none, cmd := .none }
  let t1 := { t with sign := sigEnc k (signInput t) }
  { t1 with hash := hashInput t1 }

private def w0 : World :=
  { nonce := fun _ => 0, led := { bal := fun a => if a = kA ∨ a = kB then 1000 else 0, names := fun _ => none, pend := [], creator := fun _ => [] } }

private def runT (cid : Bytes) (useMempool : Bool) (W : World) (bs : List (List Tx)) :=
  runBranch id idealVerify envT stdBody (fun _ => cid) useMempool (fun _ _ => useMempool) 0 W bs

private def okOf {ε α : Type} : Except ε α → Option α
  | .ok a => some a
  | .error _ => none
private def errOf {ε α : Type} : Except ε α → Option ε
  | .ok _ => none
  | .error e => some e

/-- The hypotheses of `executed_nonces_seq` / `no_hash_twice` / `sig_gate` are satisfiable: a three-block branch with
three signed transfers is valid; A executed nonces [1,2], B executed [1], and their state nonces are 2 and 1. -/
example : (runT cid0 false w0 [[xfer kA kB kA 1 5, xfer kB kA kB 1 7], [xfer kA kB kA 2 1], []]).map
    (fun r => (noncesOf kA r.2, noncesOf kB r.2, r.1.nonce kA, r.1.nonce kB)) = some ([1, 2], [1], 2, 1) := by
  decide

/-- ... and the gates bite: a replayed transaction, a transaction signed by the wrong key, a nonce gap, a transaction made
for another chain id hash: none of these branches is valid. -/
example : (runT cid0 false w0 [[xfer kA kB kA 1 5], [xfer kA kB kA 1 5]]).isNone = true := by decide
example : (runT cid0 false w0 [[xfer kA kB kB 1 5]]).isNone = true := by decide
example : (runT cid0 false w0 [[xfer kA kB kA 2 5]]).isNone = true := by decide
example : (runT [8] false w0 [[xfer kA kB kA 1 5]]).isNone = true := by decide

/-- A name sender (test): name "n" registered with owner and destination A. Signed by A it consumes A's nonce; signed by B
the block is refused — also when a transaction with that hash is pooled and the node consults the pool (`hit = true`). -/
private def wN : World := { w0 with led := { w0.led with names := fun n => if n = [110] then some ⟨kA, kA⟩ else none } }

example : (runT cid0 true wN [[xfer [110] kB kA 1 5]]).map (fun r => (r.1.nonce kA, noncesOf kA r.2)) = some (1, [1]) := by decide
example : (runT cid0 true wN [[xfer [110] kB kB 1 5]]).isNone = true := by decide

/-- The pool's gate (test): admitted with nonce 1 or (as an orphan) 3; refused when replayed after execution (state nonce 1),
when signed by another key, and when made for another chain id hash. -/
example : okOf (poolAdmit id idealVerify envT cid0 w0 (fun _ => false) stdExtra (xfer kA kB kA 1 5)) = some kA ∧
    okOf (poolAdmit id idealVerify envT cid0 w0 (fun _ => false) stdExtra (xfer kA kB kA 3 5)) = some kA := by decide
example : errOf (poolAdmit id idealVerify envT cid0 { w0 with nonce := fun _ => 1 } (fun _ => false) stdExtra (xfer kA kB kA 1 5))
    = some (.s .nonceLow) := by decide
example : errOf (poolAdmit id idealVerify envT cid0 w0 (fun _ => false) stdExtra (xfer kA kB kB 1 5)) = some .sig := by decide
example : errOf (poolAdmit id idealVerify envT [8] w0 (fun _ => false) stdExtra (xfer kA kB kA 1 5)) = some (.v .chainId) := by decide

/-! ### 12. The three repairs are needed (tests on sample values: the unrepaired variants break the statements) -/

private def hcT (c : HdrCid) : Bytes := le 4 c.version ++ c.rest
private def gT : HdrCid := ⟨0, [7]⟩
/-- a transfer bound to the chain id hash `c` -/
private def xferC (c : Bytes) (a b k : Bytes) (n amt : Nat) : Tx :=
  let t : Tx := { nonce := n, account := a, recipient := b, amount := [UInt8.ofNat amt], payload := [], gasLimit := 0, gasPrice := [],
                  type := 4, chainIdHash := c, sign := [], hash := [], size := 100, gov := none, cmd := .none }
  let t1 := { t with sign := sigEnc k (signInput t) }
  { t1 with hash := hashInput t1 }

private def cidsOf (r : Option (World × List (Nat × LogEntry))) : Option (List (Nat × Bytes)) :=
  r.map (fun x => x.2.map (fun p => (p.1, p.2.tx.chainIdHash)))

/-- Hypotheses of `chain_id_bound` are satisfiable (node configured with version 5 everywhere, block 1 carries version 5
and a transfer bound to hash(chain id ‖ 5)); the same block with a version-4 header and a transfer bound to
hash(chain id ‖ 4) is refused … -/
example : cidsOf (runChain id idealVerify envT stdBody hcT (fun _ => 5) (fun _ => ⟨5, [7]⟩) false (fun _ _ => false) 1 gT w0
    [[xferC (hcT ⟨5, [7]⟩) kA kB kA 1 5]]) = some [(1, hcT ⟨5, [7]⟩)] := by decide
example : (runChain id idealVerify envT stdBody hcT (fun _ => 5) (fun _ => ⟨4, [7]⟩) false (fun _ _ => false) 1 gT w0
    [[xferC (hcT ⟨4, [7]⟩) kA kB kA 1 5]]).isNone = true := by decide

/-- … **header_version_check_needed**: with the header check as it was before bd63ef2d (`ValidChildOf` only) it is
accepted, and the executed transaction is bound to another version of the chain id than the node's configuration
prescribes for block 1: `chain_id_bound` fails for `runChainWith acceptHeaderUnchecked`. -/
theorem header_version_check_needed :
    cidsOf (runChainWith id idealVerify acceptHeaderUnchecked envT stdBody hcT (fun _ => 5) (fun _ => ⟨4, [7]⟩) false
      (fun _ _ => false) 1 gT w0 [[xferC (hcT ⟨4, [7]⟩) kA kB kA 1 5]]) = some [(1, hcT ⟨4, [7]⟩)] ∧
    hcT ⟨4, [7]⟩ ≠ hcT ⟨(fun _ => 5) 1, gT.rest⟩ := by decide

/-- another chain's id (other `rest`) is refused with or without the version check -/
example : (runChainWith id idealVerify acceptHeaderUnchecked envT stdBody hcT (fun _ => 5) (fun _ => ⟨5, [8]⟩) false
    (fun _ _ => false) 1 gT w0 [[xferC (hcT ⟨5, [8]⟩) kA kB kA 1 5]]).isNone = true := by decide

/-- **load_verify_needed**: a dump record handled as before d1ee2c8f (`put` without `verifyTx`) enters the pool although
it is signed by another key than its sender's and bound to another chain id hash: such an entry is not `Gated`, so
`pool_invariant` fails for a pool with the unrepaired `load`. The repaired `poolLoad` refuses both. -/
theorem load_verify_needed :
    okOf (poolLoadUnverified envT w0 (fun _ => false) stdExtra (xfer kA kB kB 1 5)) = some kA ∧
    idealVerify kA (signInput (xfer kA kB kB 1 5)) (xfer kA kB kB 1 5).sign = false ∧
    okOf (poolLoadUnverified envT w0 (fun _ => false) stdExtra (xferC [8] kA kB kA 1 5)) = some kA ∧
    errOf (poolLoad id idealVerify envT cid0 w0 (fun _ => false) stdExtra (xfer kA kB kB 1 5)) = some .sig ∧
    errOf (poolLoad id idealVerify envT cid0 w0 (fun _ => false) stdExtra (xferC [8] kA kB kA 1 5)) = some (.v .chainId) := by
  decide

/-- The node's own block (test): name "n" was registered to A when the pool admitted a transfer in that name signed by A
(filed under A, verified account A); meanwhile the name moved to B. The block factory refuses the entry — at every
attempt — while an entry whose verified account has been dropped (what `executeTx` did to the pool's object before
7dc29266 at the first attempt) executes on B's account: **verified_account_needed**. -/
private def wNB : World := { w0 with led := { w0.led with names := fun n => if n = [110] then some ⟨kB, kB⟩ else none } }
theorem verified_account_needed :
    (produceBlock id envT stdBody cid0 wNB [⟨xfer [110] kA kA 1 5, kA⟩]).2 = [] ∧
    ((produceBlock id envT stdBody cid0 wNB [⟨xfer [110] kA kA 1 5, kA⟩, ⟨xfer [110] kA kA 1 5, kA⟩]).2 = []) ∧
    (executeTx id envT stdBody cid0 wNB [] (xfer [110] kA kA 1 5)).toOption.map (fun r => (r.2.account, r.1.nonce kB)) = some (kB, 1) := by
  decide

/-- A node's chain mixing a received block and an own block (test): the hypotheses of the `node_*` theorems are satisfiable. -/
example : (runNode id idealVerify envT stdBody hcT (fun _ => 5) 1 gT w0
    [.recv ⟨5, [7]⟩ [xferC (hcT ⟨5, [7]⟩) kA kB kA 1 5] false (fun _ => false),
     .own [⟨xferC (hcT ⟨5, [7]⟩) kA kB kA 2 5, kA⟩, ⟨xferC (hcT ⟨5, [7]⟩) kB kA kB 1 7, kB⟩]]).map
    (fun r => (noncesOf kA r.2, noncesOf kB r.2, r.1.nonce kA)) = some ([1, 2], [1], 2) := by decide

/-- … and with the name still A's the factory includes it (the hypotheses of `produced_block_authorised` are satisfiable). -/
example : ((produceBlock id envT stdBody cid0 wN [⟨xfer [110] kB kA 1 5, kA⟩, ⟨xfer kB kA kB 1 7, kB⟩]).2.map
    (fun e => (e.account, e.tx.nonce))) = [(kA, 1), (kB, 1)] := by decide

end Aergo.Props.C04
