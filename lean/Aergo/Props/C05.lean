/-
C05 — Chain database consistency after any history of block arrivals.

"After any sequence of block arrivals (in order, out of order as orphans, competing forks,
reorganisations, invalid blocks, duplicates) the node's chain database is coherent: the best block
is the tip of a parent-hash-linked path down to genesis, the height index maps each height on that
path to exactly that block, every transaction of a main-chain block is found by hash at its block
and position while transactions only on abandoned branches are not reported as confirmed, receipts
exist for every main-chain block that has transactions, and the current state root equals the best
block's state root."

The theorems are about the model `Aergo.Chain` (Model/Chain.lean), a transcription of
`ChainService.addBlock` and everything below it (chain processor loop, orphan pool, errored-blocks
cache, `reorg` = gather / consensus veto / rollback / rollforward / swapChain); the harness `c05`
runs a real `ChainService` and the model on the same arrivals on every check and compares, after
every arrival, the whole observable state.

Vocabulary (Lemmas/Chain.lean). `Inv exec txsOf U g N` is the invariant: clause (1) `best_main`,
`best_no`, `chain`, `gen`; clause (2) `chain`, `above`; clause (3) `txfound`, `txsound`; clause (4)
`rcpt`; clause (5) `root`; clause (6) `marker`; the remaining fields (`inU`, `poolU`, `executed`,
`ghost`) are what the induction needs. Parameters:

* `exec : Root → Block → Option Root` — block execution, abstract (C01–C03 are about it). The only
  thing assumed is `ExecLaw exec txsOf`: a block executes only if it is duplicate-free and none of its
  transactions has been executed on the way to the state it runs on (the nonce rule, C04), where
  `txsOf root` is a ghost "hashes executed so far". Without it clause (3) is false for the model and
  the code alike (a replayed hash would be indexed at two blocks).
* `U : Id → Option Block` — "the block with this identifier". An arrival `b` is *honest* when
  `U b.id = some b`, which is what a collision-free digest of the content gives. The code never
  recomputes the identifier it is handed (DESIGN §5 lead 5, C18's subject); `forged_id_breaks_index`
  below shows on a concrete history that the hypothesis cannot be dropped.

No bound on the number of arrivals, branches, heights, pool sizes.

Two defects the check found on the pinned tree are repaired in /repo and modelled in their repaired
form: a failed roll-forward left the state root on the side branch (9256a8e2; clause (5)), and a block
numbered 0 whose parent is the best block was connected as best block (dd88a2dd; clauses (1),(2)).
-/
import Aergo.Lemmas.Chain

namespace Aergo.Props.C05
open Aergo.Chain

variable {exec : Nat → Block → Option Nat} {txsOf : Nat → List Nat} {U : Nat → Option Block} {g : Block}

/-- **The invariant holds on a fresh node** (genesis block only, any pool capacities). -/
theorem inv_init (hg0 : g.no = 0) (hgU : U g.id = some g) (oc bc : Nat) :
    Inv exec txsOf U g (genesis g oc bc) := by
  have hbl : ∀ i b, (genesis g oc bc).blocks i = some b → i = g.id ∧ b = g := by
    intro i b hb
    simp only [genesis, upd_apply] at hb
    split at hb
    · next hi => injection hb with hb; exact ⟨hi, hb.symm⟩
    · cases hb
  have hby : ∀ k i, (genesis g oc bc).byNo k = some i → k = 0 := by
    intro k i hk
    simp only [genesis, upd_apply] at hk
    split at hk
    · assumption
    · cases hk
  have hgm : onMain (genesis g oc bc) g := ⟨by simp [genesis, hg0], by simp [genesis]⟩
  have only : ∀ x, onMain (genesis g oc bc) x → x = g := fun x hx => (hbl _ _ hx.2).2
  refine ⟨?_, ?_, hgm, hg0, ?_, ?_, ⟨hgm, hg0⟩, ?_, ?_, ?_, ?_, ?_, rfl, rfl⟩
  · intro i b hb; obtain ⟨rfl, rfl⟩ := hbl i b hb; exact hgU
  · intro e he; cases he
  · intro k hk
    have : k = 0 := by simpa [genesis] using hk
    subst this
    exact ⟨g, hgm, hg0, fun h => absurd h (Nat.lt_irrefl 0)⟩
  · intro k hk
    simp only [genesis] at hk ⊢
    exact upd_other _ _ (by omega)
  · intro b p hb hp hn; rw [only b hb, only p hp] at hn; omega
  · intro b b' _ hb' _ hpos; rw [only b' hb', hg0] at hpos; omega
  · intro b hb hpos; rw [only b hb, hg0] at hpos; omega
  · intro t bid i ht; simp [genesis] at ht
  · intro b hb hpos; rw [only b hb, hg0] at hpos; omega

/-- **Every arrival preserves the invariant** — a valid child of the best block, an invalid one (execution fails,
wrong claimed root, refused by the consensus, wrong number), a duplicate, a block whose parent is unknown (parked,
and connected later together with everything parked under it), a block of a side branch, and an arrival that
triggers a reorganisation, whether that succeeds, is vetoed below the last irreversible block, or fails half-way. -/
theorem inv_addBlock (hE : ExecLaw exec txsOf) (hU : UKeyed U) (N : Node) (b : Block)
    (h : Inv exec txsOf U g N) (hb : U b.id = some b) : Inv exec txsOf U g (addBlock exec N b).2 :=
  Inv.addBlock hE hU h hb

/-- The invariant does not depend on what the consensus reports as last irreversible height. -/
theorem inv_setLib (N : Node) (l : Nat) (h : Inv exec txsOf U g N) : Inv exec txsOf U g { N with lib := l } :=
  Inv.same h rfl rfl rfl rfl rfl rfl rfl rfl rfl

/-- **After any history of arrivals** (any order, any repetitions, any mix of the cases above) the invariant holds. -/
theorem inv_history (hE : ExecLaw exec txsOf) (hU : UKeyed U) (hg0 : g.no = 0) (hgU : U g.id = some g) (oc bc : Nat)
    (bs : List Block) (hbs : ∀ b ∈ bs, U b.id = some b) :
    Inv exec txsOf U g (bs.foldl (fun N b => (addBlock exec N b).2) (genesis g oc bc)) := by
  have key : ∀ (bs : List Block) (N : Node), Inv exec txsOf U g N → (∀ b ∈ bs, U b.id = some b) →
      Inv exec txsOf U g (bs.foldl (fun N b => (addBlock exec N b).2) N) := by
    intro bs
    induction bs with
    | nil => intro N h _; exact h
    | cons b bs ih =>
      intro N h hb
      exact ih _ (inv_addBlock hE hU N b h (hb b (by simp))) (fun x hx => hb x (by simp [hx]))
  exact key bs _ (inv_init hg0 hgU oc bc) hbs

/-! ## The clauses, as the query surface shows them -/

/-- **(1)+(2)** Block by number: every height up to the best height answers with a block of that height whose parent
is the answer one below; the best height answers with the best block, height 0 with genesis, and nothing above. -/
theorem path_to_genesis (N : Node) (h : Inv exec txsOf U g N) :
    blockByNo N N.latest = some N.best ∧ blockByNo N 0 = some g ∧
    (∀ k, k ≤ N.latest → ∃ b, blockByNo N k = some b ∧ b.no = k ∧
        (0 < k → ∃ p, blockByNo N (k - 1) = some p ∧ b.parent = p.id ∧ p.no + 1 = b.no)) ∧
    (∀ k, N.latest < k → N.byNo k = none ∧ blockByNo N k = none) := by
  have bm : ∀ x, onMain N x → blockByNo N x.no = some x := fun x hx => by
    unfold blockByNo; rw [hx.1]; exact hx.2
  refine ⟨?_, ?_, ?_, ?_⟩
  · rw [← h.best_no]; exact bm _ h.best_main
  · rw [← h.gen.2]; exact bm _ h.gen.1
  · intro k hk
    obtain ⟨b, hb, hbn, hp⟩ := h.chain k hk
    refine ⟨b, by rw [← hbn]; exact bm b hb, hbn, fun hpos => ?_⟩
    obtain ⟨p, hpm, hpn, _⟩ := h.chain (k - 1) (by omega)
    refine ⟨p, by rw [← hpn]; exact bm p hpm, ?_, by omega⟩
    have h1 := hp hpos
    rw [← hpn, hpm.1] at h1
    injection h1 with h1; exact h1.symm
  · intro k hk
    have := h.above k hk
    exact ⟨this, by unfold blockByNo; rw [this]; rfl⟩

/-- **(3)** A transaction of a main-chain block is reported confirmed at exactly that block and position. -/
theorem tx_found (N : Node) (h : Inv exec txsOf U g N) (b : Block) (hb : onMain N b) (hpos : 0 < b.no)
    (i : Nat) (hi : i < b.txs.length) : getTx N b.txs[i] = .confirmed b.id i := by
  unfold getTx
  rw [h.txfound b hb hpos i hi]
  simp only [hb.2]
  have : ¬ (i ≥ b.txs.length) := by omega
  simp [this, hb.1]

/-- **(3)** Whatever is reported as confirmed is in a main-chain block, at the reported position. -/
theorem tx_confirmed_sound (hU : UKeyed U) (N : Node) (h : Inv exec txsOf U g N) (t bid i : Nat)
    (ht : getTx N t = .confirmed bid i) :
    ∃ b, onMain N b ∧ b.id = bid ∧ ∃ hi : i < b.txs.length, b.txs[i] = t := by
  unfold getTx at ht
  split at ht
  · cases ht
  · next bid' i' hidx =>
    obtain ⟨c, hc, hi, hct⟩ := h.txsound t bid' i' hidx
    rw [hc] at ht
    simp only at ht
    split at ht
    · cases ht
    · split at ht
      · next hmain =>
        injection ht with h1 h2
        subst h1; subst h2
        have hid := Inv.keyed hU h hc
        exact ⟨c, ⟨hmain, by rw [hid]; exact hc⟩, hid, hi, hct⟩
      · cases ht

/-- **(3)** A transaction that is in no main-chain block (only on abandoned branches, or nowhere) is never reported
as confirmed. -/
theorem abandoned_not_confirmed (hU : UKeyed U) (N : Node) (h : Inv exec txsOf U g N) (t : Nat)
    (hnot : ∀ b, onMain N b → t ∉ b.txs) (bid i : Nat) : getTx N t ≠ .confirmed bid i := by
  intro hc
  obtain ⟨b, hb, _, hi, hbt⟩ := tx_confirmed_sound hU N h t bid i hc
  exact hnot b hb (hbt ▸ List.getElem_mem hi)

/-- **(4)** Receipts exist for every main-chain block that has transactions. -/
theorem receipts_exist (N : Node) (h : Inv exec txsOf U g N) (b : Block) (hb : onMain N b) (hpos : 0 < b.no)
    (hne : b.txs ≠ []) : N.rcpt b.id b.no = true := h.rcpt b hb hpos hne

/-- **(5)+(6)** The state root is the best block's state root; no reorganisation marker is left behind. -/
theorem root_is_best (N : Node) (h : Inv exec txsOf U g N) : N.sdbRoot = N.best.claimed ∧ N.marker = none :=
  ⟨h.root, h.marker⟩

/-! ## Non-vacuity and the limits of the hypotheses (tests on sample values) -/

section samples

/-- ids 1.. ; roots 100.. ; transactions 7,8,9 -/
def G : Block := { id := 1, parent := 0, no := 0, txs := [], claimed := 100 }
def A1 : Block := { id := 2, parent := 1, no := 1, txs := [7], claimed := 101, pre := 100, res := some 101 }
def A2 : Block := { id := 3, parent := 2, no := 2, txs := [8], claimed := 102, pre := 101, res := some 102 }
def B1 : Block := { id := 4, parent := 1, no := 1, txs := [9], claimed := 111, pre := 100, res := some 111 }
def B2 : Block := { id := 5, parent := 4, no := 2, txs := [7], claimed := 112, pre := 111, res := some 112 }
def B3 : Block := { id := 6, parent := 5, no := 3, txs := [], claimed := 112, pre := 112, res := some 112 }

def run (bs : List Block) : Node := bs.foldl (fun N b => (addBlock tableExec N b).2) (genesis G 100 128)

/-- Test (sample values): a reorganisation from `A1 A2` to `B1 B2 B3` delivered children first. The hypotheses of
`inv_history` are satisfiable on it (`U` = the table of these six blocks) and the observable state is as the clauses
say: best `B3`, index `G B1 B2 B3`, tx 9 at `B1:0`, tx 7 moved to `B2:0`, tx 8 (only on the abandoned branch) not found,
receipts for `B1`,`B2`, none left for `A1`, root = `B3`'s. -/
example :
    let N := run [A1, A2, B3, B2, B1]
    (N.best.id, N.latest, N.sdbRoot, N.marker.isSome) = (6, 3, 112, false) ∧
    ((List.range 5).map N.byNo) = [some 1, some 4, some 5, some 6, none] ∧
    (getTx N 9, getTx N 7, getTx N 8) = (.confirmed 4 0, .confirmed 5 0, .notFound) ∧
    (N.rcpt 4 1, N.rcpt 5 2, N.rcpt 2 1, N.rcpt 3 2) = (true, true, false, false) := by decide

/-- An execution that satisfies `ExecLaw` and is not trivial (test of satisfiability): transaction hashes are consumed in
order — the state root `r` has executed the hashes `0 … r-1`, a block executes iff it is empty or carries exactly the
next hash. -/
def seqExec (r : Nat) (b : Block) : Option Nat :=
  if b.txs = [r] then some (r + 1) else if b.txs = [] then some r else none

example : ExecLaw seqExec List.range := by
  refine ⟨?_, ?_, ?_⟩
  · intro r b r' h t ht
    unfold seqExec at h
    split at h
    · next hb => rw [hb] at ht; simp at ht; subst ht; simp
    · split at h
      · next hb => rw [hb] at ht; cases ht
      · cases h
  · intro r b r' h
    unfold seqExec at h
    split at h
    · next hb => rw [hb]; simp
    · split at h
      · next hb => rw [hb]; simp
      · cases h
  · intro r b r' h t ht
    unfold seqExec at h
    split at h
    · next hb =>
      injection h with h; subst h
      rw [hb] at ht; simp at ht ⊢; omega
    · split at h
      · next hb => injection h with h; subst h; rw [hb] at ht; simpa using ht
      · cases h

/-- **The honesty hypothesis cannot be dropped** (DESIGN §5 lead 5; test on sample values). `F` carries the identifier
of `A1` but another parent and number. It is parked as an orphan before `A1` arrives; `A1` and `A2` are connected; then
`F`'s claimed parent `Q` arrives on a side branch and the parked `F` is stored under `A1`'s identifier: the height index
still maps height 1 to that identifier, but the record there now has number 2 and a parent that is not the block at
height 0 (and the best block `A2`'s parent link leads to it).
The real chain service does the same (harness family `lead5`). -/
def Q : Block := { id := 9, parent := 1, no := 1, txs := [], claimed := 100, pre := 100, res := some 100 }
def F : Block := { id := 2, parent := 9, no := 2, txs := [], claimed := 100, pre := 100, res := some 100 }

theorem forged_id_breaks_index :
    let N := run [F, A1, A2, Q]
    N.best.id = 3 ∧ N.byNo 1 = some 2 ∧ (blockByNo N 1).map (fun b => (b.no, b.parent)) = some (2, 9) ∧
    N.byNo 0 = some 1 := by decide

end samples

end Aergo.Props.C05
