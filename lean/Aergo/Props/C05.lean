/-
C05 — Chain database consistency after any history of block arrivals.

"After any sequence of block arrivals (in order, out of order as orphans, competing forks,
reorganisations, invalid blocks, duplicates) the node's chain database is coherent: the best block
is the tip of a parent-hash-linked path down to genesis, the height index maps each height on that
path to exactly that block, every transaction of a main-chain block is found by hash at its block
and position while transactions only on abandoned branches are not reported as confirmed, receipts
exist for every main-chain block that has transactions, and the current state root equals the best
block's state root."

The theorems are about the model `Aergo.Chain` (Model/Chain.lean), a transcription of
`ChainService.addBlock` and everything below it (chain processor loop, orphan pool, errored-blocks
cache, `reorg` = gather / consensus veto / rollback / rollforward / swapChain); the harness `c05`
runs a real `ChainService` and the model on the same arrivals on every check and compares, after
every arrival, the whole observable state.

Vocabulary (Lemmas/Chain.lean). `Inv exec txsOf U g N` is the invariant: clause (1) `best_main`,
`best_no`, `chain`, `gen`; clause (2) `chain`, `above`; clause (3) `txfound`, `txsound`; clause (4)
`rcpt`; clause (5) `root`; clause (6) `marker`; the remaining fields (`inU`, `poolU`, `executed`,
`ghost`) are what the induction needs. Parameters:

* `exec : Root → Block → Option Root` — block execution, abstract (C01–C03 are about it). The only
  thing assumed is `ExecLaw exec txsOf`: a block executes only if it is duplicate-free and none of its
  transactions has been executed on the way to the state it runs on (the nonce rule, C04), where
  `txsOf root` is a ghost "hashes executed so far". Without it clause (3) is false for the model and
  the code alike (a replayed hash would be indexed at two blocks).
* `U : Id → Option Block` — "the block with this identifier". An arrival `b` is *honest* when
  `U b.id = some b`, which is what a collision-free digest of the content gives. The code never
  recomputes the identifier it is handed (DESIGN §5 lead 5, C18's subject); `forged_id_breaks_index`
  below shows on a concrete history that the hypothesis cannot be dropped.

No bound on the number of arrivals, branches, heights, pool sizes.

Two defects the check found on the pinned tree are repaired in /repo and modelled in their repaired
form: a failed roll-forward left the state root on the side branch (9256a8e2; clause (5)), and a block
numbered 0 whose parent is the best block was connected as best block (dd88a2dd; clauses (1),(2)).
-/
import Aergo.Lemmas.Chain
import Aergo.Lemmas.ChainLaw
import Aergo.Lemmas.ChainTable

namespace Aergo.Props.C05
open Aergo.Chain

variable {exec : Nat → Block → Option Nat} {txsOf : Nat → List Nat} {U : Nat → Option Block} {g : Block}

/-- **The invariant holds on a fresh node** (genesis block only, any pool capacities). -/
theorem inv_init (hg0 : g.no = 0) (hgU : U g.id = some g) (oc bc : Nat) :
    Inv exec txsOf U g (genesis g oc bc) :=
  Inv.init hg0 hgU oc bc

/-- **Every arrival preserves the invariant** — a valid child of the best block, an invalid one (execution fails,
wrong claimed root, refused by the consensus, wrong number), a duplicate, a block whose parent is unknown (parked,
and connected later together with everything parked under it), a block of a side branch, and an arrival that
triggers a reorganisation, whether that succeeds, is vetoed below the last irreversible block, or fails half-way. -/
theorem inv_addBlock (hE : ExecLaw exec txsOf) (hU : UKeyed U) (N : Node) (b : Block)
    (h : Inv exec txsOf U g N) (hb : U b.id = some b) : Inv exec txsOf U g (addBlock exec N b).2 :=
  Inv.addBlock hE hU h hb

/-- **Every block of the node's own block factory preserves the invariant** (the own-block path of
`ChainService.addBlock`, `usedBState ≠ nil`: connected with its block record, refused as stale when its parent is no
longer the best block, refused by the consensus or because its header does not match the produced state, duplicate). -/
theorem inv_addOwn (hE : ExecLaw exec txsOf) (hU : UKeyed U) (N : Node) (b : Block)
    (h : Inv exec txsOf U g N) (hb : U b.id = some b) : Inv exec txsOf U g (addOwn exec N b).2 :=
  Inv.addOwn hE hU h hb

/-- The invariant does not depend on what the consensus reports as last irreversible height. -/
theorem inv_setLib (N : Node) (l : Nat) (h : Inv exec txsOf U g N) : Inv exec txsOf U g { N with lib := l } :=
  Inv.same h rfl rfl rfl rfl rfl rfl rfl rfl rfl

/-- One arrival of any kind — a block from the network, a block of the node's own block factory, a move of the last
irreversible height — preserves the invariant. -/
theorem inv_arrive (hE : ExecLaw exec txsOf) (hU : UKeyed U) (N : Node) (a : Arrival)
    (h : Inv exec txsOf U g N) (ha : ∀ b, a.block? = some b → U b.id = some b) : Inv exec txsOf U g (arrive exec N a) := by
  cases a with
  | net b => exact inv_addBlock hE hU N b h (ha b rfl)
  | own b => exact inv_addOwn hE hU N b h (ha b rfl)
  | lib n => exact inv_setLib N n h

/-- **After any history of arrivals** (blocks from the network and blocks the node produced itself, in any order, with
any repetitions, any mix of the cases above, the last irreversible height moving in between) the invariant holds. -/
theorem inv_history (hE : ExecLaw exec txsOf) (hU : UKeyed U) (hg0 : g.no = 0) (hgU : U g.id = some g) (oc bc : Nat)
    (hist : List Arrival) (hbs : ∀ a ∈ hist, ∀ b, a.block? = some b → U b.id = some b) :
    Inv exec txsOf U g (runHistory exec g oc bc hist) := by
  have key : ∀ (hist : List Arrival) (N : Node), Inv exec txsOf U g N →
      (∀ a ∈ hist, ∀ b, a.block? = some b → U b.id = some b) → Inv exec txsOf U g (hist.foldl (arrive exec) N) := by
    intro hist
    induction hist with
    | nil => intro N h _; exact h
    | cons a hist ih =>
      intro N h hb
      exact ih _ (inv_arrive hE hU N a h (hb a (by simp))) (fun x hx => hb x (by simp [hx]))
  exact key hist _ (inv_init hg0 hgU oc bc) hbs

/-- **The hypotheses are decided on every run.** For the blocks of a concrete session (`tbl` = genesis and every block
that arrived, each carrying the row of the execution table the harness computed with the real transaction executor) the
model driver evaluates `idsKeyed tbl` (one content per identifier) and `lawOk tbl` (the three `ExecLaw` conditions for the
least ghost function of the table) on the op `law`, and the harness decides the same independently. When both hold, the
two hypotheses of `inv_history` hold for `U := tableU tbl` and for the table restricted to the run's blocks (`execOn tbl`),
and the run the driver performs with the unrestricted table `tableExec` is that very run (`runHistory_table`: a run
depends on the execution function only through the blocks that arrived), so the invariant holds after the driver's run
of that history. (Sessions of the harness families `lead5/*` answer `ids-forged`: there the theorems do not apply,
`forged_id_breaks_index`.) -/
theorem inv_of_checked_run (hg0 : g.no = 0) (oc bc : Nat) (hist : List Arrival)
    (hk : idsKeyed (g :: hist.filterMap Arrival.block?) = true) (hl : lawOk (g :: hist.filterMap Arrival.block?) = true) :
    Inv (execOn (g :: hist.filterMap Arrival.block?)) (look (lawGhost (g :: hist.filterMap Arrival.block?)))
      (tableU (g :: hist.filterMap Arrival.block?)) g
      (runHistory tableExec g oc bc hist) := by
  rw [runHistory_table]
  have hU := idsKeyed_sound _ hk
  refine inv_history (lawOk_sound _ hl) (tableU_keyed _) hg0 (hU g (by simp)) oc bc hist ?_
  intro a ha b hb
  exact hU b (List.mem_cons_of_mem _ (List.mem_filterMap.mpr ⟨a, ha, hb⟩))

/-! ## The clauses, as the query surface shows them -/

/-- **(1)+(2)** Block by number: every height up to the best height answers with a block of that height whose parent
is the answer one below; the best height answers with the best block, height 0 with genesis, and nothing above. -/
theorem path_to_genesis (N : Node) (h : Inv exec txsOf U g N) :
    blockByNo N N.latest = some N.best ∧ blockByNo N 0 = some g ∧
    (∀ k, k ≤ N.latest → ∃ b, blockByNo N k = some b ∧ b.no = k ∧
        (0 < k → ∃ p, blockByNo N (k - 1) = some p ∧ b.parent = p.id ∧ p.no + 1 = b.no)) ∧
    (∀ k, N.latest < k → N.byNo k = none ∧ blockByNo N k = none) := by
  have bm : ∀ x, onMain N x → blockByNo N x.no = some x := fun x hx => by
    unfold blockByNo; rw [hx.1]; exact hx.2
  refine ⟨?_, ?_, ?_, ?_⟩
  · rw [← h.best_no]; exact bm _ h.best_main
  · rw [← h.gen.2]; exact bm _ h.gen.1
  · intro k hk
    obtain ⟨b, hb, hbn, hp⟩ := h.chain k hk
    refine ⟨b, by rw [← hbn]; exact bm b hb, hbn, fun hpos => ?_⟩
    obtain ⟨p, hpm, hpn, _⟩ := h.chain (k - 1) (by omega)
    refine ⟨p, by rw [← hpn]; exact bm p hpm, ?_, by omega⟩
    have h1 := hp hpos
    rw [← hpn, hpm.1] at h1
    injection h1 with h1; exact h1.symm
  · intro k hk
    have := h.above k hk
    exact ⟨this, by unfold blockByNo; rw [this]; rfl⟩

/-- **(3)** A transaction of a main-chain block is reported confirmed at exactly that block and position. -/
theorem tx_found (N : Node) (h : Inv exec txsOf U g N) (b : Block) (hb : onMain N b) (hpos : 0 < b.no)
    (i : Nat) (hi : i < b.txs.length) : getTx N b.txs[i] = .confirmed b.id i := by
  unfold getTx
  rw [h.txfound b hb hpos i hi]
  simp only [hb.2]
  have : ¬ (i ≥ b.txs.length) := by omega
  simp [this, hb.1]

/-- **(3)** Whatever is reported as confirmed is in a main-chain block, at the reported position. -/
theorem tx_confirmed_sound (hU : UKeyed U) (N : Node) (h : Inv exec txsOf U g N) (t bid i : Nat)
    (ht : getTx N t = .confirmed bid i) :
    ∃ b, onMain N b ∧ b.id = bid ∧ ∃ hi : i < b.txs.length, b.txs[i] = t := by
  unfold getTx at ht
  split at ht
  · cases ht
  · next bid' i' hidx =>
    obtain ⟨c, hc, hi, hct⟩ := h.txsound t bid' i' hidx
    rw [hc] at ht
    simp only at ht
    split at ht
    · cases ht
    · split at ht
      · next hmain =>
        injection ht with h1 h2
        subst h1; subst h2
        have hid := Inv.keyed hU h hc
        exact ⟨c, ⟨hmain, by rw [hid]; exact hc⟩, hid, hi, hct⟩
      · cases ht

/-- **(3)** A transaction that is in no main-chain block (only on abandoned branches, or nowhere) is never reported
as confirmed. -/
theorem abandoned_not_confirmed (hU : UKeyed U) (N : Node) (h : Inv exec txsOf U g N) (t : Nat)
    (hnot : ∀ b, onMain N b → t ∉ b.txs) (bid i : Nat) : getTx N t ≠ .confirmed bid i := by
  intro hc
  obtain ⟨b, hb, _, hi, hbt⟩ := tx_confirmed_sound hU N h t bid i hc
  exact hnot b hb (hbt ▸ List.getElem_mem hi)

/-- **(4)** Receipts exist for every main-chain block that has transactions. -/
theorem receipts_exist (N : Node) (h : Inv exec txsOf U g N) (b : Block) (hb : onMain N b) (hpos : 0 < b.no)
    (hne : b.txs ≠ []) : N.rcpt b.id b.no = true := h.rcpt b hb hpos hne

/-- **(3)/(4)** The query "receipts of the block with this hash" answers only for a main-chain block: the receipts a
block of a side branch left on disk when it was executed in a roll-forward that then failed are never served. -/
theorem receipts_query_sound (hU : UKeyed U) (N : Node) (h : Inv exec txsOf U g N) (id : Nat)
    (hq : rcptByHash N id = true) : ∃ b, onMain N b ∧ b.id = id ∧ N.rcpt b.id b.no = true := by
  unfold rcptByHash at hq
  split at hq
  · cases hq
  · next b hb =>
    have hid := Inv.keyed hU h hb
    simp only [Bool.and_eq_true, beq_iff_eq] at hq
    exact ⟨b, ⟨hq.1, by rw [hid]; exact hb⟩, hid, hq.2⟩

/-- **(4)** Both receipt queries answer for every main-chain block that has transactions: by hash and by number. -/
theorem receipts_queries_complete (N : Node) (h : Inv exec txsOf U g N) (b : Block) (hb : onMain N b) (hpos : 0 < b.no)
    (hne : b.txs ≠ []) : rcptByHash N b.id = true ∧ rcptByNo N b.no = true := by
  have hr := h.rcpt b hb hpos hne
  constructor
  · unfold rcptByHash; rw [hb.2]; simp [hb.1, hr]
  · unfold rcptByNo blockByNo; rw [hb.1]; simp [hb.2, hr]

/-- **(1)** The persisted latest pointer (what a restart takes for the best height) is the cached best height, and the
height index has the best block there. -/
theorem latest_key_persisted (N : Node) (h : Inv exec txsOf U g N) :
    N.latestKey = N.best.no ∧ blockByNo N N.latestKey = some N.best := by
  have bm : blockByNo N N.best.no = some N.best := by
    unfold blockByNo; rw [h.best_main.1]; exact h.best_main.2
  rw [h.lkey, ← h.best_no]; exact ⟨rfl, bm⟩

/-- **(5)+(6)** The state root is the best block's state root; no reorganisation marker is left behind. -/
theorem root_is_best (N : Node) (h : Inv exec txsOf U g N) : N.sdbRoot = N.best.claimed ∧ N.marker = none :=
  ⟨h.root, h.marker⟩

/-! ## Non-vacuity and the limits of the hypotheses (tests on sample values) -/

section samples

/-- ids 1.. ; roots 100.. ; transactions 7,8,9 -/
def G : Block := { id := 1, parent := 0, no := 0, txs := [], claimed := 100 }
def A1 : Block := { id := 2, parent := 1, no := 1, txs := [7], claimed := 101, pre := 100, res := some 101 }
def A2 : Block := { id := 3, parent := 2, no := 2, txs := [8], claimed := 102, pre := 101, res := some 102 }
def B1 : Block := { id := 4, parent := 1, no := 1, txs := [9], claimed := 111, pre := 100, res := some 111 }
def B2 : Block := { id := 5, parent := 4, no := 2, txs := [7], claimed := 112, pre := 111, res := some 112 }
def B3 : Block := { id := 6, parent := 5, no := 3, txs := [], claimed := 112, pre := 112, res := some 112 }

def run (bs : List Block) : Node := bs.foldl (fun N b => (addBlock tableExec N b).2) (genesis G 100 128)

/-- Test (sample values): a reorganisation from `A1 A2` to `B1 B2 B3` delivered children first. The hypotheses of
`inv_history` are satisfiable on it (`U` = the table of these six blocks) and the observable state is as the clauses
say: best `B3`, index `G B1 B2 B3`, tx 9 at `B1:0`, tx 7 moved to `B2:0`, tx 8 (only on the abandoned branch) not found,
receipts for `B1`,`B2`, none left for `A1`, root = `B3`'s. -/
example :
    let N := run [A1, A2, B3, B2, B1]
    (N.best.id, N.latest, N.sdbRoot, N.marker.isSome) = (6, 3, 112, false) ∧
    ((List.range 5).map N.byNo) = [some 1, some 4, some 5, some 6, none] ∧
    (getTx N 9, getTx N 7, getTx N 8) = (.confirmed 4 0, .confirmed 5 0, .notFound) ∧
    (N.rcpt 4 1, N.rcpt 5 2, N.rcpt 2 1, N.rcpt 3 2) = (true, true, false, false) := by decide

/-- Test (sample values): the node produces `A1`, `A2` itself, is reorganised away to `B1 B2 B3` from the network, and a
late own block `A3` on the abandoned tip is refused as stale without any effect. -/
def A3 : Block := { id := 8, parent := 3, no := 3, txs := [], claimed := 102, pre := 102, res := some 102 }
example :
    let N := runHistory tableExec G 100 128 [.own A1, .own A2, .net B1, .net B2, .net B3, .own A3]
    (N.best.id, N.latest, N.latestKey, N.sdbRoot) = (6, 3, 3, 112) ∧ (N.blocks 8).isNone ∧ N.bad = [] ∧
    (getTx N 8) = .notFound ∧ (rcptByHash N 2, rcptByHash N 4) = (false, true) := by decide

/-- Test (sample values): the hypotheses check accepts the table of the sample blocks and refuses a table in which a
transaction executes a second time on the way (`A2'` replays 7) or two contents share an identifier (`F` below). -/
def A2' : Block := { id := 13, parent := 2, no := 2, txs := [7], claimed := 103, pre := 101, res := some 103 }
example : lawOk [G, A1, A2, B1, B2, B3] = true ∧ idsKeyed [G, A1, A2, B1, B2, B3] = true ∧
    lawOk [G, A1, A2'] = false ∧
    idsKeyed [G, A1, { id := 2, parent := 9, no := 2, txs := [], claimed := 100, pre := 100, res := some 100 }] = false := by
  decide

/-- An execution that satisfies `ExecLaw` and is not trivial (test of satisfiability): transaction hashes are consumed in
order — the state root `r` has executed the hashes `0 … r-1`, a block executes iff it is empty or carries exactly the
next hash. -/
def seqExec (r : Nat) (b : Block) : Option Nat :=
  if b.txs = [r] then some (r + 1) else if b.txs = [] then some r else none

example : ExecLaw seqExec List.range := by
  refine ⟨?_, ?_, ?_⟩
  · intro r b r' h t ht
    unfold seqExec at h
    split at h
    · next hb => rw [hb] at ht; simp at ht; subst ht; simp
    · split at h
      · next hb => rw [hb] at ht; cases ht
      · cases h
  · intro r b r' h
    unfold seqExec at h
    split at h
    · next hb => rw [hb]; simp
    · split at h
      · next hb => rw [hb]; simp
      · cases h
  · intro r b r' h t ht
    unfold seqExec at h
    split at h
    · next hb =>
      injection h with h; subst h
      rw [hb] at ht; simp at ht ⊢; omega
    · split at h
      · next hb => injection h with h; subst h; rw [hb] at ht; simpa using ht
      · cases h

/-- **The honesty hypothesis cannot be dropped** (DESIGN §5 lead 5; test on sample values). `F` carries the identifier
of `A1` but another parent and number. It is parked as an orphan before `A1` arrives; `A1` and `A2` are connected; then
`F`'s claimed parent `Q` arrives on a side branch and the parked `F` is stored under `A1`'s identifier: the height index
still maps height 1 to that identifier, but the record there now has number 2 and a parent that is not the block at
height 0 (and the best block `A2`'s parent link leads to it).
The real chain service does the same (harness family `lead5`). -/
def Q : Block := { id := 9, parent := 1, no := 1, txs := [], claimed := 100, pre := 100, res := some 100 }
def F : Block := { id := 2, parent := 9, no := 2, txs := [], claimed := 100, pre := 100, res := some 100 }

theorem forged_id_breaks_index :
    let N := run [F, A1, A2, Q]
    N.best.id = 3 ∧ N.byNo 1 = some 2 ∧ (blockByNo N 1).map (fun b => (b.no, b.parent)) = some (2, 9) ∧
    N.byNo 0 = some 1 := by decide

end samples

end Aergo.Props.C05
