/-
C06 — Crash recovery: every crash point leaves a recoverable, consistent chain.

"If the process dies between any two durable writes while it is connecting a block or reorganising,
then after restart and recovery the node is in a coherent state (all chain-database invariants of
C05 hold, the state root of its best block is available) whose best block is one the node had
legitimately reached or was about to reach (the old tip, the new tip, or during a reorganisation the
old or the new branch tip). Feeding the same blocks again brings it to the same final state as a run
without the crash."

The theorems are about the model `Aergo.Crash` (Model/Crash.lean): the durable state is one map over
the key classes of the chain DB and the state DB; every chain operation is the list of its *write units*
(single set, committed transaction, flushed bulk) in program order; `crash us k D` is the store after
the first `k` units; `restart` transcribes `ChainDB.Init` (loadChainData, recover →
`RecoverChainMapping`), `ChainStateDB.Init` at the best block's root and `ChainService.Recover`
(recoverNormal / recoverReorg → reorg with gatherReco, executeBlockReco, swapChain). The harness `c06`
runs the real node on journaling stores and the model on the same lines: the write units (kinds, key
classes, ids, order), every restart (units written, best, root) and every store dump are diffed on every
check — so the unit lists the theorems quantify over are the real journals' shapes.

Vocabulary (Lemmas/Crash.lean, Lemmas/CrashReorg.lean):
* `Inv D chain best` — `chain` (genesis … `best`) is the main chain recorded in `D`: parent-linked path with
  consecutive numbers from height 0 (C05 clause 1), height index exactly on that path and empty above
  (2), every transaction of a chain block indexed at its block and position and every index entry pointing
  into the chain (3), receipts for every chain block with transactions (4), completion marker of the
  best block's state root (5, the durable half: the in-memory root is the restart's `sdbRoot`), no
  reorganisation marker (6).
* `Fork D pre old new start best top` — a reorganisation is about to start: `pre ++ old.reverse` is the coherent
  main chain, `new` a stored longer branch off `start` (last of `pre`), ids of the new branch are new,
  a transaction hash occurs at one place of the new chain only (C04 is the reason in the real system).
* `Mid D0 m old new top E` — `E` is a durable state of the swap window: marker present, every other key holds
  its value before or after the swap, height index and latest key moved together or not at all.

What is *not* carried by a theorem is listed at the end of this file.
-/
import Aergo.Lemmas.CrashBad

namespace Aergo.Props.C06
open Aergo.Crash

/-! ## Linear connection of a block -/

/-- **Crash while connecting a block.** From a coherent store, for every prefix `k` of the write units of
connecting block `b` on the tip (state commit, receipts, tip transaction): the restart succeeds, writes
nothing, leaves the store as the crash left it, opens the state at the best block's root, and
* if the tip transaction did not get through, the node is coherent at the old tip;
* if it did, the node is coherent at the new tip `b`.
Hypotheses: `b` is a child of the tip, its id is new, its transactions are not yet indexed and distinct
(a block that passed execution: C04). -/
theorem connect_crash_recover {D : Store} {chain : List Block} {best b : Block} (h : Inv D chain best)
    (hp : b.parent = best.id) (hn : b.no = best.no + 1) (hid : ∀ c ∈ chain, c.id ≠ b.id)
    (hnd : b.txs.Nodup) (hfresh : ∀ t ∈ b.txs, getTx D t = none)
    (k : Nat) (hk : k ≤ (connectUnits b).length) :
    ∃ N, restart (crash (connectUnits b) k D) = .ok (N, [], []) ∧ N.D = crash (connectUnits b) k D ∧
      N.sdbRoot = N.best.root ∧
      ((k < (connectUnits b).length ∧ N.best = best ∧ Inv N.D chain best) ∨
       (k = (connectUnits b).length ∧ N.best = b ∧ Inv N.D (chain ++ [b]) b)) := by
  rcases Nat.lt_or_ge k (connectUnits b).length with hlt | hge
  · have hi := connect_prefix_inv (b := b) h hlt
    exact ⟨_, restart_of_inv hi, rfl, rfl, Or.inl ⟨hlt, rfl, hi⟩⟩
  · have hk' : k = (connectUnits b).length := Nat.le_antisymm hk hge
    have hi := connect_full_inv h hp hn hid hnd hfresh
    have e : crash (connectUnits b) k D = applyUnits (connectUnits b) D := by
      rw [crash, hk', List.take_length]
    rw [e]
    exact ⟨_, restart_of_inv hi, rfl, rfl, Or.inr ⟨hk', rfl, hi⟩⟩

/-- **Allowed tips, linear case**: after any crash while connecting `b` the recovered best block is the old
tip or `b`. -/
theorem connect_best_allowed {D : Store} {chain : List Block} {best b : Block} (h : Inv D chain best)
    (hp : b.parent = best.id) (hn : b.no = best.no + 1) (hid : ∀ c ∈ chain, c.id ≠ b.id)
    (hnd : b.txs.Nodup) (hfresh : ∀ t ∈ b.txs, getTx D t = none)
    (k : Nat) (hk : k ≤ (connectUnits b).length) :
    ∃ N us1 us2, restart (crash (connectUnits b) k D) = .ok (N, us1, us2) ∧ (N.best = best ∨ N.best = b) := by
  obtain ⟨N, h1, _, _, h4⟩ := connect_crash_recover h hp hn hid hnd hfresh k hk
  rcases h4 with ⟨_, hb, _⟩ | ⟨_, hb, _⟩
  · exact ⟨N, [], [], h1, Or.inl hb⟩
  · exact ⟨N, [], [], h1, Or.inr hb⟩

/-- Every write of connecting a block carries the value its key has in the end (each key is written once). -/
private theorem connect_consistent {b : Block} (hnd : b.txs.Nodup) (D : Store) {w : W}
    (hw : w ∈ allOps (connectUnits b)) : applyOps (allOps (connectUnits b)) D w.key = w.val := by
  have mem : ∀ x, x ∈ allOps (connectUnits b) ↔
      ((¬ b.txs.isEmpty ∧ x = .set (.stData b.root) .unit) ∨ x = .set (.stMark b.root) .unit ∨
       (¬ b.txs.isEmpty ∧ x = .set (.rcpt b.id b.no) .unit)) ∨
      (x = .set (.block b.id) (.blk b) ∨ x = .set .latest (.num b.no) ∨ x = .set (.byNo b.no) (.id b.id) ∨
       x = .set .cons (.id b.id)) ∨ ∃ j t, b.txs[j]? = some t ∧ x = .set (.tx t) (.txIdx b.id j) := by
    intro x
    simp only [allOps, connectUnits, execUnits, stateUnit, rcptUnits, connectUnit, List.flatMap_append,
      List.flatMap_cons, List.flatMap_nil, List.append_nil, List.mem_append, List.mem_cons, mem_txIdxOps,
      List.not_mem_nil, or_false]
    by_cases he : b.txs.isEmpty <;> simp [he, or_assoc]
  apply get_written D ⟨w, hw, rfl⟩
  intro x hx hk
  rcases (mem w).mp hw with ((⟨_, rfl⟩ | rfl | ⟨_, rfl⟩) | (rfl | rfl | rfl | rfl) | ⟨j, t, hj, rfl⟩) <;>
    rcases (mem x).mp hx with ((⟨_, rfl⟩ | rfl | ⟨_, rfl⟩) | (rfl | rfl | rfl | rfl) | ⟨j', t', hj', rfl⟩) <;>
    simp [W.key, W.val] at hk ⊢
  subst hk
  exact nodup_index_unique hnd hj' hj

/-- **Replay converges, linear case.** After a crash that did not get the tip transaction through, feeding
`b` again to the restarted node connects it, and the durable stores end up exactly as in the run without
the crash. (After a crash that did get it through, the restarted store already is that store and feeding
`b` again is a no-op: `connect_crash_recover`, second case, and `feed_stored`.) -/
theorem connect_replay_converges {D : Store} {chain : List Block} {best b : Block} (h : Inv D chain best)
    (hp : b.parent = best.id) (hn : b.no = best.no + 1) (hnew : getBlock D b.id = none)
    (hnd : b.txs.Nodup) (k : Nat) (hk : k < (connectUnits b).length) :
    let N : Node := ⟨crash (connectUnits b) k D, best, best.root, []⟩
    (feed N b).2.1 = .ok ∧ (feed N b).2.2 = connectUnits b ∧
    (feed N b).1.D = applyUnits (connectUnits b) D ∧ (feed N b).1.best = b := by
  intro N
  have hi := connect_prefix_inv (b := b) h hk
  have hbest := h.best_mem
  -- the crash left block records alone
  have hblk : ∀ i, N.D (.block i) = D (.block i) := by
    intro i
    show crash (connectUnits b) k D (.block i) = _
    rw [crash_eq]
    have : (connectUnits b).take k = (execUnits b).take k := by
      apply List.take_append_of_le_length
      simp [connectUnits] at hk; omega
    rw [this]
    exact harmless_other D (fun w hw => harmless_execUnits b w (mem_allOps_take hw)) (by simp) (by simp) (by simp)
  have h1 : getBlock N.D b.id = none := by simp only [getBlock, hblk]; exact hnew
  have h2 : getBlock N.D b.parent = some best := by rw [hp]; exact hi.blk best hbest
  have h3 : isMainChain N b = true := by
    have : getByNo N.D N.best.no = some best.id := hi.idx best hbest
    simp [isMainChain, hn, this, hp, N]
  have hD : applyUnits (connectUnits b) N.D = applyUnits (connectUnits b) D := by
    rw [applyUnits_eq, applyUnits_eq]
    apply applyOps_absorb
    intro key
    have hE : N.D key = (writes (allOps ((connectUnits b).take k)) key).getD (D key) := by
      show crash (connectUnits b) k D key = _
      rw [crash_eq, applyOps_apply]
    rw [hE]
    cases hw : writes (allOps ((connectUnits b).take k)) key with
    | none => left; rfl
    | some v =>
      right
      obtain ⟨w, hw1, hw2, hw3⟩ := writes_some_mem hw
      have := connect_consistent hnd D (mem_allOps_take hw1)
      rw [hw2, hw3] at this
      simp [this]
  have hf : feed N b = (⟨applyUnits (connectUnits b) N.D, b, b.root, []⟩, .ok, connectUnits b) := by
    simp [feed, h1, h2, h3, runLoop, connect, N]
  rw [hf]
  exact ⟨rfl, rfl, hD, rfl⟩

/-- Feeding a block whose record is already stored does nothing (`IsConnectedBlock`). -/
theorem feed_stored (N : Node) (b : Block) (h : getBlock N.D b.id = some b) : feed N b = (N, .ok, []) := by
  simp [feed, h]

/-! ## Side-branch blocks -/

/-- **Crash while storing a side-branch block**: the single unit is there or not; either way the main
chain is untouched and the restart is the identity. -/
theorem side_crash_recover {D : Store} {chain : List Block} {best b : Block} (h : Inv D chain best)
    (hid : ∀ c ∈ chain, c.id ≠ b.id) (k : Nat) :
    ∃ N, restart (crash [sideUnit b] k D) = .ok (N, [], []) ∧ N.best = best ∧ N.sdbRoot = best.root ∧
      Inv N.D chain best := by
  have hi : Inv (crash [sideUnit b] k D) chain best := by
    cases k with
    | zero => exact h
    | succ k =>
      have : crash [sideUnit b] (k + 1) D = applyOps (sideUnit b).ops D := by simp [crash, applyUnits]
      rw [this]; exact inv_side h hid
  exact ⟨_, restart_of_inv hi, rfl, rfl, hi⟩

/-! ## Reorganisation -/

/-- The write units of a reorganisation from `old` to `new` (what `reorg` issues once `gather` has returned
`(start, old, new)`): roll-forward of the new branch, then `swapChain`. -/
def reorgUnits (start best top : Block) (old new : List Block) : List Crash.Unit :=
  rollforwardUnits new ++ swapUnits (markerOf start best top) old new top false

/-- The store in which the crash-free reorganisation ends. -/
def reorgFinal (D : Store) (top : Block) (old new : List Block) : Store :=
  finalStore (applyUnits (rollforwardUnits new) D) old new top

/-- The crash-free reorganisation ends in `reorgFinal`. -/
theorem reorg_full {D : Store} {pre old new : List Block} {start best top : Block}
    (F : Fork D pre old new start best top) :
    applyUnits (reorgUnits start best top old new) D = reorgFinal D top old new := by
  have R := F.ready
  rw [reorgUnits, applyUnits_append]
  -- the swap applied to D0 itself
  funext k
  have e : allOps (swapUnits (markerOf start best top) old new top false) =
      [.set .marker (.mk (markerOf start best top))] ++ (midOps old new top ++ [.del .marker]) := by
    simp [swapUnits_eq, allOps, midOps, markerSetUnit, markerDelUnit]
  rw [applyUnits_eq, e, applyOps_append]
  by_cases hk : k = .marker
  · subst hk
    rw [reorgFinal, finalStore_marker]
    simp [applyOps_append, applyOps, W.apply, W.key, W.val]
  · rw [reorgFinal, finalStore_other _ old new top hk, applyOps_append]
    have h1 : ∀ X : Store, applyOps [W.del .marker] X k = X k := fun X => by simp [applyOps, W.apply, W.key, hk]
    rw [h1]
    apply applyOps_absorb_key
    left
    simp [applyOps, W.apply, W.key, hk]

/-- The restart on any state of the swap window: whatever part of the swap had reached the disk, the best
block loaded is the old tip (after `RecoverChainMapping` where needed), `Recover` redoes the swap and ends
in the crash-free final store at the new tip. -/
theorem restart_mid {D0 : Store} {pre old new : List Block} {start best top : Block} {E : Store}
    (R : Ready D0 pre old new start best top) (M : Mid D0 (markerOf start best top) old new top E) :
    ∃ us1, restart E = .ok (⟨finalStore D0 old new top, top, top.root, []⟩, us1,
                             swapUnits (markerOf start best top) old new top false) ∧
      (us1 = [] ∨ us1 = [Ready.recUnit old best top]) := by
  obtain ⟨us1, E1, h1, M1, _, hu⟩ := M.init R rfl
  have h2 := M1.recover_old R rfl
  refine ⟨us1, ?_, ?_⟩
  · simp [restart, h1, h2]
  · rcases hu with ⟨h, _⟩ | ⟨h, _⟩
    · exact Or.inl h
    · exact Or.inr h

/-- The crash states of the swap: after the marker write and before the marker deletion they are window
states. -/
theorem swap_prefix_mid {D0 : Store} {pre old new : List Block} {start best top : Block}
    (R : Ready D0 pre old new start best top) (k : Nat) (h1 : 1 ≤ k)
    (h2 : k ≤ (midUnits old new top).length + 1) :
    Mid D0 (markerOf start best top) old new top
      (crash (swapUnits (markerOf start best top) old new top false) k D0) := by
  obtain ⟨j, rfl⟩ : ∃ j, k = j + 1 := ⟨k - 1, by omega⟩
  have e : (swapUnits (markerOf start best top) old new top false).take (j + 1) =
      markerSetUnit (markerOf start best top) :: (midUnits old new top).take j := by
    rw [swapUnits_eq, List.take_succ_cons, List.take_append_of_le_length (by omega)]
  rw [crash, e]
  exact Mid.progress_of R (fun k _ => Or.inl rfl) ⟨fun _ => rfl, rfl⟩ j

/-- **Crash while reorganising.** From a coherent store with a stored longer branch, for every prefix `k`
of the write units of the reorganisation: the restart succeeds and
* if the marker had not been written (`k ≤` number of roll-forward units): nothing is written, the node is
  coherent at the **old tip**, on the store the crash left;
* otherwise: recovery completes the swap, the node is coherent at the **new tip**, and its store is exactly
  the store of the crash-free reorganisation.
In both cases the state DB root is the best block's root. -/
theorem reorg_crash_recover {D : Store} {pre old new : List Block} {start best top : Block}
    (F : Fork D pre old new start best top) (k : Nat) (hk : k ≤ (reorgUnits start best top old new).length) :
    ∃ N us1 us2, restart (crash (reorgUnits start best top old new) k D) = .ok (N, us1, us2) ∧
      N.sdbRoot = N.best.root ∧
      ((k ≤ (rollforwardUnits new).length ∧ us1 = [] ∧ us2 = [] ∧ N.best = best ∧
          N.D = crash (reorgUnits start best top old new) k D ∧ Inv N.D (pre ++ old.reverse) best) ∨
       ((rollforwardUnits new).length < k ∧ N.best = top ∧
          N.D = reorgFinal D top old new ∧ Inv N.D (pre ++ new.reverse) top)) := by
  have R := F.ready
  rcases Nat.lt_or_ge (rollforwardUnits new).length k with hgt | hle
  · -- in or after the swap
    obtain ⟨k', rfl⟩ : ∃ k', k = (rollforwardUnits new).length + k' := ⟨k - (rollforwardUnits new).length, by omega⟩
    have hk1 : 1 ≤ k' := by omega
    have hlen : (swapUnits (markerOf start best top) old new top false).length = (midUnits old new top).length + 2 := by
      simp [swapUnits_eq]
    have hk2 : k' ≤ (midUnits old new top).length + 2 := by
      simp only [reorgUnits, List.length_append, hlen] at hk; omega
    have e : crash (reorgUnits start best top old new) ((rollforwardUnits new).length + k') D =
        crash (swapUnits (markerOf start best top) old new top false) k' (applyUnits (rollforwardUnits new) D) := by
      simp only [crash, reorgUnits, List.take_append, List.take_of_length_le (Nat.le_add_right _ _),
        Nat.add_sub_cancel_left, applyUnits_append]
    rw [e]
    have hinvF := R.inv_final
    rcases Nat.lt_or_ge k' ((midUnits old new top).length + 2) with hlt | hge
    · obtain ⟨us1, hr, _⟩ := restart_mid R (swap_prefix_mid R k' hk1 (by omega))
      exact ⟨_, us1, _, hr, rfl, Or.inr ⟨hgt, rfl, rfl, hinvF⟩⟩
    · have hall : crash (swapUnits (markerOf start best top) old new top false) k' (applyUnits (rollforwardUnits new) D) =
          reorgFinal D top old new := by
        rw [crash, List.take_of_length_le (by omega), ← applyUnits_append]
        exact reorg_full F
      rw [hall]
      exact ⟨_, [], [], restart_of_inv hinvF, rfl, Or.inr ⟨hgt, rfl, rfl, hinvF⟩⟩
  · have e : crash (reorgUnits start best top old new) k D = crash (rollforwardUnits new) k D := by
      simp only [crash, reorgUnits, List.take_append_of_le_length hle]
    have hi := F.prefix_inv k
    rw [e]
    exact ⟨_, [], [], restart_of_inv hi, rfl, Or.inl ⟨hle, rfl, rfl, rfl, rfl, hi⟩⟩

/-- **Allowed tips, reorganisation**: after any crash inside a reorganisation the recovered best block is the
old branch tip or the new branch tip, never anything else. -/
theorem reorg_best_allowed {D : Store} {pre old new : List Block} {start best top : Block}
    (F : Fork D pre old new start best top) (k : Nat) (hk : k ≤ (reorgUnits start best top old new).length) :
    ∃ N us1 us2, restart (crash (reorgUnits start best top old new) k D) = .ok (N, us1, us2) ∧
      (N.best = best ∨ N.best = top) := by
  obtain ⟨N, us1, us2, h1, _, h3⟩ := reorg_crash_recover F k hk
  rcases h3 with ⟨_, _, _, hb, _⟩ | ⟨_, hb, _⟩
  · exact ⟨N, us1, us2, h1, Or.inl hb⟩
  · exact ⟨N, us1, us2, h1, Or.inr hb⟩

/-- **Replay converges, reorganisation — partial.** Full statement (what the property asks): for *every*
`k ≤ (reorgUnits …).length`, restarting on `crash (reorgUnits …) k D` and feeding the blocks of the arrival
again ends in `applyUnits (reorgUnits …) D`. The pinned code violates it for `k ≤ (rollforwardUnits new).length`
(marker not yet written): the restart is coherent at the old tip, the triggering block is stored, feeding it
again is a no-op (`feed_stored`) — witness 1 in `Ex` below, reproduced on the real code (finding
`C06-reorg-not-resumed-before-marker`). Proved here under exactly the guard that excludes it: once the marker
is durable, the restart alone brings the stores to those of the run without the crash
(`reorg_crash_recover`, second case, gives `N.D = reorgFinal D …`, which is `applyUnits (reorgUnits …) D` by
`reorg_full`); every block of both branches is stored, so feeding them again changes nothing (`feed_stored`). -/
theorem reorg_replay_converges_partial {D : Store} {pre old new : List Block} {start best top : Block}
    (F : Fork D pre old new start best top) (k : Nat) (hk : k ≤ (reorgUnits start best top old new).length)
    (hm : (rollforwardUnits new).length < k) :
    ∃ N us1 us2, restart (crash (reorgUnits start best top old new) k D) = .ok (N, us1, us2) ∧
      N.D = applyUnits (reorgUnits start best top old new) D := by
  obtain ⟨N, us1, us2, h1, _, h3⟩ := reorg_crash_recover F k hk
  rcases h3 with ⟨hle, _⟩ | ⟨_, _, hD, _⟩
  · omega
  · exact ⟨N, us1, us2, h1, by rw [hD, reorg_full F]⟩

/-! ## The arrival that triggers the reorganisation, through `feed` -/

/-- `cs.reorg` on a `Fork`: `gather` finds exactly the fork point and the two branches (`Fork.gather_eq`), so
the units issued are `reorgUnits` and the node ends at the new tip on the store `applyUnits (reorgUnits …) D`. -/
theorem reorg_eq {D : Store} {pre old new : List Block} {start best top : Block}
    (F : Fork D pre old new start best top) (r : Nat) (o : List Block) :
    reorg ⟨D, best, r, o⟩ top =
      some (⟨applyUnits (reorgUnits start best top old new) D, top, top.root, o⟩, reorgUnits start best top old new) := by
  simp [reorg, F.gather_eq, reorgUnits]

/-- **The arrival of the block that makes a side branch longer**, through the model of `addBlock`: the block
record is stored (one transaction), then the reorganisation runs; the units of the arrival are
`sideUnit top :: reorgUnits …`. Hypotheses: the node is coherent on `D`, `top` is not stored, and once it is,
the situation is a `Fork`. -/
theorem feed_reorg {D : Store} {pre old new : List Block} {start best top : Block}
    (hnew : getBlock D top.id = none)
    (F : Fork (applyOps (sideUnit top).ops D) pre old new start best top) :
    feed ⟨D, best, best.root, []⟩ top =
      (⟨applyUnits (sideUnit top :: reorgUnits start best top old new) D, top, top.root, []⟩, .ok,
       sideUnit top :: reorgUnits start best top old new) := by
  have R := F.ready
  obtain ⟨r, hr⟩ := R.old_eq
  have hlong := F.longer
  -- the new branch has at least two blocks; the second one is top's parent
  obtain ⟨c, r', hnew2⟩ : ∃ c r', new = top :: c :: r' := by
    obtain ⟨r1, hr1⟩ := R.new_eq
    cases r1 with
    | nil => rw [hr, hr1] at hlong; simp at hlong
    | cons c r' => exact ⟨c, r', hr1⟩
  have hd := F.newDesc
  rw [hnew2] at hd
  have hpar : top.parent = c.id := hd.1
  have hc : c ∈ new := by rw [hnew2]; simp
  have un : ∀ k, k ≠ .block top.id → applyOps (sideUnit top).ops D k = D k := fun k hk => by
    apply get_untouched; intro w hw; simp [sideUnit] at hw; subst hw; exact fun e => hk e.symm
  have hcid : c.id ≠ top.id := by
    intro e
    have h1 := F.newStored c hc
    have h2 := F.newStored top (by rw [hnew2]; simp)
    rw [e, h2] at h1
    have htc : top = c := by injection h1
    have hno := hd.2.1
    rw [htc] at hno; omega
  have hcs : getBlock D c.id = some c := by
    have := F.newStored c hc
    simpa [getBlock, un (.block c.id) (by simpa using hcid)] using this
  have hbest := F.inv.best_mem
  have hidx : getByNo D best.no = some best.id := by
    have := F.inv.idx best hbest
    simpa [getByNo, un (.byNo best.no) (by simp)] using this
  have hmain : isMainChain ⟨D, best, best.root, []⟩ top = false := by
    have hne : best.id ≠ c.id := fun e => F.newIds c hc best hbest e.symm
    by_cases h : top.no > 0 ∧ top.no ≠ best.no + 1
    · simp [isMainChain, h]
    · simp [isMainChain, h, hidx, hpar, hne]
  have hlt : best.no < top.no := by have := R.best_no; have := R.top_no; omega
  have hre := reorg_eq F best.root []
  simp only [feed, hnew, Option.isSome_none, Bool.false_eq_true, if_false, hpar, hcs, Option.isNone_some,
    hmain, List.length_nil, Nat.zero_add, runLoop, addSide, List.find?_nil, List.nil_append, Bool.not_false,
    true_and, hlt, decide_true, if_true, hre]
  rfl

/-- **Crash anywhere in that arrival.** For every prefix `k` of the units of the whole arrival the restart
succeeds, the recovered node is coherent, and its best block is the old branch tip (before the marker write)
or the new branch tip (after it). -/
theorem arrival_crash_recover {D : Store} {pre old new : List Block} {start best top : Block}
    (hD : Inv D (pre ++ old.reverse) best)
    (F : Fork (applyOps (sideUnit top).ops D) pre old new start best top)
    (k : Nat) (hk : k ≤ (sideUnit top :: reorgUnits start best top old new).length) :
    ∃ N us1 us2, restart (crash (sideUnit top :: reorgUnits start best top old new) k D) = .ok (N, us1, us2) ∧
      N.sdbRoot = N.best.root ∧
      ((N.best = best ∧ Inv N.D (pre ++ old.reverse) best) ∨ (N.best = top ∧ Inv N.D (pre ++ new.reverse) top)) := by
  cases k with
  | zero => exact ⟨_, [], [], restart_of_inv hD, rfl, Or.inl ⟨rfl, hD⟩⟩
  | succ k =>
    have e : crash (sideUnit top :: reorgUnits start best top old new) (k + 1) D =
        crash (reorgUnits start best top old new) k (applyOps (sideUnit top).ops D) := rfl
    rw [e]
    obtain ⟨N, us1, us2, h1, h2, h3⟩ := reorg_crash_recover F k (by simpa using hk)
    refine ⟨N, us1, us2, h1, h2, ?_⟩
    rcases h3 with ⟨_, _, _, hb, _, hi⟩ | ⟨_, hb, _, hi⟩
    · exact Or.inl ⟨hb, hi⟩
    · exact Or.inr ⟨hb, hi⟩

/-! ## Crashes inside the recovery -/

/-- **Recovery is idempotent.** Take any durable state `E` of the swap window (in particular any crash state
of a reorganisation after the marker write, or any state reached below). The restart writes `us1 ++ us2`.
If the process dies again after any `j` of those units, the next restart again succeeds and ends in the same
store at the same best block; and the state it starts from is again a window state or the final store, so
this holds for crashes inside that restart as well, to any depth. -/
theorem crash_during_recovery {D0 : Store} {pre old new : List Block} {start best top : Block} {E : Store}
    (R : Ready D0 pre old new start best top) (M : Mid D0 (markerOf start best top) old new top E) :
    ∃ us1 us2, restart E = .ok (⟨finalStore D0 old new top, top, top.root, []⟩, us1, us2) ∧
      ∀ j, j ≤ (us1 ++ us2).length →
        (Mid D0 (markerOf start best top) old new top (crash (us1 ++ us2) j E) ∨
         crash (us1 ++ us2) j E = finalStore D0 old new top) ∧
        ∃ us1' us2', restart (crash (us1 ++ us2) j E) =
          .ok (⟨finalStore D0 old new top, top, top.root, []⟩, us1', us2') := by
  obtain ⟨us1, E1, hinit, M1, hO, hu⟩ := M.init R rfl
  have hrec := M1.recover_old R rfl
  have hres : restart E = .ok (⟨finalStore D0 old new top, top, top.root, []⟩, us1,
      swapUnits (markerOf start best top) old new top false) := by simp [restart, hinit, hrec]
  refine ⟨us1, _, hres, ?_⟩
  intro j hj
  have hE1 : E1 = applyUnits us1 E := by
    rcases hu with ⟨h, h'⟩ | ⟨h, h'⟩
    · rw [h, h']; rfl
    · rw [h, h']; rfl
  -- classify the state after j units
  have cls : Mid D0 (markerOf start best top) old new top (crash (us1 ++ swapUnits (markerOf start best top) old new top false) j E) ∨
      crash (us1 ++ swapUnits (markerOf start best top) old new top false) j E = finalStore D0 old new top := by
    rcases Nat.lt_or_ge us1.length j with hgt | hle
    · obtain ⟨k', rfl⟩ : ∃ k', j = us1.length + k' := ⟨j - us1.length, by omega⟩
      have e : crash (us1 ++ swapUnits (markerOf start best top) old new top false) (us1.length + k') E =
          crash (swapUnits (markerOf start best top) old new top false) k' E1 := by
        simp only [crash, List.take_append, List.take_of_length_le (Nat.le_add_right _ _),
          Nat.add_sub_cancel_left, applyUnits_append, hE1]
      rw [e]
      have hlen : (swapUnits (markerOf start best top) old new top false).length = (midUnits old new top).length + 2 := by
        simp [swapUnits_eq]
      rcases Nat.lt_or_ge k' ((midUnits old new top).length + 2) with hlt | hge
      · left
        obtain ⟨i, rfl⟩ : ∃ i, k' = i + 1 := ⟨k' - 1, by omega⟩
        have e2 : (swapUnits (markerOf start best top) old new top false).take (i + 1) =
            markerSetUnit (markerOf start best top) :: (midUnits old new top).take i := by
          rw [swapUnits_eq, List.take_succ_cons, List.take_append_of_le_length (by omega)]
        rw [crash, e2]
        exact M1.progress R hO i
      · right
        rw [crash, List.take_of_length_le (by omega)]
        exact M1.swap_all
    · left
      rcases hu with ⟨h, h'⟩ | ⟨h, h'⟩
      · subst h; subst h'
        have : j = 0 := by simpa using hle
        subst this
        simpa [crash, applyUnits] using M
      · subst h
        have hj' : j = 0 ∨ j = 1 := by simp at hle; omega
        rcases hj' with rfl | rfl
        · simpa [crash, applyUnits] using M
        · have : crash ([Ready.recUnit old best top] ++ swapUnits (markerOf start best top) old new top false) 1 E = E1 := by
            rw [h']; rfl
          rw [this]; exact M1
  refine ⟨cls, ?_⟩
  rcases cls with hM | hF
  · obtain ⟨u, hr, _⟩ := restart_mid R hM
    exact ⟨u, _, hr⟩
  · rw [hF]
    exact ⟨[], [], restart_of_inv R.inv_final⟩

/-! ## Non-vacuity: the hypotheses hold on concrete, non-trivial states -/

namespace Ex
def g : Block := ⟨1, 0, 0, 1, []⟩
def a1 : Block := ⟨2, 1, 1, 2, [10]⟩
def b1 : Block := ⟨3, 1, 1, 3, [10, 11]⟩   -- shares transaction 10 with a1
def b2 : Block := ⟨4, 3, 2, 4, [12]⟩

/-- genesis, `a1` connected, `b1` and `b2` stored as side blocks -/
def D : Store := applyOps ((sideUnit b1).ops ++ (sideUnit b2).ops) (applyUnits (connectUnits a1) (genesisStore g))

private theorem invG : Inv (genesisStore g) [g] g := inv_genesis g rfl rfl

private theorem invA : Inv (applyUnits (connectUnits a1) (genesisStore g)) [g, a1] a1 :=
  connect_full_inv invG rfl rfl (by simp [g, a1]) (by simp [a1]) (by
    intro t ht; simp [a1] at ht; subst ht
    simp [getTx, genesisStore, applyOps, W.apply, W.key, W.val])

private theorem invD : Inv D [g, a1] a1 := by
  have h1 := inv_side (b := b1) invA (by simp [g, a1, b1])
  have h2 := inv_side (b := b2) h1 (by simp [g, a1, b2])
  simpa [D, applyOps_append] using h2

/-- The hypotheses of `connect_crash_recover` hold for `a1` on the genesis store (test on sample values). -/
example : ∃ N, restart (crash (connectUnits a1) 2 (genesisStore g)) = .ok (N, [], []) ∧ N.best = g :=
  let ⟨N, h1, _, _, h4⟩ := connect_crash_recover invG (b := a1) rfl rfl (by simp [g, a1]) (by simp [a1])
    (by intro t ht; simp [a1] at ht; subst ht; simp [getTx, genesisStore, applyOps, W.apply, W.key, W.val]) 2 (by decide)
  ⟨N, h1, by rcases h4 with ⟨_, h, _⟩ | ⟨h, _⟩; exact h; exact absurd h (by decide)⟩

/-- A reorganisation of depth 1 with a shared transaction: `Fork` holds (test on sample values). -/
private theorem fork : Fork D [g] [a1] [b2, b1] g a1 b2 where
  inv := invD
  preLast := rfl
  oldHead := rfl
  newHead := rfl
  newDesc := by simp [DescFrom, g, b1, b2]
  newStored := by
    intro b hb
    simp at hb
    rcases hb with rfl | rfl <;> rfl
  longer := by decide
  newIds := by
    intro b hb c hc
    simp at hb hc
    rcases hb with rfl | rfl <;> rcases hc with rfl | rfl <;> decide
  txUnique := by
    intro b hb c hc i j t hi hj
    simp at hb hc
    rcases hb with rfl | rfl | rfl <;> rcases hc with rfl | rfl | rfl <;>
      simp [g, b1, b2] at hi hj ⊢ <;>
      (rcases i with _ | _ | i <;> rcases j with _ | _ | j <;> simp_all <;> omega)

/-- … so `reorg_crash_recover` applies to it at every prefix; e.g. a crash right after the marker write
recovers to the new tip `b2` (test on sample values). -/
example : ∃ N us1 us2, restart (crash (reorgUnits g a1 b2 [a1] [b2, b1]) 5 D) = .ok (N, us1, us2) ∧ N.best = b2 := by
  obtain ⟨N, us1, us2, h1, _, h3⟩ := reorg_crash_recover fork 5 (by decide)
  rcases h3 with ⟨h, _⟩ | ⟨_, hb, _⟩
  · exact absurd h (by decide)
  · exact ⟨N, us1, us2, h1, hb⟩

end Ex

/-! ## Where the pinned code does not meet the statement

Two negative results, each with a concrete witness evaluated on the model (tests on sample values; the
harness reproduces both on the real code, see notes/C06.md).

1. *Feeding the same blocks again does not always converge* (finding `C06-reorg-not-resumed-before-marker`).
   When the crash happens after the block that triggers a reorganisation was stored as a side block and
   before the marker is written, the restart is coherent at the old tip (`reorg_crash_recover`, first case),
   but the triggering block is "already connected" when it is fed again (`feed_stored`): nothing happens, the
   node stays on the shorter branch until another block of that branch arrives. `reorg_replay_converges_partial`
   therefore carries the guard `(rollforwardUnits new).length < k`.

2. *A partially flushed recovery bulk can make the node unbootable* (finding
   `C06-torn-recover-mapping-unbootable`; only under the optional "every partial flush of a bulk" reading).
   `RecoverChainMapping` deletes the new heights first and rewrites `latest` last in one bulk; if only the
   deletions reach the disk, `latest` names a height without index entry and `ChainDB.Init` fails with
   `ErrorLoadBestBlock`. All theorems above treat a flushed bulk as one atomic unit. -/

namespace Ex

/-- Witness 1: crash after `b2` was stored (it would trigger the reorganisation `a1 → b2`) — here the state
`D` itself, i.e. a crash before any further unit. Restart, feed `b2` again: still at `a1`. -/
example : (match restart D with
           | .ok (N, _, _) => ((feed N b2).1.best.id, (feed N b2).2.2.length)
           | .error _ => (0, 0)) = (a1.id, 0) := by decide

/-- … while the crash-free run of the same arrival (feeding `b2` to a node that has `g, a1, b1`) ends at `b2`. -/
example : (feed ⟨applyOps (sideUnit b1).ops (applyUnits (connectUnits a1) (genesisStore g)), a1, a1.root, []⟩ b2).1.best.id
    = b2.id := by decide

/-- Witness 2: the swap `a1 → b2` has completed except for the marker deletion; the restart's
`RecoverChainMapping` bulk is `[-no:2, +no:1>a1, +latest:1]`; a crash after its first entry leaves
`latest = 2` without a height-2 entry: the next boot fails loading the best block. -/
example :
    let E := crash (reorgUnits g a1 b2 [a1] [b2, b1]) ((reorgUnits g a1 b2 [a1] [b2, b1]).length - 1) D
    bootErr E = none ∧ bootErr (crashTorn [Ready.recUnit [a1] a1 b2] 0 1 E) = some .loadBest := by decide

end Ex

/-! ## Histories: any sequence of arrivals, crashes at any write prefix, interrupted restarts

Everything above is "one operation from a coherent store" (`Inv`, `Fork`). The theorems of this section make the
coherence of the whole node an invariant of arbitrary histories (vocabulary in Lemmas/CrashHist.lean):

* `Tree U g` — the universe of valid blocks: unique ids, parents in the universe one height below, a transaction
  hash occurs once on any parent-linked path (C04; the only assumption, made once for the universe).
* `Coh U g N chain` — node coherence: `Inv` for the main chain `chain`, every stored block record is a universe block
  whose parent is stored (side branches included), the best block has no stored child off the chain, the state DB
  is at the best block's root, every parked orphan is a universe block whose parent is not stored.
* `RecState U g P E` — `E` is a store a crash can leave: coherent, or inside the swap window of a reorganisation.
* `Legit c0 c1 c` — `c` is the chain before an arrival, the chain after it, or (a run of parked orphans) between.
-/

/-- **`Fork` is established, not assumed.** In a coherent store, every stored block above the best block that is not
on the main chain is the top of a `Fork` which splits the chain at the branch root — the hypothesis of
`reorg_crash_recover` / `arrival_crash_recover` holds whenever `feed` starts a reorganisation. -/
theorem fork_established {U : Block → Prop} {g : Block} {D : Store} {chain : List Block} {best top : Block}
    (T : Tree U g) (C : CohD U g D chain best) (hs : getBlock D top.id = some top) (hn : top ∉ chain)
    (hlt : best.no < top.no) :
    ∃ pre old new start, chain = pre ++ old.reverse ∧ Fork D pre old new start best top :=
  C.fork T hs hn hlt

/-- **Any arrival from any coherent node** — stored block, orphan, a chain of parked orphans connected behind the
block or stored as side blocks, a reorganisation of any depth: `feed` succeeds, the node stays coherent, its
store is the old store plus the units reported, and the store left by *every* prefix of those units is one from
which the restart recovers (`restart_any_depth`) to the chain before the arrival, after it, or in between. -/
theorem feed_any_coherent {U : Block → Prop} {g : Block} (T : Tree U g) {N : Node} {chain : List Block}
    (C : Coh U g N chain) {b : Block} (hU : U b) :
    ∃ chain', (feed N b).2.1 = .ok ∧ Coh U g (feed N b).1 chain' ∧
      (feed N b).1.D = applyUnits (feed N b).2.2 N.D ∧
      ∀ k, RecState U g (Legit chain chain') (crash (feed N b).2.2 k N.D) :=
  feed_hist T C hU

/-- **Restarts interrupted to any depth.** From any state a crash can leave, let the process die again after `j`
units of each of the following restarts (`js`, any list) and let the last restart complete: it succeeds, the node
is coherent (orphan pool empty) and its chain satisfies `P`. -/
theorem restart_any_depth {U : Block → Prop} {g : Block} {P : List Block → Prop} {E : Store}
    (h : RecState U g P E) (js : List Nat) :
    ∃ N chain, restartChain E js = .ok N ∧ Coh U g N chain ∧ P chain ∧ N.orphans = [] :=
  h.restartChain js

/-- **One event of a history**: an arrival, completed or interrupted by a crash after any `k` of its units followed by
any crashes inside the restarts, from any coherent node: the resulting node is coherent and its chain is the chain
before the arrival, the chain `post` of the uninterrupted arrival, or one in between. -/
theorem history_step {U : Block → Prop} {g : Block} (T : Tree U g) {N : Node} {chain : List Block}
    (C : Coh U g N chain) (e : Ev) (hU : U e.block) :
    ∃ N' chain' post, stepEv N e = .ok N' ∧ Coh U g N' chain' ∧ Coh U g (feed N e.block).1 post ∧
      Legit chain post chain' :=
  step_hist T C e hU

/-- **Every history.** Start at the genesis node; let any sequence of events happen — blocks of the universe arriving in
any order (forks, orphans, reorganisations back and forth), the process dying after any number of the durable
write units of an arrival, dying again after any number of units of each restart: every restart succeeds and the
node is coherent after every event (C05 clauses on the durable stores, state marker of the best block, no
reorganisation marker, state DB at the best block's root). By induction over the event list from `history_step`. -/
theorem history_coherent {U : Block → Prop} {g : Block} (T : Tree U g) (es : List Ev) (hU : ∀ e ∈ es, U e.block) :
    ∃ N chain, runEvs ⟨genesisStore g, g, g.root, []⟩ es = .ok N ∧ Coh U g N chain :=
  Crash.history_coherent T es _ [g] (coh_genesis T) hU

/-- **Every prefix of the global sequence.** Feed any list `bs` of universe blocks to the genesis node, take the global
sequence `journal` of durable write units of that crash-free run, cut it after any `k` units, restart — with any
number of crashes inside the restarts: the node comes up coherent, and its chain is one the crash-free run
reaches or is about to reach (`Reached`: before/after/between the `i`-th arrival for some `i`). -/
theorem journal_prefix_recovers {U : Block → Prop} {g : Block} (T : Tree U g) (bs : List Block) (hU : ∀ b ∈ bs, U b)
    (k : Nat) (js : List Nat) :
    let N0 : Node := ⟨genesisStore g, g, g.root, []⟩
    ∃ N chain, restartChain (crash (journal N0 bs) k (genesisStore g)) js = .ok N ∧ Coh U g N chain ∧
      Reached U g N0 bs chain := by
  intro N0
  obtain ⟨h, _⟩ := journal_crashOK T bs N0 [g] (coh_genesis T) hU
  obtain ⟨N, chain, h1, h2, h3, _⟩ := (h k).restartChain js
  exact ⟨N, chain, h1, h2, h3⟩

/-- **Fail-stop when the state DB lags.** For every store whatsoever that holds a reorganisation marker (no coherence
assumed — in particular `crashLag`, a state DB that lost commits the chain DB's marker relies on): if the restart
succeeds, the best block it ends at carries its state completion marker and the state DB is at its root. This is
the statement that needs the `HasMarker` check of `executeBlockReco` (`recoRollforward`). -/
theorem lagging_state_fail_stop {E : Store} {N : Node} {us1 us2 : List Crash.Unit}
    (h : restart E = .ok (N, us1, us2)) (hm : getMarker E ≠ none) :
    hasStMark N.D N.best.root = true ∧ N.sdbRoot = N.best.root :=
  restart_state_complete h hm

/-- **The model with failing executions extends the model the theorems are about.** -/
theorem feedB_no_bad (N : Node) (b : Block) : feedB (fun _ => false) N b = feed N b := feedB_valid N b

/-- **Any arrival when executions may fail** — `bad` is any set of blocks whose execution fails (a forged state root:
the block is rejected on the tip, stored unexecuted off the tip, and a reorganisation through it fails in the
roll-forward after the blocks below it were executed and committed): the node stays coherent, and every unit
prefix of what the arrival wrote is recoverable to the chain before it, after it, or in between. -/
theorem feedB_any_coherent {U : Block → Prop} {g : Block} (T : Tree U g) (bad : Nat → Bool) {N : Node} {chain : List Block}
    (C : Coh U g N chain) {b : Block} (hU : U b) :
    ∃ chain', Coh U g (feedB bad N b).1 chain' ∧
      (feedB bad N b).1.D = applyUnits (feedB bad N b).2.2 N.D ∧
      ∀ k, RecState U g (Legit chain chain') (crash (feedB bad N b).2.2 k N.D) :=
  feedB_hist T bad C hU

/-- **Every history, with any set of failing blocks**: `history_coherent` for `feedB bad` in place of `feed`. -/
theorem history_coherent_with_failures {U : Block → Prop} {g : Block} (T : Tree U g) (bad : Nat → Bool)
    (es : List Ev) (hU : ∀ e ∈ es, U e.block) :
    ∃ N chain, runEvsB bad ⟨genesisStore g, g, g.root, []⟩ es = .ok N ∧ Coh U g N chain :=
  historyB_coherent T bad es _ [g] (coh_genesis T) hU

/-- **Crash inside a reorganisation that fails** (some block of the new branch does not execute): the node stays
coherent on the old chain with the old best block, and every unit prefix of what the failed attempt wrote is a
coherent store with that same chain. -/
theorem failed_reorg_crash_recover {U : Block → Prop} {g : Block} {N N' : Node} {chain : List Block} {top : Block}
    {us : List Crash.Unit} (bad : Nat → Bool) (C : Coh U g N chain) (h : reorgB bad N top = some (N', us, false)) :
    Coh U g N' chain ∧ N'.best = N.best ∧ N'.D = applyUnits us N.D ∧
      ∀ k, RecState U g (fun c => c = chain) (crash us k N.D) :=
  reorgB_failed bad C h

namespace Ex

/-- The universe of the example blocks (two branches off the genesis that share transaction 10). -/
def U (b : Block) : Prop := b = g ∨ b = a1 ∨ b = b1 ∨ b = b2

/-- `Tree` holds for it (test on sample values): the shared transaction sits in `a1` and `b1`, which have the same
number and therefore never lie on one parent-linked path. -/
private theorem tree : Tree U g where
  gU := Or.inl rfl
  gno := rfl
  gtx := rfl
  uid := by
    intro a b ha hb e
    rcases ha with rfl | rfl | rfl | rfl <;> rcases hb with rfl | rfl | rfl | rfl <;> first | rfl | (exact absurd e (by decide))
  par := by
    intro b hb hg
    rcases hb with rfl | rfl | rfl | rfl
    · exact absurd rfl hg
    · exact ⟨g, Or.inl rfl, rfl, rfl⟩
    · exact ⟨g, Or.inl rfl, rfl, rfl⟩
    · exact ⟨b1, Or.inr (Or.inr (Or.inl rfl)), rfl, rfl⟩
  txu := by
    intro l hasc hU b hb c hc i j t hi hj
    have hab : ¬ (a1 ∈ l ∧ b1 ∈ l) := fun ⟨h1, h2⟩ => absurd (hasc.no_inj h1 h2 rfl) (by decide)
    rcases hU b hb with rfl | rfl | rfl | rfl <;> rcases hU c hc with rfl | rfl | rfl | rfl <;>
      first
      | (exfalso; apply hab; constructor <;> assumption)
      | (simp [g, a1, b1, b2] at hi hj ⊢; done)
      | (simp [g, a1, b1, b2] at hi hj ⊢
         rcases i with _ | _ | i <;> rcases j with _ | _ | j <;> first | omega | (simp_all <;> omega))

/-- `history_coherent` applies to a concrete history (test on sample values): `a1` arrives, `b1` is stored as a side
block, the arrival of `b2` (reorganisation `a1 → b2`) is cut after 7 units — inside the swap — and the first restart
dies after 2 of its own units: the second restart brings the node up, and it is at `b2`. -/
example : ∃ N chain, runEvs ⟨genesisStore g, g, g.root, []⟩ [.feed a1, .feed b1, .crash b2 7 [2]] = .ok N ∧
    Coh U g N chain :=
  history_coherent tree _ (by
    intro e he
    simp at he
    rcases he with rfl | rfl | rfl
    · exact Or.inr (Or.inl rfl)
    · exact Or.inr (Or.inr (Or.inl rfl))
    · exact Or.inr (Or.inr (Or.inr rfl)))

example : (match runEvs ⟨genesisStore g, g, g.root, []⟩ [.feed a1, .feed b1, .crash b2 7 [2]] with
           | .ok N => N.best.id
           | .error _ => 0) = b2.id := by decide

/-- A state DB that lags (test on sample values): the reorganisation `a1 → b2` is cut after the marker write (5 units),
but the state DB lost everything from position 1 on (the roll-forward's commits): the restart refuses. -/
example : (match restart (crashLag (reorgUnits g a1 b2 [a1] [b2, b1]) 5 1 D) with
           | .ok _ => none
           | .error e => some e) = some .noStateMarker := by decide

/-- … and so does it when the top block's state bulk reached the disk without its completion marker (torn bulk:
the first entry, the data, of the unit at position 2 — test on sample values). -/
example : (match restart (crashLagTorn (reorgUnits g a1 b2 [a1] [b2, b1]) 5 2 1 D) with
           | .ok _ => none
           | .error e => some e) = some .noStateMarker := by decide

/-- A reorganisation through a block that does not execute (`b1` bad) fails after zero units and leaves the node at
`a1` (test on sample values). -/
example : (feedB (fun i => i == b1.id) ⟨applyOps (sideUnit b1).ops (applyUnits (connectUnits a1) (genesisStore g)), a1, a1.root, []⟩ b2).2.1
    = .err := by decide

end Ex

/-!
## Not carried by a theorem

* Exact store equality after re-feeding (`connect_replay_converges`, `reorg_replay_converges_partial`) is proved per
  operation; over histories (`history_coherent`, `journal_prefix_recovers`) the statement is coherence + "the chain is
  one the crash-free run reaches", not equality of the final stores (false literally: witness 1).
* The orphan pool has no capacity in the model (`orphanpool.go` evicts); the in-memory cache of errored blocks is
  not modelled (`feedB`: a block is fed once per process life).
* Convergence after a crash *before* the marker write: false for "the same blocks" (witness 1); that one
  more block on the longer branch brings both runs to the same observable state is checked by the harness
  on the real code at every such crash point, not proved.
* Partially flushed bulks (`crashTorn`): corresponded and explored by the harness (thorough tier), no theorem
  beyond witness 2.
* Block execution is abstract (a block carries its resulting root; the state commit is one bulk ending with
  the completion marker); the real DPoS status record is replaced by the harness' stub consensus, whose
  status write sits in the same units (`+cons` in the tip transaction and in the mapping bulk).
* Torn writes inside one key/value pair and the durability semantics of badger/leveldb are below the
  `db.DB` interface, which is where the units are observed.
-/

end Aergo.Props.C06
