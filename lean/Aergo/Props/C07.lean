/-
C07 — Fork choice: reorganisation reaches the longest valid branch and its exact state.

"Whenever a branch strictly longer than the current main chain becomes fully available and valid
(and does not fork below the last irreversible block), the node switches to it: the best block
becomes that branch's tip, the world state becomes exactly the state obtained by executing that
branch from the fork point, and transactions that were only on the abandoned branch are offered back
to the transaction pool. A shorter or equal branch, an invalid branch, or one forking below the
irreversible block never displaces the main chain."

The theorems are about the model `Aergo.Chain` (the same model and harness machinery as C05; see
Props/C05.lean for the vocabulary: `Inv`, `ExecLaw`, the honesty parameter `U`). Additional
vocabulary (Lemmas/Chain.lean): `Asc S l` — `l` is a parent-linked chain of consecutive heights
starting right above `S` (lowest first); `ExecAsc exec S l` — its blocks execute one after the other,
each on its predecessor's state root, starting on `S`'s; `GatherSpec N top gt` — what `gather`
found: the fork point `gt.brStart` is a main-chain block below the tip, `gt.newB` is the stored chain
from right above it up to `top`, none of it on the main chain, and `gt.oldB` is exactly the set of
main-chain blocks above the fork point; `putsOf out` — the transactions handed to the pool
(`MemPoolPut`) among the messages `out`; `Grew N N'` — the best block is the same block, or the best
height is strictly higher.

What is proved, what is not.
* `reorg_exact`, `reoffered`, `main_chain_executed`: the second and third sentence-parts of the
  property, for every reorganisation the model carries out, any branch geometry.
* `never_displaced_*`: the last sentence, for every arrival.
* `switches_to_longer_valid_branch` (= the first sentence at the moment the chain processor looks at a
  branch top): a stored, executable, strictly higher branch forking at or above the LIB *is* switched to.
* `arrival_triggers_switch`, `arrival_keeps_when_not_longer` (arrival level: WHICH arrival triggers the
  reorganisation, and to WHICH block): stated against `Parked`, a specification of "what is parked under
  the arriving block" in terms of the orphan pool alone; the arriving block together with the chain parked
  under it is stored, and the end of that chain — not the arriving block — is what the node switches to,
  iff it is strictly higher than the best block.
* `fork_choice_over_histories`: after ANY history of arrivals of valid blocks (any order, children before
  parents, any number of branches, duplicates, any pool capacity) no stored block is higher than the best
  block and every stored block sits on a fully stored valid branch: the best block is the tip of a longest
  fully stored valid branch, whatever the order of arrival was. (With invalid blocks in the history this is
  false for the pinned code: `valid_prefix_not_adopted`.)
* NOT a theorem, and false for the pinned code: "after every arrival no strictly longer valid stored
  branch above the LIB is left unadopted" (`no_better_branch` of DESIGN §4). The chain processor calls
  `reorg` only for the *last* block of the arrival's orphan chain; when that last block (or one below
  it) is invalid the whole reorganisation fails and a valid, strictly longer prefix below the invalid
  block stays unadopted (known finding C07-valid-prefix-under-invalid-orphan-not-adopted, witness
  `valid_prefix_not_adopted` below; the harness reproduces it on the real chain service and tags
  exactly that history shape). `no_better_branch_partial` is the statement under the guard that
  excludes it: the branch considered is the one `reorg` is called for.
-/
import Aergo.Lemmas.ChainHistory
import Aergo.Lemmas.ChainLaw

namespace Aergo.Props.C07
open Aergo.Chain

variable {exec : Nat → Block → Option Nat} {txsOf : Nat → List Nat} {U : Nat → Option Block} {g : Block}

/-- **Exact state after a reorganisation.** Whenever `reorg` is carried out on a consistent node, `gather` had found a
fork point on the old main chain, not below the last irreversible height; the new branch is the stored parent-linked
chain from right above the fork point to `top`; its blocks were accepted by the consensus and executed one after the
other starting on the fork point's state root; the best block is `top`, the state root is `top`'s (= the result of that
execution), and the chain database is consistent again. -/
theorem reorg_exact (hE : ExecLaw exec txsOf) (hU : UKeyed U) (N N' : Node) (top : Block)
    (h : Inv exec txsOf U g N) (hst : N.blocks top.id = some top) (hgt : N.latest < top.no)
    (hr : reorg exec N top = (.done, N')) :
    ∃ gt, gather N top = some gt ∧ GatherSpec N top gt ∧ N.lib ≤ gt.brStart.no ∧
      ExecAsc exec gt.brStart gt.newB.reverse ∧ (∀ x ∈ gt.newB, x.consOk = true) ∧
      N'.best = top ∧ N'.latest = top.no ∧ N'.sdbRoot = top.claimed ∧ Inv exec txsOf U g N' := by
  obtain ⟨gt, a, b, c, d, e, f, g', i, _⟩ := reorg_done hU h hst hgt hr
  have hI := Inv.reorg hE hU h hst hgt
  rw [hr] at hI
  exact ⟨gt, a, b, c, d, e, f, g', i, hI⟩

/-- **State = execution of the main chain**: on a consistent node every main-chain block above genesis executes on its
predecessor's state root and reaches the root it claims, and the state DB stands at the best block's root. By
`Props.C05.inv_history` this holds after any history, in particular after any number of reorganisations: the state is
the one obtained by executing the winning branch from genesis. -/
theorem main_chain_executed (N : Node) (h : Inv exec txsOf U g N) :
    (∀ k, k < N.latest → ∃ p b, blockByNo N k = some p ∧ blockByNo N (k + 1) = some b ∧ b.parent = p.id ∧
        exec p.claimed b = some b.claimed) ∧
    N.sdbRoot = N.best.claimed ∧ blockByNo N N.latest = some N.best := by
  have bm : ∀ x, onMain N x → blockByNo N x.no = some x := fun x hx => by
    unfold blockByNo; rw [hx.1]; exact hx.2
  refine ⟨?_, h.root, by rw [← h.best_no]; exact bm _ h.best_main⟩
  intro k hk
  obtain ⟨p, hp, hpn, _⟩ := h.chain k (by omega)
  obtain ⟨b, hb, hbn, hlink⟩ := h.chain (k + 1) (by omega)
  refine ⟨p, b, by rw [← hpn]; exact bm p hp, by rw [← hbn]; exact bm b hb, ?_, h.executed b p hb hp (by omega)⟩
  have h1 := hlink (by omega)
  simp only [Nat.add_sub_cancel] at h1
  rw [← hpn, hp.1] at h1
  injection h1 with h1; exact h1.symm

/-- **Abandoned transactions are offered back to the pool, exactly those.** A reorganisation that is carried out hands
to the pool (each once) exactly the transactions that are in some main-chain block above the fork point and in no block
of the new branch. -/
theorem reoffered (hU : UKeyed U) (N N' : Node) (top : Block)
    (h : Inv exec txsOf U g N) (hst : N.blocks top.id = some top) (hgt : N.latest < top.no)
    (hr : reorg exec N top = (.done, N')) :
    ∃ gt puts, gather N top = some gt ∧ putsOf N'.out = putsOf N.out ++ puts ∧
      (∀ t, t ∈ puts ↔ ((∃ o, onMain N o ∧ gt.brStart.no < o.no ∧ t ∈ o.txs) ∧ ¬ ∃ x ∈ gt.newB, t ∈ x.txs)) ∧
      puts = sortDedup puts := by
  obtain ⟨gt, a, gs, _, _, _, _, _, _, hp⟩ := reorg_done hU h hst hgt hr
  refine ⟨gt, _, a, hp, ?_, ?_⟩
  · intro t
    rw [mem_sortDedup, List.mem_filter, List.mem_flatMap]
    simp only [Bool.not_eq_true', List.any_eq_false, List.contains_eq_mem, decide_eq_true_eq, List.mem_reverse,
      not_exists, not_and]
    constructor
    · rintro ⟨⟨o, ho, hto⟩, hn⟩
      exact ⟨⟨o, ((gs.old_set o).mp ho).1, ((gs.old_set o).mp ho).2, hto⟩, fun x hx => by simpa using hn x hx⟩
    · rintro ⟨⟨o, hom, hos, hto⟩, hn⟩
      exact ⟨⟨o, (gs.old_set o).mpr ⟨hom, hos⟩, hto⟩, fun x hx => by simpa using hn x hx⟩
  · -- sorting and deduplicating twice changes nothing
    have idem : ∀ l : List Nat, sortDedup (sortDedup l) = sortDedup l := by
      have sorted_ins : ∀ (x : Nat) (l : List Nat), l.Pairwise (· < ·) → (insertSorted x l).Pairwise (· < ·) := by
        intro x l
        induction l with
        | nil => intro _; simp [insertSorted]
        | cons y ys ih =>
          intro hp
          rw [List.pairwise_cons] at hp
          simp only [insertSorted]
          split
          · next hxy =>
            rw [List.pairwise_cons]
            exact ⟨fun z hz => by
              rcases List.mem_cons.mp hz with rfl | hz
              · exact hxy
              · have := hp.1 z hz; omega, List.pairwise_cons.mpr hp⟩
          · split
            · exact List.pairwise_cons.mpr hp
            · next h1 h2 =>
              rw [List.pairwise_cons]
              refine ⟨fun z hz => ?_, ih hp.2⟩
              rcases (mem_insertSorted x z ys).mp hz with rfl | hz
              · omega
              · exact hp.1 z hz
      have sorted_sd : ∀ l : List Nat, (sortDedup l).Pairwise (· < ·) := by
        intro l
        induction l with
        | nil => simp [sortDedup]
        | cons a l ih => exact sorted_ins a _ ih
      have fix : ∀ l : List Nat, l.Pairwise (· < ·) → sortDedup l = l := by
        intro l
        induction l with
        | nil => intro _; rfl
        | cons a l ih =>
          intro hp
          rw [List.pairwise_cons] at hp
          show insertSorted a (sortDedup l) = a :: l
          rw [ih hp.2]
          cases l with
          | nil => rfl
          | cons b r => simp only [insertSorted]; rw [if_pos (hp.1 b (by simp))]
      intro l; exact fix _ (sorted_sd l)
    exact (idem _).symm

/-- **A shorter or equal branch never displaces the main chain**: after any arrival whatsoever the best block is the
same block as before, or the best height is strictly higher. -/
theorem never_displaced_by_shorter (hE : ExecLaw exec txsOf) (N : Node) (b : Block)
    (h : Inv exec txsOf U g N) (hb : U b.id = some b) :
    ((addBlock exec N b).2.best = N.best ∧ (addBlock exec N b).2.latest = N.latest) ∨
    N.latest < (addBlock exec N b).2.latest :=
  addBlock_grew hE h hb

/-- The same for a block of the node's own block factory (own-block path of `ChainService.addBlock`). -/
theorem never_displaced_by_shorter_own (hE : ExecLaw exec txsOf) (N : Node) (b : Block)
    (h : Inv exec txsOf U g N) (hb : U b.id = some b) :
    ((addOwn exec N b).2.best = N.best ∧ (addOwn exec N b).2.latest = N.latest) ∨
    N.latest < (addOwn exec N b).2.latest :=
  addOwn_grew hE h hb

/-- **A branch forking below the last irreversible block never displaces the main chain**: the reorganisation is vetoed
and nothing at all changes. -/
theorem never_displaced_below_lib (N : Node) (top : Block) (gt : Gather) (hg : gather N top = some gt)
    (hlib : gt.brStart.no < N.lib) : reorg exec N top = (.veto, N) := by
  unfold reorg
  rw [hg]
  simp only [if_pos hlib]

/-- **An invalid branch never displaces the main chain**: when the reorganisation is not carried out — in particular
when a block of the new branch does not execute, does not reach the root it claims, or is refused by the consensus —
the best block, the height index, the tx index and the state root are what they were, and nothing is offered to the
pool. -/
theorem never_displaced_by_invalid (N N' : Node) (top : Block) (res : ReorgRes) (h : Inv exec txsOf U g N)
    (hgt : N.latest < top.no) (hr : reorg exec N top = (res, N')) (hres : res ≠ .done) :
    N'.best = N.best ∧ N'.latest = N.latest ∧ N'.byNo = N.byNo ∧ N'.txIdx = N.txIdx ∧ N'.sdbRoot = N.sdbRoot ∧
    putsOf N'.out = putsOf N.out :=
  reorg_not_done h hgt hr hres

/-- A reorganisation whose new branch contains a block that does not execute is not carried out. -/
theorem invalid_branch_not_adopted (hU : UKeyed U) (N : Node) (top : Block) (h : Inv exec txsOf U g N)
    (hst : N.blocks top.id = some top) (hgt : N.latest < top.no) (gt : Gather) (hg : gather N top = some gt)
    (hbad : ¬ ExecAsc exec gt.brStart gt.newB.reverse) : (reorg exec N top).1 ≠ .done := by
  intro hd
  generalize hr : reorg exec N top = rr at hd
  obtain ⟨res, N'⟩ := rr
  simp only at hd; subst hd
  obtain ⟨gt', hg', _, _, hea, _⟩ := reorg_done hU h hst hgt hr
  rw [hg] at hg'; injection hg' with hg'; subst hg'
  exact hbad hea

/-- **The node switches to a strictly longer valid branch** (at the moment the chain processor considers its top):
if `l` is a stored parent-linked chain of consecutive heights that leaves the main chain at the main-chain block `S`
(below the tip, not below the last irreversible height), ends in `top` strictly above the best height, and executes
block by block starting on `S`'s state root with the consensus accepting every block, then `reorg` to `top` is carried
out: the best block becomes `top`, the state root the result of that execution, the database is consistent. -/
theorem switches_to_longer_valid_branch (hE : ExecLaw exec txsOf) (hU : UKeyed U) (N : Node) (S top : Block)
    (l : List Block) (h : Inv exec txsOf U g N) (hS : onMain N S) (hSlt : S.no < N.latest) (hlib : N.lib ≤ S.no)
    (hasc : Asc S l) (hne : l ≠ []) (htop : l.getLastD S = top)
    (hst : ∀ x ∈ l, N.blocks x.id = some x ∧ ¬ onMain N x) (hgt : N.latest < top.no)
    (hea : ExecAsc exec S l) (hc : ∀ x ∈ l, x.consOk = true) :
    ∃ N', reorg exec N top = (.done, N') ∧ N'.best = top ∧ N'.sdbRoot = top.claimed ∧ N'.latest = top.no ∧
      Inv exec txsOf U g N' :=
  reorg_switches hE hU h hS hSlt hlib hasc hne htop hst hgt hea hc

/-- `no_better_branch`, the part that holds. Full statement (DESIGN §4 C07), *false* for the pinned code:

    Inv N → let N' := (addBlock N b).2;
    ∀ x stored in N', Valid (branch x) → forkPoint (branch x) N'.main ≥ N'.lib → x.no ≤ N'.best.no

Proved here under the guard "the branch is the one the chain processor calls `reorg` for" (its top is the last block
of the arrival's orphan chain): for that branch the outcome of `reorg` is `done` **iff** the fork point is not below the
last irreversible height and the branch executes with the consensus accepting every block. Missing for the full
statement: the processor never looks at a proper prefix of that chain (see `valid_prefix_not_adopted`), and a valid
block that sits in the errored-blocks cache with its own content is refused when offered again. -/
theorem no_better_branch_partial (hU : UKeyed U) (N : Node) (top : Block) (gt : Gather) (h : Inv exec txsOf U g N)
    (hst : N.blocks top.id = some top) (hgt : N.latest < top.no) (hg : gather N top = some gt) :
    (reorg exec N top).1 = .done ↔
      (N.lib ≤ gt.brStart.no ∧ ExecAsc exec gt.brStart gt.newB.reverse ∧ ∀ x ∈ gt.newB, x.consOk = true) := by
  constructor
  · intro hd
    generalize hr : reorg exec N top = rr at hd
    obtain ⟨res, N'⟩ := rr
    simp only at hd; subst hd
    obtain ⟨gt', hg', _, hl, hea, hc, _⟩ := reorg_done hU h hst hgt hr
    rw [hg] at hg'; injection hg' with hg'; subst hg'
    exact ⟨hl, hea, hc⟩
  · rintro ⟨hl, hea, hc⟩
    exact reorg_complete hg hl hgt hea hc

/-- **Which arrival triggers the reorganisation, and to which block.** `S` is a main-chain block below the tip and not
below the last irreversible height; `pre ++ b :: chain` is a parent-linked chain of consecutive heights starting right
above `S`, of which `pre` is already stored off the main chain, `b` is the arriving block (honest identifier, not stored,
not known as errored with this content, configured fork version, block signature accepted) and `chain` is exactly what is parked under `b` in the
orphan pool (`Parked`: follow the slot keyed by the last block's identifier while the numbers fit). If none of these
blocks is the main-chain block of its height, the chain executes block by block from `S`'s state root with the consensus
accepting every block, and its LAST block `top` is strictly higher than the best block, then THIS arrival makes `top`
the best block: answer `ok`, state root `top`'s, database consistent. (Calling `reorg` for the arriving block instead of
the end of the parked chain — the seeded change C07-1 — violates this statement as soon as `chain ≠ []`.) -/
theorem arrival_triggers_switch (hE : ExecLaw exec txsOf) (hU : UKeyed U) (N : Node) (h : Inv exec txsOf U g N)
    (S b top : Block) (pre chain : List Block)
    (hS : onMain N S) (hSlt : S.no < N.latest) (hlib : N.lib ≤ S.no)
    (hasc : Asc S (pre ++ b :: chain)) (hpre : ∀ x ∈ pre, N.blocks x.id = some x)
    (hbU : U b.id = some b) (hnew : N.blocks b.id = none) (hnb : (b.id, b) ∉ N.bad) (hver : b.verBad = false) (hsig : b.sigBad = false)
    (hpark : Parked N.orphans b chain) (hoff : ∀ x ∈ pre ++ b :: chain, N.byNo x.no ≠ some x.id)
    (htop : (b :: chain).getLastD b = top) (hgt : N.latest < top.no)
    (hea : ExecAsc exec S (pre ++ b :: chain)) (hc : ∀ x ∈ pre ++ b :: chain, x.consOk = true) :
    (addBlock exec N b).1 = .ok ∧ (addBlock exec N b).2.best = top ∧ (addBlock exec N b).2.sdbRoot = top.claimed ∧
    (addBlock exec N b).2.latest = top.no ∧ Inv exec txsOf U g (addBlock exec N b).2 :=
  addBlock_switches hE hU h hS hSlt hlib hasc hpre hbU hnew hnb hver hsig hpark hoff htop hgt hea hc

/-- **… and an arrival whose parked chain does not end strictly higher than the best block displaces nothing**: the
arriving side-branch block and the chain parked under it are stored, the best block, the height index and the state root
are what they were (no validity needed). -/
theorem arrival_keeps_when_not_longer (hU : UKeyed U) (N : Node) (h : Inv exec txsOf U g N)
    (b prev top : Block) (chain : List Block)
    (hprev : N.blocks b.parent = some prev) (hpno : prev.no + 1 = b.no)
    (hnotbest : b.parent ≠ N.best.id ∨ b.no ≠ N.latest + 1)
    (hbU : U b.id = some b) (hnew : N.blocks b.id = none) (hnb : (b.id, b) ∉ N.bad) (hver : b.verBad = false) (hsig : b.sigBad = false)
    (hpark : Parked N.orphans b chain) (htop : (b :: chain).getLastD b = top) (hle : top.no ≤ N.latest) :
    (addBlock exec N b).1 = .ok ∧ (addBlock exec N b).2.best = N.best ∧ (addBlock exec N b).2.latest = N.latest ∧
    (addBlock exec N b).2.byNo = N.byNo ∧ (addBlock exec N b).2.sdbRoot = N.sdbRoot ∧
    (∀ x ∈ b :: chain, (addBlock exec N b).2.blocks x.id = some x) :=
  addBlock_side_kept hU h hprev hpno hnotbest hbU hnew hnb hver hsig hpark htop hle

/-- **Fork choice over histories.** Let every block that ever arrives be valid in the universe `U` (`ValidIn`: honest
identifier, configured fork version, signature and block accepted by the consensus, numbered right after the block of `U` its parent hash
names and executing on that block's state root to the root it claims). Then after ANY history of arrivals on a fresh node
— any order (children before parents, branches interleaved), duplicates, any number of competing branches, any capacity
of the orphan pool — with the last irreversible height at 0:
* the chain database is consistent (`Inv`: the best block is the tip of a stored parent-linked path to genesis that was
  executed block by block, …),
* **no stored block is higher than the best block**, and
* every stored block other than genesis is valid and its parent is stored (so every stored block lies on a fully stored
  valid branch down to genesis).
Hence the best block is the tip of a longest fully stored valid branch: whenever an arrival completes a branch longer
than the main chain, that very arrival switched to it. -/
theorem fork_choice_over_histories (hE : ExecLaw exec txsOf) (hU : UKeyed U) (hg0 : g.no = 0) (hgU : U g.id = some g)
    (oc bc : Nat) (bs : List Block) (hv : ∀ b ∈ bs, ValidIn exec U b) :
    let N := bs.foldl (fun N b => (addBlock exec N b).2) (genesis g oc bc)
    Inv exec txsOf U g N ∧ N.blocks N.best.id = some N.best ∧
    (∀ i x, N.blocks i = some x → x.no ≤ N.best.no) ∧
    (∀ i x, N.blocks i = some x → x = g ∨ (ValidIn exec U x ∧ ∃ p, N.blocks x.parent = some p)) := by
  have key : ∀ (bs : List Block) (N : Node), Good exec txsOf U g N → (∀ b ∈ bs, ValidIn exec U b) →
      Good exec txsOf U g (bs.foldl (fun N b => (addBlock exec N b).2) N) := by
    intro bs
    induction bs with
    | nil => intro N h _; exact h
    | cons b bs ih =>
      intro N h hb
      exact ih _ (Good.addBlock hE hU h (hb b (by simp))) (fun x hx => hb x (by simp [hx]))
  have hI0 : Inv exec txsOf U g (genesis g oc bc) := Inv.init hg0 hgU oc bc
  have hG := key bs _ (Good.init hg0 hI0) hv
  exact ⟨hG.inv, hG.inv.best_main.2, fun i x hx => by rw [hG.inv.best_no]; exact hG.le i x hx, hG.stored⟩

/-! ## Tests on sample values -/

section samples

def G : Block := { id := 1, parent := 0, no := 0, txs := [], claimed := 100 }
def A1 : Block := { id := 2, parent := 1, no := 1, txs := [7], claimed := 101, pre := 100, res := some 101 }
def B1 : Block := { id := 4, parent := 1, no := 1, txs := [9], claimed := 111, pre := 100, res := some 111 }
def B2 : Block := { id := 5, parent := 4, no := 2, txs := [7], claimed := 112, pre := 111, res := some 112 }
/-- `B3x` claims a state root its execution does not reach. -/
def B3x : Block := { id := 6, parent := 5, no := 3, txs := [8], claimed := 999, pre := 112, res := some 113 }
def A2 : Block := { id := 3, parent := 2, no := 2, txs := [8], claimed := 102, pre := 101, res := some 102 }

def run (bs : List Block) : Node := bs.foldl (fun N b => (addBlock tableExec N b).2) (genesis G 100 128)

/-- Test: the hypotheses of `reorg_exact`/`reoffered` are satisfiable — `A1`, then `B1`, `B2` (the second one triggers
the reorganisation): best `B2`, root `B2`'s, tx 7 is on both branches and is *not* offered back, nothing else was only
on the abandoned branch. -/
example :
    let N := run [A1, B1, B2]
    (N.best.id, N.latest, N.sdbRoot) = (5, 2, 112) ∧ putsOf N.out = [] ∧ getTx N 7 = .confirmed 5 0 := by decide

/-- Test: with a transaction only on the abandoned branch: `A1 A2` (txs 7, 8), then `B1 B2` and a valid `B3`: 8 is
offered back, 7 is not. -/
def B3 : Block := { id := 7, parent := 5, no := 3, txs := [], claimed := 112, pre := 112, res := some 112 }
example :
    let N := run [A1, A2, B1, B2, B3]
    (N.best.id, N.latest, N.sdbRoot) = (7, 3, 112) ∧ putsOf N.out = [8] := by decide

/-- **Known finding C07-valid-prefix-under-invalid-orphan-not-adopted** (test on sample values; the real chain service
does the same, harness family `two-branch`, invalid block on top of the longer branch delivered children first).
Main chain `A1`. `B3x` (invalid) is parked, `B1` is stored, then `B2` arrives: it is stored, the parked `B3x` is
connected under it and `reorg` is called for `B3x` only; its roll-forward fails at `B3x`. The branch `B1 B2` is stored,
valid and strictly longer than `A1`, yet the best block stays `A1`; `B2` — the arriving block — is what the
errored-blocks cache now holds, so offering `B2` again is refused. -/
theorem valid_prefix_not_adopted :
    let N := run [A1, B3x, B1, B2]
    N.best.id = 2 ∧ N.latest = 1 ∧ (N.blocks 4).isSome ∧ (N.blocks 5).isSome ∧ N.bad.map (·.1) = [5] ∧
    (addBlock tableExec N B2).1 = .cached ∧
    -- … while the same two blocks delivered without the invalid orphan are adopted:
    (run [A1, B1, B2]).best.id = 5 := by decide

/-- Test: the hypotheses of `fork_choice_over_histories` are satisfiable on a non-trivial universe (two branches, shared
and conflicting transactions): `ExecLaw` for the table of the six sample blocks, identifiers keyed, every block valid. -/
def tbl : List Block := [G, A1, A2, B1, B2, B3]
example : ExecLaw (execOn tbl) (look (lawGhost tbl)) ∧ UKeyed (tableU tbl) ∧
    ∀ b ∈ [A1, A2, B1, B2, B3], ValidIn (execOn tbl) (tableU tbl) b := by
  refine ⟨lawOk_sound tbl (by decide), tableU_keyed tbl, ?_⟩
  intro b hb
  simp only [List.mem_cons, List.not_mem_nil, or_false] at hb
  rcases hb with rfl | rfl | rfl | rfl | rfl
  · exact ⟨rfl, rfl, rfl, rfl, G, rfl, rfl, rfl⟩
  · exact ⟨rfl, rfl, rfl, rfl, A1, rfl, rfl, rfl⟩
  · exact ⟨rfl, rfl, rfl, rfl, G, rfl, rfl, rfl⟩
  · exact ⟨rfl, rfl, rfl, rfl, B1, rfl, rfl, rfl⟩
  · exact ⟨rfl, rfl, rfl, rfl, B2, rfl, rfl, rfl⟩

/-- Test: … and its conclusion on two arrival orders of these blocks (children first; branches interleaved, with a
duplicate): the best block is `B3`, the highest stored block, in both. -/
example :
    (run [B3, A2, B2, A1, B1]).best.id = 7 ∧ (run [A1, B1, B1, A2, B2, B3]).best.id = 7 ∧
    (run [B3, A2, B2, A1, B1]).latest = 3 := by decide

/-- Test: the hypotheses of `arrival_triggers_switch` on sample values: main chain `A1 A2`, `B1` stored, `B3` parked under
`B2`; the arrival of `B2` (not `B3`, and no later arrival) makes `B3` the best block. -/
example :
    let N := run [A1, A2, B1, B3]
    Parked N.orphans B2 [B3] ∧ N.latest = 2 ∧ (addBlock tableExec N B2).2.best.id = 7 := by
  refine ⟨Parked.step (p := 5) (by decide) (by decide) (Parked.done (by decide)), by decide, by decide⟩

end samples

end Aergo.Props.C07
