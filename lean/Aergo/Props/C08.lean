/-
C08 — DPoS finality: the irreversible block is monotone, on-chain and never undone.

  "No block at or below a last irreversible block (LIB) that a node has ever reported is later replaced on
   that node's main chain: reorganisations forking below the LIB and blocks numbered at or below it are
   refused. The reported LIB always lies on the node's main chain, requires confirmations by blocks of more
   than two thirds of the distinct block producers, and never decreases in height. Two correct nodes never
   hold irreversible blocks on conflicting branches as long as fewer than one third of the producers
   misbehave, and the finality status restored after a restart equals the one recomputed from the stored
   blocks."

The statements are about the executable model `Aergo.Lib` (Aergo/Model/Lib.lean: libStatus, Status, boot
loader, the chain-DB part the status touches), whose integer formulas are regenerated from the source
(`Aergo.Gen.LibQuorum`) and whose behaviour is compared with the real `dpos.Status` operation by operation on
every run (harness c08).

What holds and what does not, clause by clause (details at each theorem). Two defects of the pinned code were repaired
in /repo (a61f1aeb: the reload path uses the same confirmsRequired; db1b9b14: updateLIB ignores a lower candidate) and the
model follows the repaired code; five are recorded as known findings and stay visible here as proved negations (concrete
witnesses, each placed next to the conditional theorem whose guard it violates).

 * veto rules / never undone       — `veto_below_lib`: exact, for the LIB the Status object currently holds;
                                     `below_lib_never_replaced`: along every sequence of chain-service activities that passed the
                                     vetoes (no restart) the number index at and below the LIB is never changed.
                                     KNOWN C08-restart-lazy-load-veto-gap: `restart_forgets_lib` — after a restart that LIB is 0
                                     until the first Update (witness `restart_veto_gap_witness`).
 * > 2/3 distinct producers        — `quorum_more_than_two_thirds`, `libIndex_leaves_quorum` (formulas), `reload_same_quorum`,
                                     `prelib_quorum`, `window_invariant_history` (every history, any producer count);
                                     `lib_vouched_by_full_quorum` (every history: the LIB and every pre-LIB entry were covered by
                                     ≥ ⌊2k/3⌋+1 stored window blocks, k = ALL producers, however few have been seen; their
                                     producers are distinct under the guard `HonestRanges`);
                                     KNOWN C08-quorum-by-lying-confirms: without that guard FALSE (`quorum_false_lying_confirms_witness`).
                                     `calcLIB_order_statistic` (the LIB is the rank-(m−1)/3 pre-LIB of the m producers seen: at least
                                     ⌊2m/3⌋+1 of them are at or above it), `calcLIB_order_independent`, `calcLIB_choice_exact`,
                                     `calcLIB_hash_determined` (what depends on Go's map order: only WHICH equal-numbered entry),
                                     `calcLIB_monotone_in_entries`, `lib_vouched_by_seen_quorum`, `prpsd_one_entry_per_producer`.
 * LIB never decreases             — `lib_monotone` (every history of stores/Updates/connects/swaps on a loaded Status),
                                     `lib_monotone_across_restart` (the first Update after a restart continues from the saved LIB).
 * LIB on the main chain           — `lib_on_chain_through_reorgs`: TRUE for every history of the ghost automaton `StepG` (main-chain
                                     blocks, failed executions, reorganisations, failed roll-forwards, restarts) under its two guards;
                                     KNOWN C08-lib-from-stale-entry-of-abandoned-branch (guard at a rollback): `lib_on_chain_false`;
                                     KNOWN C08-lib-kept-from-failed-rollforward (guard at a failed roll-forward):
                                     `lib_kept_from_failed_rollforward_witness`. Also `lib_on_chain_partial` (connect branch, any
                                     predicate), `lib_on_chain_step` / `lib_on_chain_history` (no reorganisation: no guard needed),
                                     `rollback_branch_localised`.
 * restart = recompute             — `restart_exact` (every history: Lib, LpbNo restored; confirmsRequired, genesis, self constant;
                                     window and proposed map recomputed, lookup by lookup), `restart_equal_partial`.
 * two correct nodes               — KNOWN C08-conflicting-libs-honest-switch-below-confirmed: the full statement is FALSE, even with
                                     NO misbehaving producer (`agreement_false_honest_witness`). Proved: `quorum_intersect`,
                                     `agreement_same_height`, `agreement_partial` (conditional on `StaysOnConfirmed`, which honest
                                     producers do NOT guarantee), `honest_no_double_confirm`, `ranges_disjoint_of_production_order`,
                                     `factory_ranges_disjoint`, `tip_never_decreases`; observation `lpb_regress_witness`.
-/
import Aergo.Lemmas.LibInv
import Aergo.Lemmas.LibOrder
import Aergo.Lemmas.LibChain
import Aergo.Lemmas.LibRestart
import Aergo.Lemmas.LibReorg
import Aergo.Lemmas.LibVouch
import Mathlib.Data.Finset.Card

namespace Aergo.Props.C08
open Aergo.Lib

/-! ## 1. The quorum formulas (regenerated from lib.go / dpos.go on every run) -/

/-- `confirmsRequired n = ⌊2n/3⌋+1` is the least count exceeding two thirds of `n`. -/
theorem quorum_more_than_two_thirds (n : Nat) :
    3 * confirmsRequired n > 2 * n ∧ 3 * (confirmsRequired n - 1) ≤ 2 * n := by
  rw [confirmsRequired_eq]; omega

/-- `dpos.Init`'s `majorityCount` is the same formula as `setConfirmsRequired`'s. -/
theorem majority_eq_confirmsRequired (n : Int) :
    Gen.LibQuorum.majorityCount n = Gen.LibQuorum.confirmsRequired n := rfl

/-- calcLIB's index `(len−1)/3` leaves at least `confirmsRequired len` entries at or above the selected one:
the selected pre-LIB is reached by more than two thirds of the producers PRESENT IN THE MAP (not of all producers: a
producer's first entry lengthens the list and could lower the selection — the regression example of the repaired class
C08-lib-decreases-when-producer-first-seen below; the relation to the full producer count is `lib_quorum_of_all`). -/
theorem libIndex_leaves_quorum (len : Nat) (h : 1 ≤ len) :
    libIndex len < len ∧ confirmsRequired len ≤ len - libIndex len := by
  rw [libIndex_eq, confirmsRequired_eq]; omega

/-- **reload_same_quorum** (repaired by a61f1aeb; before, the scratch status of the reload path required only
`confirmsRequired (confirmsRequired n)` confirmations). After a restart both the Status and the boot loader require
`confirmsRequired n` for the genesis producer count `n` — more than two thirds of `n` — and `load` (rollback, restart) never
changes the count of the status it rebuilds. -/
theorem reload_same_quorum (n : Node) :
    (restart n).ls.cr = confirmsRequired n.gbps.length ∧ (restart n).bl.cr = confirmsRequired n.gbps.length ∧
      3 * (restart n).bl.cr > 2 * n.gbps.length ∧ ∀ (ls : LS) (e : Nat), (load n ls e).cr = ls.cr := by
  have hl : ∀ (ls : LS) (e : Nat), (load n ls e).cr = ls.cr := by
    intro ls e
    unfold load
    simp only
    split
    · rfl
    · split <;> rfl
  have h1 : (restart n).ls.cr = confirmsRequired n.gbps.length := by simp [restart, newLS]
  have h2 : (restart n).bl.cr = confirmsRequired n.gbps.length := by
    unfold restart
    simp only
    cases n.saved with
    | none => simp [newLS, newLSWithConfirms]
    | some v => obtain ⟨p, lib, lpb⟩ := v; simp only; rw [hl]; simp [newLS, newLSWithConfirms]
  exact ⟨h1, h2, by rw [h2]; exact (quorum_more_than_two_thirds _).1, hl⟩

example : confirmsRequired 4 = 3 ∧ confirmsRequired 7 = 5 := by decide

/-- An honest block factory's Confirms value `no − lpbNo` makes the confirm range exactly `(lpbNo, no]`. -/
theorem honest_range (h : String) (no lpb : Nat) (h1 : lpb < no) (h2 : no < u64) :
    rangeMin ⟨h, no, honestConfirms no lpb⟩ = lpb + 1 ∧
      ∀ k, inRange ⟨h, no, honestConfirms no lpb⟩ k = true ↔ (lpb < k ∧ k ≤ no) := by
  have e : rangeMin ⟨h, no, honestConfirms no lpb⟩ = lpb + 1 := by
    simp only [rangeMin, honestConfirms, Gen.LibQuorum.factoryConfirms, u64] at *
    omega
  refine ⟨e, fun k => ?_⟩
  simp only [inRange, e, Bool.and_eq_true, decide_eq_true_eq]
  omega

/-! ## 2. The veto rules -/

/-- NeedReorganization allows exactly the branch roots at or above the LIB the Status holds; VerifyTimestamp's LIB clause
accepts exactly the blocks numbered above it. -/
theorem veto_below_lib (n : Node) (root : Nat) (b : Blk) :
    (needReorg n root = true ↔ n.ls.lib.no ≤ root) ∧ (verifyTs n b = true ↔ n.ls.lib.no < b.no) := by
  refine ⟨by simp [needReorg], ?_⟩
  simp only [verifyTs, Bool.not_eq_true', decide_eq_false_iff_not]
  omega

example : needReorg { (default : Node) with ls := { (default : LS) with lib := ⟨"x", 5, 1⟩ } } 4 = false ∧
    needReorg { (default : Node) with ls := { (default : LS) with lib := ⟨"x", 5, 1⟩ } } 5 = true := by decide

/-- KNOWN FINDING (class C08-restart-lazy-load-veto-gap). `Status.load` is lazy: after a process restart the Status holds a
fresh libStatus until the first `Update`, so for EVERY node state every branch root is allowed and every positive block
number accepted, whatever LIB was reported before the restart. -/
theorem restart_forgets_lib (n : Node) :
    (restart n).ls.lib.no = 0 ∧ (∀ root, needReorg (restart n) root = true) ∧
      (∀ b : Blk, b.no ≠ 0 → verifyTs (restart n) b = true) := by
  have h : (restart n).ls.lib.no = 0 := by simp [restart, newLS, zeroBI]
  refine ⟨h, fun root => ?_, fun b hb => ?_⟩
  · simp [needReorg, h]
  · simp only [verifyTs, h, Bool.not_eq_true', decide_eq_false_iff_not]; omega

/-- … while the boot loader did restore the saved LIB, and the first Update installs it. -/
theorem restart_keeps_lib_in_loader (n : Node) (p : List (String × PL)) (lib : BI) (lpb : Nat)
    (h : n.saved = some (p, lib, lpb)) :
    (restart n).bl.lib = lib ∧ (restart n).bl.lpb = lpb ∧ (statusLoad (restart n)).ls.lib = lib := by
  have hl : ∀ (ls : LS) (e : Nat), (load n ls e).lib = ls.lib ∧ (load n ls e).lpb = ls.lpb := by
    intro ls e
    unfold load
    simp only
    split
    · exact ⟨rfl, rfl⟩
    · split <;> exact ⟨rfl, rfl⟩
  have h1 : (restart n).bl.lib = lib ∧ (restart n).bl.lpb = lpb := by
    simp only [restart, h]
    exact hl _ _
  refine ⟨h1.1, h1.2, ?_⟩
  have hd : (restart n).done = false := by simp [restart]
  simp [statusLoad, hd, h1.1]

section witnesses
/-! Concrete histories (witnesses; each `decide +kernel` below EVALUATES the model on one history — a test, not a proof
of a general claim; the general claims are the theorems around them). Producers p0..p3 (p4), this node is p0. -/

private def ps4 : List String := ["p0", "p1", "p2", "p3"]
private def mk (id : String) (no : Nat) (prev bp : String) (c : Nat) : Blk := ⟨id, no, prev, bp, c⟩
/-- store, Update, connectToChain: a main-chain block as the chain service processes it. -/
private def mainBlk (b : Blk) : List Op := [.blk b, .update b "", .connect b]

private def b1 := mk "b1" 1 "g" "p0" 1
private def b2 := mk "b2" 2 "b1" "p1" 2
private def b3 := mk "b3" 3 "b2" "p2" 3
private def b4 := mk "b4" 4 "b3" "p3" 4
private def b5 := mk "b5" 5 "b4" "p0" 4
private def b6 := mk "b6" 6 "b5" "p1" 4
private def b7 := mk "b7" 7 "b6" "p2" 4
private def b8 := mk "b8" 8 "b7" "p3" 4
private def main8 : List Op := [b1, b2, b3, b4, b5, b6, b7, b8].flatMap mainBlk
/-- p1 and p2 did not see b8 in time and built c8, c9 on b7 (honest Confirms 8−6, 9−7). -/
private def c8 := mk "c8" 8 "b7" "p1" 2
private def c9 := mk "c9" 9 "c8" "p2" 2
/-- the permitted reorganisation (root 7 ≥ LIB 4): rollback = Update(b7), roll forward, swap. -/
private def reorg9 : List Op := [.blk c8, .blk c9, .update b7 "", .update c8 "", .update c9 "", .swap [c9, c8]]

/-- witness for `restart_forgets_lib`: LIB 4 reported, restart, a branch root 0 is allowed. -/
theorem restart_veto_gap_witness :
    ((newNode "p0" ps4).run main8).ls.lib.no = 4 ∧
    needReorg ((newNode "p0" ps4).run main8) 3 = false ∧
    needReorg ((newNode "p0" ps4).run (main8 ++ [.restart])) 0 = true := by decide +kernel

/-- regression history of the repaired class C08-lib-decreases-after-permitted-reorg (evaluation — a test): four honest
producers, one delayed block; the node reports LIB 4, the permitted one-block-deep reorganisation (root 7) used to make it
report LIB 3 and now leaves it at 4. -/
example : ((newNode "p0" ps4).run main8).ls.lib.no = 4 ∧ ((newNode "p0" ps4).run (main8 ++ reorg9)).ls.lib.no = 4 := by
  decide +kernel

private def ps5 : List String := ["p0", "p1", "p2", "p3", "p4"]
private def d1 := mk "b1" 1 "g" "p2" 1
private def d2 := mk "b2" 2 "b1" "p0" 2
private def d3 := mk "b3" 3 "b2" "p1" 3
private def d4 := mk "b4" 4 "b3" "p0" 2
private def d5 := mk "b5" 5 "b4" "p4" 2   -- p4 produced a block numbered 3 on a branch this node never adopted
private def d6 := mk "b6" 6 "b5" "p3" 4   -- p3 likewise (numbered 2)
private def d7 := mk "b7" 7 "b6" "p4" 2
private def d8 := mk "b8" 8 "b7" "p0" 4
private def d9 := mk "b9" 9 "b8" "p1" 6

/-- regression history of the repaired class C08-lib-decreases-when-producer-first-seen (evaluation — a test): five
producers, no reorganisation, no restart; the LIB stays at or above what was reported after b6 (it used to drop to 0 at b9,
calcLIB ranking only the producers seen so far). -/
example :
    ((newNode "p0" ps5).run ([d1, d2, d3, d4, d5, d6].flatMap mainBlk)).ls.lib.no ≤
    ((newNode "p0" ps5).run ([d1, d2, d3, d4, d5, d6, d7, d8, d9].flatMap mainBlk)).ls.lib.no := by
  decide +kernel

private def a1 := mk "a1" 1 "g" "p0" 1
private def a2 := mk "a2" 2 "a1" "p1" 2
private def a3 := mk "a3" 3 "a2" "p2" 3
private def e1 := mk "e1" 1 "g" "p3" 1
private def e2 := mk "e2" 2 "e1" "p0" 1
private def e3 := mk "e3" 3 "e2" "p1" 1
private def e4 := mk "e4" 4 "e3" "p2" 1
private def e5 := mk "e5" 5 "e4" "p3" 4
private def e6 := mk "e6" 6 "e5" "p0" 4
private def e7 := mk "e7" 7 "e6" "p1" 4
private def gblk : Blk := ⟨"g", 0, "", "", 0⟩
private def staleHist : List Op :=
  [a1, a2, a3].flatMap mainBlk ++
  [.blk e1, .blk e2, .blk e3, .blk e4, .update gblk "", .update e1 "", .update e2 "", .update e3 "", .update e4 "",
   .swap [e4, e3, e2, e1]] ++ [e5, e6, e7].flatMap mainBlk

/-- KNOWN FINDING (class C08-lib-from-stale-entry-of-abandoned-branch): `lib_on_chain` is FALSE for the pinned code. After the
reorganisation from a1,a2,a3 to e1..e4 (root = genesis = LIB, permitted) the proposed entry of p2 still names a1, a block
of the abandoned branch; at e7 calcLIB selects it: the reported LIB is a1 while the main chain holds e1 at number 1. -/
theorem lib_on_chain_false :
    let n := (newNode "p0" ps4).run staleHist
    n.ls.lib.hash = "a1" ∧ n.ls.lib.no = 1 ∧ hashByNo n 1 = some "e1" := by
  decide +kernel

/-- (was the theorem `restart_equal_false`; subsumed by `restart_exact`, which states that the window is the REPLAYED one, and
kept as a test.) The last clause read literally ("restored = the status the node had") is false: one block connected, restart — the
running status has the block in its confirms window, the restored one has an empty window (`load` returns early when begin = end). -/
example :
    let n := (newNode "p0" ps4).run (mainBlk b1)
    n.ls.confirms.length = 1 ∧ (statusLoad (restart n)).ls.confirms.length = 0 := by
  decide +kernel

end witnesses

/-! ## 3. More than two thirds of the distinct producers -/

/-- **prelib_quorum.** One connect step (`addConfirmInfo` + `update`, as in Status.Update and in the replay of
loadPlibStatus) on a window satisfying the count invariant for `q ≤ confirmsRequired`: if the getPreLIB loop reports `bi`,
then (a) the producer's proposed entry becomes (bi, by this block); (b) there are at least `q` blocks in the window, all
at or after `bi`, whose confirm range contains `bi`'s number; (c) if confirm ranges are honest (a producer's later range
starts above its earlier block: blockfactory's `no − lpbNo`), these blocks have pairwise distinct producers — so at least
`q` distinct producers, and `q = confirmsRequired n > 2n/3` by `quorum_more_than_two_thirds`.
A pre-LIB entry is installed ONLY this way (`prelib_only_by_walk`). -/
theorem prelib_quorum (q : Nat) (ls : LS) (b : Blk) (hint : String) (bi : BI)
    (hb : b.no ≠ 0) (hq : q ≤ ls.cr) (hinv : CoverInv q [] ls.confirms)
    (hw : (walk b.bi (⟨b.bi, b.bp, ls.cr⟩ :: ls.confirms)).2 = some bi) :
    lookup b.bp (update (addConfirmInfo ls b) hint).1.prpsd = some ⟨bi, b.bi⟩ ∧
    ∃ confirmers : List CI,
      confirmers.Sublist (update (addConfirmInfo ls b) hint).1.confirms ∧
      q ≤ confirmers.length ∧
      (∀ d ∈ confirmers, inRange d.bi bi.no = true) ∧
      (HonestRanges (update (addConfirmInfo ls b) hint).1.confirms → (confirmers.map (·.bp)).Nodup) := by
  have hb' : (b.no == 0) = false := by simp [hb]
  have hinv' := walk_push_CoverInv q ls.cr b.bi b.bp ls.confirms hq hinv
  obtain ⟨pre, c, post, hs, hc1, hc0⟩ := walk_some_split b.bi _ bi hw
  have hcov := CoverInv_split q pre c post [] (by rw [← hs]; exact hinv')
  -- the state after the step
  have hst : (update (addConfirmInfo ls b) hint).1.confirms = pre ++ c :: post ∧
      lookup b.bp (update (addConfirmInfo ls b) hint).1.prpsd = some ⟨bi, b.bi⟩ := by
    unfold addConfirmInfo
    simp only [hb', Bool.false_eq_true, if_false]
    unfold update
    simp only [hw, hs]
    constructor <;> first | trivial | rfl | exact lookup_setP_self _ _ _
  refine ⟨hst.2, (pre ++ [c]).filter (fun d => inRange d.bi bi.no), ?_, ?_, ?_, ?_⟩
  · rw [hst.1]
    refine (List.filter_sublist).trans ?_
    exact List.Sublist.append (List.Sublist.refl pre) (by simp)
  · rw [hc0, hc1, Nat.zero_add] at hcov
    have e : cover (bi :: ((pre.map (·.bi)).reverse ++ [])) bi.no =
        ((pre ++ [c]).filter (fun d => inRange d.bi bi.no)).length := by
      unfold cover
      simp only [List.append_nil, List.filter_append, List.length_append, List.filter_cons, List.filter_nil]
      have e2 : (List.filter (fun b => inRange b bi.no) (pre.map (·.bi)).reverse).length =
          (List.filter (fun d : CI => inRange d.bi bi.no) pre).length := by
        rw [List.filter_reverse, List.length_reverse, List.filter_map, List.length_map]
        rfl
      rw [hc1]
      by_cases hh : inRange bi bi.no = true
      · rw [if_pos hh, if_pos hh]; simp only [List.length_cons, List.length_nil]; omega
      · rw [if_neg hh, if_neg hh]; simp only [List.length_nil]; omega
    omega
  · intro d hd
    simpa using (List.mem_filter.mp hd).2
  · intro hh
    rw [hst.1] at hh
    have hsub : (pre ++ [c]).Sublist (pre ++ c :: post) :=
      List.Sublist.append (List.Sublist.refl pre) (by simp)
    exact covering_producers_nodup (pre ++ [c]) bi.no (List.Pairwise.sublist hsub hh)

/-- the proposed map changes in a connect step only by the genesis placeholder of a producer's first block and by the
entry `prelib_quorum` describes. -/
theorem prelib_only_by_walk (ls : LS) (b : Blk) (hint : String) (hb : b.no ≠ 0)
    (hw : (walk b.bi (⟨b.bi, b.bp, ls.cr⟩ :: ls.confirms)).2 = none) :
    (update (addConfirmInfo ls b) hint).1.prpsd = (addConfirmInfo ls b).prpsd ∧
      (update (addConfirmInfo ls b) hint).2 = none := by
  have hb' : (b.no == 0) = false := by simp [hb]
  unfold addConfirmInfo
  simp only [hb', Bool.false_eq_true, if_false]
  unfold update
  simp only [hw]
  constructor <;> first | trivial | rfl

/-- non-vacuity of `prelib_quorum`: in the steady state of four producers the walk of b7 reports b5, the window satisfies
the invariant for q = 3 and its ranges are honest (evaluation of one case — a test). -/
example :
    let n := (newNode "p0" ps4).run ([b1, b2, b3, b4, b5, b6].flatMap mainBlk)
    (walk b7.bi (⟨b7.bi, b7.bp, n.ls.cr⟩ :: n.ls.confirms)).2 = some b5.bi ∧ n.ls.cr = 3 := by
  decide +kernel

/-- **window_invariant_history.** For EVERY producer count and EVERY history of valid chain-service operations (stores,
Updates in both branches, connects, swaps, restarts, in any order and number) the status' confirms window and the boot
loader's satisfy the count invariant for `confirmsRequired k`, and `confirmsRequired` stays `confirmsRequired k`: so
`prelib_quorum` applies with `q = confirmsRequired k > 2k/3` at every connect step of the history, including the steps replayed by
rollback and restart. -/
theorem window_invariant_history (k : Nat) (self : String) (gbps : List String)
    (hg : gbps.length = k) (ops : List Op) (hv : ∀ op ∈ ops, op.Valid) :
    NodeInv k ((newNode self gbps).run ops) := by
  have h0 : NodeInv k (newNode self gbps) := by
    unfold newNode
    simp only
    apply restart_NodeInv k
    · refine ⟨?_, ?_⟩
      · intro b hb hid; simp at hb; subst hb; simp at hid
      · intro e he hne; simp at he; subst he; simp at hne
    · exact hg
  suffices ∀ (ops : List Op) (n : Node), NodeInv k n → (∀ op ∈ ops, op.Valid) → NodeInv k (n.run ops) from
    this ops _ h0 hv
  intro ops
  induction ops with
  | nil => intro n h _; exact h
  | cons op rest ih =>
    intro n h hv
    have hop : op.Valid := hv op (by simp)
    have hs := apply_StoreOk n op hop h.store
    refine ih (n.apply op) ?_ (fun o ho => hv o (by simp [ho]))
    cases op with
    | blk b =>
      have e : ∀ m : Node, m = n.apply (.blk b) → StoreOk m → NodeInv k m := by
        intro m hm hs'
        have : m.gbps = n.gbps ∧ m.size = n.size ∧ m.ls = n.ls ∧ m.bl = n.bl := by
          subst hm; simp only [Node.apply]; split <;> exact ⟨rfl, rfl, rfl, rfl⟩
        obtain ⟨g1, g2, g3, g4⟩ := this
        exact ⟨hs', by rw [g1]; exact h.gb, by rw [g2]; exact h.sz, by rw [g3]; exact h.lsCr, by rw [g4]; exact h.blCr,
          by rw [g3]; exact h.lsW, by rw [g4]; exact h.blW⟩
      exact e _ rfl hs
    | update b hint => exact statusUpdate_NodeInv k n b hint hop.1 h
    | connect b => exact ⟨hs, h.gb, h.sz, h.lsCr, h.blCr, h.lsW, h.blW⟩
    | swap bs =>
      have e : ∀ m : Node, m = n.apply (.swap bs) → StoreOk m → NodeInv k m := by
        intro m hm hs'
        have : m.gbps = n.gbps ∧ m.size = n.size ∧ m.ls = n.ls ∧ m.bl = n.bl := by
          subst hm; simp only [Node.apply, swap]
          cases bs with
          | nil => exact ⟨rfl, rfl, rfl, rfl⟩
          | cons t r => simp only; split <;> exact ⟨rfl, rfl, rfl, rfl⟩
        obtain ⟨g1, g2, g3, g4⟩ := this
        exact ⟨hs', by rw [g1]; exact h.gb, by rw [g2]; exact h.sz, by rw [g3]; exact h.lsCr, by rw [g4]; exact h.blCr,
          by rw [g3]; exact h.lsW, by rw [g4]; exact h.blW⟩
      exact e _ rfl hs
    | restart => exact restart_NodeInv k n h.store h.gb

/-! ## 4. LIB on the main chain; LIB monotone — what the connect branch does guarantee -/

/-! `AllP P ls` (Aergo/Lemmas/LibChain.lean): every block the status refers to — pre-LIB entries, window, LIB, genesis —
satisfies `P` (think: "is on the node's main chain"). -/

/-- **lib_on_chain_partial.** The connect branch (`addConfirmInfo`, `update`, `updateLIB`, `gc`) keeps every block the
status refers to inside any predicate `P` that holds for the new block: in particular a LIB it selects satisfies `P`. With
`P` = "block of the main chain" this is the on-chain clause for histories without rollback. The rollback branch does NOT
preserve it (`lib_on_chain_false`): `load` keeps entries of the abandoned branch. -/
theorem lib_on_chain_partial (P : BI → Prop) (ls : LS) (b : Blk) (hint : String) (bps : List String)
    (h : AllP P ls) (hb : P b.bi) :
    (∀ l, (update (addConfirmInfo ls b) hint).2 = some l → P l) ∧
    AllP P (gc (match (update (addConfirmInfo ls b) hint).2 with
                | some l => if l.no < (update (addConfirmInfo ls b) hint).1.lib.no then (update (addConfirmInfo ls b) hint).1
                            else { (update (addConfirmInfo ls b) hint).1 with lib := l }
                | none => (update (addConfirmInfo ls b) hint).1) bps) := by
  have := connectStep_AllP P ls b hint bps h hb
  unfold updLIB at this
  exact this

/-- **lib_monotone.** Along EVERY history of stores, Updates (connect and rollback branch, any blocks, any Confirms values,
any producer set), connects and swaps on a node whose Status has loaded its finality status, the LIB number the Status holds
— the one it reports and the vetoes use — never decreases. (Restart: `lib_monotone_across_restart`, and the known window
`restart_forgets_lib`.) -/
theorem lib_monotone (n : Node) (ops : List Op) (hd : n.done = true) (hr : ∀ op ∈ ops, op ≠ Op.restart) :
    (n.run ops).done = true ∧ n.ls.lib.no ≤ (n.run ops).ls.lib.no := by
  induction ops generalizing n with
  | nil => exact ⟨hd, Nat.le_refl _⟩
  | cons op rest ih =>
    have hstep : (n.apply op).done = true ∧ n.ls.lib.no ≤ (n.apply op).ls.lib.no := by
      cases op with
      | blk b => simp only [Node.apply]; split <;> exact ⟨hd, Nat.le_refl _⟩
      | update b hint => exact statusUpdate_lib_mono n b hint hd
      | connect b => exact ⟨hd, Nat.le_refl _⟩
      | swap bs =>
        simp only [Node.apply, swap]
        cases bs with
        | nil => exact ⟨hd, Nat.le_refl _⟩
        | cons t r => simp only; split <;> exact ⟨hd, Nat.le_refl _⟩
      | restart => exact absurd rfl (hr _ (by simp))
    obtain ⟨r1, r2⟩ := ih (n.apply op) hstep.1 (fun o ho => hr o (by simp [ho]))
    exact ⟨r1, Nat.le_trans hstep.2 r2⟩

example : ((newNode "p0" ps4).run main8).done = true ∧ (∀ op ∈ reorg9, op ≠ Op.restart) := by
  refine ⟨by decide +kernel, ?_⟩
  intro op hop
  simp only [reorg9, List.mem_cons, List.mem_nil_iff, or_false] at hop
  rcases hop with rfl | rfl | rfl | rfl | rfl | rfl <;> simp

/-! ## 5. Restart -/

/-- **restart_equal_partial.** After a restart the first Update works on: the saved LIB, the saved lpbNo, the saved
proposed map overwritten by what the replay of the stored blocks `begRecoBlockNo..best` yields (entries with a pre-LIB
number > 0), and the replayed window. Field by field and over all histories: `restart_exact`. -/
theorem restart_equal_partial (n : Node) (p : List (String × PL)) (lib : BI) (lpb : Nat)
    (h : n.saved = some (p, lib, lpb)) :
    let ls := (statusLoad (restart n)).ls
    let fresh : LS := { newLSWithConfirms n.genesis n.self (confirmsRequired n.gbps.length) with prpsd := p, lib := lib, lpb := lpb }
    ls.lib = lib ∧ ls.lpb = lpb ∧ ls = load n fresh n.latest := by
  have hd : (restart n).done = false := by simp [restart]
  obtain ⟨r1, r2, r3⟩ := restart_keeps_lib_in_loader n p lib lpb h
  refine ⟨r3, ?_, ?_⟩
  · simp [statusLoad, hd, r2]
  · simp [statusLoad, hd, restart, h, newLS]

/-- **lib_monotone_across_restart.** If the status image saved with the tip is the status the node holds (what
connectToChain / swapChainMapping write), the first Update after a restart starts from the same LIB and lpbNo: together with
`lib_monotone` the LIB number never decreases across restarts either — except for what is observed BEFORE that first Update
(`restart_forgets_lib`, known finding). -/
theorem lib_monotone_across_restart (n : Node) (h : n.saved = some (savedOf n.ls)) :
    (statusLoad (restart n)).ls.lib = n.ls.lib ∧ (statusLoad (restart n)).ls.lpb = n.ls.lpb ∧
      (statusLoad (restart n)).done = true := by
  obtain ⟨r1, r2, _⟩ := restart_equal_partial n n.ls.prpsd n.ls.lib n.ls.lpb h
  refine ⟨r1, r2, ?_⟩
  simp [statusLoad, restart]

section witnesses2_defs
/-! Concrete histories for the witnesses of the three clauses that are FALSE for the pinned code (each witness theorem — placed
right after the `_partial` theorem whose guard it violates — EVALUATES the model on them with `decide +kernel`; all are replayed on
the real code by the harness: c08 parts A6, A7, c08cs `scriptedFailedBranch`). Producers p0..p3, cr = 3. -/

private def mk' (id : String) (no : Nat) (prev bp : String) (c : Nat) : Blk := ⟨id, no, prev, bp, c⟩
private def mainBlk' (b : Blk) : List Op := [.blk b, .update b "", .connect b]
private def q4 : List String := ["p0", "p1", "p2", "p3"]

/-- every producer's Confirms value is `no − (number of its previous block in the list)`, and its numbers increase: the
blocks are what honest block factories produce (no equivocation: a producer's next block is numbered above its previous one). -/
private def confirmsHonest (bs : List Blk) : Bool :=
  (bs.foldl (fun (acc : Bool × List (String × Nat)) b =>
    let lpb := ((acc.2.find? (·.1 == b.bp)).map (·.2)).getD 0
    (acc.1 && decide (lpb < b.no) && decide (b.confirms = honestConfirms b.no lpb), (b.bp, b.no) :: acc.2)) (true, [])).1

-- two connected rounds
private def h1 := mk' "b1" 1 "g" "p0" 1
private def h2 := mk' "b2" 2 "b1" "p1" 2
private def h3 := mk' "b3" 3 "b2" "p2" 3
private def h4 := mk' "b4" 4 "b3" "p3" 4
private def h5 := mk' "b5" 5 "b4" "p0" 4
private def h6 := mk' "b6" 6 "b5" "p1" 4
private def h7 := mk' "b7" 7 "b6" "p2" 4
private def h8 := mk' "b8" 8 "b7" "p3" 4
private def common8 : List Blk := [h1, h2, h3, h4, h5, h6, h7, h8]
-- p3 is cut off; p0 p1 p2 continue (branch β)
private def h9 := mk' "b9" 9 "b8" "p0" 4
private def h10 := mk' "b10" 10 "b9" "p1" 4
private def h11 := mk' "b11" 11 "b10" "p2" 4
private def h12 := mk' "b12" 12 "b11" "p0" 3
private def h13 := mk' "b13" 13 "b12" "p1" 3     -- seen by p1 only
-- p3 alone (branch γ), p0 and p2 miss their slots meanwhile
private def g9 := mk' "c9" 9 "b8" "p3" 1
private def g10 := mk' "c10" 10 "c9" "p3" 1
private def g11 := mk' "c11" 11 "c10" "p3" 1
private def g12 := mk' "c12" 12 "c11" "p3" 1
private def g13 := mk' "c13" 13 "c12" "p3" 1
-- p0, p2, p3 reconnected (p1 still cut off)
private def g14 := mk' "c14" 14 "c13" "p0" 2
private def g15 := mk' "c15" 15 "c14" "p2" 4
private def g16 := mk' "c16" 16 "c15" "p3" 3
private def g17 := mk' "c17" 17 "c16" "p0" 3
private def g18 := mk' "c18" 18 "c17" "p2" 3
private def g19 := mk' "c19" 19 "c18" "p3" 3
/-- p0's chain service adopts γ: gather, NeedReorganization(8), rollback = Update(b8), roll forward, swap. -/
private def reorgG : List Op :=
  [.blk g9, .blk g10, .blk g11, .blk g12, .blk g13, .update h8 "", .update g9 "", .update g10 "", .update g11 "",
   .update g12 "", .update g13 "", .swap [g13, g12, g11, g10, g9]]


-- libStatus.LpbNo moves backwards: fork root a1 (p1); p0 builds x2 on a1, adopts y2 y3 (p3), builds y4 (Confirms 4 − 2), then
-- adopts the longer x3 x4 x5 (p1) on its own older block x2
private def a1' := mk' "a1" 1 "g" "p1" 1
private def x2 := mk' "x2" 2 "a1" "p0" 2
private def y2 := mk' "y2" 2 "a1" "p3" 2
private def y3 := mk' "y3" 3 "y2" "p3" 1
private def y4 := mk' "y4" 4 "y3" "p0" 2
private def x3 := mk' "x3" 3 "x2" "p1" 2
private def x4 := mk' "x4" 4 "x3" "p1" 1
private def x5 := mk' "x5" 5 "x4" "p1" 1
private def lpbHist1 : List Op :=
  mainBlk' a1' ++ mainBlk' x2 ++ [.blk y2, .blk y3, .update a1' "", .update y2 "", .update y3 "", .swap [y3, y2]] ++ mainBlk' y4
private def lpbHist2 : List Op :=
  [.blk x3, .blk x4, .blk x5, .update a1' "", .update x2 "", .update x3 "", .update x4 "", .update x5 "", .swap [x5, x4, x3, x2]]


-- failed roll-forward: own branch m9..m14 (p0 alone), the other producers' branch c9..c14 arrives as a side branch, its next block
-- fails to execute: the chain service issues Update(b8) (rollback), Update(c9..c14) (roll-forward), Update(m14) twice (restore)
private def m9 := mk' "m9" 9 "b8" "p0" 4
private def m10 := mk' "m10" 10 "m9" "p0" 1
private def m11 := mk' "m11" 11 "m10" "p0" 1
private def m12 := mk' "m12" 12 "m11" "p0" 1
private def m13 := mk' "m13" 13 "m12" "p0" 1
private def m14 := mk' "m14" 14 "m13" "p0" 1
private def k9 := mk' "c9" 9 "b8" "p1" 3
private def k10 := mk' "c10" 10 "c9" "p2" 3
private def k11 := mk' "c11" 11 "c10" "p3" 3
private def k12 := mk' "c12" 12 "c11" "p1" 3
private def k13 := mk' "c13" 13 "c12" "p2" 3
private def k14 := mk' "c14" 14 "c13" "p3" 3
private def failedRF : List Op :=
  [k9, k10, k11, k12, k13, k14].map Op.blk ++ [.update h8 ""] ++ [k9, k10, k11, k12, k13, k14].map (fun c => Op.update c "") ++
  [.update m14 "", .update m14 ""]


-- one producer lying in Confirms: p0 honest (no − lpbNo), p3 claims everything back to number 1; p1 and p2 never produce
private def l1 := mk' "a1" 1 "g" "p0" 1
private def l2 := mk' "a2" 2 "a1" "p3" 2
private def l3 := mk' "a3" 3 "a2" "p0" 2
private def l4 := mk' "a4" 4 "a3" "p3" 4
private def l5 := mk' "a5" 5 "a4" "p0" 2
private def l6 := mk' "a6" 6 "a5" "p3" 6
private def l7 := mk' "a7" 7 "a6" "p0" 2
private def l8 := mk' "a8" 8 "a7" "p3" 8
private def l9 := mk' "a9" 9 "a8" "p0" 2
private def honest4 := mk' "a4" 4 "a3" "p3" 2
private def honest6 := mk' "a6" 6 "a5" "p3" 2
private def honest8 := mk' "a8" 8 "a7" "p3" 2



end witnesses2_defs

/-! ## 6. Two correct nodes -/

/-- **quorum_intersect.** Pure counting: among `n` producers, two sets of at least `⌊2n/3⌋+1` producers share a member
outside any set of fewer than `n/3` (Byzantine) producers. -/
theorem quorum_intersect {P : Type} [DecidableEq P] (U Q1 Q2 Byz : Finset P) (n : Nat)
    (hU : U.card = n) (h1 : Q1 ⊆ U) (h2 : Q2 ⊆ U)
    (hq1 : n * 2 / 3 + 1 ≤ Q1.card) (hq2 : n * 2 / 3 + 1 ≤ Q2.card) (hb : 3 * Byz.card < n) :
    ∃ p, p ∈ Q1 ∧ p ∈ Q2 ∧ p ∉ Byz := by
  by_contra hne
  have hsub : Q1 ∩ Q2 ⊆ Byz := by
    intro p hp
    by_contra hpb
    exact hne ⟨p, (Finset.mem_inter.mp hp).1, (Finset.mem_inter.mp hp).2, hpb⟩
  have hc1 := Finset.card_le_card hsub
  have hun : (Q1 ∪ Q2).card ≤ n := by
    rw [← hU]; exact Finset.card_le_card (Finset.union_subset h1 h2)
  have := Finset.card_union_add_card_inter Q1 Q2
  omega

example : ∃ p, p ∈ ({0, 1, 2} : Finset Nat) ∧ p ∈ ({1, 2, 3} : Finset Nat) ∧ p ∉ ({1} : Finset Nat) :=
  quorum_intersect {0, 1, 2, 3} {0, 1, 2} {1, 2, 3} {1} 4 (by decide) (by decide) (by decide) (by decide) (by decide) (by decide)

/-- Blocks of all nodes as a tree: `anc x b` = x is b or an ancestor of b; block b confirms the heights `(lo b, height b]`
of its own chain. -/
structure BlockTree (B P : Type) where
  height : B → Nat
  prod : B → P
  lo : B → Nat
  anc : B → B → Prop
  anc_unique : ∀ x y b, anc x b → anc y b → height x = height y → x = y
  anc_chain : ∀ x y b, anc x b → anc y b → height x ≤ height y → anc x y

namespace BlockTree
variable {B P : Type} (T : BlockTree B P)

/-- block b confirms block x: x is on b's chain and its height lies in b's confirm range. -/
def confirms (b x : B) : Prop := T.anc x b ∧ T.lo b < T.height x ∧ T.height x ≤ T.height b

/-- an honest producer's confirm ranges are pairwise disjoint, across branches (Confirms = no − lpbNo, lpbNo never
decreases: `honest_range`). -/
def RangesDisjoint (p : P) : Prop :=
  ∀ b b', T.prod b = p → T.prod b' = p → b ≠ b' → T.height b ≤ T.lo b' ∨ T.height b' ≤ T.lo b

/-- the EXTRA hypothesis H: once a producer has confirmed x, its later blocks stay on x's branch. The pinned code has no
such rule. -/
def StaysOnConfirmed (p : P) : Prop :=
  ∀ b b' x, T.prod b = p → T.prod b' = p → T.height b ≤ T.lo b' → T.confirms b x → T.anc x b'

/-- evidence that x is a pre-LIB: every producer of Q has a block confirming x. -/
def Confirmed (Q : Finset P) (x : B) : Prop := ∀ p ∈ Q, ∃ b, T.prod b = p ∧ T.confirms b x

end BlockTree

/-- **agreement_same_height** (no extra hypothesis): two blocks of EQUAL height that are both confirmed by quorums are the
same block, as long as fewer than a third of the producers deviate from disjoint confirm ranges. -/
theorem agreement_same_height {B P : Type} [DecidableEq P] (T : BlockTree B P) (U Q1 Q2 Byz : Finset P) (n : Nat)
    (hU : U.card = n) (h1 : Q1 ⊆ U) (h2 : Q2 ⊆ U)
    (hq1 : n * 2 / 3 + 1 ≤ Q1.card) (hq2 : n * 2 / 3 + 1 ≤ Q2.card) (hb : 3 * Byz.card < n)
    (honest : ∀ p, p ∉ Byz → T.RangesDisjoint p)
    (x y : B) (hx : T.Confirmed Q1 x) (hy : T.Confirmed Q2 y) (hh : T.height x = T.height y) : x = y := by
  obtain ⟨p, p1, p2, pb⟩ := quorum_intersect U Q1 Q2 Byz n hU h1 h2 hq1 hq2 hb
  obtain ⟨b, pbp, cx⟩ := hx p p1
  obtain ⟨b', pbp', cy⟩ := hy p p2
  by_cases e : b = b'
  · subst e; exact T.anc_unique x y b cx.1 cy.1 hh
  · rcases honest p pb b b' pbp pbp' e with h | h
    · have := cx.2.2; have := cy.2.1; omega
    · have := cy.2.2; have := cx.2.1; omega

/-- **agreement_partial.** Under the extra hypothesis H (`StaysOnConfirmed`) for the correct producers, two blocks
confirmed by quorums lie on one branch, with fewer than a third of the producers Byzantine. -/
theorem agreement_partial {B P : Type} [DecidableEq P] (T : BlockTree B P) (U Q1 Q2 Byz : Finset P) (n : Nat)
    (hU : U.card = n) (h1 : Q1 ⊆ U) (h2 : Q2 ⊆ U)
    (hq1 : n * 2 / 3 + 1 ≤ Q1.card) (hq2 : n * 2 / 3 + 1 ≤ Q2.card) (hb : 3 * Byz.card < n)
    (honest : ∀ p, p ∉ Byz → T.RangesDisjoint p) (stays : ∀ p, p ∉ Byz → T.StaysOnConfirmed p)
    (x y : B) (hx : T.Confirmed Q1 x) (hy : T.Confirmed Q2 y) : T.anc x y ∨ T.anc y x := by
  obtain ⟨p, p1, p2, pb⟩ := quorum_intersect U Q1 Q2 Byz n hU h1 h2 hq1 hq2 hb
  obtain ⟨b, pbp, cx⟩ := hx p p1
  obtain ⟨b', pbp', cy⟩ := hy p p2
  have comparable : ∀ c, T.anc x c → T.anc y c → T.anc x y ∨ T.anc y x := by
    intro c ax ay
    rcases Nat.le_total (T.height x) (T.height y) with h | h
    · exact Or.inl (T.anc_chain x y c ax ay h)
    · exact Or.inr (T.anc_chain y x c ay ax h)
  by_cases e : b = b'
  · subst e; exact comparable b cx.1 cy.1
  · rcases honest p pb b b' pbp pbp' e with h | h
    · exact comparable b' (stays p pb b b' x pbp pbp' h cx) cy.1
    · exact comparable b cx.1 (stays p pb b' b y pbp' pbp h cy)

/-- the hypotheses of `agreement_partial` are satisfiable on a non-trivial tree: chains of naturals (block = its height on
one branch), four producers in rotation, every block confirming the previous three heights. -/
example : ∃ (T : BlockTree Nat (Fin 4)), (∀ p, T.RangesDisjoint p) ∧ (∀ p, T.StaysOnConfirmed p) ∧
    T.Confirmed {0, 1, 2} 5 := by
  refine ⟨{ height := id, prod := fun b => ⟨b % 4, Nat.mod_lt _ (by decide)⟩, lo := fun b => b - 4,
            anc := fun x b => x ≤ b, anc_unique := ?_, anc_chain := ?_ }, ?_, ?_, ?_⟩
  · intro x y b _ _ h; exact h
  · intro x y b _ _ h; exact h
  · intro p b b' hb hb' hne
    simp only [id] at *
    have e1 := congrArg Fin.val hb
    have e2 := congrArg Fin.val hb'
    simp only at e1 e2
    omega
  · intro p b b' x _ _ h hc
    simp only [BlockTree.confirms, id] at *
    omega
  · intro p hp
    simp only [BlockTree.confirms, id]
    simp only [Finset.mem_insert, Finset.mem_singleton] at hp
    rcases hp with rfl | rfl | rfl
    · exact ⟨8, rfl, by omega, by omega, by omega⟩
    · exact ⟨5, rfl, by omega, by omega, by omega⟩
    · exact ⟨6, rfl, by omega, by omega, by omega⟩

/-- **agreement_false_honest_witness** (candidate finding C08-conflicting-libs-honest-switch-below-confirmed; confirmed on the
real `dpos.Status` by harness c08 part A6). The two-node clause is FALSE although NO producer misbehaves: all Confirms values
are `no − lpbNo`, nobody equivocates, nobody restarts, no stale entry is involved. p1's node (sees b1..b13) reports LIB b9.
p0's node saw b1..b12: its LIB is b8, so the branch c9..c13 (longer, root b8 = its LIB) passes both vetoes and is adopted;
with c14..c19 by p0, p2, p3 it reports LIB c13, c14, c15 — while b9 ≠ c9 at height 9. On each node alone the LIB is monotone
and on its own main chain. A producer protects only its own LIB: of the quorum whose pre-LIBs make b9 irreversible only the
last member (p1) knows it; p0 and p2, having confirmed b9..b12, may still abandon them. Hence `StaysOnConfirmed`, the extra
hypothesis of `agreement_partial`, does NOT hold for honest producers and cannot be derived from the node-local theorems. -/
theorem agreement_false_honest_witness :
    let nodeP1 := (newNode "p1" q4).run ((common8 ++ [h9, h10, h11, h12, h13]).flatMap mainBlk')
    let p0a := (newNode "p0" q4).run ((common8 ++ [h9, h10, h11, h12]).flatMap mainBlk')
    let nodeP0 := p0a.run (reorgG ++ [g14, g15, g16, g17, g18, g19].flatMap mainBlk')
    -- all blocks are what honest block factories produce
    confirmsHonest (common8 ++ [h9, h10, h11, h12, h13, g9, g10, g11, g12, g13, g14, g15, g16, g17, g18, g19]) = true ∧
    -- p1 holds b9
    nodeP1.ls.lib.hash = "b9" ∧ hashByNo nodeP1 9 = some "b9" ∧
    -- p0: LIB b8 when the other branch arrives; both vetoes let it through
    p0a.ls.lib.hash = "b8" ∧ needReorg p0a 8 = true ∧ ([g9, g10, g11, g12, g13].all (verifyTs p0a)) = true ∧
    -- p0 ends with LIB c15 on the other branch (its own LIB numbers went 8 → 13 → 14 → 15, always on its main chain)
    nodeP0.ls.lib.hash = "c15" ∧ hashByNo nodeP0 15 = some "c15" ∧ hashByNo nodeP0 9 = some "c9" := by
  decide +kernel

/-! ## 7. `calcLIB` is an order statistic of the pre-LIB map -/

/-- **calcLIB_order_statistic.** For a proposed map with `m ≥ 1` entries (one per producer SEEN so far:
`prpsd_one_entry_per_producer`) the block number `calcLIB` selects is the number at index `(m−1)/3` of the entries sorted by
pre-LIB number — in EVERY sorted permutation of the entries, i.e. whatever order the Go map iteration delivers and whatever
the unstable `sort.Slice` does with equal keys. Hence at most `(m−1)/3` entries lie below it, and at least
`m − (m−1)/3 = ⌊2m/3⌋ + 1 = confirmsRequired m` of the `m` entries have a pre-LIB number at or above it: a quorum of the
producers seen so far vouches for the selected LIB, for every `m`. -/
theorem calcLIB_order_statistic (prpsd : List (String × PL)) (hne : prpsd ≠ []) :
    ∃ n, calcLIBNo prpsd = some n ∧
      (∀ s : List PL, s.Perm (prpsd.map (·.2)) → SortedPL s →
          ∃ p, s[(prpsd.length - 1) / 3]? = some p ∧ p.plib.no = n) ∧
      cntLt n (prpsd.map (·.2)) ≤ (prpsd.length - 1) / 3 ∧
      prpsd.length - (prpsd.length - 1) / 3 ≤ cntGe n (prpsd.map (·.2)) ∧
      prpsd.length - (prpsd.length - 1) / 3 = prpsd.length * 2 / 3 + 1 ∧
      confirmsRequired prpsd.length ≤ cntGe n (prpsd.map (·.2)) := by
  obtain ⟨p, _, hp, hst, hge⟩ := calcLIBNo_spec prpsd hne
  have hlen : 0 < prpsd.length := List.length_pos_iff.mpr hne
  rw [libIndex_eq] at hst hge
  refine ⟨p.plib.no, hp, ?_, hst.1, by omega, by omega, by rw [confirmsRequired_eq]; omega⟩
  intro s hperm hsorted
  have hi : (prpsd.length - 1) / 3 < s.length := by rw [hperm.length_eq]; simp; omega
  refine ⟨s[(prpsd.length - 1) / 3], List.getElem?_eq_getElem hi, ?_⟩
  obtain ⟨r1, r2, _⟩ := sorted_stat s _ _ hsorted (List.getElem?_eq_getElem hi)
  exact IsStat_unique ((IsStat_perm hperm _ _).mp ⟨r1, r2⟩) hst

/-- non-vacuity (evaluation of one case — a test): five entries numbered 7 3 9 3 5, index (5−1)/3 = 1 → number 3; four of
the five entries are at or above it. -/
example :
    let e (k : String) (no : Nat) : String × PL := (k, ⟨⟨k, no, 1⟩, ⟨k, no, 1⟩⟩)
    let m := [e "a" 7, e "b" 3, e "c" 9, e "d" 3, e "e" 5]
    calcLIBNo m = some 3 ∧ cntGe 3 (m.map (·.2)) = 5 ∧ cntLt 3 (m.map (·.2)) = 0 ∧ confirmsRequired 5 = 4 := by decide

/-- **calcLIB_order_independent.** The selected NUMBER and the SET of blocks `calcLIB` may return depend only on the
multiset of entries, not on the order in which the map delivers them: two runs over the same map, whatever their iteration
orders and hints, return blocks with the same number. -/
theorem calcLIB_order_independent (p1 p2 : List (String × PL)) (h : p1.Perm p2) :
    calcLIBNo p1 = calcLIBNo p2 ∧ (∀ b, b ∈ calcLIBCands p1 ↔ b ∈ calcLIBCands p2) ∧
      ∀ h1 h2 l1 l2, calcLIB p1 h1 = some l1 → calcLIB p2 h2 = some l2 → l1.no = l2.no := by
  refine ⟨calcLIBNo_perm h, calcLIBCands_perm h, ?_⟩
  intro h1 h2 l1 l2 e1 e2
  obtain ⟨_, _, _, n1⟩ := mem_calcLIBCands.mp (calcLIB_some_iff p1 h1 l1 e1)
  obtain ⟨_, _, _, n2⟩ := mem_calcLIBCands.mp (calcLIB_some_iff p2 h2 l2 e2)
  rw [calcLIBNo_perm h, n2] at n1
  exact (Option.some.inj n1).symm

/-- **calcLIB_choice_exact.** What MAY depend on the iteration order / the unstable sort: which of the entries carrying the
selected number is returned. The blocks that can sit at index `(m−1)/3` of a sorted permutation of the entries are exactly the
model's candidates `calcLIBCands` (all pre-LIBs with the selected number); the model's `calcLIB` always answers with one of
them, whatever the hint. -/
theorem calcLIB_choice_exact (prpsd : List (String × PL)) (hne : prpsd ≠ []) (b : BI) :
    (b ∈ calcLIBCands prpsd ↔
      ∃ s : List PL, s.Perm (prpsd.map (·.2)) ∧ SortedPL s ∧ (s[(prpsd.length - 1) / 3]?).map (·.plib) = some b) ∧
    ∀ hint, ∃ l ∈ calcLIBCands prpsd, calcLIB prpsd hint = some l := by
  obtain ⟨n, hn, hall, _⟩ := calcLIB_order_statistic prpsd hne
  refine ⟨⟨?_, ?_⟩, ?_⟩
  · intro hb
    obtain ⟨kv, hkv, e, hno⟩ := mem_calcLIBCands.mp hb
    obtain ⟨p, hp, hpn⟩ := hall (sortPL (prpsd.map (·.2))) (sortPL_perm _) (sortPL_sorted _)
    have hnb : kv.2.plib.no = p.plib.no := by
      rw [hn] at hno
      rw [e, hpn]; exact (Option.some.inj hno).symm
    obtain ⟨s', h1, h2, h3⟩ := cand_realisable (prpsd.map (·.2)) _ (sortPL_sorted _) (sortPL_perm _) _ p kv.2 hp
      (List.mem_map.mpr ⟨kv, hkv, rfl⟩) hnb
    exact ⟨s', h2, h1, by rw [h3]; simp [e]⟩
  · rintro ⟨s, hperm, hsorted, hb⟩
    obtain ⟨p, hp, hpn⟩ := hall s hperm hsorted
    rw [hp] at hb
    simp only [Option.map_some, Option.some.injEq] at hb
    have hm : p ∈ prpsd.map (·.2) := hperm.mem_iff.mp (List.mem_of_getElem? hp)
    obtain ⟨kv, hkv, e⟩ := List.mem_map.mp hm
    exact mem_calcLIBCands.mpr ⟨kv, hkv, by rw [e]; exact hb, by rw [hn, ← hb, hpn]⟩
  · intro hint
    obtain ⟨l, hl⟩ := calcLIB_isSome prpsd hint hne
    exact ⟨l, calcLIB_some_iff prpsd hint l hl, hl⟩

/-- **calcLIB_hash_determined.** If no two entries carry the same number with different block ids (as when every pre-LIB
lies on one chain: `lib_on_chain_history`), the returned block is the same block in every run. Two entries with equal numbers on
DIFFERENT branches (possible after a reorganisation: the known stale-entry finding) are the only source of a run-dependent
LIB hash — see the example below. -/
theorem calcLIB_hash_determined (prpsd : List (String × PL)) (h1 h2 : String) (l1 l2 : BI)
    (huniq : ∀ kv ∈ prpsd, ∀ kv' ∈ prpsd, kv.2.plib.no = kv'.2.plib.no → kv.2.plib.hash = kv'.2.plib.hash)
    (e1 : calcLIB prpsd h1 = some l1) (e2 : calcLIB prpsd h2 = some l2) : l1.no = l2.no ∧ l1.hash = l2.hash := by
  obtain ⟨kv1, m1, k1, n1⟩ := mem_calcLIBCands.mp (calcLIB_some_iff prpsd h1 l1 e1)
  obtain ⟨kv2, m2, k2, n2⟩ := mem_calcLIBCands.mp (calcLIB_some_iff prpsd h2 l2 e2)
  have hno : l1.no = l2.no := by rw [n1] at n2; exact Option.some.inj n2
  refine ⟨hno, ?_⟩
  have := huniq kv1 m1 kv2 m2 (by rw [k1, k2]; exact hno)
  rw [k1, k2] at this; exact this

/-- the run-dependent case (evaluation — a test): two producers' pre-LIBs numbered 1 on different branches; both are candidates
and the hint (= what the real run picked) decides. -/
example :
    let m : List (String × PL) := [("p0", ⟨⟨"x", 1, 1⟩, ⟨"x2", 2, 1⟩⟩), ("p1", ⟨⟨"y", 1, 1⟩, ⟨"y2", 2, 1⟩⟩)]
    calcLIB m "x" = some ⟨"x", 1, 1⟩ ∧ calcLIB m "y" = some ⟨"y", 1, 1⟩ := by decide

/-- **calcLIB_monotone_in_entries.** Order-statistic monotonicity: when the entry of a producer ALREADY in the map is replaced
by one with a pre-LIB number at least as high (what `update` does at that producer's next pre-LIB on a growing chain), the
selected number does not decrease. (A producer's FIRST entry lengthens the list and can lower the selection — the repaired
class C08-lib-decreases-when-producer-first-seen; `updateLIB`'s guard, `lib_monotone`, covers that case.) -/
theorem calcLIB_monotone_in_entries (prpsd : List (String × PL)) (k : String) (v old : PL) (a b : Nat)
    (hl : lookup k prpsd = some old) (hle : old.plib.no ≤ v.plib.no)
    (ha : calcLIBNo prpsd = some a) (hb : calcLIBNo (setP k v prpsd) = some b) : a ≤ b :=
  calcLIBNo_setP_mono prpsd k v old a b hl hle ha hb

example :
    let e (k : String) (no : Nat) : String × PL := (k, ⟨⟨k, no, 1⟩, ⟨k, no, 1⟩⟩)
    let m := [e "a" 7, e "b" 3, e "c" 9, e "d" 3]
    lookup "b" m = some (e "b" 3).2 ∧ calcLIBNo m = some 3 ∧ calcLIBNo (setP "b" (e "b" 8).2 m) = some 7 := by decide

/-- **lib_vouched_by_seen_quorum.** Whenever `update()` returns a LIB candidate `l` (the only way `Status.Update` moves the
LIB), `l` is the pre-LIB of an entry of the map and at least `confirmsRequired m` of the map's `m` entries — pairwise
different producers — have a pre-LIB number at or above `l.no`. -/
theorem lib_vouched_by_seen_quorum (ls : LS) (hint : String) (l : BI) (h : (update ls hint).2 = some l) :
    (∃ kv ∈ (update ls hint).1.prpsd, kv.2.plib = l) ∧
      confirmsRequired (update ls hint).1.prpsd.length ≤ cntGe l.no ((update ls hint).1.prpsd.map (·.2)) := by
  have key : ∀ prpsd : List (String × PL), calcLIB prpsd hint = some l →
      (∃ kv ∈ prpsd, kv.2.plib = l) ∧ confirmsRequired prpsd.length ≤ cntGe l.no (prpsd.map (·.2)) := by
    intro prpsd hc
    obtain ⟨kv, m, e, hno⟩ := mem_calcLIBCands.mp (calcLIB_some_iff prpsd hint l hc)
    have hne : prpsd ≠ [] := by intro e0; subst e0; cases m
    obtain ⟨n, hn, _, _, _, _, hq⟩ := calcLIB_order_statistic prpsd hne
    rw [hn] at hno
    rw [← Option.some.inj hno]
    exact ⟨⟨kv, m, e⟩, hq⟩
  unfold update at h ⊢
  split at h
  · simp at h
  · rename_i last rest hc
    simp only at h ⊢
    split at h
    · simp at h
    · rename_i confirmed hw
      simp only [hw]
      exact key _ h

/-- **prpsd_one_entry_per_producer.** Along EVERY history (any operations, any order) the proposed map of the Status, of the boot
loader and of the saved image has one entry per producer: the `m` entries of `calcLIB_order_statistic` are `m` different
producers. -/
theorem prpsd_one_entry_per_producer (self : String) (gbps : List String) (ops : List Op) :
    let n := (newNode self gbps).run ops
    (n.ls.prpsd.map (·.1)).Nodup ∧ (n.bl.prpsd.map (·.1)).Nodup := by
  have := run_KeysInv ops (newNode_KeysInv self gbps)
  exact ⟨this.1, this.2.1⟩

/-! ## 8. LIB on the main chain: an invariant of histories without reorganisation -/

/-- **lib_on_chain_step** (sharpens `lib_on_chain_partial`: the predicate is now the concrete "the number index maps the
block's number to the block", and the guard is exactly "no block the finality status refers to — pre-LIB entry, window element,
LIB; in the Status, the boot loader, the saved image — is off the main chain, except the block passed to Update and not yet
connected"). The guard `ChainInv` is preserved by EVERY operation of a chain service that extends its main chain (`Linear`:
stores, Update of a stored child of the tip on the connect branch, connect of the block just Updated, restart anywhere). So only
the rollback branch / swapChainMapping can break it (`lib_on_chain_false`, known finding). -/
theorem lib_on_chain_step (n : Node) (op : Op) (h : ChainInv n) (hl : Linear n op) : ChainInv (n.apply op) :=
  apply_ChainInv op h hl

/-- **lib_on_chain_history.** For EVERY history without reorganisation (every operation enabled in the sense of `Linear`,
restarts included, any producers, any Confirms values, any length): whenever the Status is in step with the chain DB (its best
block is the indexed tip) the LIB it holds is on the main chain (or is still the zero value of a fresh status), and so is the
pre-LIB of every entry of the proposed map; between `Update(b)` and `connectToChain(b)` the only other possibility is `b` itself. -/
theorem lib_on_chain_history (self : String) (gbps : List String) (ops : List Op)
    (hl : LinearHist (newNode self gbps) ops) :
    let n := (newNode self gbps).run ops
    ChainInv n ∧
    (n.done = true → hashByNo n n.latest = some n.best →
        (n.ls.lib = zeroBI ∨ OnChain n n.ls.lib) ∧ ∀ kv ∈ n.ls.prpsd, kv.2.plib = zeroBI ∨ OnChain n kv.2.plib) ∧
    (n.ls.lib = zeroBI ∨ OnChain n n.ls.lib ∨ (n.ls.lib.hash = n.best ∧ n.ls.lib.no = n.latest + 1)) := by
  have hinv := run_ChainInv ops (newNode_ChainInv self gbps) hl
  refine ⟨hinv, ?_, ?_⟩
  · intro hd ht
    have := Synced_of_tip hinv hd ht
    exact ⟨this.2.2.1, this.1⟩
  · rcases hinv.st with s | ⟨_, b, hb, hno, _, ha⟩
    · rcases s.2.2.2.2.1 with e | e
      · exact Or.inl e
      · exact Or.inr (Or.inl e)
    · rcases ha.2.2.1 with (e | e) | e
      · exact Or.inl e
      · exact Or.inr (Or.inl e)
      · refine Or.inr (Or.inr ?_)
        rw [e, hb]
        exact ⟨rfl, hno⟩

/-- the hypotheses are satisfiable on a non-trivial history (evaluation of `Linear` along eight main-chain blocks and a restart:
a test), and there the LIB b4 is on the chain. -/
example : ∃ ops, LinearHist (newNode "p0" ["p0", "p1", "p2", "p3"]) ops ∧
    ((newNode "p0" ["p0", "p1", "p2", "p3"]).run ops).ls.lib.no = 4 ∧
    OnChain ((newNode "p0" ["p0", "p1", "p2", "p3"]).run ops) ((newNode "p0" ["p0", "p1", "p2", "p3"]).run ops).ls.lib := by
  let mk (id : String) (no : Nat) (prev bp : String) (c : Nat) : Blk := ⟨id, no, prev, bp, c⟩
  let bs := [mk "b1" 1 "g" "p0" 1, mk "b2" 2 "b1" "p1" 2, mk "b3" 3 "b2" "p2" 3, mk "b4" 4 "b3" "p3" 4,
    mk "b5" 5 "b4" "p0" 4, mk "b6" 6 "b5" "p1" 4, mk "b7" 7 "b6" "p2" 4, mk "b8" 8 "b7" "p3" 4]
  refine ⟨(bs.take 5).flatMap (fun b => [.blk b, .update b "", .connect b]) ++ [.restart] ++
    (bs.drop 5).flatMap (fun b => [.blk b, .update b "", .connect b]), ?_, ?_, ?_⟩
  · decide +kernel
  · decide +kernel
  · unfold OnChain; decide +kernel

/-- **rollback_branch_localised.** What the rollback branch of `Status.Update` does to the three components: the LIB is kept;
the window is rebuilt from the number index only; a proposed entry is either taken from the number index or is an entry the
status had BEFORE (unchanged). So after a reorganisation the only references that can point off the new main chain are kept
entries of the proposed map — exactly the known finding C08-lib-from-stale-entry-of-abandoned-branch. -/
theorem rollback_branch_localised (n : Node) (b : Blk) (hint : String) (hb : ChainBase n)
    (hr : (statusLoad n).best ≠ b.prev) :
    (statusUpdate n b hint).ls.lib = (statusLoad n).ls.lib ∧
    (∀ c ∈ (statusUpdate n b hint).ls.confirms, OC n c.bi) ∧
    (∀ kv ∈ (statusUpdate n b hint).ls.prpsd, kv ∈ (statusLoad n).ls.prpsd ∨ OC n kv.2.plib) := by
  have hm : ChainBase (statusLoad n) ∧ (statusLoad n).index = n.index := by
    unfold statusLoad; split
    · exact ⟨hb, rfl⟩
    · exact ⟨ChainBase_of_eq hb rfl rfl rfl rfl, rfl⟩
  unfold statusUpdate
  simp only
  generalize statusLoad n = m at hm hr ⊢
  have hne : (m.best == b.prev) = false := by simp [hr]
  simp only [hne, Bool.false_eq_true, if_false]
  obtain ⟨l1, l2, l3, _⟩ := load_entries (OC m) m m.ls b.no (Or.inl rfl) (genesis_OC hm.1)
    (fun i x hx => Or.inr (blockByNo_OnChain hm.1 hx))
  have hoc : ∀ bi, OC m bi → OC n bi := fun bi h => (OC_congr hm.2 bi).mp h
  refine ⟨by simp [gc, l3], ?_, ?_⟩
  · intro c hc
    have hc' : c ∈ (gc (load m m.ls b.no) m.gbps).confirms := hc
    unfold gc at hc'
    simp only at hc'
    obtain ⟨tt, ht⟩ := dropOldLe_prefix (load m m.ls b.no).lib.no (load m m.ls b.no).confirms
    have : c ∈ dropOldLe (load m m.ls b.no).lib.no (load m m.ls b.no).confirms := List.mem_of_mem_take hc'
    exact hoc _ (l2 c (by rw [ht]; exact List.mem_append_left _ this))
  · intro kv hkv
    have hkv' : kv ∈ (gc (load m m.ls b.no) m.gbps).prpsd := hkv
    unfold gc at hkv'
    simp only at hkv'
    have hmem : kv ∈ (load m m.ls b.no).prpsd := by
      split at hkv'
      · exact hkv'
      · exact (List.mem_filter.mp hkv').1
    rcases l1 kv hmem with h | h
    · exact Or.inl h
    · exact Or.inr (hoc _ h)

/-! ## 9. Restart: what is restored and what is recomputed -/

/-- **restart_exact** (replaces `restart_equal_false`, extends `restart_equal_partial`). For EVERY history of valid chain-service
operations, if the process restarts in the state the history leads to, the finality status the first Update works on is, field
by field:
 * RESTORED from the image saved with the tip: `Lib` and `LpbNo`;
 * CONSTANT for this node (equal to the fields of the status held before, whatever the history): `confirmsRequired`
   (= ⌊2k/3⌋+1 for the genesis producer count k), genesis info, own producer id; the best block = the indexed tip;
 * RECOMPUTED from the stored main chain: the confirms window is the window of the replay of blocks
   `begRecoBlockNo .. latest` (empty when `latest = 0` or `begRecoBlockNo = latest`) — NOT the window held before
   (example below); the proposed map is the saved map overwritten, producer by producer, by the entries the replay yields
   with a pre-LIB number > 0: for every producer `k`, lookup k = the replayed entry if there is one numbered > 0, else
   the saved entry (else none). -/
theorem restart_exact (k : Nat) (self : String) (gbps : List String) (hg : gbps.length = k)
    (ops : List Op) (hv : ∀ op ∈ ops, op.Valid) (p : List (String × PL)) (lib : BI) (lpb : Nat) :
    let n := (newNode self gbps).run ops
    n.saved = some (p, lib, lpb) →
    let r := (statusLoad (restart n)).ls
    let replayed := loadPlibStatus n (begRecoBlockNo (confirmsRequired k) lib.no n.latest) n.latest (confirmsRequired k)
    (r.lib = lib ∧ r.lpb = lpb) ∧
    (r.cr = confirmsRequired k ∧ n.ls.cr = confirmsRequired k ∧ r.genesis = n.ls.genesis ∧ r.self = n.ls.self ∧
      (statusLoad (restart n)).best = (hashByNo n n.latest).getD "") ∧
    ((n.latest = 0 ∨ replayed = none) → r.prpsd = p ∧ r.confirms = []) ∧
    (∀ t, n.latest ≠ 0 → replayed = some t →
        r.confirms = t.confirms ∧
        ∀ key, lookup key r.prpsd =
          match lookup key t.prpsd with
          | some v => if v.plib.no > 0 then some v else lookup key p
          | none => lookup key p) := by
  intro n hs r replayed
  have hinv : NodeInv k n := window_invariant_history k self gbps hg ops hv
  obtain ⟨hid, hgen, hself, hgb⟩ := run_IdInv ops (newNode_IdInv self gbps)
  have hgb' : n.gbps.length = k := hinv.gb
  have hd : (restart n).done = false := by simp [restart]
  have hr : r = load n { newLSWithConfirms n.genesis n.self (confirmsRequired k) with prpsd := p, lib := lib, lpb := lpb } n.latest := by
    show (statusLoad (restart n)).ls = _
    simp [statusLoad, hd, restart, hs, newLS, hgb']
  have hbest : (statusLoad (restart n)).best = (hashByNo n n.latest).getD "" := by
    simp [statusLoad, hd, restart]
  obtain ⟨e1, e2, e3, e4, e5, e6, e7⟩ := load_exact n
    { newLSWithConfirms n.genesis n.self (confirmsRequired k) with prpsd := p, lib := lib, lpb := lpb } n.latest
  rw [← hr] at e1 e2 e3 e4 e5 e6 e7
  refine ⟨⟨e1, e2⟩, ⟨e3, hinv.lsCr, ?_, ?_, hbest⟩, e6, e7⟩
  · rw [e4]; exact hid.1.symm
  · rw [e5]; exact hid.2.1.symm

/-! ## 10. What an honest producer guarantees — and what it does not -/

namespace BlockTree
variable {B P : Type} (T : BlockTree B P)

/-- **honest_no_double_confirm.** A producer with pairwise disjoint confirm ranges never confirms two different blocks of the
same height, on whatever branches. -/
theorem honest_no_double_confirm (p : P) (h : T.RangesDisjoint p) (b b' x y : B)
    (hb : T.prod b = p) (hb' : T.prod b' = p) (cx : T.confirms b x) (cy : T.confirms b' y)
    (hh : T.height x = T.height y) : x = y := by
  by_cases e : b = b'
  · subst e; exact T.anc_unique x y b cx.1 cy.1 hh
  · rcases h b b' hb hb' e with h | h
    · have := cx.2.2; have := cy.2.1; omega
    · have := cy.2.2; have := cx.2.1; omega

/-- **ranges_disjoint_of_production_order.** If the blocks of `p` can be listed in production order such that each one's range
starts at or above the previous ones' heights (what the block factory does: `factory_ranges_disjoint`), `RangesDisjoint p`
holds. -/
theorem ranges_disjoint_of_production_order (p : P) (bs : List B) (hall : ∀ b, T.prod b = p → b ∈ bs)
    (hord : bs.Pairwise (fun b b' => T.height b ≤ T.lo b')) : T.RangesDisjoint p := by
  intro b b' hb hb' hne
  have m1 := hall b hb
  have m2 := hall b' hb'
  -- pairwise over a list: one of the two orders
  have : ∀ (l : List B), l.Pairwise (fun b b' => T.height b ≤ T.lo b') → b ∈ l → b' ∈ l →
      T.height b ≤ T.lo b' ∨ T.height b' ≤ T.lo b := by
    intro l hl
    induction l with
    | nil => intro h; cases h
    | cons a t ih =>
      obtain ⟨h1, h2⟩ := List.pairwise_cons.mp hl
      intro ha hb2
      rcases List.mem_cons.mp ha with e1 | ha'
      · rcases List.mem_cons.mp hb2 with e2 | hb2'
        · exact absurd (e1.trans e2.symm) hne
        · rw [e1]; exact Or.inl (h1 _ hb2')
      · rcases List.mem_cons.mp hb2 with e2 | hb2'
        · rw [e2]; exact Or.inr (h1 _ ha')
        · exact ih h2 ha' hb2'
  exact this bs hord m1 m2

end BlockTree

/-- One run of the block factory worker (blockfactory.go:185-220), blocks oldest first: the worker's `lpbNo` starts at `lpb`
(`bsLoader.lpbNo()`), each block is numbered above it (it is built on the current best block, and the tip number never decreases:
`tip_never_decreases`), carries `Confirms = no − lpbNo`, and after a successful `ConnectBlock` the worker sets `lpbNo := no`. -/
def FactoryRun : Nat → List Blk → Prop
  | _, [] => True
  | lpb, b :: rest => lpb < b.no ∧ b.confirms = honestConfirms b.no lpb ∧ FactoryRun b.no rest

/-- **factory_ranges_disjoint.** Within one process run the confirm ranges of a producer's successive blocks are pairwise
disjoint, on whatever branches the blocks lie: each later range starts above every earlier block of the run. (Across a
restart the worker starts from the SAVED `LpbNo`, which roll-forward over an older own block can have lowered:
`lpb_regress_witness`.) -/
theorem factory_ranges_disjoint : ∀ (lpb : Nat) (bs : List Blk), FactoryRun lpb bs → (∀ b ∈ bs, b.no < u64) →
    (∀ b ∈ bs, lpb < rangeMin b.bi ∧ lpb < b.no) ∧
    bs.Pairwise (fun b1 b2 => b1.no < rangeMin b2.bi ∧ ∀ k, ¬ (inRange b1.bi k = true ∧ inRange b2.bi k = true))
  | _, [], _, _ => ⟨by simp, List.Pairwise.nil⟩
  | lpb, b :: rest, h, hu => by
    obtain ⟨h1, h2, h3⟩ := h
    have hbi : b.bi = ⟨b.id, b.no, honestConfirms b.no lpb⟩ := by simp [Blk.bi, h2]
    obtain ⟨r1, r2⟩ := honest_range b.id b.no lpb h1 (hu b (by simp))
    rw [← hbi] at r1 r2
    obtain ⟨ih1, ih2⟩ := factory_ranges_disjoint b.no rest h3 (fun x hx => hu x (by simp [hx]))
    refine ⟨?_, List.pairwise_cons.mpr ⟨?_, ih2⟩⟩
    · intro x hx
      rcases List.mem_cons.mp hx with rfl | hx
      · exact ⟨by omega, h1⟩
      · have := ih1 x hx; omega
    · intro x hx
      have := ih1 x hx
      refine ⟨this.1, ?_⟩
      intro k ⟨k1, k2⟩
      have := (r2 k).mp k1
      simp only [inRange, Bool.and_eq_true, decide_eq_true_eq] at k2
      omega

example : FactoryRun 0 [⟨"b1", 1, "g", "p0", 1⟩, ⟨"b5", 5, "b4", "p0", 4⟩, ⟨"c9", 9, "c8", "p0", 4⟩] := by
  simp only [FactoryRun]; decide

/-- **lpb_regress_witness** (observation, a test of the model; the `lpb` field is part of every compared status dump). `libStatus.LpbNo`
is assigned at EVERY `addConfirmInfo` of an own block, also when roll-forward passes an OLDER own block: here it goes 4 → 2 when
the node returns to the branch of its block x2 after having produced y4 on another branch (Confirms 2: heights 3, 4). The running
block factory keeps its own variable, but after a restart it starts from the saved value 2: its next block x6 would carry
Confirms 6 − 2 = 4 and confirm heights 3, 4 a second time, on the other branch — the `honest` hypothesis (`RangesDisjoint`) of
`agreement_same_height` is then not met by a correct producer. -/
theorem lpb_regress_witness :
    let n1 := (newNode "p0" q4).run lpbHist1
    let n2 := n1.run lpbHist2
    n1.ls.lpb = 4 ∧ n2.ls.lpb = 2 ∧ (restart n2).bl.lpb = 2 ∧ n2.latest = 5 ∧
      inRange ⟨"x6", 6, honestConfirms 6 (restart n2).bl.lpb⟩ 4 = true ∧ inRange y4.bi 4 = true := by
  decide +kernel

/-- a history in which every operation is enabled in the state it is applied to. -/
def HistOf (P : Node → Op → Prop) : Node → List Op → Prop
  | _, [] => True
  | n, op :: rest => P n op ∧ HistOf P (n.apply op) rest

/-- `connectToChain` is called with a block numbered above the current tip (the chain service connects the child of the tip). -/
def ConnectsAbove (n : Node) : Op → Prop
  | .connect b => n.latest < b.no
  | _ => True

/-- **tip_never_decreases.** The main chain's tip number never decreases: connects go above the tip, `swapChainMapping` refuses
a branch whose top is not above it, nothing else touches it (restarts included). So a block built on the current best block is
numbered above every block this process connected before. -/
theorem tip_never_decreases : ∀ (ops : List Op) (n : Node), HistOf ConnectsAbove n ops → n.latest ≤ (n.run ops).latest
  | [], _, _ => Nat.le_refl _
  | op :: rest, n, h => by
    have hstep : n.latest ≤ (n.apply op).latest := by
      cases op with
      | blk b => simp only [Node.apply]; split <;> exact Nat.le_refl _
      | update b hint =>
        simp only [Node.apply, statusUpdate, statusLoad]
        split <;> split <;> (try split) <;> exact Nat.le_refl _
      | connect b => exact Nat.le_of_lt h.1
      | swap bs =>
        simp only [Node.apply, swap]
        cases bs with
        | nil => exact Nat.le_refl _
        | cons t r => simp only; split <;> (simp only; omega)
      | restart => exact Nat.le_refl _
    exact Nat.le_trans hstep (tip_never_decreases rest _ h.2)


/-! ## 11. Never undone: the main chain at and below the LIB -/

/-- One activity of the chain service on a loaded Status: the veto function is evaluated FIRST (in the state the step starts in:
chainhandle.go addBlockInternal calls VerifyTimestamp before anything else, reorg.go calls NeedReorganization before the rollback),
then blocks are stored and `Status.Update` is called any number of times (connect branch, rollback, roll-forward), then the number
index is changed once (`connectToChain(b)` or `swapChainMapping(nb)`). -/
structure Step where
  quiet : List Op
  idx : Op

def Step.ops (s : Step) : List Op := s.quiet ++ [s.idx]

/-- the step passed the veto: a connected block was accepted by VerifyTimestamp, a swapped-in branch has a root allowed by
NeedReorganization (all its blocks are numbered above the root). -/
def Step.Enabled (n : Node) (s : Step) : Prop :=
  (∀ op ∈ s.quiet, QuietOp op) ∧
  match s.idx with
  | .connect b => verifyTs n b = true
  | .swap nb => ∃ root, needReorg n root = true ∧ ∀ b ∈ nb, root < b.no
  | _ => False

def StepsEnabled : Node → List Step → Prop
  | _, [] => True
  | n, s :: rest => s.Enabled n ∧ StepsEnabled (n.run s.ops) rest

/-- **below_lib_never_replaced** (first clause of the property, over histories). On a node whose Status has loaded its finality
status, along EVERY sequence of chain-service activities that passed the vetoes (any blocks, any Confirms values, any number of
reorganisations, no restart): the LIB number never decreases and the main chain (number index) at every number at or below the LIB
the Status held at the start is never changed. Since this holds from every intermediate state on, no block at or below a LIB the
node has ever reported is replaced later. (Restart: the veto gap `restart_forgets_lib`, known finding, is the exception.) -/
theorem below_lib_never_replaced : ∀ (steps : List Step) (n : Node), n.done = true → StepsEnabled n steps →
    (n.run (steps.flatMap Step.ops)).done = true ∧
    n.ls.lib.no ≤ (n.run (steps.flatMap Step.ops)).ls.lib.no ∧
    ∀ k, k ≤ n.ls.lib.no → hashByNo (n.run (steps.flatMap Step.ops)) k = hashByNo n k
  | [], n, hd, _ => ⟨hd, Nat.le_refl _, fun _ _ => rfl⟩
  | s :: rest, n, hd, he => by
    obtain ⟨⟨hq, hidx⟩, hrest⟩ := he
    have hrun : n.run ((s :: rest).flatMap Step.ops) = (n.run s.ops).run (rest.flatMap Step.ops) := by
      simp [Node.run, List.flatMap_cons, List.foldl_append]
    -- the step contains no restart
    have hnr : ∀ op ∈ s.ops, op ≠ Op.restart := by
      intro op hop
      unfold Step.ops at hop
      rcases List.mem_append.mp hop with h | h
      · have := hq op h
        intro e; rw [e] at this; exact this
      · simp only [List.mem_singleton] at h
        rw [h]
        intro e; rw [e] at hidx; exact hidx
    obtain ⟨d1, m1⟩ := lib_monotone n s.ops hd hnr
    -- the index below the LIB is untouched by the step
    have hstep : ∀ k, k ≤ n.ls.lib.no → hashByNo (n.run s.ops) k = hashByNo n k := by
      intro k hk
      have e1 : n.run s.ops = (n.run s.quiet).apply s.idx := by
        simp [Step.ops, Node.run, List.foldl_append]
      have hqi : (n.run s.quiet).index = n.index := quiet_run_index s.quiet n hq
      have hsame : hashByNo (n.run s.quiet) k = hashByNo n k := by unfold hashByNo; rw [hqi]
      rw [e1, ← hsame]
      cases hi : s.idx with
      | blk b => rw [hi] at hidx; exact absurd hidx (by simp)
      | update b hint => rw [hi] at hidx; exact absurd hidx (by simp)
      | restart => rw [hi] at hidx; exact absurd hidx (by simp)
      | connect b =>
        rw [hi] at hidx
        simp only at hidx
        have := ((veto_below_lib n 0 b).2).mp hidx
        exact hashByNo_connect_ne _ b (by omega)
      | swap nb =>
        rw [hi] at hidx
        obtain ⟨root, hr, hnb⟩ := hidx
        have := ((veto_below_lib n root default).1).mp hr
        exact hashByNo_swap_below _ nb (fun b hb => by have := hnb b hb; omega)
    obtain ⟨d2, m2, i2⟩ := below_lib_never_replaced rest (n.run s.ops) d1 hrest
    rw [hrun]
    refine ⟨d2, Nat.le_trans m1 m2, ?_⟩
    intro k hk
    rw [i2 k (Nat.le_trans hk m1), hstep k hk]

/-- the hypotheses are met by a non-trivial history (evaluation — a test): eight main-chain blocks, then the permitted
reorganisation of `reorg9` (veto evaluated first, rollback, roll-forward, swap), on a node whose LIB is 4. -/
example :
    let n := (newNode "p0" ["p0", "p1", "p2", "p3"]).run main8
    n.done = true ∧ n.ls.lib.no = 4 ∧
      StepsEnabled n [⟨[.blk c8, .blk c9, .update b7 "", .update c8 "", .update c9 ""], .swap [c9, c8]⟩] := by
  refine ⟨by decide +kernel, by decide +kernel, ⟨?_, ?_⟩, trivial⟩
  · intro op hop
    simp only [List.mem_cons, List.mem_nil_iff, or_false] at hop
    rcases hop with rfl | rfl | rfl | rfl | rfl <;> trivial
  · exact ⟨7, by decide +kernel, by decide⟩

/-! ## 12. LIB on the main chain THROUGH reorganisations, failed executions and failed roll-forwards -/

/-- **lib_on_chain_through_reorgs** (the `_partial` form of the on-chain clause, with its exact guards). For EVERY history the
ghost automaton `StepG` accepts (lean/Aergo/Lemmas/LibReorg.lean; harness c08cs checks on every run that the REAL chain service's
calls into the consensus follow it): stores; restarts; main-chain blocks (Update of a stored child of the tip, then connect);
failed executions (Update of the tip itself); reorganisations (rollback Update(root) of a main-chain block at or above the LIB,
roll-forward Updates, swapChainMapping of exactly those blocks) and failed roll-forwards (Update of the old tip) — the invariant
`ChainInvG` holds, and whenever the chain service is between two activities (phase `synced`) the LIB and every pre-LIB entry lie on
the main chain. The ONLY hypotheses that are not about the shape of the calls are the two guards built into `StepG`:
 * at a rollback: `NoStale` — afterwards no proposed entry names a block numbered above the branch root
   (violated by the pinned code: known finding C08-lib-from-stale-entry-of-abandoned-branch, `lib_on_chain_false`);
 * at a failed roll-forward: no entry and no LIB picked up on the branch that was NOT adopted survives
   (violated by the pinned code: known finding C08-lib-kept-from-failed-rollforward, `lib_kept_from_failed_rollforward_witness`). -/
theorem lib_on_chain_through_reorgs (self : String) (gbps : List String) (ops : List Op) (phEnd : Phase)
    (hh : HistG (newNode self gbps) .synced ops phEnd) :
    let n := (newNode self gbps).run ops
    ChainInvG n phEnd ∧
    (phEnd = .synced →
      (n.ls.lib = zeroBI ∨ OnChain n n.ls.lib) ∧ ∀ kv ∈ n.ls.prpsd, kv.2.plib = zeroBI ∨ OnChain n kv.2.plib) := by
  have hinv := histG_inv ops (newNode_ChainInvG self gbps) (newNode_IdInv self gbps) hh
  refine ⟨hinv, ?_⟩
  intro e
  subst e
  exact ⟨hinv.refs.2.2.1, hinv.refs.1⟩

/-- non-vacuity (evaluation of `StepG` along a history with its phases written out — a test): eight main-chain blocks, then the
permitted reorganisation of `reorg9` (rollback to b7, roll-forward c8 c9, swap), all guards true. -/
example : ∃ ops, HistG (newNode "p0" ps4) .synced ops .synced ∧ ((newNode "p0" ps4).run ops).ls.lib.no = 4 ∧
    hashByNo ((newNode "p0" ps4).run ops) 9 = some "c9" := by
  let main (b : Blk) : List (Op × Phase) := [(.blk b, .synced), (.update b "", .pending b), (.connect b, .synced)]
  let l : List (Op × Phase) := [b1, b2, b3, b4, b5, b6, b7, b8].flatMap main ++
    [(.blk c8, .synced), (.blk c9, .synced), (.update b7 "", .reorg 7 []), (.update c8 "", .reorg 7 [c8]),
     (.update c9 "", .reorg 7 [c9, c8]), (.swap [c9, c8], .synced)]
  have h : HistGW (newNode "p0" ps4) .synced l := by decide +kernel
  refine ⟨l.map (·.1), ?_, by decide +kernel, by decide +kernel⟩
  have := HistG_of_HistGW l _ _ h
  have e : lastPh .synced l = .synced := by decide +kernel
  rw [e] at this
  exact this

/-- **lib_kept_from_failed_rollforward_witness** (known finding C08-lib-kept-from-failed-rollforward; replayed on the real
chain.ChainService + dpos.Status by harness c08cs `scriptedFailedBranch`). The node (p0) is on its own branch m9..m14 with LIB b5;
the branch c9..c14 of p1 p2 p3 is rolled forward in a reorganisation (root b8 ≥ LIB, permitted) whose next block fails to execute;
the chain service puts the Status back on m14 (`Update(bestBlock)`, twice). The Status keeps LIB c10 — a block of the branch that
was NOT adopted: the main chain holds m10 at number 10 — and from then on `NeedReorganization(8)` is false: the valid branch can
never be adopted. The guard of `lib_on_chain_through_reorgs` at a failed roll-forward excludes exactly this. -/
theorem lib_kept_from_failed_rollforward_witness :
    let n0 := (newNode "p0" q4).run ((common8 ++ [m9, m10, m11, m12, m13, m14]).flatMap mainBlk')
    let n1 := n0.run failedRF
    n0.ls.lib.hash = "b5" ∧ needReorg n0 8 = true ∧
      n1.best = "m14" ∧ n1.ls.lib.hash = "c10" ∧ hashByNo n1 10 = some "m10" ∧ needReorg n1 8 = false := by
  decide +kernel

/-! ## 13. The quorum of ALL producers behind every LIB -/

/-- **lib_vouched_by_full_quorum** (the `_partial` form of the quorum clause; links the m producers SEEN of
`calcLIB_order_statistic` to all k producers). For EVERY history of valid chain-service operations in which the blocks passed to
`Status.Update` are stored blocks (`StoredHist`: any order of stores, Updates in both branches, connects, swaps, restarts; any
Confirms values): the LIB the Status holds is the zero value, the genesis placeholder, or a block for which at least
`confirmsRequired k = ⌊2k/3⌋+1 > 2k/3` window positions — each a stored block — had a confirm range containing its number
(`Vouched`); the same for every entry of the proposed map, in the Status and in the boot loader (so also across rollback replays
and restarts) — however few producers are in the map. The producers of these blocks are pairwise DISTINCT exactly under the
guard `HonestRanges` (a producer's later range starts above its earlier block: `factory_ranges_disjoint`); without it the clause
is false: `quorum_false_lying_confirms_witness`. -/
theorem lib_vouched_by_full_quorum (k : Nat) (self : String) (gbps : List String) (hg : gbps.length = k) (ops : List Op)
    (hh : StoredHist (newNode self gbps) ops) :
    let n := (newNode self gbps).run ops
    3 * confirmsRequired k > 2 * k ∧
    (n.ls.lib = zeroBI ∨ n.ls.lib = n.genesis ∨ Vouched (confirmsRequired k) n.blocks n.ls.lib) ∧
    (∀ kv ∈ n.ls.prpsd, kv.2.plib = n.genesis ∨ Vouched (confirmsRequired k) n.blocks kv.2.plib) ∧
    (∀ kv ∈ n.bl.prpsd, kv.2.plib = n.genesis ∨ Vouched (confirmsRequired k) n.blocks kv.2.plib) ∧
    (∀ (bi : BI) (confirmers : List CI), (∀ d ∈ confirmers, inRange d.bi bi.no = true) → HonestRanges confirmers →
        (confirmers.map (·.bp)).Nodup) := by
  have hv : ∀ op ∈ ops, op.Valid := by
    have : ∀ (ops : List Op) (n : Node), StoredHist n ops → ∀ op ∈ ops, op.Valid := by
      intro ops
      induction ops with
      | nil => intro _ _ op hop; cases hop
      | cons o rest ih =>
        intro n hs op hop
        rcases List.mem_cons.mp hop with rfl | hop
        · exact hs.1
        · exact ih _ hs.2.2 op hop
    exact this ops _ hh
  have h0 : NodeInv k (newNode self gbps) := window_invariant_history k self gbps hg [] (by simp)
  obtain ⟨v, _, _⟩ := run_vouch k ops _ hh (newNode_vouch k self gbps) h0 (newNode_IdInv self gbps)
  exact ⟨(quorum_more_than_two_thirds k).1, v.lsL, v.lsE, v.blE,
    fun bi confirmers hc hhon => Vouched_distinct (q := 0) (blocks := []) confirmers hc hhon⟩

/-- the hypotheses are met by a non-trivial history (evaluation — a test): the eight main-chain blocks and the reorganisation of
`reorg9`, every Updated block stored before. -/
example : StoredHist (newNode "p0" ps4) (main8 ++ reorg9) := by decide +kernel

/-- **quorum_false_lying_confirms_witness** (known finding C08-quorum-by-lying-confirms; harness c08 part A7 on the real
`dpos.Status`). Receivers never validate `Confirms`. Four producers, only p0 (honest) and p3 ever produce; p3 puts its block
number into `Confirms` (claims every block back to number 1). After nine blocks the node reports LIB a6, although only TWO of the
four producers have ever produced a block (⌊2·4/3⌋+1 = 3 needed); with p3's honest values the same schedule leaves the LIB at 0.
`prelib_quorum` gives distinct producers exactly under `HonestRanges`, the guard this history violates. -/
theorem quorum_false_lying_confirms_witness :
    ((newNode "p1" q4).run ([l1, l2, l3, l4, l5, l6, l7, l8, l9].flatMap mainBlk')).ls.lib.hash = "a6" ∧
    confirmsHonest [l1, l2, l3, l4, l5, l6, l7, l8, l9] = false ∧ confirmsRequired 4 = 3 ∧
    ([l1, l2, l3, l4, l5, l6, l7, l8, l9].map (·.bp)).eraseDups.length = 2 ∧
    ((newNode "p1" q4).run ([l1, l2, l3, honest4, l5, honest6, l7, honest8, l9].flatMap mainBlk')).ls.lib.no = 0 ∧
    confirmsHonest [l1, l2, l3, honest4, l5, honest6, l7, honest8, l9] = true := by
  decide +kernel

/-
**agreement — the full statement is FALSE for the pinned protocol, even with f = 0.**

  For all histories of n producers of which fewer than n/3 are Byzantine (equivocation; Confirms chain-locally honest),
  with arbitrary loss, delay, partition and restarts: if correct node A reports LIB x and correct node B reports LIB y,
  then x is an ancestor of y or y is an ancestor of x.

`agreement_false_honest_witness` (known finding C08-conflicting-libs-honest-switch-below-confirmed; harness c08 part A6 replays it
on real `dpos.Status` objects): four honest producers, honest Confirms, no restart, no stale entry, one partition and a few
missed slots — two correct nodes end with LIBs b9 and c15 on branches forking at b8. For n ≥ 7 partitions alone suffice (two
cut-off producers build 2 blocks per round, isolated ones 1).

What IS proved: `quorum_intersect`; `agreement_same_height` (no extra hypothesis: quorum-confirmed blocks of EQUAL height
coincide); `agreement_partial`, conditional on H = `StaysOnConfirmed` — a rule the pinned code does not have and that honest
producers do NOT satisfy (the witness: p0 confirms b9..b12 with its block b12 and later builds c14 on the other branch);
`honest_no_double_confirm`, `ranges_disjoint_of_production_order`, `factory_ranges_disjoint`, `tip_never_decreases`: the
`honest` hypothesis `RangesDisjoint` DOES follow from the block factory's `Confirms = no − lpbNo` within one process run
(across a restart see `lpb_regress_witness`).

What is missing for agreement is therefore not a proof but a protocol rule: a producer protects (vetoes reorganisations below)
only its own LIB, and of the quorum of producers whose pre-LIBs make x irreversible only the LAST one knows it; the other
q − 1 may still adopt a longer branch forking below x and, together with the producers that never saw x, make a conflicting
block irreversible. A rule of the kind "never adopt a branch forking below a block for which you have seen a pre-LIB quorum"
(lock on the pre-LIB, not on the LIB) — or equivalently H for pre-LIBs — would be needed; then `agreement_partial`'s argument
applies to pre-LIBs, and the step from pre-LIBs to the reported LIB is `calcLIB_order_statistic` + `lib_on_chain_history`.
Node-locally every clause still holds in the witness (LIB monotone, on the node's chain, never undone on that node).
-/

end Aergo.Props.C08
