/-
C08 — DPoS finality: the irreversible block is monotone, on-chain and never undone.

  "No block at or below a last irreversible block (LIB) that a node has ever reported is later replaced on
   that node's main chain: reorganisations forking below the LIB and blocks numbered at or below it are
   refused. The reported LIB always lies on the node's main chain, requires confirmations by blocks of more
   than two thirds of the distinct block producers, and never decreases in height. Two correct nodes never
   hold irreversible blocks on conflicting branches as long as fewer than one third of the producers
   misbehave, and the finality status restored after a restart equals the one recomputed from the stored
   blocks."

The statements are about the executable model `Aergo.Lib` (Aergo/Model/Lib.lean: libStatus, Status, boot
loader, the chain-DB part the status touches), whose integer formulas are regenerated from the source
(`Aergo.Gen.LibQuorum`) and whose behaviour is compared with the real `dpos.Status` operation by operation on
every run (harness c08).

What holds and what does not, clause by clause (details at each theorem). Two defects of the pinned code were repaired
in /repo (a61f1aeb: the reload path uses the same confirmsRequired; db1b9b14: updateLIB ignores a lower candidate) and the
model follows the repaired code; two are recorded as known findings and stay visible here as proved negations.

 * veto rules                      — `veto_below_lib`: exact, for the LIB the Status object currently holds.
                                     KNOWN C08-restart-lazy-load-veto-gap: `restart_forgets_lib` — after a restart that LIB is 0
                                     until the first Update (witness `restart_veto_gap_witness`).
 * > 2/3 distinct producers        — `quorum_more_than_two_thirds`, `libIndex_leaves_quorum` (formulas), `reload_same_quorum`,
                                     `prelib_quorum` (a pre-LIB needs `q` covering window blocks, pairwise distinct producers
                                     under honest ranges), `window_invariant_history` (every history, any producer count).
 * LIB never decreases             — `lib_monotone` (every history of stores/Updates/connects/swaps on a loaded Status),
                                     `lib_monotone_across_restart` (the first Update after a restart continues from the saved LIB).
 * LIB on the main chain           — KNOWN C08-lib-from-stale-entry-of-abandoned-branch: FALSE (`lib_on_chain_false`);
                                     `lib_on_chain_partial`: preserved by the connect branch for any predicate the window and the
                                     proposed map satisfy.
 * restart = recompute             — `restart_equal_partial` (LIB, lpb, the proposed map overwritten by the replay, the replayed
                                     window); `restart_equal_false` (the window itself is not the one the node had).
 * two correct nodes               — `quorum_intersect` (counting), `agreement_same_height`, `agreement_partial`
                                     (under the extra hypothesis H); the full statement is NOT proved (comment at the end).
-/
import Aergo.Lemmas.LibInv
import Mathlib.Data.Finset.Card

namespace Aergo.Props.C08
open Aergo.Lib

/-! ## 1. The quorum formulas (regenerated from lib.go / dpos.go on every run) -/

/-- `confirmsRequired n = ⌊2n/3⌋+1` is the least count exceeding two thirds of `n`. -/
theorem quorum_more_than_two_thirds (n : Nat) :
    3 * confirmsRequired n > 2 * n ∧ 3 * (confirmsRequired n - 1) ≤ 2 * n := by
  rw [confirmsRequired_eq]; omega

/-- `dpos.Init`'s `majorityCount` is the same formula as `setConfirmsRequired`'s. -/
theorem majority_eq_confirmsRequired (n : Int) :
    Gen.LibQuorum.majorityCount n = Gen.LibQuorum.confirmsRequired n := rfl

/-- calcLIB's index `(len−1)/3` leaves at least `confirmsRequired len` entries at or above the selected one:
the selected pre-LIB is reached by more than two thirds of the producers PRESENT IN THE MAP (not of all producers:
see `lib_monotone_false_new_producer`). -/
theorem libIndex_leaves_quorum (len : Nat) (h : 1 ≤ len) :
    libIndex len < len ∧ confirmsRequired len ≤ len - libIndex len := by
  rw [libIndex_eq, confirmsRequired_eq]; omega

/-- **reload_same_quorum** (repaired by a61f1aeb; before, the scratch status of the reload path required only
`confirmsRequired (confirmsRequired n)` confirmations). After a restart both the Status and the boot loader require
`confirmsRequired n` for the genesis producer count `n` — more than two thirds of `n` — and `load` (rollback, restart) never
changes the count of the status it rebuilds. -/
theorem reload_same_quorum (n : Node) :
    (restart n).ls.cr = confirmsRequired n.gbps.length ∧ (restart n).bl.cr = confirmsRequired n.gbps.length ∧
      3 * (restart n).bl.cr > 2 * n.gbps.length ∧ ∀ (ls : LS) (e : Nat), (load n ls e).cr = ls.cr := by
  have hl : ∀ (ls : LS) (e : Nat), (load n ls e).cr = ls.cr := by
    intro ls e
    unfold load
    simp only
    split
    · rfl
    · split <;> rfl
  have h1 : (restart n).ls.cr = confirmsRequired n.gbps.length := by simp [restart, newLS]
  have h2 : (restart n).bl.cr = confirmsRequired n.gbps.length := by
    unfold restart
    simp only
    cases n.saved with
    | none => simp [newLS, newLSWithConfirms]
    | some v => obtain ⟨p, lib, lpb⟩ := v; simp only; rw [hl]; simp [newLS, newLSWithConfirms]
  exact ⟨h1, h2, by rw [h2]; exact (quorum_more_than_two_thirds _).1, hl⟩

example : confirmsRequired 4 = 3 ∧ confirmsRequired 7 = 5 := by decide

/-- An honest block factory's Confirms value `no − lpbNo` makes the confirm range exactly `(lpbNo, no]`. -/
theorem honest_range (h : String) (no lpb : Nat) (h1 : lpb < no) (h2 : no < u64) :
    rangeMin ⟨h, no, honestConfirms no lpb⟩ = lpb + 1 ∧
      ∀ k, inRange ⟨h, no, honestConfirms no lpb⟩ k = true ↔ (lpb < k ∧ k ≤ no) := by
  have e : rangeMin ⟨h, no, honestConfirms no lpb⟩ = lpb + 1 := by
    simp only [rangeMin, honestConfirms, Gen.LibQuorum.factoryConfirms, u64] at *
    omega
  refine ⟨e, fun k => ?_⟩
  simp only [inRange, e, Bool.and_eq_true, decide_eq_true_eq]
  omega

/-! ## 2. The veto rules -/

/-- NeedReorganization allows exactly the branch roots at or above the LIB the Status holds; VerifyTimestamp's LIB clause
accepts exactly the blocks numbered above it. -/
theorem veto_below_lib (n : Node) (root : Nat) (b : Blk) :
    (needReorg n root = true ↔ n.ls.lib.no ≤ root) ∧ (verifyTs n b = true ↔ n.ls.lib.no < b.no) := by
  refine ⟨by simp [needReorg], ?_⟩
  simp only [verifyTs, Bool.not_eq_true', decide_eq_false_iff_not]
  omega

example : needReorg { (default : Node) with ls := { (default : LS) with lib := ⟨"x", 5, 1⟩ } } 4 = false ∧
    needReorg { (default : Node) with ls := { (default : LS) with lib := ⟨"x", 5, 1⟩ } } 5 = true := by decide

/-- KNOWN FINDING (class C08-restart-lazy-load-veto-gap). `Status.load` is lazy: after a process restart the Status holds a
fresh libStatus until the first `Update`, so for EVERY node state every branch root is allowed and every positive block
number accepted, whatever LIB was reported before the restart. -/
theorem restart_forgets_lib (n : Node) :
    (restart n).ls.lib.no = 0 ∧ (∀ root, needReorg (restart n) root = true) ∧
      (∀ b : Blk, b.no ≠ 0 → verifyTs (restart n) b = true) := by
  have h : (restart n).ls.lib.no = 0 := by simp [restart, newLS, zeroBI]
  refine ⟨h, fun root => ?_, fun b hb => ?_⟩
  · simp [needReorg, h]
  · simp only [verifyTs, h, Bool.not_eq_true', decide_eq_false_iff_not]; omega

/-- … while the boot loader did restore the saved LIB, and the first Update installs it. -/
theorem restart_keeps_lib_in_loader (n : Node) (p : List (String × PL)) (lib : BI) (lpb : Nat)
    (h : n.saved = some (p, lib, lpb)) :
    (restart n).bl.lib = lib ∧ (restart n).bl.lpb = lpb ∧ (statusLoad (restart n)).ls.lib = lib := by
  have hl : ∀ (ls : LS) (e : Nat), (load n ls e).lib = ls.lib ∧ (load n ls e).lpb = ls.lpb := by
    intro ls e
    unfold load
    simp only
    split
    · exact ⟨rfl, rfl⟩
    · split <;> exact ⟨rfl, rfl⟩
  have h1 : (restart n).bl.lib = lib ∧ (restart n).bl.lpb = lpb := by
    simp only [restart, h]
    exact hl _ _
  refine ⟨h1.1, h1.2, ?_⟩
  have hd : (restart n).done = false := by simp [restart]
  simp [statusLoad, hd, h1.1]

section witnesses
/-! Concrete histories (witnesses; each `decide +kernel` below EVALUATES the model on one history — a test, not a proof
of a general claim; the general claims are the theorems around them). Producers p0..p3 (p4), this node is p0. -/

private def ps4 : List String := ["p0", "p1", "p2", "p3"]
private def mk (id : String) (no : Nat) (prev bp : String) (c : Nat) : Blk := ⟨id, no, prev, bp, c⟩
/-- store, Update, connectToChain: a main-chain block as the chain service processes it. -/
private def mainBlk (b : Blk) : List Op := [.blk b, .update b "", .connect b]

private def b1 := mk "b1" 1 "g" "p0" 1
private def b2 := mk "b2" 2 "b1" "p1" 2
private def b3 := mk "b3" 3 "b2" "p2" 3
private def b4 := mk "b4" 4 "b3" "p3" 4
private def b5 := mk "b5" 5 "b4" "p0" 4
private def b6 := mk "b6" 6 "b5" "p1" 4
private def b7 := mk "b7" 7 "b6" "p2" 4
private def b8 := mk "b8" 8 "b7" "p3" 4
private def main8 : List Op := [b1, b2, b3, b4, b5, b6, b7, b8].flatMap mainBlk
/-- p1 and p2 did not see b8 in time and built c8, c9 on b7 (honest Confirms 8−6, 9−7). -/
private def c8 := mk "c8" 8 "b7" "p1" 2
private def c9 := mk "c9" 9 "c8" "p2" 2
/-- the permitted reorganisation (root 7 ≥ LIB 4): rollback = Update(b7), roll forward, swap. -/
private def reorg9 : List Op := [.blk c8, .blk c9, .update b7 "", .update c8 "", .update c9 "", .swap [c9, c8]]

/-- witness for `restart_forgets_lib`: LIB 4 reported, restart, a branch root 0 is allowed. -/
theorem restart_veto_gap_witness :
    ((newNode "p0" ps4).run main8).ls.lib.no = 4 ∧
    needReorg ((newNode "p0" ps4).run main8) 3 = false ∧
    needReorg ((newNode "p0" ps4).run (main8 ++ [.restart])) 0 = true := by decide +kernel

/-- regression history of the repaired class C08-lib-decreases-after-permitted-reorg (evaluation — a test): four honest
producers, one delayed block; the node reports LIB 4, the permitted one-block-deep reorganisation (root 7) used to make it
report LIB 3 and now leaves it at 4. -/
example : ((newNode "p0" ps4).run main8).ls.lib.no = 4 ∧ ((newNode "p0" ps4).run (main8 ++ reorg9)).ls.lib.no = 4 := by
  decide +kernel

private def ps5 : List String := ["p0", "p1", "p2", "p3", "p4"]
private def d1 := mk "b1" 1 "g" "p2" 1
private def d2 := mk "b2" 2 "b1" "p0" 2
private def d3 := mk "b3" 3 "b2" "p1" 3
private def d4 := mk "b4" 4 "b3" "p0" 2
private def d5 := mk "b5" 5 "b4" "p4" 2   -- p4 produced a block numbered 3 on a branch this node never adopted
private def d6 := mk "b6" 6 "b5" "p3" 4   -- p3 likewise (numbered 2)
private def d7 := mk "b7" 7 "b6" "p4" 2
private def d8 := mk "b8" 8 "b7" "p0" 4
private def d9 := mk "b9" 9 "b8" "p1" 6

/-- regression history of the repaired class C08-lib-decreases-when-producer-first-seen (evaluation — a test): five
producers, no reorganisation, no restart; the LIB stays at or above what was reported after b6 (it used to drop to 0 at b9,
calcLIB ranking only the producers seen so far). -/
example :
    ((newNode "p0" ps5).run ([d1, d2, d3, d4, d5, d6].flatMap mainBlk)).ls.lib.no ≤
    ((newNode "p0" ps5).run ([d1, d2, d3, d4, d5, d6, d7, d8, d9].flatMap mainBlk)).ls.lib.no := by
  decide +kernel

private def a1 := mk "a1" 1 "g" "p0" 1
private def a2 := mk "a2" 2 "a1" "p1" 2
private def a3 := mk "a3" 3 "a2" "p2" 3
private def e1 := mk "e1" 1 "g" "p3" 1
private def e2 := mk "e2" 2 "e1" "p0" 1
private def e3 := mk "e3" 3 "e2" "p1" 1
private def e4 := mk "e4" 4 "e3" "p2" 1
private def e5 := mk "e5" 5 "e4" "p3" 4
private def e6 := mk "e6" 6 "e5" "p0" 4
private def e7 := mk "e7" 7 "e6" "p1" 4
private def gblk : Blk := ⟨"g", 0, "", "", 0⟩
private def staleHist : List Op :=
  [a1, a2, a3].flatMap mainBlk ++
  [.blk e1, .blk e2, .blk e3, .blk e4, .update gblk "", .update e1 "", .update e2 "", .update e3 "", .update e4 "",
   .swap [e4, e3, e2, e1]] ++ [e5, e6, e7].flatMap mainBlk

/-- KNOWN FINDING (class C08-lib-from-stale-entry-of-abandoned-branch): `lib_on_chain` is FALSE for the pinned code. After the
reorganisation from a1,a2,a3 to e1..e4 (root = genesis = LIB, permitted) the proposed entry of p2 still names a1, a block
of the abandoned branch; at e7 calcLIB selects it: the reported LIB is a1 while the main chain holds e1 at number 1. -/
theorem lib_on_chain_false :
    let n := (newNode "p0" ps4).run staleHist
    n.ls.lib.hash = "a1" ∧ n.ls.lib.no = 1 ∧ hashByNo n 1 = some "e1" := by
  decide +kernel

/-- The last clause read literally ("restored = the status the node had") is FALSE: one block connected, restart — the running status
has the block in its confirms window, the restored one has an empty window (`load` returns early when begin = end). -/
theorem restart_equal_false :
    let n := (newNode "p0" ps4).run (mainBlk b1)
    n.ls.confirms.length = 1 ∧ (statusLoad (restart n)).ls.confirms.length = 0 := by
  decide +kernel

end witnesses

/-! ## 3. More than two thirds of the distinct producers -/

/-- **prelib_quorum.** One connect step (`addConfirmInfo` + `update`, as in Status.Update and in the replay of
loadPlibStatus) on a window satisfying the count invariant for `q ≤ confirmsRequired`: if the getPreLIB loop reports `bi`,
then (a) the producer's proposed entry becomes (bi, by this block); (b) there are at least `q` blocks in the window, all
at or after `bi`, whose confirm range contains `bi`'s number; (c) if confirm ranges are honest (a producer's later range
starts above its earlier block: blockfactory's `no − lpbNo`), these blocks have pairwise distinct producers — so at least
`q` distinct producers, and `q = confirmsRequired n > 2n/3` by `quorum_more_than_two_thirds`.
A pre-LIB entry is installed ONLY this way (`prelib_only_by_walk`). -/
theorem prelib_quorum (q : Nat) (ls : LS) (b : Blk) (hint : String) (bi : BI)
    (hb : b.no ≠ 0) (hq : q ≤ ls.cr) (hinv : CoverInv q [] ls.confirms)
    (hw : (walk b.bi (⟨b.bi, b.bp, ls.cr⟩ :: ls.confirms)).2 = some bi) :
    lookup b.bp (update (addConfirmInfo ls b) hint).1.prpsd = some ⟨bi, b.bi⟩ ∧
    ∃ confirmers : List CI,
      confirmers.Sublist (update (addConfirmInfo ls b) hint).1.confirms ∧
      q ≤ confirmers.length ∧
      (∀ d ∈ confirmers, inRange d.bi bi.no = true) ∧
      (HonestRanges (update (addConfirmInfo ls b) hint).1.confirms → (confirmers.map (·.bp)).Nodup) := by
  have hb' : (b.no == 0) = false := by simp [hb]
  have hinv' := walk_push_CoverInv q ls.cr b.bi b.bp ls.confirms hq hinv
  obtain ⟨pre, c, post, hs, hc1, hc0⟩ := walk_some_split b.bi _ bi hw
  have hcov := CoverInv_split q pre c post [] (by rw [← hs]; exact hinv')
  -- the state after the step
  have hst : (update (addConfirmInfo ls b) hint).1.confirms = pre ++ c :: post ∧
      lookup b.bp (update (addConfirmInfo ls b) hint).1.prpsd = some ⟨bi, b.bi⟩ := by
    unfold addConfirmInfo
    simp only [hb', Bool.false_eq_true, if_false]
    unfold update
    simp only [hw, hs]
    constructor <;> first | trivial | rfl | exact lookup_setP_self _ _ _
  refine ⟨hst.2, (pre ++ [c]).filter (fun d => inRange d.bi bi.no), ?_, ?_, ?_, ?_⟩
  · rw [hst.1]
    refine (List.filter_sublist).trans ?_
    exact List.Sublist.append (List.Sublist.refl pre) (by simp)
  · rw [hc0, hc1, Nat.zero_add] at hcov
    have e : cover (bi :: ((pre.map (·.bi)).reverse ++ [])) bi.no =
        ((pre ++ [c]).filter (fun d => inRange d.bi bi.no)).length := by
      unfold cover
      simp only [List.append_nil, List.filter_append, List.length_append, List.filter_cons, List.filter_nil]
      have e2 : (List.filter (fun b => inRange b bi.no) (pre.map (·.bi)).reverse).length =
          (List.filter (fun d : CI => inRange d.bi bi.no) pre).length := by
        rw [List.filter_reverse, List.length_reverse, List.filter_map, List.length_map]
        rfl
      rw [hc1]
      by_cases hh : inRange bi bi.no = true
      · rw [if_pos hh, if_pos hh]; simp only [List.length_cons, List.length_nil]; omega
      · rw [if_neg hh, if_neg hh]; simp only [List.length_nil]; omega
    omega
  · intro d hd
    simpa using (List.mem_filter.mp hd).2
  · intro hh
    rw [hst.1] at hh
    have hsub : (pre ++ [c]).Sublist (pre ++ c :: post) :=
      List.Sublist.append (List.Sublist.refl pre) (by simp)
    exact covering_producers_nodup (pre ++ [c]) bi.no (List.Pairwise.sublist hsub hh)

/-- the proposed map changes in a connect step only by the genesis placeholder of a producer's first block and by the
entry `prelib_quorum` describes. -/
theorem prelib_only_by_walk (ls : LS) (b : Blk) (hint : String) (hb : b.no ≠ 0)
    (hw : (walk b.bi (⟨b.bi, b.bp, ls.cr⟩ :: ls.confirms)).2 = none) :
    (update (addConfirmInfo ls b) hint).1.prpsd = (addConfirmInfo ls b).prpsd ∧
      (update (addConfirmInfo ls b) hint).2 = none := by
  have hb' : (b.no == 0) = false := by simp [hb]
  unfold addConfirmInfo
  simp only [hb', Bool.false_eq_true, if_false]
  unfold update
  simp only [hw]
  constructor <;> first | trivial | rfl

/-- non-vacuity of `prelib_quorum`: in the steady state of four producers the walk of b7 reports b5, the window satisfies
the invariant for q = 3 and its ranges are honest (evaluation of one case — a test). -/
example :
    let n := (newNode "p0" ps4).run ([b1, b2, b3, b4, b5, b6].flatMap mainBlk)
    (walk b7.bi (⟨b7.bi, b7.bp, n.ls.cr⟩ :: n.ls.confirms)).2 = some b5.bi ∧ n.ls.cr = 3 := by
  decide +kernel

/-- **window_invariant_history.** For EVERY producer count and EVERY history of valid chain-service operations (stores,
Updates in both branches, connects, swaps, restarts, in any order and number) the status' confirms window and the boot
loader's satisfy the count invariant for `confirmsRequired k`, and `confirmsRequired` stays `confirmsRequired k`: so
`prelib_quorum` applies with `q = confirmsRequired k > 2k/3` at every connect step of the history, including the steps replayed by
rollback and restart. -/
theorem window_invariant_history (k : Nat) (self : String) (gbps : List String)
    (hg : gbps.length = k) (ops : List Op) (hv : ∀ op ∈ ops, op.Valid) :
    NodeInv k ((newNode self gbps).run ops) := by
  have h0 : NodeInv k (newNode self gbps) := by
    unfold newNode
    simp only
    apply restart_NodeInv k
    · refine ⟨?_, ?_⟩
      · intro b hb hid; simp at hb; subst hb; simp at hid
      · intro e he hne; simp at he; subst he; simp at hne
    · exact hg
  suffices ∀ (ops : List Op) (n : Node), NodeInv k n → (∀ op ∈ ops, op.Valid) → NodeInv k (n.run ops) from
    this ops _ h0 hv
  intro ops
  induction ops with
  | nil => intro n h _; exact h
  | cons op rest ih =>
    intro n h hv
    have hop : op.Valid := hv op (by simp)
    have hs := apply_StoreOk n op hop h.store
    refine ih (n.apply op) ?_ (fun o ho => hv o (by simp [ho]))
    cases op with
    | blk b =>
      have e : ∀ m : Node, m = n.apply (.blk b) → StoreOk m → NodeInv k m := by
        intro m hm hs'
        have : m.gbps = n.gbps ∧ m.size = n.size ∧ m.ls = n.ls ∧ m.bl = n.bl := by
          subst hm; simp only [Node.apply]; split <;> exact ⟨rfl, rfl, rfl, rfl⟩
        obtain ⟨g1, g2, g3, g4⟩ := this
        exact ⟨hs', by rw [g1]; exact h.gb, by rw [g2]; exact h.sz, by rw [g3]; exact h.lsCr, by rw [g4]; exact h.blCr,
          by rw [g3]; exact h.lsW, by rw [g4]; exact h.blW⟩
      exact e _ rfl hs
    | update b hint => exact statusUpdate_NodeInv k n b hint hop.1 h
    | connect b => exact ⟨hs, h.gb, h.sz, h.lsCr, h.blCr, h.lsW, h.blW⟩
    | swap bs =>
      have e : ∀ m : Node, m = n.apply (.swap bs) → StoreOk m → NodeInv k m := by
        intro m hm hs'
        have : m.gbps = n.gbps ∧ m.size = n.size ∧ m.ls = n.ls ∧ m.bl = n.bl := by
          subst hm; simp only [Node.apply, swap]
          cases bs with
          | nil => exact ⟨rfl, rfl, rfl, rfl⟩
          | cons t r => simp only; split <;> exact ⟨rfl, rfl, rfl, rfl⟩
        obtain ⟨g1, g2, g3, g4⟩ := this
        exact ⟨hs', by rw [g1]; exact h.gb, by rw [g2]; exact h.sz, by rw [g3]; exact h.lsCr, by rw [g4]; exact h.blCr,
          by rw [g3]; exact h.lsW, by rw [g4]; exact h.blW⟩
      exact e _ rfl hs
    | restart => exact restart_NodeInv k n h.store h.gb

/-! ## 4. LIB on the main chain; LIB monotone — what the connect branch does guarantee -/

/-- every block the status refers to satisfies `P` (think: "is on the node's main chain"). -/
def AllP (P : BI → Prop) (ls : LS) : Prop :=
  (∀ kv ∈ ls.prpsd, P kv.2.plib) ∧ (∀ c ∈ ls.confirms, P c.bi) ∧ P ls.lib ∧ P ls.genesis

/-- **lib_on_chain_partial.** The connect branch (`addConfirmInfo`, `update`, `updateLIB`, `gc`) keeps every block the
status refers to inside any predicate `P` that holds for the new block: in particular a LIB it selects satisfies `P`. With
`P` = "block of the main chain" this is the on-chain clause for histories without rollback. The rollback branch does NOT
preserve it (`lib_on_chain_false`): `load` keeps entries of the abandoned branch. -/
theorem lib_on_chain_partial (P : BI → Prop) (ls : LS) (b : Blk) (hint : String) (bps : List String)
    (h : AllP P ls) (hb : P b.bi) :
    (∀ l, (update (addConfirmInfo ls b) hint).2 = some l → P l) ∧
    AllP P (gc (match (update (addConfirmInfo ls b) hint).2 with
                | some l => if l.no < (update (addConfirmInfo ls b) hint).1.lib.no then (update (addConfirmInfo ls b) hint).1
                            else { (update (addConfirmInfo ls b) hint).1 with lib := l }
                | none => (update (addConfirmInfo ls b) hint).1) bps) := by
  obtain ⟨hp, hc, hl, hg⟩ := h
  -- after addConfirmInfo
  have ha : AllP P (addConfirmInfo ls b) := by
    unfold addConfirmInfo
    split
    · exact ⟨hp, hc, hl, hg⟩
    · refine ⟨?_, ?_, hl, hg⟩
      · intro kv hkv
        simp only at hkv
        split at hkv
        · exact hp kv hkv
        · rcases mem_setP hkv with e | e
          · rw [e]; exact hg
          · exact hp kv e
      · intro c hcm
        rcases List.mem_cons.mp hcm with e | e
        · rw [e]; exact hb
        · exact hc c e
  generalize addConfirmInfo ls b = s at ha ⊢
  obtain ⟨sp, sc, sl, sg⟩ := ha
  -- after update
  have hu : AllP P (update s hint).1 ∧ (∀ l, (update s hint).2 = some l → P l) := by
    unfold update
    cases hcs : s.confirms with
    | nil => exact ⟨⟨sp, by rw [hcs] at sc; simpa [hcs] using sc, sl, sg⟩, by simp⟩
    | cons last rest =>
      obtain ⟨w1, w2⟩ := walk_bis last.bi (last :: rest)
      simp only
      cases hw : (walk last.bi (last :: rest)).2 with
      | none =>
        refine ⟨⟨sp, ?_, sl, sg⟩, by simp⟩
        intro c hcm
        obtain ⟨c0, m, e⟩ := w1 c hcm
        rw [e]; exact sc c0 (by rw [hcs]; exact m)
      | some confirmed =>
        obtain ⟨c0, m, e⟩ := w2 confirmed hw
        have hconf : P confirmed := by rw [e]; exact sc c0 (by rw [hcs]; exact m)
        have hpr : ∀ kv ∈ setP last.bp ⟨confirmed, last.bi⟩ s.prpsd, P kv.2.plib := by
          intro kv hkv
          rcases mem_setP hkv with e | e
          · rw [e]; exact hconf
          · exact sp kv e
        refine ⟨⟨hpr, ?_, sl, sg⟩, ?_⟩
        · intro c hcm
          obtain ⟨c0, m, e⟩ := w1 c hcm
          rw [e]; exact sc c0 (by rw [hcs]; exact m)
        · intro l hl'
          obtain ⟨kv, m, e⟩ := calcLIB_mem _ _ _ hl'
          rw [← e]; exact hpr kv m
  obtain ⟨⟨up, uc, ul, ug⟩, hlib⟩ := hu
  refine ⟨hlib, ?_⟩
  have hgc : ∀ t : LS, AllP P t → AllP P (gc t bps) := by
    intro t ⟨tp, tc, tl, tg⟩
    unfold gc
    refine ⟨?_, ?_, tl, tg⟩
    · intro kv hkv
      simp only at hkv
      split at hkv
      · exact tp kv hkv
      · exact tp kv (List.mem_filter.mp hkv).1
    · intro c hcm
      simp only at hcm
      obtain ⟨tt, ht⟩ := dropOldLe_prefix t.lib.no t.confirms
      have : c ∈ dropOldLe t.lib.no t.confirms := List.mem_of_mem_take hcm
      exact tc c (by rw [ht]; exact List.mem_append_left _ this)
  cases hr : (update s hint).2 with
  | none => exact hgc _ ⟨up, uc, ul, ug⟩
  | some l =>
    simp only
    split
    · exact hgc _ ⟨up, uc, ul, ug⟩
    · exact hgc _ ⟨up, uc, hlib l hr, ug⟩

/-- **lib_monotone.** Along EVERY history of stores, Updates (connect and rollback branch, any blocks, any Confirms values,
any producer set), connects and swaps on a node whose Status has loaded its finality status, the LIB number the Status holds
— the one it reports and the vetoes use — never decreases. (Restart: `lib_monotone_across_restart`, and the known window
`restart_forgets_lib`.) -/
theorem lib_monotone (n : Node) (ops : List Op) (hd : n.done = true) (hr : ∀ op ∈ ops, op ≠ Op.restart) :
    (n.run ops).done = true ∧ n.ls.lib.no ≤ (n.run ops).ls.lib.no := by
  induction ops generalizing n with
  | nil => exact ⟨hd, Nat.le_refl _⟩
  | cons op rest ih =>
    have hstep : (n.apply op).done = true ∧ n.ls.lib.no ≤ (n.apply op).ls.lib.no := by
      cases op with
      | blk b => simp only [Node.apply]; split <;> exact ⟨hd, Nat.le_refl _⟩
      | update b hint => exact statusUpdate_lib_mono n b hint hd
      | connect b => exact ⟨hd, Nat.le_refl _⟩
      | swap bs =>
        simp only [Node.apply, swap]
        cases bs with
        | nil => exact ⟨hd, Nat.le_refl _⟩
        | cons t r => simp only; split <;> exact ⟨hd, Nat.le_refl _⟩
      | restart => exact absurd rfl (hr _ (by simp))
    obtain ⟨r1, r2⟩ := ih (n.apply op) hstep.1 (fun o ho => hr o (by simp [ho]))
    exact ⟨r1, Nat.le_trans hstep.2 r2⟩

example : ((newNode "p0" ps4).run main8).done = true ∧ (∀ op ∈ reorg9, op ≠ Op.restart) := by
  refine ⟨by decide +kernel, ?_⟩
  intro op hop
  simp only [reorg9, List.mem_cons, List.mem_nil_iff, or_false] at hop
  rcases hop with rfl | rfl | rfl | rfl | rfl | rfl <;> simp

/-! ## 5. Restart -/

/-- **restart_equal_partial.** After a restart the first Update works on: the saved LIB, the saved lpbNo, the saved
proposed map overwritten by what the replay of the stored blocks `begRecoBlockNo..best` yields (entries with a pre-LIB
number > 0), and the replayed window. The window is NOT the window the node had (`restart_equal_false`); for ≥ 5 producers
the replay also counts differently (`reload_quorum_not_two_thirds`). -/
theorem restart_equal_partial (n : Node) (p : List (String × PL)) (lib : BI) (lpb : Nat)
    (h : n.saved = some (p, lib, lpb)) :
    let ls := (statusLoad (restart n)).ls
    let fresh : LS := { newLSWithConfirms n.genesis n.self (confirmsRequired n.gbps.length) with prpsd := p, lib := lib, lpb := lpb }
    ls.lib = lib ∧ ls.lpb = lpb ∧ ls = load n fresh n.latest := by
  have hd : (restart n).done = false := by simp [restart]
  obtain ⟨r1, r2, r3⟩ := restart_keeps_lib_in_loader n p lib lpb h
  refine ⟨r3, ?_, ?_⟩
  · simp [statusLoad, hd, r2]
  · simp [statusLoad, hd, restart, h, newLS]

/-- **lib_monotone_across_restart.** If the status image saved with the tip is the status the node holds (what
connectToChain / swapChainMapping write), the first Update after a restart starts from the same LIB and lpbNo: together with
`lib_monotone` the LIB number never decreases across restarts either — except for what is observed BEFORE that first Update
(`restart_forgets_lib`, known finding). -/
theorem lib_monotone_across_restart (n : Node) (h : n.saved = some (savedOf n.ls)) :
    (statusLoad (restart n)).ls.lib = n.ls.lib ∧ (statusLoad (restart n)).ls.lpb = n.ls.lpb ∧
      (statusLoad (restart n)).done = true := by
  obtain ⟨r1, r2, _⟩ := restart_equal_partial n n.ls.prpsd n.ls.lib n.ls.lpb h
  refine ⟨r1, r2, ?_⟩
  simp [statusLoad, restart]

/-! ## 6. Two correct nodes -/

/-- **quorum_intersect.** Pure counting: among `n` producers, two sets of at least `⌊2n/3⌋+1` producers share a member
outside any set of fewer than `n/3` (Byzantine) producers. -/
theorem quorum_intersect {P : Type} [DecidableEq P] (U Q1 Q2 Byz : Finset P) (n : Nat)
    (hU : U.card = n) (h1 : Q1 ⊆ U) (h2 : Q2 ⊆ U)
    (hq1 : n * 2 / 3 + 1 ≤ Q1.card) (hq2 : n * 2 / 3 + 1 ≤ Q2.card) (hb : 3 * Byz.card < n) :
    ∃ p, p ∈ Q1 ∧ p ∈ Q2 ∧ p ∉ Byz := by
  by_contra hne
  have hsub : Q1 ∩ Q2 ⊆ Byz := by
    intro p hp
    by_contra hpb
    exact hne ⟨p, (Finset.mem_inter.mp hp).1, (Finset.mem_inter.mp hp).2, hpb⟩
  have hc1 := Finset.card_le_card hsub
  have hun : (Q1 ∪ Q2).card ≤ n := by
    rw [← hU]; exact Finset.card_le_card (Finset.union_subset h1 h2)
  have := Finset.card_union_add_card_inter Q1 Q2
  omega

example : ∃ p, p ∈ ({0, 1, 2} : Finset Nat) ∧ p ∈ ({1, 2, 3} : Finset Nat) ∧ p ∉ ({1} : Finset Nat) :=
  quorum_intersect {0, 1, 2, 3} {0, 1, 2} {1, 2, 3} {1} 4 (by decide) (by decide) (by decide) (by decide) (by decide) (by decide)

/-- Blocks of all nodes as a tree: `anc x b` = x is b or an ancestor of b; block b confirms the heights `(lo b, height b]`
of its own chain. -/
structure BlockTree (B P : Type) where
  height : B → Nat
  prod : B → P
  lo : B → Nat
  anc : B → B → Prop
  anc_unique : ∀ x y b, anc x b → anc y b → height x = height y → x = y
  anc_chain : ∀ x y b, anc x b → anc y b → height x ≤ height y → anc x y

namespace BlockTree
variable {B P : Type} (T : BlockTree B P)

/-- block b confirms block x: x is on b's chain and its height lies in b's confirm range. -/
def confirms (b x : B) : Prop := T.anc x b ∧ T.lo b < T.height x ∧ T.height x ≤ T.height b

/-- an honest producer's confirm ranges are pairwise disjoint, across branches (Confirms = no − lpbNo, lpbNo never
decreases: `honest_range`). -/
def RangesDisjoint (p : P) : Prop :=
  ∀ b b', T.prod b = p → T.prod b' = p → b ≠ b' → T.height b ≤ T.lo b' ∨ T.height b' ≤ T.lo b

/-- the EXTRA hypothesis H: once a producer has confirmed x, its later blocks stay on x's branch. The pinned code has no
such rule. -/
def StaysOnConfirmed (p : P) : Prop :=
  ∀ b b' x, T.prod b = p → T.prod b' = p → T.height b ≤ T.lo b' → T.confirms b x → T.anc x b'

/-- evidence that x is a pre-LIB: every producer of Q has a block confirming x. -/
def Confirmed (Q : Finset P) (x : B) : Prop := ∀ p ∈ Q, ∃ b, T.prod b = p ∧ T.confirms b x

end BlockTree

/-- **agreement_same_height** (no extra hypothesis): two blocks of EQUAL height that are both confirmed by quorums are the
same block, as long as fewer than a third of the producers deviate from disjoint confirm ranges. -/
theorem agreement_same_height {B P : Type} [DecidableEq P] (T : BlockTree B P) (U Q1 Q2 Byz : Finset P) (n : Nat)
    (hU : U.card = n) (h1 : Q1 ⊆ U) (h2 : Q2 ⊆ U)
    (hq1 : n * 2 / 3 + 1 ≤ Q1.card) (hq2 : n * 2 / 3 + 1 ≤ Q2.card) (hb : 3 * Byz.card < n)
    (honest : ∀ p, p ∉ Byz → T.RangesDisjoint p)
    (x y : B) (hx : T.Confirmed Q1 x) (hy : T.Confirmed Q2 y) (hh : T.height x = T.height y) : x = y := by
  obtain ⟨p, p1, p2, pb⟩ := quorum_intersect U Q1 Q2 Byz n hU h1 h2 hq1 hq2 hb
  obtain ⟨b, pbp, cx⟩ := hx p p1
  obtain ⟨b', pbp', cy⟩ := hy p p2
  by_cases e : b = b'
  · subst e; exact T.anc_unique x y b cx.1 cy.1 hh
  · rcases honest p pb b b' pbp pbp' e with h | h
    · have := cx.2.2; have := cy.2.1; omega
    · have := cy.2.2; have := cx.2.1; omega

/-- **agreement_partial.** Under the extra hypothesis H (`StaysOnConfirmed`) for the correct producers, two blocks
confirmed by quorums lie on one branch, with fewer than a third of the producers Byzantine. -/
theorem agreement_partial {B P : Type} [DecidableEq P] (T : BlockTree B P) (U Q1 Q2 Byz : Finset P) (n : Nat)
    (hU : U.card = n) (h1 : Q1 ⊆ U) (h2 : Q2 ⊆ U)
    (hq1 : n * 2 / 3 + 1 ≤ Q1.card) (hq2 : n * 2 / 3 + 1 ≤ Q2.card) (hb : 3 * Byz.card < n)
    (honest : ∀ p, p ∉ Byz → T.RangesDisjoint p) (stays : ∀ p, p ∉ Byz → T.StaysOnConfirmed p)
    (x y : B) (hx : T.Confirmed Q1 x) (hy : T.Confirmed Q2 y) : T.anc x y ∨ T.anc y x := by
  obtain ⟨p, p1, p2, pb⟩ := quorum_intersect U Q1 Q2 Byz n hU h1 h2 hq1 hq2 hb
  obtain ⟨b, pbp, cx⟩ := hx p p1
  obtain ⟨b', pbp', cy⟩ := hy p p2
  have comparable : ∀ c, T.anc x c → T.anc y c → T.anc x y ∨ T.anc y x := by
    intro c ax ay
    rcases Nat.le_total (T.height x) (T.height y) with h | h
    · exact Or.inl (T.anc_chain x y c ax ay h)
    · exact Or.inr (T.anc_chain y x c ay ax h)
  by_cases e : b = b'
  · subst e; exact comparable b cx.1 cy.1
  · rcases honest p pb b b' pbp pbp' e with h | h
    · exact comparable b' (stays p pb b b' x pbp pbp' h cx) cy.1
    · exact comparable b cx.1 (stays p pb b' b y pbp' pbp h cy)

/-- the hypotheses of `agreement_partial` are satisfiable on a non-trivial tree: chains of naturals (block = its height on
one branch), four producers in rotation, every block confirming the previous three heights. -/
example : ∃ (T : BlockTree Nat (Fin 4)), (∀ p, T.RangesDisjoint p) ∧ (∀ p, T.StaysOnConfirmed p) ∧
    T.Confirmed {0, 1, 2} 5 := by
  refine ⟨{ height := id, prod := fun b => ⟨b % 4, Nat.mod_lt _ (by decide)⟩, lo := fun b => b - 4,
            anc := fun x b => x ≤ b, anc_unique := ?_, anc_chain := ?_ }, ?_, ?_, ?_⟩
  · intro x y b _ _ h; exact h
  · intro x y b _ _ h; exact h
  · intro p b b' hb hb' hne
    simp only [id] at *
    have e1 := congrArg Fin.val hb
    have e2 := congrArg Fin.val hb'
    simp only at e1 e2
    omega
  · intro p b b' x _ _ h hc
    simp only [BlockTree.confirms, id] at *
    omega
  · intro p hp
    simp only [BlockTree.confirms, id]
    simp only [Finset.mem_insert, Finset.mem_singleton] at hp
    rcases hp with rfl | rfl | rfl
    · exact ⟨8, rfl, by omega, by omega, by omega⟩
    · exact ⟨5, rfl, by omega, by omega, by omega⟩
    · exact ⟨6, rfl, by omega, by omega, by omega⟩

/-
**agreement — the full statement, NOT proved.**

  For all histories of n producers of which fewer than n/3 are Byzantine (equivocation; Confirms chain-locally honest),
  with arbitrary loss, delay, partition and restarts: if correct node A reports LIB x and correct node B reports LIB y,
  then x is an ancestor of y or y is an ancestor of x.

What is proved towards it: `quorum_intersect`, `agreement_same_height` (no extra hypothesis) and `agreement_partial`, which
needs H = `StaysOnConfirmed` — a rule the pinned code does not have: with the one-field pipelined confirmation a correct
producer may confirm height h on branch β and later, after adopting a longer branch γ, heights h' > h on γ. Moreover the
statement is about quorum-confirmed blocks (pre-LIBs established with `confirmsRequired n` confirmations); the LIB the
pinned code REPORTS is a further selection (`calcLIB`) from a map that can contain stale entries of an abandoned branch
(`lib_on_chain_false`), and after a restart the vetoes are off until the first Update (`restart_forgets_lib`), so the
model's LIB does not satisfy all the node-local clauses the multi-node argument would start from.
The harness explores the multi-node question on the real code (random schedules, and a bounded exhaustive exploration for
n = 4, f = 1): that is search, it can only produce a counterexample or raise confidence.
-/

end Aergo.Props.C08
