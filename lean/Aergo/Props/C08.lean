import Aergo.Model.Lib
namespace Aergo.Props.C08
open Aergo.Lib
/-- placeholder while the harness is brought up -/
theorem needReorg_iff (n : Node) (r : Nat) : needReorg n r = true ↔ r ≥ n.ls.lib.no := by
  simp [needReorg]
end Aergo.Props.C08
