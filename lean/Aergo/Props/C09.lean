/-
C09 — Block producer legitimacy: one producer per slot, valid signature, not future.

"Time is divided into slots and every slot belongs to exactly one index of the current
producer set, so two different producers are never both entitled to the same instant. A block
is accepted only if ... that key belongs to a current block producer whose index owns the slot
of the block's timestamp, and the timestamp is not ahead of the local clock by two or more
slots."

The arithmetic (`nsToMs`, `msToIndex`, `msToNextIndex`, `Slot.NextBpIndex`, `Slot.IsFor`) is
`Aergo.Gen.Slot`, regenerated from slot.go on every run; these theorems are re-checked against
whatever was generated. All statements are for every timestamp, interval and producer count
(no bound). The signature clause is in `Props/C19` (`sign_digest_*`), shared with C19.
-/
import Aergo.Model.Slot

namespace Aergo.Props.C09
open Aergo.Gen.Slot Aergo.Slot

/-- A slot index has at most one owner index: two producer indexes are never both entitled. -/
theorem owner_unique (next i j n : Int)
    (hi : Slot_IsFor next i n = true) (hj : Slot_IsFor next j n = true) : i = j := by
  simp only [Slot_IsFor, beq_iff_eq] at hi hj
  omega

/-- Positive instants are tiled by half-open slots `(iv·(k−1), iv·k]`; `nextIndex` is that `k`. -/
theorem slots_partition (iv ms : Int) (hiv : 0 < iv) (hms : 0 < ms) :
    iv * msToNextIndex iv ms - iv < ms ∧ ms ≤ iv * msToNextIndex iv ms := by
  simp only [msToNextIndex, msToIndex]
  rw [Int.tdiv_eq_ediv_of_nonneg (by omega)]
  have h1 := Int.mul_ediv_add_emod (ms + iv - 1) iv
  have h2 := Int.emod_nonneg (ms + iv - 1) (by omega : iv ≠ 0)
  have h3 := Int.emod_lt_of_pos (ms + iv - 1) hiv
  constructor <;> omega

/-- Conversely every instant inside slot `k` gets `nextIndex = k`: the slot of an instant is
unique, so the slots are pairwise disjoint. -/
theorem slot_of_instant_unique (iv ms k : Int) (hiv : 0 < iv) (hms : 0 < ms)
    (hlo : iv * k - iv < ms) (hhi : ms ≤ iv * k) : msToNextIndex iv ms = k := by
  have ⟨a, b⟩ := slots_partition iv ms hiv hms
  generalize msToNextIndex iv ms = j at a b
  have : iv * j < iv * (k + 1) := by
    have : iv * (k + 1) = iv * k + iv := by rw [Int.mul_add, Int.mul_one]
    omega
  have h1 : j < k + 1 := Int.lt_of_mul_lt_mul_left this (by omega)
  have : iv * k < iv * (j + 1) := by
    have : iv * (j + 1) = iv * j + iv := by rw [Int.mul_add, Int.mul_one]
    omega
  have h2 : k < j + 1 := Int.lt_of_mul_lt_mul_left this (by omega)
  omega

/-- Two instants in the same slot have the same owner. -/
theorem slot_constant (iv a b n : Int)
    (h : (fromUnixNs iv a).nextIndex = (fromUnixNs iv b).nextIndex) : owner iv a n = owner iv b n := by
  simp only [owner, h]

/-- The owner of a slot with non-negative index is a valid producer index in `[0, n)`. -/
theorem owner_in_range (next n : Int) (hk : 0 ≤ next) (hn : 0 < n) :
    0 ≤ Slot_NextBpIndex next n ∧ Slot_NextBpIndex next n < n := by
  simp only [Slot_NextBpIndex]
  rw [Int.tmod_eq_emod_of_nonneg hk]
  exact ⟨Int.emod_nonneg _ (by omega), Int.emod_lt_of_pos _ hn⟩

/-- Round-robin rotation: the next slot belongs to the next index modulo `n`. -/
theorem rotation (next n : Int) (hk : 0 ≤ next) (hn : 0 < n) :
    Slot_NextBpIndex (next + 1) n = Int.tmod (Slot_NextBpIndex next n + 1) n := by
  simp only [Slot_NextBpIndex]
  rw [Int.tmod_eq_emod_of_nonneg hk, Int.tmod_eq_emod_of_nonneg (by omega : 0 ≤ next + 1),
    Int.tmod_eq_emod_of_nonneg (by have := Int.emod_nonneg next (by omega : n ≠ 0); omega)]
  exact (Int.emod_add_emod next n 1).symm

/-- Every producer index owns exactly one slot out of any `n` consecutive ones. -/
theorem round_covers_all (next n i : Int) (hk : 0 ≤ next) (hn : 0 < n) (hi0 : 0 ≤ i) (hi : i < n) :
    ∃ d, 0 ≤ d ∧ d < n ∧ Slot_NextBpIndex (next + d) n = i := by
  simp only [Slot_NextBpIndex]
  refine ⟨(i - next % n) % n, Int.emod_nonneg _ (by omega), Int.emod_lt_of_pos _ hn, ?_⟩
  rw [Int.tmod_eq_emod_of_nonneg (by have := Int.emod_nonneg (i - next % n) (by omega : n ≠ 0); omega)]
  rw [Int.add_emod, Int.emod_emod_of_dvd _ (Int.dvd_refl n), ← Int.add_emod]
  rw [show next + (i - next % n) = i + (next - next % n) by omega]
  have : n ∣ (next - next % n) := ⟨next / n, by have := Int.mul_ediv_add_emod next n; omega⟩
  rw [Int.add_emod, Int.emod_eq_zero_of_dvd this, Int.add_zero, Int.emod_emod_of_dvd _ (Int.dvd_refl n)]
  exact Int.emod_eq_of_lt hi0 hi

/-- `IsFuture` is exactly "ahead of the local clock by two or more slots". -/
theorem isFuture_iff (iv ns now : Int) :
    isFuture iv (fromUnixNs iv ns) now = true ↔
      (fromUnixNs iv ns).nextIndex ≥ (fromUnixNs iv now).nextIndex + 2 := by
  simp [isFuture]

/-- `nextIndex` is monotone in time (positive instants): a later timestamp is never in an earlier slot. -/
theorem nextIndex_mono (iv a b : Int) (hiv : 0 < iv) (ha : 0 < a) (hab : a ≤ b) :
    msToNextIndex iv a ≤ msToNextIndex iv b := by
  have ⟨a1, a2⟩ := slots_partition iv a hiv ha
  have ⟨b1, b2⟩ := slots_partition iv b hiv (by omega)
  generalize msToNextIndex iv a = x at *
  generalize msToNextIndex iv b = y at *
  have : iv * x < iv * (y + 1) := by
    have : iv * (y + 1) = iv * y + iv := by rw [Int.mul_add, Int.mul_one]
    omega
  have := Int.lt_of_mul_lt_mul_left this (by omega)
  omega

/-! ### Producer identity → index -/

private theorem go_spec (id : String) : ∀ (l : List String) (i acc : Int),
    (id ∉ l → bpID2Index.go id l i acc = acc) ∧
    (id ∈ l → ∃ k : Nat, k < l.length ∧ l[k]? = some id ∧ bpID2Index.go id l i acc = i + k) := by
  intro l
  induction l with
  | nil => intro i acc; simp [bpID2Index.go]
  | cons x xs ih =>
    intro i acc
    simp only [bpID2Index.go]
    have ih' := ih (i + 1) (if (x == id) = true then i else acc)
    constructor
    · intro hn
      have hx : x ≠ id := fun h => hn (by simp [h])
      have hxs : id ∉ xs := fun h => hn (by simp [h])
      rw [ih'.1 hxs]; simp [hx]
    · intro hm
      by_cases hxs : id ∈ xs
      · obtain ⟨k, hk, hg, he⟩ := ih'.2 hxs
        exact ⟨k + 1, by simp; omega, by simpa using hg, by rw [he]; push_cast; omega⟩
      · have hx : x = id := by
          rcases List.mem_cons.mp hm with h | h
          · exact h.symm
          · exact absurd h hxs
        rw [ih'.1 hxs]
        exact ⟨0, by simp, by simp [hx], by simp [hx]⟩

/-- A non-member maps to `indexNil`. -/
theorem index_nonmember (ids : List String) (id : String) (h : id ∉ ids) :
    bpID2Index ids id = indexNil := by
  simpa [bpID2Index] using (go_spec id ids 0 indexNil).1 h

/-- A member maps to a position of the list holding that id. -/
theorem index_member (ids : List String) (id : String) (h : id ∈ ids) :
    ∃ k : Nat, k < ids.length ∧ ids[k]? = some id ∧ bpID2Index ids id = k := by
  obtain ⟨k, hk, hg, he⟩ := (go_spec id ids 0 indexNil).2 h
  exact ⟨k, hk, hg, by simpa [bpID2Index] using he⟩

/-- Different producers never share an index. -/
theorem index_injective (ids : List String) (a b : String) (ha : a ∈ ids) (hb : b ∈ ids)
    (h : bpID2Index ids a = bpID2Index ids b) : a = b := by
  obtain ⟨k, _, hka, ea⟩ := index_member ids a ha
  obtain ⟨j, _, hjb, eb⟩ := index_member ids b hb
  have : (k : Int) = j := by rw [← ea, ← eb, h]
  have : k = j := by omega
  subst this
  rw [hka] at hjb
  exact Option.some.inj hjb

/-- `IsBlockValid` accepts only a *member* whose index owns the slot of the timestamp.
(`ids = []` is excluded: Go evaluates `nextIndex % 0`, a run-time panic, and `Cluster` is never
empty in a running DPoS node; the property quantifies over sizes 1..100.) -/
theorem blockValid_sound (iv : Int) (ids : List String) (bpid : String) (ts : Int)
    (hpos : 0 < ids.length) (hlen : ids.length < 65535) (hts : 0 ≤ (fromUnixNs iv ts).nextIndex)
    (h : isBlockValid iv ids bpid ts = true) :
    bpid ∈ ids ∧ bpID2Index ids bpid = owner iv ts ids.length := by
  simp only [isBlockValid, Slot_IsFor, beq_iff_eq] at h
  refine ⟨?_, by simpa [owner] using h.symm⟩
  apply Classical.byContradiction
  intro hn
  rw [index_nonmember ids bpid hn] at h
  have := owner_in_range (fromUnixNs iv ts).nextIndex ids.length hts (by omega)
  simp only [indexNil] at h
  omega

/-- ... and it accepts every member whose index owns the slot. -/
theorem blockValid_complete (iv : Int) (ids : List String) (bpid : String) (ts : Int)
    (h : bpID2Index ids bpid = owner iv ts ids.length) : isBlockValid iv ids bpid ts = true := by
  simp only [isBlockValid, Slot_IsFor, beq_iff_eq]
  simpa [owner] using h.symm

/-- **Two different producers are never both entitled to the same instant.** -/
theorem no_two_producers (iv : Int) (ids : List String) (a b : String) (ts : Int)
    (hpos : 0 < ids.length) (hlen : ids.length < 65535) (hts : 0 ≤ (fromUnixNs iv ts).nextIndex)
    (ha : isBlockValid iv ids a ts = true) (hb : isBlockValid iv ids b ts = true) : a = b := by
  obtain ⟨ma, ea⟩ := blockValid_sound iv ids a ts hpos hlen hts ha
  obtain ⟨mb, eb⟩ := blockValid_sound iv ids b ts hpos hlen hts hb
  exact index_injective ids a b ma mb (by rw [ea, eb])

/-- Non-vacuity: a concrete 3-producer set, 1 s interval; at t = 1.5 s (slot 2) exactly "c" is valid. -/
example : isBlockValid 1000 ["a", "b", "c"] "c" 1500000000 = true
    ∧ isBlockValid 1000 ["a", "b", "c"] "b" 1500000000 = false
    ∧ 0 ≤ (fromUnixNs 1000 1500000000).nextIndex := by decide

/-- For timestamps after the epoch the slot index is non-negative (hypothesis `hts` above is met). -/
theorem nextIndex_nonneg (iv ns : Int) (hiv : 0 < iv) (hns : 0 ≤ ns) :
    0 ≤ (fromUnixNs iv ns).nextIndex := by
  simp only [fromUnixNs, msToNextIndex, msToIndex, nsToMs]
  have : 0 ≤ Int.tdiv ns 1000000 := by
    rw [Int.tdiv_eq_ediv_of_nonneg hns]; exact Int.ediv_nonneg hns (by omega)
  rw [Int.tdiv_eq_ediv_of_nonneg (by omega)]
  exact Int.ediv_nonneg (by omega) (by omega)

end Aergo.Props.C09
