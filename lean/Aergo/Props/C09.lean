/-
C09 — Block producer legitimacy: one producer per slot, valid signature, not future.

"Time is divided into slots and every slot belongs to exactly one index of the current
producer set, so two different producers are never both entitled to the same instant. A block
is accepted only if ... that key belongs to a current block producer whose index owns the slot
of the block's timestamp, and the timestamp is not ahead of the local clock by two or more
slots."

The arithmetic (`nsToMs`, `msToIndex`, `msToNextIndex`, `Slot.NextBpIndex`, `Slot.IsFor`) is
`Aergo.Gen.Slot`, regenerated from slot.go on every run; these theorems are re-checked against
whatever was generated. All statements are for every timestamp, interval and producer count
(no bound).

Scope: C09 is a statement about the DPoS consensus (`consensus/impl/dpos`). The other two consensus implementations of
/repo validate differently on purpose: raft accepts a block from any well-formed key (`raftv2/blockfactory.go`
`IsBlockValid`: the leader is chosen by the raft protocol, not by time slots), its `VerifyTimestamp` is constantly true
and its `VerifySign` checks the signature only; sbp (single block producer, a test consensus) checks nothing. "Slot",
"index of the current producer set" and "two or more slots ahead" have no meaning there.

Second part (section "Acceptance"): the three checks the DPoS object runs on every block (`DPoS.VerifySign`,
`DPoS.VerifyTimestamp`, `DPoS.IsBlockValid`, model `Aergo.Producer`), their conjunction `accept` characterised by an
independent specification `Legit` (slots as half-open millisecond intervals, list positions, an abstract signature
primitive over the regenerated signed-message field list), and "current producer set": the list `bp.Snapshots` has put
in force is, after every history of connected blocks, reorganisations and restarts, the ranking at the last election
boundary at least one period below the node's best block (`producer_set_is_ranking`), so that every block a node ever
accepted was signed by the producer that list entitles (`accepted_only_legit`).
-/
import Aergo.Model.Slot
import Aergo.Lemmas.Producer

namespace Aergo.Props.C09
open Aergo.Gen.Slot Aergo.Slot

/-- A slot index has at most one owner index: two producer indexes are never both entitled. -/
theorem owner_unique (next i j n : Int)
    (hi : Slot_IsFor next i n = true) (hj : Slot_IsFor next j n = true) : i = j := by
  simp only [Slot_IsFor, beq_iff_eq] at hi hj
  omega

/-- Positive instants are tiled by half-open slots `(iv·(k−1), iv·k]`; `nextIndex` is that `k`. -/
theorem slots_partition (iv ms : Int) (hiv : 0 < iv) (hms : 0 < ms) :
    iv * msToNextIndex iv ms - iv < ms ∧ ms ≤ iv * msToNextIndex iv ms := by
  simp only [msToNextIndex, msToIndex]
  rw [Int.tdiv_eq_ediv_of_nonneg (by omega)]
  have h1 := Int.mul_ediv_add_emod (ms + iv - 1) iv
  have h2 := Int.emod_nonneg (ms + iv - 1) (by omega : iv ≠ 0)
  have h3 := Int.emod_lt_of_pos (ms + iv - 1) hiv
  constructor <;> omega

/-- Conversely every instant inside slot `k` gets `nextIndex = k`: the slot of an instant is
unique, so the slots are pairwise disjoint. -/
theorem slot_of_instant_unique (iv ms k : Int) (hiv : 0 < iv) (hms : 0 < ms)
    (hlo : iv * k - iv < ms) (hhi : ms ≤ iv * k) : msToNextIndex iv ms = k := by
  have ⟨a, b⟩ := slots_partition iv ms hiv hms
  generalize msToNextIndex iv ms = j at a b
  have : iv * j < iv * (k + 1) := by
    have : iv * (k + 1) = iv * k + iv := by rw [Int.mul_add, Int.mul_one]
    omega
  have h1 : j < k + 1 := Int.lt_of_mul_lt_mul_left this (by omega)
  have : iv * k < iv * (j + 1) := by
    have : iv * (j + 1) = iv * j + iv := by rw [Int.mul_add, Int.mul_one]
    omega
  have h2 : k < j + 1 := Int.lt_of_mul_lt_mul_left this (by omega)
  omega

/-- Two instants in the same slot have the same owner. -/
theorem slot_constant (iv a b n : Int)
    (h : (fromUnixNs iv a).nextIndex = (fromUnixNs iv b).nextIndex) : owner iv a n = owner iv b n := by
  simp only [owner, h]

/-- The owner of a slot with non-negative index is a valid producer index in `[0, n)`. -/
theorem owner_in_range (next n : Int) (hk : 0 ≤ next) (hn : 0 < n) :
    0 ≤ Slot_NextBpIndex next n ∧ Slot_NextBpIndex next n < n := by
  simp only [Slot_NextBpIndex]
  rw [Int.tmod_eq_emod_of_nonneg hk]
  exact ⟨Int.emod_nonneg _ (by omega), Int.emod_lt_of_pos _ hn⟩

/-- Round-robin rotation: the next slot belongs to the next index modulo `n`. -/
theorem rotation (next n : Int) (hk : 0 ≤ next) (hn : 0 < n) :
    Slot_NextBpIndex (next + 1) n = Int.tmod (Slot_NextBpIndex next n + 1) n := by
  simp only [Slot_NextBpIndex]
  rw [Int.tmod_eq_emod_of_nonneg hk, Int.tmod_eq_emod_of_nonneg (by omega : 0 ≤ next + 1),
    Int.tmod_eq_emod_of_nonneg (by have := Int.emod_nonneg next (by omega : n ≠ 0); omega)]
  exact (Int.emod_add_emod next n 1).symm

/-- Every producer index owns exactly one slot out of any `n` consecutive ones. -/
theorem round_covers_all (next n i : Int) (hk : 0 ≤ next) (hn : 0 < n) (hi0 : 0 ≤ i) (hi : i < n) :
    ∃ d, 0 ≤ d ∧ d < n ∧ Slot_NextBpIndex (next + d) n = i := by
  simp only [Slot_NextBpIndex]
  refine ⟨(i - next % n) % n, Int.emod_nonneg _ (by omega), Int.emod_lt_of_pos _ hn, ?_⟩
  rw [Int.tmod_eq_emod_of_nonneg (by have := Int.emod_nonneg (i - next % n) (by omega : n ≠ 0); omega)]
  rw [Int.add_emod, Int.emod_emod_of_dvd _ (Int.dvd_refl n), ← Int.add_emod]
  rw [show next + (i - next % n) = i + (next - next % n) by omega]
  have : n ∣ (next - next % n) := ⟨next / n, by have := Int.mul_ediv_add_emod next n; omega⟩
  rw [Int.add_emod, Int.emod_eq_zero_of_dvd this, Int.add_zero, Int.emod_emod_of_dvd _ (Int.dvd_refl n)]
  exact Int.emod_eq_of_lt hi0 hi

/-- `IsFuture` is exactly "ahead of the local clock by two or more slots". -/
theorem isFuture_iff (iv ns now : Int) :
    isFuture iv (fromUnixNs iv ns) now = true ↔
      (fromUnixNs iv ns).nextIndex ≥ (fromUnixNs iv now).nextIndex + 2 := by
  simp [isFuture]

/-- `nextIndex` is monotone in time (positive instants): a later timestamp is never in an earlier slot. -/
theorem nextIndex_mono (iv a b : Int) (hiv : 0 < iv) (ha : 0 < a) (hab : a ≤ b) :
    msToNextIndex iv a ≤ msToNextIndex iv b := by
  have ⟨a1, a2⟩ := slots_partition iv a hiv ha
  have ⟨b1, b2⟩ := slots_partition iv b hiv (by omega)
  generalize msToNextIndex iv a = x at *
  generalize msToNextIndex iv b = y at *
  have : iv * x < iv * (y + 1) := by
    have : iv * (y + 1) = iv * y + iv := by rw [Int.mul_add, Int.mul_one]
    omega
  have := Int.lt_of_mul_lt_mul_left this (by omega)
  omega

/-! ### Producer identity → index -/

private theorem go_spec (id : String) : ∀ (l : List String) (i acc : Int),
    (id ∉ l → bpID2Index.go id l i acc = acc) ∧
    (id ∈ l → ∃ k : Nat, k < l.length ∧ l[k]? = some id ∧ bpID2Index.go id l i acc = i + k) := by
  intro l
  induction l with
  | nil => intro i acc; simp [bpID2Index.go]
  | cons x xs ih =>
    intro i acc
    simp only [bpID2Index.go]
    have ih' := ih (i + 1) (if (x == id) = true then i else acc)
    constructor
    · intro hn
      have hx : x ≠ id := fun h => hn (by simp [h])
      have hxs : id ∉ xs := fun h => hn (by simp [h])
      rw [ih'.1 hxs]; simp [hx]
    · intro hm
      by_cases hxs : id ∈ xs
      · obtain ⟨k, hk, hg, he⟩ := ih'.2 hxs
        exact ⟨k + 1, by simp; omega, by simpa using hg, by rw [he]; push_cast; omega⟩
      · have hx : x = id := by
          rcases List.mem_cons.mp hm with h | h
          · exact h.symm
          · exact absurd h hxs
        rw [ih'.1 hxs]
        exact ⟨0, by simp, by simp [hx], by simp [hx]⟩

/-- A non-member maps to `indexNil`. -/
theorem index_nonmember (ids : List String) (id : String) (h : id ∉ ids) :
    bpID2Index ids id = indexNil := by
  simpa [bpID2Index] using (go_spec id ids 0 indexNil).1 h

/-- A member maps to a position of the list holding that id. -/
theorem index_member (ids : List String) (id : String) (h : id ∈ ids) :
    ∃ k : Nat, k < ids.length ∧ ids[k]? = some id ∧ bpID2Index ids id = k := by
  obtain ⟨k, hk, hg, he⟩ := (go_spec id ids 0 indexNil).2 h
  exact ⟨k, hk, hg, by simpa [bpID2Index] using he⟩

/-- Different producers never share an index. -/
theorem index_injective (ids : List String) (a b : String) (ha : a ∈ ids) (hb : b ∈ ids)
    (h : bpID2Index ids a = bpID2Index ids b) : a = b := by
  obtain ⟨k, _, hka, ea⟩ := index_member ids a ha
  obtain ⟨j, _, hjb, eb⟩ := index_member ids b hb
  have : (k : Int) = j := by rw [← ea, ← eb, h]
  have : k = j := by omega
  subst this
  rw [hka] at hjb
  exact Option.some.inj hjb

/-- `IsBlockValid` accepts only a *member* whose index owns the slot of the timestamp.
(`ids = []` is excluded: Go evaluates `nextIndex % 0`, a run-time panic, and `Cluster` is never
empty in a running DPoS node; the property quantifies over sizes 1..100.) -/
theorem blockValid_sound (iv : Int) (ids : List String) (bpid : String) (ts : Int)
    (hpos : 0 < ids.length) (hlen : ids.length < 65535) (hts : 0 ≤ (fromUnixNs iv ts).nextIndex)
    (h : isBlockValid iv ids bpid ts = true) :
    bpid ∈ ids ∧ bpID2Index ids bpid = owner iv ts ids.length := by
  simp only [isBlockValid, Slot_IsFor, beq_iff_eq] at h
  refine ⟨?_, by simpa [owner] using h.symm⟩
  apply Classical.byContradiction
  intro hn
  rw [index_nonmember ids bpid hn] at h
  have := owner_in_range (fromUnixNs iv ts).nextIndex ids.length hts (by omega)
  simp only [indexNil] at h
  omega

/-- ... and it accepts every member whose index owns the slot. -/
theorem blockValid_complete (iv : Int) (ids : List String) (bpid : String) (ts : Int)
    (h : bpID2Index ids bpid = owner iv ts ids.length) : isBlockValid iv ids bpid ts = true := by
  simp only [isBlockValid, Slot_IsFor, beq_iff_eq]
  simpa [owner] using h.symm

/-- **Two different producers are never both entitled to the same instant.** -/
theorem no_two_producers (iv : Int) (ids : List String) (a b : String) (ts : Int)
    (hpos : 0 < ids.length) (hlen : ids.length < 65535) (hts : 0 ≤ (fromUnixNs iv ts).nextIndex)
    (ha : isBlockValid iv ids a ts = true) (hb : isBlockValid iv ids b ts = true) : a = b := by
  obtain ⟨ma, ea⟩ := blockValid_sound iv ids a ts hpos hlen hts ha
  obtain ⟨mb, eb⟩ := blockValid_sound iv ids b ts hpos hlen hts hb
  exact index_injective ids a b ma mb (by rw [ea, eb])

/-- Non-vacuity: a concrete 3-producer set, 1 s interval; at t = 1.5 s (slot 2) exactly "c" is valid. -/
example : isBlockValid 1000 ["a", "b", "c"] "c" 1500000000 = true
    ∧ isBlockValid 1000 ["a", "b", "c"] "b" 1500000000 = false
    ∧ 0 ≤ (fromUnixNs 1000 1500000000).nextIndex := by decide

/-- For timestamps after the epoch the slot index is non-negative (hypothesis `hts` above is met). -/
theorem nextIndex_nonneg (iv ns : Int) (hiv : 0 < iv) (hns : 0 ≤ ns) :
    0 ≤ (fromUnixNs iv ns).nextIndex := by
  simp only [fromUnixNs, msToNextIndex, msToIndex, nsToMs]
  have : 0 ≤ Int.tdiv ns 1000000 := by
    rw [Int.tdiv_eq_ediv_of_nonneg hns]; exact Int.ediv_nonneg hns (by omega)
  rw [Int.tdiv_eq_ediv_of_nonneg (by omega)]
  exact Int.ediv_nonneg (by omega) (by omega)

/-! ## Acceptance: signature, producer, timestamp -/

open Aergo.Producer Aergo.Enc Aergo.Gen.Enc Aergo.Gen.Snap

/-- `DPoS.VerifySign` accepts exactly when the key carried in the header unmarshals and the primitive verifies the
header's `Sign` over the signed message with THAT key (`!valid || err != nil` ⇒ refused: an invalid signature by a
well-formed key, a malformed signature, an empty one, a bad key are all refused). -/
theorem verifySign_iff {Key : Type} (c : Crypto Key) (r : Rec) :
    dposVerifySign c r = true ↔
      ∃ k, c.unmarshal (r.raw "PubKey") = some k ∧ c.verify k (encode blockSignSpec r) (r.raw "Sign") = some true := by
  simp only [dposVerifySign, blockVerifySign]
  cases hu : c.unmarshal (r.raw "PubKey") with
  | none => simp
  | some k =>
    cases hv : c.verify k (encode blockSignSpec r) (r.raw "Sign") with
    | none => simp [hv]
    | some v => cases v <;> simp [hv]

/-- The signed message reads every header field except the signature itself (over the regenerated field lists; a
finite table, checked by evaluation). "Complete header" in the property's sense; see `Props/C19` for what a field
change does to the message. -/
theorem signed_message_reads_all_but_sign :
    ∀ f ∈ names blockHashSpec, f ≠ "Sign" → f ∈ names blockSignSpec := by decide

/-- The half-open millisecond interval that is slot `k`, in the property's words. -/
def InSlot (iv ms k : Int) : Prop := iv * (k - 1) < ms ∧ ms ≤ iv * k

theorem inSlot_next (iv ms : Int) (hiv : 0 < iv) (hms : 0 < ms) : InSlot iv ms (msToNextIndex iv ms) := by
  have ⟨a, b⟩ := slots_partition iv ms hiv hms
  refine ⟨?_, b⟩
  rw [Int.mul_sub, Int.mul_one]; exact a

theorem inSlot_unique (iv ms k : Int) (hiv : 0 < iv) (hms : 0 < ms) (h : InSlot iv ms k) : msToNextIndex iv ms = k := by
  refine slot_of_instant_unique iv ms k hiv hms ?_ h.2
  have := h.1
  rw [Int.mul_sub, Int.mul_one] at this; exact this

theorem inSlot_pos (iv ms k : Int) (hiv : 0 < iv) (hms : 0 < ms) (h : InSlot iv ms k) : 0 < k := by
  apply Classical.byContradiction
  intro hk
  have : iv * k ≤ 0 := Int.mul_nonpos_of_nonneg_of_nonpos (by omega) (by omega)
  have := h.2
  omega

/-- `DPoS.VerifyTimestamp` = "the block's slot is less than two slots ahead of the local clock's slot, and the block
number is above the last irreversible block (when the node has a finality status)". -/
theorem verifyTimestamp_iff (iv tsNs nowNs : Int) (lib : Option Int) (no : Int)
    (hiv : 0 < iv) (hts : 0 < nsToMs tsNs) (hnow : 0 < nsToMs nowNs) :
    verifyTimestamp iv tsNs nowNs lib no = true ↔
      (∃ sl sn, InSlot iv (nsToMs tsNs) sl ∧ InSlot iv (nsToMs nowNs) sn ∧ sl < sn + 2) ∧ (∀ l, lib = some l → l < no) := by
  have e1 := inSlot_next iv (nsToMs tsNs) hiv hts
  have e2 := inSlot_next iv (nsToMs nowNs) hiv hnow
  simp only [verifyTimestamp, isFuture, fromUnixNs]
  constructor
  · intro h
    by_cases hf : msToNextIndex iv (nsToMs tsNs) ≥ msToNextIndex iv (nsToMs nowNs) + 2
    · simp [hf] at h
    · refine ⟨⟨_, _, e1, e2, by omega⟩, ?_⟩
      intro l hl
      subst hl
      simp only [hf, decide_false, Bool.false_eq_true, if_false] at h
      by_cases hle : no ≤ l
      · simp [hle] at h
      · omega
  · rintro ⟨⟨sl, sn, h1, h2, h3⟩, hlib⟩
    rw [← inSlot_unique iv _ sl hiv hts h1, ← inSlot_unique iv _ sn hiv hnow h2] at h3
    have hf : ¬ msToNextIndex iv (nsToMs tsNs) ≥ msToNextIndex iv (nsToMs nowNs) + 2 := by omega
    simp only [hf, decide_false, Bool.false_eq_true, if_false]
    cases lib with
    | none => rfl
    | some l =>
      have := hlib l rfl
      have : ¬ no ≤ l := by omega
      simp [this]

private theorem index_of_pos (ids : List String) (id : String) (pos : Nat) (hnd : ids.Nodup)
    (h : ids[pos]? = some id) : bpID2Index ids id = pos := by
  have hm : id ∈ ids := List.mem_of_getElem? h
  obtain ⟨k, hk, hg, he⟩ := index_member ids id hm
  have : k = pos := (List.getElem?_inj hk hnd).1 (by rw [hg, h])
  rw [he, this]

/-- `DPoS.IsBlockValid` = "the key in the header has a peer id, that id stands at some position of the producer list,
and that position is the slot number of the timestamp modulo the list length". -/
theorem isBlockValidK_iff (iv : Int) (ids : List String) (key : Option String) (tsNs : Int)
    (hiv : 0 < iv) (hts : 0 < nsToMs tsNs) (hpos : 0 < ids.length) (hlen : ids.length < 65535) (hnd : ids.Nodup) :
    isBlockValidK iv ids key tsNs = true ↔
      ∃ id, key = some id ∧ ∃ (pos : Nat) (sl : Int), ids[pos]? = some id ∧ InSlot iv (nsToMs tsNs) sl
        ∧ sl % (ids.length : Int) = pos := by
  have e1 := inSlot_next iv (nsToMs tsNs) hiv hts
  have hnn : 0 ≤ (fromUnixNs iv tsNs).nextIndex := by
    have := inSlot_pos iv _ _ hiv hts e1
    simp only [fromUnixNs]; omega
  constructor
  · intro h
    cases key with
    | none => simp [isBlockValidK] at h
    | some id =>
      simp only [isBlockValidK] at h
      obtain ⟨hm, ho⟩ := blockValid_sound iv ids id tsNs hpos hlen hnn h
      obtain ⟨k, hk, hg, he⟩ := index_member ids id hm
      refine ⟨id, rfl, k, _, hg, e1, ?_⟩
      rw [he] at ho
      simp only [owner, Slot_NextBpIndex, fromUnixNs] at ho
      simp only [fromUnixNs] at hnn
      rw [Int.tmod_eq_emod_of_nonneg hnn] at ho
      exact ho.symm
  · rintro ⟨id, rfl, pos, sl, hg, hs, hmod⟩
    simp only [isBlockValidK]
    apply blockValid_complete
    rw [index_of_pos ids id pos hnd hg]
    have hsl := inSlot_unique iv _ sl hiv hts hs
    simp only [owner, Slot_NextBpIndex, fromUnixNs, hsl]
    have := inSlot_pos iv _ sl hiv hts hs
    rw [Int.tmod_eq_emod_of_nonneg (by omega)]
    exact hmod.symm

/-- The property's acceptance condition, stated without the code's arithmetic: ONE key — the key carried in the
header — verifies the signature over the signed message AND has the peer id that stands in the producer list at
the position owning the slot; the slot is less than two ahead of the clock's; the block is above the last
irreversible block. -/
structure Legit {Key : Type} (c : Crypto Key) (iv : Int) (ids : List String) (nowNs : Int) (lib : Option Int)
    (r : Rec) (no tsNs : Int) : Prop where
  signed_by_owner : ∃ k, c.unmarshal (r.raw "PubKey") = some k
    ∧ c.verify k (encode blockSignSpec r) (r.raw "Sign") = some true
    ∧ ∃ id, c.peerId k = some id ∧ ∃ (pos : Nat) (sl : Int), ids[pos]? = some id ∧ InSlot iv (nsToMs tsNs) sl
        ∧ sl % (ids.length : Int) = pos
  not_future : ∃ sl sn, InSlot iv (nsToMs tsNs) sl ∧ InSlot iv (nsToMs nowNs) sn ∧ sl < sn + 2
  above_lib : ∀ l, lib = some l → l < no

/-- **A block passes the three consensus checks exactly when it is legitimate.** (Instants after the first
millisecond of the epoch, 1..65534 distinct producers.) -/
theorem accept_iff {Key : Type} (c : Crypto Key) (iv : Int) (ids : List String) (nowNs : Int) (lib : Option Int)
    (r : Rec) (no tsNs : Int)
    (hiv : 0 < iv) (hts : 0 < nsToMs tsNs) (hnow : 0 < nsToMs nowNs)
    (hpos : 0 < ids.length) (hlen : ids.length < 65535) (hnd : ids.Nodup) :
    accept c iv ids nowNs lib r no tsNs = true ↔ Legit c iv ids nowNs lib r no tsNs := by
  simp only [accept, Bool.and_eq_true]
  rw [verifyTimestamp_iff iv tsNs nowNs lib no hiv hts hnow, verifySign_iff,
    isBlockValidK_iff iv ids _ tsNs hiv hts hpos hlen hnd]
  constructor
  · rintro ⟨⟨⟨hf, hl⟩, k, hk, hv⟩, id, hid, hrest⟩
    refine ⟨⟨k, hk, hv, id, ?_, hrest⟩, hf, hl⟩
    simpa [bpid, hk] using hid
  · rintro ⟨⟨k, hk, hv, id, hid, hrest⟩, hf, hl⟩
    exact ⟨⟨⟨hf, hl⟩, k, hk, hv⟩, id, by simp [bpid, hk, hid], hrest⟩

/-- Each defect alone is refused: wrong or malformed signature, unknown key, non-member, member in another slot,
timestamp two slots ahead (corollaries of `accept_iff`, kept as a readable list). -/
theorem accept_refuses {Key : Type} (c : Crypto Key) (iv : Int) (ids : List String) (nowNs : Int) (lib : Option Int)
    (r : Rec) (no tsNs : Int) :
    (dposVerifySign c r = false → accept c iv ids nowNs lib r no tsNs = false)
    ∧ (verifyTimestamp iv tsNs nowNs lib no = false → accept c iv ids nowNs lib r no tsNs = false)
    ∧ (isBlockValidK iv ids (bpid c r) tsNs = false → accept c iv ids nowNs lib r no tsNs = false) := by
  simp only [accept]
  refine ⟨?_, ?_, ?_⟩ <;> intro h <;> simp [h]

/-- Non-vacuity (a test on sample values): with a primitive that accepts exactly the signature `[1]` under key "c",
the 3-producer list of the example above accepts that block at t = 1.5 s when the clock shows 1.2 s, and refuses it
when the signature is empty, when the clock is two slots behind, and below the last irreversible block. -/
example :
    let c : Crypto String := { unmarshal := fun b => if b == [7] then some "c" else none,
                               verify := fun _ _ sig => if sig.isEmpty then none else some (sig == [1]), peerId := some }
    let hdr (sig : Bytes) : Rec := { raw := fun f => if f == "PubKey" then [7] else if f == "Sign" then sig else [], num := fun _ => 0 }
    accept c 1000 ["a", "b", "c"] 1200000000 (some 3) (hdr [1]) 4 1500000000 = true
    ∧ accept c 1000 ["a", "b", "c"] 1200000000 (some 3) (hdr []) 4 1500000000 = false
    ∧ accept c 1000 ["a", "b", "c"] 1200000000 (some 3) (hdr [2]) 4 1500000000 = false
    ∧ accept c 1000 ["a", "b", "c"] 200000000 (some 3) (hdr [1]) 4 2500000000 = false
    ∧ accept c 1000 ["a", "b", "c"] 1200000000 (some 4) (hdr [1]) 4 1500000000 = false := by decide

/-! ## The current producer set -/

/-- `snapBlockNo b` is the last election boundary at least one full period below `b` (0 = genesis list during the
first three periods), and nothing else is. Over the regenerated `snapBlockNo` / election period. -/
theorem snapBlockNo_spec (b : Int) (hb : 0 ≤ b) :
    (b < 3 * getElectionPeriod → snapBlockNo b = 0) ∧
    (3 * getElectionPeriod ≤ b →
      snapBlockNo b % getElectionPeriod = 0 ∧ snapBlockNo b + getElectionPeriod ≤ b
        ∧ b < snapBlockNo b + 2 * getElectionPeriod) := by
  rw [snapBlockNo_eq b hb]
  constructor
  · intro h; rw [if_pos h]
  · intro h
    rw [if_neg (by omega)]
    simp only [getElectionPeriod] at *
    omega

theorem snapBlockNo_unique (b r : Int) (hb : 0 ≤ b) (h3 : 3 * getElectionPeriod ≤ b)
    (h1 : r % getElectionPeriod = 0) (h2 : r + getElectionPeriod ≤ b) (h4 : b < r + 2 * getElectionPeriod) :
    r = snapBlockNo b := by
  have := (snapBlockNo_spec b hb).2 h3
  simp only [getElectionPeriod] at *
  omega

/-- **Current producer set** (`_partial`: under the guard "every ranking entry decodes as a peer id").
Full statement: start a DPoS node on a genesis list and let any history happen — blocks offered (and connected when
they pass the three checks), reorganisations back to any block of the chain, restarts; then the list the node has in
force (`Cluster`) is the specified one: the genesis list while the best block is below three election periods, else
the ranking in the state of block `snapBlockNo best` of the node's OWN current chain.
The full statement is FALSE for /repo without the guard (`stale_set_after_undecodable_id`, known finding
C09-undecodable-ranking-entry-keeps-old-set); under the guard it holds for every history. Snapshots left over from an
abandoned branch never surface (part of the invariant `Producer.Inv`; `AddSnapshot`'s reset on reorganisation is dead
code in /repo since `maxRefBlockNo` is never assigned, and is not needed). -/
theorem producer_set_is_ranking_partial {Key : Type} (c : Crypto Key) (iv : Int) (genesis : List String) (evs : List Ev)
    (hg : RankOk genesis) (hev : ∀ ev ∈ evs, EvOk ev) :
    let n := (Node.init genesis).run c iv evs
    some n.sn.members = specSet genesis n.ranks n.best ∧ n.sn.size = n.sn.members.length
      ∧ n.ranks.length = n.best.toNat + 1 := by
  have hi := Inv.init genesis hg
  have h := run_inv c iv evs (Node.init genesis) hi hev (by intro a ha; simp [Node.init] at ha)
  have hgen : (Node.init genesis).sn.genesis = genesis := by
    have hs : snapBlockNo 0 = 0 := by decide
    have : genesis.all idOk = true := hg
    simp [Node.init, boot, updateCluster, getCurrent, hs, this]
  obtain ⟨hinv, hge, _⟩ := h
  refine ⟨?_, hinv.size_eq, hinv.len⟩
  have := hinv.current
  rw [hge, hgen] at this
  exact this

/-- **Accepted only if legitimate, over all histories** (no guard). Every block a DPoS node ever put on its chain —
whatever blocks were offered, whatever reorganisations and restarts happened in between — passed the three checks
with the producer list in force at that moment; hence (`accept_iff`) its signature verifies over the complete header
with the key in the header, that key is the member of that list whose position owns the slot of the timestamp, and
the timestamp was less than two slots ahead of the clock. -/
theorem accepted_only_legit {Key : Type} (c : Crypto Key) (iv : Int) (genesis : List String) (evs : List Ev)
    (hiv : 0 < iv) (a : Accepted) (ha : a ∈ ((Node.init genesis).run c iv evs).log)
    (hts : 0 < nsToMs a.blk.tsNs) (hnow : 0 < nsToMs a.nowNs)
    (hpos : 0 < a.ids.length) (hlen : a.ids.length < 65535) (hnd : a.ids.Nodup) :
    Legit c iv a.ids a.nowNs none a.blk.hdr a.blk.no a.blk.tsNs := by
  have h := run_log_accept c iv evs (Node.init genesis) (by intro a ha; simp [Node.init] at ha) a ha
  exact (accept_iff c iv a.ids a.nowNs none a.blk.hdr a.blk.no a.blk.tsNs hiv hts hnow hpos hlen hnd).1 h

/-- ... and (`_partial`, same guard as `producer_set_is_ranking_partial`) the list in force at that moment was the one
the election rule specifies for the chain the block extended: the block was signed by the ELECTED producer owning
its slot. -/
theorem accepted_by_elected_producer_partial {Key : Type} (c : Crypto Key) (iv : Int) (genesis : List String)
    (evs : List Ev) (hg : RankOk genesis) (hev : ∀ ev ∈ evs, EvOk ev)
    (a : Accepted) (ha : a ∈ ((Node.init genesis).run c iv evs).log) :
    some a.ids = specSet genesis a.ranks (a.blk.no - 1) ∧ a.ranks.length = a.blk.no.toNat := by
  have hi := Inv.init genesis hg
  have h := run_inv c iv evs (Node.init genesis) hi hev (by intro a ha; simp [Node.init] at ha)
  have hgen : (Node.init genesis).sn.genesis = genesis := by
    have hs : snapBlockNo 0 = 0 := by decide
    have : genesis.all idOk = true := hg
    simp [Node.init, boot, updateCluster, getCurrent, hs, this]
  have hl := h.2.2 a ha
  rw [hgen] at hl
  exact ⟨hl.2.1, hl.2.2.1⟩

/-- Non-vacuity of the history theorems (a test on sample values): a node with genesis list ["a","b","c"] that is
offered the block of the example above accepts it (log of length 1) and refuses the same block with signature [2]. -/
example :
    let c : Crypto String := { unmarshal := fun b => if b == [7] then some "c" else none,
                               verify := fun _ _ sig => if sig.isEmpty then none else some (sig == [1]), peerId := some }
    let hdr (sig : Bytes) : Rec := { raw := fun f => if f == "PubKey" then [7] else if f == "Sign" then sig else [], num := fun _ => 0 }
    let blk (sig : Bytes) : Blk := { no := 1, tsNs := 1500000000, hdr := hdr sig }
    (((Node.init ["a", "b", "c"]).run c 1000 [.offer 1200000000 (blk [2]) ["a"], .offer 1200000000 (blk [1]) ["a"]]).log.length = 1)
    ∧ (((Node.init ["a", "b", "c"]).run c 1000 [.offer 1200000000 (blk [2]) ["a"]]).log.length = 0) := by decide

/-- The hypothesis `RankOk` is needed, and what happens without it is what /repo does (`UpdateCluster` logs "skip BP
member update" and returns): one undecodable entry in the elected ranking and the OLD list stays in force.
(Witness on sample values; reproduced on the real `Status.Update` by harness c09, sessions `+faults`.) -/
theorem stale_set_after_undecodable_id :
    let s : Snaps := { snaps := [(200, ["x", "!y"])], maxRef := 0, genesis := ["a"], members := ["a"], size := 1 }
    (updateCluster s 300 none).1.members = ["a"] ∧ specSet s.genesis [[], [], []] 300 ≠ some ["a"] := by
  decide

end Aergo.Props.C09
