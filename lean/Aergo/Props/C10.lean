import Aergo.Model.Trie
namespace Aergo.Props.C10
open Aergo.Trie

/-- placeholder while the proofs are being built -/
theorem get_empty {V : Type} (k : List Bool) : get (T.empty : T V) k = none := rfl

end Aergo.Props.C10
