/-
C10 — State trie: content-addressed, history-independent, persistent key-value map.

"The sparse Merkle state trie behaves as a map from 32-byte keys to values: after any sequence of
batches of updates and deletions ... reading a key returns the value last written or nothing if it
was deleted or never written (deleting an absent key changes nothing), and the root hash depends
only on the resulting set of key-value pairs, not on the order, batching or interleaved deletions
by which it was reached."

Model: `Aergo.Model.Trie` (`update`, `maybeAddShortcutToKV`, `maybeMoveUpShortcut`, `get` of
pkg/trie transcribed; tied to the real code by the c10 correspondence harness, roots compared as
hash terms). Everything below is for every trie height `H`, every number of batches, every batch
size: induction over the height and over the list of batches. A batch is what `Trie.Update`
requires: keys of `H` bits, strictly ascending, non-empty (`WF H b ∧ b ≠ []`).

Not carried by a theorem (exercised on the real code by the harness only): the 4-level batch
layout and its (de)serialisation, Commit / a fresh instance opened at a stored root / older roots
staying readable, the goroutines of `updateParallel`.
-/
import Aergo.Lemmas.TrieCanon
import Aergo.Lemmas.TrieBatch

namespace Aergo.Props.C10
open Aergo.Trie
variable {V : Type}

/-- The trie after applying the batches `bs` in order to an empty trie (`Update` per batch). -/
def runTrie (H : Nat) (bs : List (List (KV V))) : T V :=
  bs.foldl (fun t b => updateRoot H t b) .empty

/-- The specification: a plain map, each batch overriding what it mentions. -/
def specMap (bs : List (List (KV V))) : List Bool → Option V :=
  bs.foldl applyF (fun _ => none)

/-- A legal history: every batch is sorted, of the right key length, and non-empty. -/
def Legal (H : Nat) (bs : List (List (KV V))) : Prop := ∀ b ∈ bs, WF H b ∧ b ≠ []

/-- One `Update` on a canonical trie: the result is canonical and reads as the overridden map
(any height, any tree, any sorted batch). -/
theorem update_refines_map (H : Nat) (t : T V) (b : List (KV V)) (c : Canon H t) (w : WF H b) (hne : b ≠ []) :
    Canon H (updateRoot H t b) ∧ ∀ k, k.length = H → get (updateRoot H t b) k = applyF (get t) b k :=
  let g := update_good H t b c w hne
  ⟨g.canon, g.sem⟩

private theorem run_from (H : Nat) (bs : List (List (KV V))) (hl : Legal H bs) :
    ∀ (t : T V) (f : List Bool → Option V), Canon H t → (∀ k, k.length = H → get t k = f k) →
      Canon H (bs.foldl (fun t b => updateRoot H t b) t) ∧
      ∀ k, k.length = H → get (bs.foldl (fun t b => updateRoot H t b) t) k = bs.foldl applyF f k := by
  induction bs with
  | nil => intro t f c hs; exact ⟨c, hs⟩
  | cons b bs ih =>
    intro t f c hs
    obtain ⟨w, hne⟩ := hl b (by simp)
    obtain ⟨c', s'⟩ := update_refines_map H t b c w hne
    simp only [List.foldl_cons]
    refine ih (fun b' hb' => hl b' (List.mem_cons_of_mem _ hb')) _ _ c' ?_
    intro k hk
    rw [s' k hk]
    exact applyF_congr b k (hs k hk)

/-- **Read your writes**: after any legal history, reading a key returns the value last written, or
nothing if it was deleted or never written. -/
theorem read_your_writes (H : Nat) (bs : List (List (KV V))) (hl : Legal H bs) (k : List Bool) (hk : k.length = H) :
    get (runTrie H bs) k = specMap bs k :=
  (run_from H bs hl .empty (fun _ => none) (by simp [Canon]) (by simp [Trie.get])).2 k hk

/-- Every reachable trie is canonical (a lone key always sits at the highest node of its subtree). -/
theorem reachable_canonical (H : Nat) (bs : List (List (KV V))) (hl : Legal H bs) : Canon H (runTrie H bs) :=
  (run_from H bs hl .empty (fun _ => none) (by simp [Canon]) (by simp [Trie.get])).1

/-- **History independence**: two legal histories that result in the same key-value pairs build the
same tree — whatever the order, the batching, or interleaved deletions. -/
theorem history_independent (H : Nat) (bs bs' : List (List (KV V))) (hl : Legal H bs) (hl' : Legal H bs')
    (hsame : ∀ k, k.length = H → specMap bs k = specMap bs' k) : runTrie H bs = runTrie H bs' := by
  apply canon_unique H _ _ (reachable_canonical H bs hl) (reachable_canonical H bs' hl')
  intro k hk
  rw [read_your_writes H bs hl k hk, read_your_writes H bs' hl' k hk, hsame k hk]

/-- ... hence anything computed from the tree — in particular the root hash term the node hashes
— depends only on the resulting set of pairs. -/
theorem root_depends_only_on_content {R : Type} (root : T V → R) (H : Nat) (bs bs' : List (List (KV V)))
    (hl : Legal H bs) (hl' : Legal H bs')
    (hsame : ∀ k, k.length = H → specMap bs k = specMap bs' k) : root (runTrie H bs) = root (runTrie H bs') := by
  rw [history_independent H bs bs' hl hl' hsame]

/-- **Deleting an absent key changes nothing** (the tree, hence the root, is identical). -/
theorem delete_absent_noop (H : Nat) (t : T V) (c : Canon H t) (k : List Bool) (hk : k.length = H)
    (habs : get t k = none) : updateRoot H t [(k, none)] = t := by
  have w : WF H [(k, (none : Option V))] := ⟨by simp [hk], by simp⟩
  obtain ⟨c', s⟩ := update_refines_map H t [(k, none)] c w (by simp)
  apply canon_unique H _ _ c' c
  intro k' hk'
  rw [s k' hk']
  simp only [applyF, look]
  split <;> simp_all

/-- Applying the same batch twice is the same as applying it once. -/
theorem update_idempotent (H : Nat) (t : T V) (c : Canon H t) (b : List (KV V)) (w : WF H b) (hne : b ≠ []) :
    updateRoot H (updateRoot H t b) b = updateRoot H t b := by
  obtain ⟨c1, s1⟩ := update_refines_map H t b c w hne
  obtain ⟨c2, s2⟩ := update_refines_map H _ b c1 w hne
  apply canon_unique H _ _ c2 c1
  intro k hk
  rw [s2 k hk]
  simp only [applyF]
  cases hl : look b k with
  | none => rfl
  | some ov =>
    have := s1 k hk
    simp only [applyF, hl] at this
    exact this.symm

/-- The tree is determined by its contents: two canonical tries that answer every read alike are equal. -/
theorem content_determines_tree (H : Nat) (t t' : T V) (c : Canon H t) (c' : Canon H t')
    (h : ∀ k, k.length = H → get t k = get t' k) : t = t' := canon_unique H t t' c c' h

/-- `maybeAddShortcutToKV` (with its index loop) is the sorted insertion of the shortcut into the batch. -/
theorem addShortcut_is_sorted_insert (H : Nat) (sk : List Bool) (sv : V) (b : List (KV V)) (w : WF H b) (hne : b ≠ [])
    (hsk : sk.length = H) :
    WF H (addShortcut b sk sv) ∧ ∀ k, applyF (fun _ => none) (addShortcut b sk sv) k = applyF (get (T.leaf sk sv)) b k := by
  rw [addShortcut_eq sk sv b w hne]
  exact ⟨addSc_wf sv w hsk, look_addSc sk sv b w.2⟩

/-- **Storage layer round trip**: the value `serializeBatch` writes for a 4-level batch is read back by
`parseBatch` as the same batch (a shortcut batch keeps exactly its key and value slots): what a fresh
instance loads from the store at a committed root is what was committed. (`WF`: 30 slots, present slots
33 bytes, a shortcut batch holds its pair in slots 1 and 2 — the batches the trie builds; the harness
feeds every value the real trie stores to both codecs.) -/
theorem batch_store_roundtrip (b : Aergo.TrieBatch.Batch) (w : Aergo.TrieBatch.WF b) :
    Aergo.TrieBatch.parse (Aergo.TrieBatch.serialize b) = some (Aergo.TrieBatch.norm b) :=
  Aergo.TrieBatch.parse_serialize b w

/-! Non-vacuity (tests on concrete values, not proofs of the general claims): a height-3 history
with an insertion on both sides of a deleted shortcut — the shape that was broken before the
`fix:` commit — is legal, and equals the one-batch history with the same contents. -/

private def k (a b c : Bool) : List Bool := [a, b, c]

example : Legal 3 ([[(k false true false, some 7)],
                    [(k false false true, some 1), (k false true false, none), (k true false false, some 3)]] : List (List (KV Nat))) := by
  simp [Legal, WF, k, cmp]
  rintro a b (⟨rfl, _⟩ | ⟨rfl, _⟩ | ⟨rfl, _⟩) <;> rfl

example : runTrie 3 ([[(k false true false, some 7)],
                      [(k false false true, some 1), (k false true false, none), (k true false false, some 3)]] : List (List (KV Nat)))
        = runTrie 3 [[(k false false true, some 1), (k true false false, some 3)]] := by
  decide

end Aergo.Props.C10
