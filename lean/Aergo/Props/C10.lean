/-
C10 — State trie: content-addressed, history-independent, persistent key-value map.

"The sparse Merkle state trie behaves as a map from 32-byte keys to values: after any sequence of
batches of updates and deletions ... reading a key returns the value last written or nothing if it
was deleted or never written (deleting an absent key changes nothing), and the root hash depends
only on the resulting set of key-value pairs, not on the order, batching or interleaved deletions
by which it was reached."

Model: `Aergo.Model.Trie` (`update`, `maybeAddShortcutToKV`, `maybeMoveUpShortcut`, `get` of
pkg/trie transcribed; tied to the real code by the c10 correspondence harness, roots compared as
hash terms). Everything below is for every trie height `H`, every number of batches, every batch
size: induction over the height and over the list of batches. A batch is what `Trie.Update`
requires: keys of `H` bits, strictly ascending, non-empty (`WF H b ∧ b ≠ []`).

"After a commit the same answers are obtained from a fresh instance opened on the stored data at
that root, and every previously committed root remains readable with its own contents": the storage
layer is modelled in `Aergo.Model.TrieStore` (the 4-level batch the code builds for a subtree, the
key it is stored under, `Trie.get` through `loadChildren`/`loadBatch`/`parseBatch` on a store) and in
`Aergo.Model.TrieStoreUpd` (`updU`: the `updatedNodes` bookkeeping of one `Update` — every `storeNode`
and `deleteOldNode` of trie.go at its call site; `runBlocks`: per block a fresh instance, one `Update`,
a `Commit` that writes exactly what was recorded). The clause is carried by `get_from_store`,
`store_monotone`, `old_roots_live`, `history_roots_stay_readable` (commit = all batches of the tree) and
by `update_records_what_commit_needs`, `incremental_commits_keep_roots_readable` (commit = what `Update`
recorded) below — for every height that is a multiple of 4, an arbitrary hash function, under the
explicit hypothesis that it is injective (and overlap-free, and never the all-zero digest) on the
finite list of byte strings actually hashed for the committed trees.

Not carried by a theorem (exercised on the real code by the harness only): the slot-level mutation of
the in-memory batch (that the batch handed to `storeNode` has exactly the slots `batchOf` describes:
ops `sbatch`/`ser` on the committed bytes), a second `Update` before the `Commit` (the node never does
it with a different batch; the same batch twice is generated and corresponded by op `wset`), the node
cache, `AtomicUpdate`/`Revert`/`Stash` (no caller in the node), the goroutines of `updateParallel`.
-/
import Aergo.Lemmas.TrieCanon
import Aergo.Lemmas.TrieBatch
import Aergo.Lemmas.TrieStoreHash
import Aergo.Lemmas.TrieStoreBlocks

namespace Aergo.Props.C10
open Aergo.Trie
variable {V : Type}

/-- The trie after applying the batches `bs` in order to an empty trie (`Update` per batch). -/
def runTrie (H : Nat) (bs : List (List (KV V))) : T V :=
  bs.foldl (fun t b => updateRoot H t b) .empty

/-- The specification: a plain map, each batch overriding what it mentions. -/
def specMap (bs : List (List (KV V))) : List Bool → Option V :=
  bs.foldl applyF (fun _ => none)

/-- A legal history: every batch is sorted, of the right key length, and non-empty. -/
def Legal (H : Nat) (bs : List (List (KV V))) : Prop := ∀ b ∈ bs, WF H b ∧ b ≠ []

/-- One `Update` on a canonical trie: the result is canonical and reads as the overridden map
(any height, any tree, any sorted batch). -/
theorem update_refines_map (H : Nat) (t : T V) (b : List (KV V)) (c : Canon H t) (w : WF H b) (hne : b ≠ []) :
    Canon H (updateRoot H t b) ∧ ∀ k, k.length = H → get (updateRoot H t b) k = applyF (get t) b k :=
  let g := update_good H t b c w hne
  ⟨g.canon, g.sem⟩

private theorem run_from (H : Nat) (bs : List (List (KV V))) (hl : Legal H bs) :
    ∀ (t : T V) (f : List Bool → Option V), Canon H t → (∀ k, k.length = H → get t k = f k) →
      Canon H (bs.foldl (fun t b => updateRoot H t b) t) ∧
      ∀ k, k.length = H → get (bs.foldl (fun t b => updateRoot H t b) t) k = bs.foldl applyF f k := by
  induction bs with
  | nil => intro t f c hs; exact ⟨c, hs⟩
  | cons b bs ih =>
    intro t f c hs
    obtain ⟨w, hne⟩ := hl b (by simp)
    obtain ⟨c', s'⟩ := update_refines_map H t b c w hne
    simp only [List.foldl_cons]
    refine ih (fun b' hb' => hl b' (List.mem_cons_of_mem _ hb')) _ _ c' ?_
    intro k hk
    rw [s' k hk]
    exact applyF_congr b k (hs k hk)

/-- **Read your writes**: after any legal history, reading a key returns the value last written, or
nothing if it was deleted or never written. -/
theorem read_your_writes (H : Nat) (bs : List (List (KV V))) (hl : Legal H bs) (k : List Bool) (hk : k.length = H) :
    get (runTrie H bs) k = specMap bs k :=
  (run_from H bs hl .empty (fun _ => none) (by simp [Canon]) (by simp [Trie.get])).2 k hk

/-- Every reachable trie is canonical (a lone key always sits at the highest node of its subtree). -/
theorem reachable_canonical (H : Nat) (bs : List (List (KV V))) (hl : Legal H bs) : Canon H (runTrie H bs) :=
  (run_from H bs hl .empty (fun _ => none) (by simp [Canon]) (by simp [Trie.get])).1

/-- **History independence**: two legal histories that result in the same key-value pairs build the
same tree — whatever the order, the batching, or interleaved deletions. -/
theorem history_independent (H : Nat) (bs bs' : List (List (KV V))) (hl : Legal H bs) (hl' : Legal H bs')
    (hsame : ∀ k, k.length = H → specMap bs k = specMap bs' k) : runTrie H bs = runTrie H bs' := by
  apply canon_unique H _ _ (reachable_canonical H bs hl) (reachable_canonical H bs' hl')
  intro k hk
  rw [read_your_writes H bs hl k hk, read_your_writes H bs' hl' k hk, hsame k hk]

/-- ... hence anything computed from the tree — in particular the root hash term the node hashes
— depends only on the resulting set of pairs. -/
theorem root_depends_only_on_content {R : Type} (root : T V → R) (H : Nat) (bs bs' : List (List (KV V)))
    (hl : Legal H bs) (hl' : Legal H bs')
    (hsame : ∀ k, k.length = H → specMap bs k = specMap bs' k) : root (runTrie H bs) = root (runTrie H bs') := by
  rw [history_independent H bs bs' hl hl' hsame]

/-- **Deleting an absent key changes nothing** (the tree, hence the root, is identical). -/
theorem delete_absent_noop (H : Nat) (t : T V) (c : Canon H t) (k : List Bool) (hk : k.length = H)
    (habs : get t k = none) : updateRoot H t [(k, none)] = t := by
  have w : WF H [(k, (none : Option V))] := ⟨by simp [hk], by simp⟩
  obtain ⟨c', s⟩ := update_refines_map H t [(k, none)] c w (by simp)
  apply canon_unique H _ _ c' c
  intro k' hk'
  rw [s k' hk']
  simp only [applyF, look]
  split <;> simp_all

/-- Applying the same batch twice is the same as applying it once. -/
theorem update_idempotent (H : Nat) (t : T V) (c : Canon H t) (b : List (KV V)) (w : WF H b) (hne : b ≠ []) :
    updateRoot H (updateRoot H t b) b = updateRoot H t b := by
  obtain ⟨c1, s1⟩ := update_refines_map H t b c w hne
  obtain ⟨c2, s2⟩ := update_refines_map H _ b c1 w hne
  apply canon_unique H _ _ c2 c1
  intro k hk
  rw [s2 k hk]
  simp only [applyF]
  cases hl : look b k with
  | none => rfl
  | some ov =>
    have := s1 k hk
    simp only [applyF, hl] at this
    exact this.symm

/-- The tree is determined by its contents: two canonical tries that answer every read alike are equal. -/
theorem content_determines_tree (H : Nat) (t t' : T V) (c : Canon H t) (c' : Canon H t')
    (h : ∀ k, k.length = H → get t k = get t' k) : t = t' := canon_unique H t t' c c' h

/-- `maybeAddShortcutToKV` (with its index loop) is the sorted insertion of the shortcut into the batch. -/
theorem addShortcut_is_sorted_insert (H : Nat) (sk : List Bool) (sv : V) (b : List (KV V)) (w : WF H b) (hne : b ≠ [])
    (hsk : sk.length = H) :
    WF H (addShortcut b sk sv) ∧ ∀ k, applyF (fun _ => none) (addShortcut b sk sv) k = applyF (get (T.leaf sk sv)) b k := by
  rw [addShortcut_eq sk sv b w hne]
  exact ⟨addSc_wf sv w hsk, look_addSc sk sv b w.2⟩

/-- **Storage layer round trip**: the value `serializeBatch` writes for a 4-level batch is read back by
`parseBatch` as the same batch (a shortcut batch keeps exactly its key and value slots): what a fresh
instance loads from the store at a committed root is what was committed. (`WF`: 30 slots, present slots
33 bytes, a shortcut batch holds its pair in slots 1 and 2 — the batches the trie builds; the harness
feeds every value the real trie stores to both codecs.) -/
theorem batch_store_roundtrip (b : Aergo.TrieBatch.Batch) (w : Aergo.TrieBatch.WF b) :
    Aergo.TrieBatch.parse (Aergo.TrieBatch.serialize b) = some (Aergo.TrieBatch.norm b) :=
  Aergo.TrieBatch.parse_serialize b w

/-! ### Storage layer: commit, fresh instance at a stored root, older roots

`TrieStore.batchOf c h p t` is the batch the Go code builds for the subtree `t` rooted at a batch boundary,
`pairsOf c n [] t` the (hash of batch root ↦ serialised batch) pairs of a whole tree of height `4 * n`,
`commitS` writes pairs into a store, `storeAfter c n ts` is the store after committing the trees `ts` in
turn into an empty DB, `getRoot c σ H root key` is `NewTrie(root, hash, σ).Get(key)`: the Go `get`
through `loadChildren` / `loadBatch` / `parseBatch` (`Res.err` = error return or run-time panic).
`Committed n t`: canonical at height `4 * n`, values of 32 bytes (what the trie holds).
`HashOK`: 32-byte digests, 32-byte injective key encoding. `HashGoodOn H L` (= `¬ BrokenOn H L L`):
`H` is injective on the finite list `L` and no `DefaultLeaf ++ H x = H y ++ DefaultLeaf` for x, y ∈ L;
`L` is always the list of strings actually hashed for the trees in question (`hashedT`, `hashedAll`). -/

open Aergo.TrieStore in
/-- **(a) A fresh instance at the committed root answers as the committed tree.** Commit the batches of
`t` into *any* store; then `Get` on a new trie opened at `rootOf t` returns `get t key` for every key —
no error, no panic. The hash function only has to be good on the strings hashed for `t` itself. -/
theorem get_from_store (c : HashCtx) (n : Nat) (ok : HashOK c (4 * n)) (t : T Bytes) (ct : Committed n t)
    (g : HashGoodOn c.H (hashedT c (4 * n) [] t)) (σ0 : Store) (key : List Bool) (hk : key.length = 4 * n) :
    getRoot c (commitS σ0 (pairsOf c n [] t)) (4 * n) (rootOf c (4 * n) t) key = .ok (get t key) :=
  getRoot_covers ok ct (commit_covers ok ct g σ0) key hk

open Aergo.TrieStore in
/-- **(b) The store is content-addressed and grows monotonically**: committing one more tree `t'` leaves
every existing pair as it is (a key written again is written with identical bytes), and whatever is new
is a pair of `t'`. The hash function has to be good on the strings hashed for all the trees involved. -/
theorem store_monotone (c : HashCtx) (n : Nat) (ok : HashOK c (4 * n)) (ts : List (T Bytes)) (t' : T Bytes)
    (hc : ∀ t ∈ ts ++ [t'], Committed n t) (g : HashGoodOn c.H (hashedAll c n (ts ++ [t']))) (k : Bytes) :
    (∀ v, storeAfter c n ts k = some v → storeAfter c n (ts ++ [t']) k = some v) ∧
    (∀ v, storeAfter c n (ts ++ [t']) k = some v → storeAfter c n ts k = some v ∨ (k, v) ∈ pairsOf c n [] t') := by
  rw [storeAfter_snoc]
  constructor
  · intro v h
    apply commitS_preserve _ _ _ _ h
    intro kv' hkv' e
    -- the old pair belongs to one of the earlier trees
    rcases foldl_commit_mem ts emptyStore k v h with h0 | ⟨t, m, hm⟩
    · simp [emptyStore] at h0
    · have ct := hc t (by simp [m])
      have ct' := hc t' (by simp)
      exact pair_unique ok g ct'.1 ct'.2 (by simp) ct.1 ct.2 (by simp) (hashedAll_mem (by simp))
        (hashedAll_mem (by simp [m])) hkv' hm e
  · intro v h
    rcases commitS_cases (pairsOf c n [] t') (storeAfter c n ts) k with e | ⟨kv, mkv, ek, e⟩
    · exact Or.inl (by rw [← e]; exact h)
    · right
      rw [e] at h
      have : kv = (k, v) := by cases kv; simp_all
      rw [← this]; exact mkv

open Aergo.TrieStore in
/-- **(c) Every previously committed root remains readable with its own contents**: after committing
the trees `ts` one after the other, a fresh instance opened at the root of *any* of them answers as
that tree, for every key. -/
theorem old_roots_live (c : HashCtx) (n : Nat) (ok : HashOK c (4 * n)) (ts : List (T Bytes))
    (hc : ∀ t ∈ ts, Committed n t) (g : HashGoodOn c.H (hashedAll c n ts))
    (t : T Bytes) (m : t ∈ ts) (key : List Bool) (hk : key.length = 4 * n) :
    getRoot c (storeAfter c n ts) (4 * n) (rootOf c (4 * n) t) key = .ok (get t key) :=
  getRoot_covers ok (hc t m) (storeAfter_covers ok hc g m) key hk

/-- The trees committed along a history (one `Update` + one `Commit` per batch, as the node does),
starting with the empty trie. -/
def committedTrees (H : Nat) (bs : List (List (KV V))) : List (T V) :=
  (List.range (bs.length + 1)).map fun i => runTrie H (bs.take i)

open Aergo.TrieStore in
/-- the tree reached by a prefix of a legal history with 32-byte values is what the trie commits -/
private theorem runTrie_committed (n : Nat) (bs : List (List (KV Bytes))) (hl : Legal (4 * n) bs)
    (hv : ∀ b ∈ bs, ∀ kv ∈ b, ∀ v, kv.2 = some v → v.length = 32) (j : Nat) :
    Committed n (runTrie (4 * n) (bs.take j)) := by
  have legal_take : Legal (4 * n) (bs.take j) := fun b hb => hl b (List.mem_of_mem_take hb)
  have cn := reachable_canonical (4 * n) (bs.take j) legal_take
  refine ⟨cn, vals32_of_get _ _ cn fun k v hk' e => ?_⟩
  rw [read_your_writes (4 * n) (bs.take j) legal_take k hk'] at e
  exact foldl_applyF_vals (fun v => v.length = 32) (bs.take j) (fun _ => none) (by simp)
    (fun b hb => hv b (List.mem_of_mem_take hb)) k v e

open Aergo.TrieStore in
/-- **The clause for whole histories**: apply any legal sequence of batches (32-byte values), committing
after each; afterwards a fresh instance opened at the root reached after the first `i` batches — for
every `i` — reads every key as the map those `i` batches describe: the value last written, nothing if
deleted or never written. (The commit writes all batches of the tree: `storeAfter`; see
`incremental_commits_keep_roots_readable` for the commit that writes what `Update` recorded.) -/
theorem history_roots_stay_readable (c : HashCtx) (n : Nat) (ok : HashOK c (4 * n)) (bs : List (List (KV Bytes)))
    (hl : Legal (4 * n) bs) (hv : ∀ b ∈ bs, ∀ kv ∈ b, ∀ v, kv.2 = some v → v.length = 32)
    (g : HashGoodOn c.H (hashedAll c n (committedTrees (4 * n) bs)))
    (i : Nat) (hi : i ≤ bs.length) (key : List Bool) (hk : key.length = 4 * n) :
    getRoot c (storeAfter c n (committedTrees (4 * n) bs)) (4 * n) (rootOf c (4 * n) (runTrie (4 * n) (bs.take i))) key
      = .ok (specMap (bs.take i) key) := by
  have legal_take : ∀ j, Legal (4 * n) (bs.take j) := fun j b hb => hl b (List.mem_of_mem_take hb)
  have committed : ∀ t ∈ committedTrees (4 * n) bs, Committed n t := by
    intro t ht
    simp only [committedTrees, List.mem_map, List.mem_range] at ht
    obtain ⟨j, _, rfl⟩ := ht
    exact runTrie_committed n bs hl hv j
  have mem : runTrie (4 * n) (bs.take i) ∈ committedTrees (4 * n) bs := by
    simp only [committedTrees, List.mem_map, List.mem_range]
    exact ⟨i, by omega, rfl⟩
  rw [old_roots_live c n ok _ committed g _ mem key hk, read_your_writes (4 * n) (bs.take i) (legal_take i) key hk]

/-! ### The commit writes what `Update` recorded (`updatedNodes`)

`TrieStore.updU` is `Trie.update` with the bookkeeping of `updatedNodes` threaded through it — every `storeNode` and
`deleteOldNode` of trie.go at its call site, keyed by hash (`updU_tree`: the tree it computes is `update`'s;
`updUH_sim`: the hash-caching variant the model driver runs computes the same). `runBlocks` is a history of blocks:
per block a fresh instance at the current root, one `Update`, and a `Commit` that writes exactly the recorded entries.
`Lemmas/TrieStoreInc.lean` proves, by induction over the height, that after one `Update` every batch root of the new
tree is recorded unless the store already holds a batch under that key (`updU_inv`). -/

open Aergo.TrieStore in
/-- The bookkeeping is an annotation: `updU` computes the tree and the `deleted` flag of `Trie.update`, whatever
`updatedNodes` held before and whatever is recorded as a value. -/
theorem bookkeeping_does_not_change_update (c : HashCtx) (val : ValFn) (h : Nat) (p : List Bool) (t : T Bytes)
    (kvs : List (KV Bytes)) (un : UN) : (updU c val h p t kvs un).1 = update h t kvs :=
  updU_tree val h p t kvs un

open Aergo.TrieStore in
/-- The variant the model driver executes (`updUH`: the hash of every subtree cached in the tree, as the Go code finds
it in the parent's batch; one hash evaluation per node the Go code hashes) computes the same tree, flag and
`updatedNodes` as `updU`, on every correctly annotated tree, and returns a correctly annotated tree. -/
theorem hash_caching_update_agrees (c : HashCtx) (valH : ValFnH) (val : ValFn) (va : ValAgree valH val)
    (h : Nat) (rp : List Bool) (t : TH) (kvs : List (KV Bytes)) (un : UN) (w : WfH c h rp.reverse t) :
    Sim c h rp.reverse (updUH c valH h rp t kvs un) (updU c val h rp.reverse t.erase kvs un) :=
  updUH_sim va h rp t kvs un w

open Aergo.TrieStore in
/-- **One `Update` records what the next `Commit` needs** (any height, any path prefix `p` with `p.length + h = Ht`,
any canonical subtree, any sorted non-empty batch of 32-byte values, starting from an empty `updatedNodes`):
(1) every recorded entry is the (hash, serialised batch) pair of a canonical subtree — nothing else is ever written;
(2) every batch root of the new tree is recorded, unless a batch root of the OLD tree has the same key — and then
the store, which holds the old tree, already has these very bytes under it (`genuine_unique`).
`L` is any list containing the strings hashed for the new tree and the strings of its shortcuts at all heights. -/
theorem update_records_what_commit_needs (c : HashCtx) (Ht : Nat) (L : List Bytes) (env : Env c Ht L)
    (h : Nat) (p : List Bool) (t : T Bytes) (kvs : List (KV Bytes))
    (cn : Canon h t) (v32 : Vals32 t) (w : WF h kvs) (hne : kvs ≠ []) (k32 : KV32 kvs) (hp : p.length + h = Ht)
    (cl : Closed c Ht L h p (update h t kvs).1) :
    (∀ e ∈ (updU c (batchVal c) h p t kvs []).2, Genuine c Ht L e) ∧
    (∀ kv ∈ pairsAt c h p (update h t kvs).1,
      kv ∈ (updU c (batchVal c) h p t kvs []).2 ∨ ∃ kv0 ∈ pairsAt c h p t, kv0.1 = kv.1) := by
  have inv := updU_inv env h p t kvs [] cn v32 w hne k32 hp cl
  refine ⟨fun e he => ?_, fun kv hkv => ?_⟩
  · rcases inv.genuine e he with h1 | h1
    · simp at h1
    · exact h1
  · have hkv' : kv ∈ pairsAt c h p (updU c (batchVal c) h p t kvs []).1.1 := by
      rw [updU_tree]; exact hkv
    rcases inv.present kv hkv' with h1 | h1
    · exact Or.inl h1
    · simp only [OKt, List.mem_map] at h1
      obtain ⟨kv0, m0, e0⟩ := h1
      exact Or.inr ⟨kv0, m0, e0⟩

open Aergo.TrieStore in
/-- every byte string hashed for the trees committed along a history, and the strings of their shortcuts at the
other heights (a shortcut that moves is re-hashed with its new height on the way) -/
def hashedInc (c : HashCtx) (n : Nat) (bs : List (List (KV Bytes))) : List Bytes :=
  (committedTrees (4 * n) bs).flatMap fun t => hashedT c (4 * n) [] t ++ leafStrs c (4 * n) [] t

open Aergo.TrieStore in
/-- **Persistence with the real commit discipline.** Apply any legal history of batches (32-byte values); each block
commits only what its `Update` left in `updatedNodes`. Afterwards a fresh instance at the root reached after the first
`i` batches — for every `i` — reads every key as the map those `i` batches describe. Hypotheses on the hash function,
all over the explicit finite list `hashedInc c n bs`: good (`HashGoodOn`) and never the all-zero digest
(`deleteOldNode(nil)` deletes the all-zero key from `updatedNodes`). -/
theorem incremental_commits_keep_roots_readable (c : HashCtx) (n : Nat) (ok : HashOK c (4 * n)) (bs : List (List (KV Bytes)))
    (hl : Legal (4 * n) bs) (hv : ∀ b ∈ bs, ∀ kv ∈ b, ∀ v, kv.2 = some v → v.length = 32)
    (g : HashGoodOn c.H (hashedInc c n bs)) (nz : ∀ x ∈ hashedInc c n bs, c.H x ≠ zeroKey)
    (i : Nat) (hi : i ≤ bs.length) (key : List Bool) (hk : key.length = 4 * n) :
    getRoot c (runBlocks c n bs).1 (4 * n) (rootOf c (4 * n) (runTrie (4 * n) (bs.take i))) key
      = .ok (specMap (bs.take i) key) := by
  have env : Env c (4 * n) (hashedInc c n bs) := ⟨ok, g, nz⟩
  have closed : ∀ j, j ≤ bs.length → Closed c (4 * n) (hashedInc c n bs) (4 * n) [] (runTrie (4 * n) (bs.take j)) := by
    intro j hj
    have m : runTrie (4 * n) (bs.take j) ∈ committedTrees (4 * n) bs := by
      simp only [committedTrees, List.mem_map, List.mem_range]
      exact ⟨j, by omega, rfl⟩
    exact ⟨fun x hx => List.mem_flatMap.mpr ⟨_, m, List.mem_append.mpr (Or.inl hx)⟩,
      fun x hx => List.mem_flatMap.mpr ⟨_, m, List.mem_append.mpr (Or.inr hx)⟩⟩
  -- after j blocks: the tree is `runTrie`, and the store covers the trees of all prefixes
  have main : ∀ j, j ≤ bs.length →
      (runBlocks c n (bs.take j)).2 = runTrie (4 * n) (bs.take j) ∧
      StoreInv c n (hashedInc c n bs) (runBlocks c n (bs.take j)).1
        ((List.range (j + 1)).map fun i => runTrie (4 * n) (bs.take i)) := by
    intro j
    induction j with
    | zero =>
      intro _
      refine ⟨rfl, ⟨fun k v h => by simp [runBlocks, emptyStore] at h, ?_⟩⟩
      intro t ht
      simp at ht
      subst ht
      intro kv hkv
      simp [runTrie, pairsAt] at hkv
    | succ j ih =>
      intro hj
      obtain ⟨et, si⟩ := ih (by omega)
      have hjlt : j < bs.length := by omega
      have etake : bs.take (j + 1) = bs.take j ++ [bs[j]] := by
        rw [List.take_add_one, List.getElem?_eq_getElem hjlt]; rfl
      have hb := hl bs[j] (List.getElem_mem hjlt)
      have cm := runTrie_committed n bs hl hv j
      have k32 : KV32 bs[j] := fun kv hkv v hv' => hv bs[j] (List.getElem_mem hjlt) kv hkv v hv'
      have erun : runTrie (4 * n) (bs.take (j + 1)) = (update (4 * n) (runTrie (4 * n) (bs.take j)) bs[j]).1 := by
        simp only [runTrie]; rw [etake, List.foldl_append]; rfl
      have cur : Covers (runBlocks c n (bs.take j)).1 (pairsAt c (4 * n) [] (runTrie (4 * n) (bs.take j))) :=
        si.covers _ (by simp only [List.mem_map, List.mem_range]; exact ⟨j, by omega, rfl⟩)
      have cl' := closed (j + 1) hj
      rw [erun] at cl'
      obtain ⟨si', et'⟩ := blockStep_inv env (σ := (runBlocks c n (bs.take j)).1) si cur cm.1 cm.2 (closed j (by omega))
        bs[j] hb.1 hb.2 k32 cl'
      have estep : runBlocks c n (bs.take (j + 1)) =
          blockStep c n ((runBlocks c n (bs.take j)).1, runTrie (4 * n) (bs.take j)) bs[j] := by
        rw [etake]
        simp only [runBlocks, List.foldl_append, List.foldl_cons, List.foldl_nil]
        congr 1
        exact Prod.ext rfl et
      rw [estep]
      refine ⟨by rw [et', erun], ?_⟩
      have : ((List.range (j + 1 + 1)).map fun i => runTrie (4 * n) (bs.take i)) =
          ((List.range (j + 1)).map fun i => runTrie (4 * n) (bs.take i)) ++
            [(blockStep c n ((runBlocks c n (bs.take j)).1, runTrie (4 * n) (bs.take j)) bs[j]).2] := by
        rw [List.range_succ (n := j + 1), List.map_append, et']
        simp only [List.map_cons, List.map_nil, erun]
      rw [this]
      exact si'
  obtain ⟨_, si⟩ := main bs.length (Nat.le_refl _)
  rw [List.take_length] at si
  have cm := runTrie_committed n bs hl hv i
  have cv := si.covers (runTrie (4 * n) (bs.take i)) (by simp only [List.mem_map, List.mem_range]; exact ⟨i, by omega, rfl⟩)
  have cv' : Covers (runBlocks c n bs).1 (pairsOf c n [] (runTrie (4 * n) (bs.take i))) :=
    fun kv hkv => cv kv (pairsOf_sub_pairsAt n [] _ cm.1 cm.2 kv hkv)
  have legal_take : Legal (4 * n) (bs.take i) := fun b hb => hl b (List.mem_of_mem_take hb)
  rw [getRoot_covers ok cm cv' key hk, read_your_writes (4 * n) (bs.take i) legal_take key hk]

/-! Non-vacuity of the storage-layer hypotheses (a *test* on concrete values): a toy hash context with
32-byte digests (a polynomial fingerprint; injectivity on the strings at hand is checked by evaluation),
height 8 = two batch levels, two keys sharing their first four bits (so the tree has a chain of interior
nodes down to the batch boundary at height 4, where a second batch holds the two shortcuts), then the
second key's value overwritten: two committed trees, the hypothesis taken on the union of their strings. -/

private def toyH (x : Bytes) : Bytes :=
  let f := x.foldl (fun acc b => (acc * 257 + b.toNat + 1) % 115792089237316195423570985008687907853269984665640564039457584007913129639747) 1
  (List.range 32).map fun i => UInt8.ofNat (f / 256 ^ i % 256)

private def toyCtx : HashCtx := { H := toyH, enc := fun k => (k.map fun b => if b then 1 else 0) ++ List.replicate (32 - k.length) 0 }

private def toyTree (v2 : UInt8) : T Bytes :=
  .node (.node (.node (.node (.node (.leaf [false, false, true] (List.replicate 32 1)) (.leaf [true, false, true] (List.replicate 32 v2)))
    .empty) .empty) .empty) .empty

private theorem toy_map_inj : ∀ (k k' : List Bool),
    (k.map fun b => if b then (1 : UInt8) else 0) = (k'.map fun b => if b then (1 : UInt8) else 0) → k = k' := by
  intro k
  induction k with
  | nil => intro k' e; cases k' <;> simp_all
  | cons a k ih =>
    intro k' e
    cases k' with
    | nil => simp at e
    | cons b k' =>
      simp only [List.map_cons, List.cons.injEq] at e
      rw [ih k' e.2]
      cases a <;> cases b <;> simp_all

private theorem toy_ok : HashOK toyCtx 8 where
  outLen := fun x => by simp [toyCtx, toyH]
  encLen := fun k hk => by simp [toyCtx, hk]
  encInj := fun k k' hk hk' e => by
    simp only [toyCtx, hk, hk'] at e
    exact toy_map_inj k k' (List.append_inj e (by simp [hk, hk'])).1

private theorem toy_committed (v : UInt8) : Aergo.TrieStore.Committed 2 (toyTree v) := by
  refine ⟨?_, ?_⟩
  · show Canon 8 _
    simp [toyTree, Canon, small]
  · simp [toyTree, Vals32]

set_option maxRecDepth 1000000 in
private theorem toy_good : Aergo.TrieStore.HashGoodOn toyCtx.H (Aergo.TrieStore.hashedAll toyCtx 2 [toyTree 2, toyTree 3]) :=
  ⟨by decide, by decide⟩

/-- test: the hypotheses of `old_roots_live` hold on the two toy trees; the older root is read back after the second commit -/
example : Aergo.TrieStore.getRoot toyCtx (Aergo.TrieStore.storeAfter toyCtx 2 [toyTree 2, toyTree 3]) 8
    (rootOf toyCtx 8 (toyTree 2)) [false, false, false, false, true, true, false, true] = .ok (some (List.replicate 32 2)) :=
  old_roots_live toyCtx 2 toy_ok _ (by intro t ht; simp at ht; rcases ht with rfl | rfl <;> exact toy_committed _) toy_good
    (toyTree 2) (by simp) _ rfl

/-- test: the two toy trees as a history of two blocks (insert both keys; overwrite the second) -/
private def toyBs : List (List (KV Bytes)) :=
  [[([false, false, false, false, false, false, false, true], some (List.replicate 32 1)),
    ([false, false, false, false, true, true, false, true], some (List.replicate 32 2))],
   [([false, false, false, false, true, true, false, true], some (List.replicate 32 3))]]

example : runTrie 8 toyBs = toyTree 3 := by decide

set_option maxRecDepth 1000000 in
/-- test: the hypotheses of `incremental_commits_keep_roots_readable` hold for the toy history (checked by evaluation) -/
private theorem toy_inc_good : Aergo.TrieStore.HashGoodOn toyCtx.H (hashedInc toyCtx 2 toyBs) ∧
    ∀ x ∈ hashedInc toyCtx 2 toyBs, toyCtx.H x ≠ Aergo.TrieStore.zeroKey :=
  ⟨⟨by decide, by decide⟩, by decide⟩

/-- test: an instance — after both blocks, the root of the first block still reads the first value of the second key -/
example : Aergo.TrieStore.getRoot toyCtx (Aergo.TrieStore.runBlocks toyCtx 2 toyBs).1 8
    (rootOf toyCtx 8 (runTrie 8 (toyBs.take 1))) [false, false, false, false, true, true, false, true]
      = .ok (specMap (toyBs.take 1) [false, false, false, false, true, true, false, true]) :=
  incremental_commits_keep_roots_readable toyCtx 2 toy_ok toyBs
    (by
      intro b hb
      simp only [toyBs, List.mem_cons, List.mem_nil_iff, or_false] at hb
      rcases hb with rfl | rfl
      · refine ⟨⟨by simp, ?_⟩, by simp⟩
        simp [cmp]
      · exact ⟨⟨by simp, by simp⟩, by simp⟩)
    (by
      intro b hb kv hkv v hv
      simp only [toyBs, List.mem_cons, List.mem_nil_iff, or_false] at hb
      rcases hb with rfl | rfl
      · simp only [List.mem_cons, List.mem_nil_iff, or_false] at hkv
        rcases hkv with rfl | rfl <;> (simp only [Option.some.injEq] at hv; subst hv; rfl)
      · simp only [List.mem_cons, List.mem_nil_iff, or_false] at hkv
        subst hkv; simp only [Option.some.injEq] at hv; subst hv; rfl)
    toy_inc_good.1 toy_inc_good.2 1 (by simp [toyBs]) _ rfl

/-! Non-vacuity (tests on concrete values, not proofs of the general claims): a height-3 history
with an insertion on both sides of a deleted shortcut — the shape that was broken before the
`fix:` commit — is legal, and equals the one-batch history with the same contents. -/

private def k (a b c : Bool) : List Bool := [a, b, c]

example : Legal 3 ([[(k false true false, some 7)],
                    [(k false false true, some 1), (k false true false, none), (k true false false, some 3)]] : List (List (KV Nat))) := by
  simp [Legal, WF, k, cmp]
  rintro a b (⟨rfl, _⟩ | ⟨rfl, _⟩ | ⟨rfl, _⟩) <;> rfl

example : runTrie 3 ([[(k false true false, some 7)],
                      [(k false false true, some 1), (k false true false, none), (k true false false, some 3)]] : List (List (KV Nat)))
        = runTrie 3 [[(k false false true, some 1), (k true false false, some 3)]] := by
  decide

end Aergo.Props.C10
