/-
C11 — Merkle proofs for accounts and contract variables are sound and complete.

"For every state root and every key, the node can produce a proof (plain or compressed) of the
key's current value or of its absence that a verifier accepts against that root. No proof is
accepted for a value different from the stored one, for presence of an absent key, or for absence
of a present key; in particular a proof generated for one key, value, root or height never
verifies for another."

Model: `Aergo.Model.Trie` (`merkleProof`, `verifyInclusion`, `verifyNonInclusion`, compressed
forms; pkg/trie/trie_merkle_proof.go after the `fix:` commit 7894a3b8) over the trie model of C10.
The hash function `c.H` and the key packing `c.enc` are *parameters*; what is assumed of them is
`HashOK` (32-byte digests; 32-byte injective key packing). Theorems are for every trie height,
every canonical trie (every reachable trie is canonical: `Props.C10.reachable_canonical`), every
key and every audit path.

Soundness is in reduction form with EXPLICIT witnesses: "accepted ⇒ claim true, or `BrokenOn H A B`",
where `A` are the strings hashed to compute the root and `B` the strings the verifier hashed: a
collision between them, or two of their digests overlapping shifted by one byte. (An unrestricted
"∃ collision" would be vacuous by pigeonhole.)

FINDING carried by this file: soundness of the *empty-subtree* non-inclusion proof does NOT hold
from collision resistance alone. An empty child is hashed as the single byte 00 with no domain
separation, so `(empty, h)` and `(00 ++ h[0..31), empty)` have the same pre-image whenever `h`
ends in 00: `excl_forgeable` below proves, for EVERY hash function, that the verifier then accepts
absence of every key under that child — including present ones (replayed on the real code: known
finding C11-default-leaf-ambiguity). `sound_excl_default_partial` is proved under exactly the
guard `NoZeroEdge` that excludes it.

Not carried by a theorem: serialisation of AccountProof/ContractVarProof, loading the value behind
the 32-byte leaf (`GetAccountAndProof`), exercised on the real code by the c11 harness only.
-/
import Aergo.Lemmas.TrieComplete

namespace Aergo.Props.C11
open Aergo.Trie
variable {c : HashCtx} {Ht : Nat}

private theorem beq_bytes {a b : Bytes} : (a == b) = true ↔ a = b := by simp

private theorem rootOf_ne {t : T Bytes} (h : t ≠ .empty) : rootOf c Ht t = hashT c Ht [] t := by
  cases t <;> simp_all [rootOf]

private theorem take_take_append (k sk : List Bool) (n : Nat) (h : n ≤ k.length) :
    (k.take n ++ sk).take n = k.take n := by
  rw [List.take_append_of_le_length (by simp; omega)]
  simp [List.take_take]

private theorem sib_len (ap : List (Sib Bytes)) : (sibHashes c ap).length = ap.length := by simp [sibHashes]

/-- **Completeness, inclusion**: the proof the node produces for a present key verifies. -/
theorem complete_incl (t : T Bytes) (k : List Bool) (v : Bytes) (cn : Canon Ht t) (hk : k.length = Ht)
    (g : Trie.get t k = some v) :
    verifyInclusion c Ht (rootOf c Ht t) (sibHashes c (merkleProof Ht [] t k).ap) k v = true := by
  have hne : t ≠ .empty := by intro e; rw [e] at g; simp [Trie.get] at g
  obtain ⟨_, _, hb⟩ := bottom_present (c := c) t Ht [] k v cn hk g
  simp only [verifyInclusion, beq_bytes, rootOf_ne hne, sib_len]
  rw [path_hash (c := c) t Ht [] k, hb]
  simp

/-- **Completeness, absence**: the proof the node produces for an absent key verifies — both when
the path ends in an empty subtree and when it ends in a foreign leaf; the empty trie included. -/
theorem complete_excl (t : T Bytes) (k : List Bool) (cn : Canon Ht t) (hk : k.length = Ht)
    (g : Trie.get t k = none) :
    let pr := merkleProof Ht [] t k
    verifyNonInclusion c Ht (rootOf c Ht t) (sibHashes c pr.ap) k
      (match pr.proofKV with | some kv => kv.2 | none => []) (pr.proofKV.map (·.1)) = true := by
  intro pr
  obtain ⟨_, hcase⟩ := bottom_absent (c := c) t Ht [] k cn hk g
  have hlen := ap_len t Ht [] k cn hk
  rcases hcase with ⟨hnone, hb⟩ | ⟨sk, sv, hsome, hne, hskl, hb⟩
  · -- empty subtree on the path
    have e1 : pr.proofKV = none := hnone
    simp only [e1, Option.map_none, verifyNonInclusion]
    by_cases hap : (sibHashes c pr.ap).isEmpty = true
    · simp only [hap, ↓reduceIte]
      -- no sibling: the path ends at the root, which is therefore empty
      have : pr.ap = [] := by simpa [sibHashes] using hap
      cases t with
      | empty => simp [rootOf]
      | leaf sk sv =>
        exfalso
        have hne : sk ≠ k := by
          intro e; rw [e] at g; simp [Trie.get] at g
        simp [pr, merkleProof, hne] at e1
      | node l r =>
        exfalso
        cases k with
        | nil =>
          have : Ht = 0 := by simpa using hk.symm
          subst this
          simp [Canon] at cn
        | cons b ks => cases b <;> simp [pr, merkleProof] at this
    · have hap' : (sibHashes c pr.ap).isEmpty = false := by simpa using hap
      simp only [hap', Bool.false_eq_true, ↓reduceIte, beq_bytes]
      have hne : t ≠ .empty := by
        intro e; apply hap; simp [pr, e, merkleProof, sibHashes]
      rw [rootOf_ne hne, path_hash (c := c) t Ht [] k, hb]
  · -- a foreign leaf on the path
    have e1 : pr.proofKV = some ([] ++ k.take pr.ap.length ++ sk, sv) := hsome
    have hne' : t ≠ .empty := by
      intro e; simp [pr, e, merkleProof] at e1
    simp only [e1, Option.map_some, verifyNonInclusion, List.nil_append]
    have hpk : k.take pr.ap.length ++ sk ≠ k := by
      intro e
      apply hne
      have e' : k.take pr.ap.length ++ sk = k.take pr.ap.length ++ k.drop pr.ap.length := by
        rw [List.take_append_drop]; exact e
      exact List.append_cancel_left e'
    simp only [hpk, ↓reduceIte, Bool.and_eq_true, beq_iff_eq, sib_len]
    constructor
    · simp only [verifyInclusion, beq_bytes, rootOf_ne hne', sib_len]
      rw [path_hash (c := c) t Ht [] k, hb]
      simp only [List.nil_append]
      apply vUp_take
      · simp only [List.length_reverse, sib_len]
        exact (take_take_append k sk _ (by rw [hk]; exact hlen)).symm
      · simp only [List.length_reverse, sib_len, hk]; exact hlen
      · simp only [List.length_reverse, sib_len, List.length_append, List.length_take, hk, pr]
        have := hlen
        omega
    · exact (take_take_append k sk _ (by rw [hk]; exact hlen)).symm

/-- **Soundness, inclusion**: an accepted inclusion proof for `(k, v)` means the trie holds
`k ↦ v` — or the hash function is exhibited broken on the strings hashed by the two sides.
(`WfSib`: audit-path elements are 32 bytes or `DefaultLeaf`, as the node produces them; the Go
verifier does not check this, a verifier should.) -/
theorem sound_incl (ok : HashOK c Ht) (t : T Bytes) (k : List Bool) (v : Bytes) (ap : List Bytes)
    (cn : Canon Ht t) (v32 : Vals32 t) (hk : k.length = Ht) (hv : v.length = 32)
    (hw : ∀ s ∈ ap, WfSib s) (hl : ap.length ≤ Ht)
    (acc : verifyInclusion c Ht (rootOf c Ht t) ap k v = true) :
    Trie.get t k = some v ∨
      BrokenOn c.H (hashedT c Ht [] t) (hashedUp c k ap.reverse (c.enc k ++ v ++ [byteOf (Ht - ap.length)])) := by
  simp only [verifyInclusion, beq_bytes] at acc
  by_cases hne : t = .empty
  · rw [hne] at acc
    have := congrArg List.length acc
    rw [vUp_len ok _ _ _ (ok.outLen _)] at this
    simp [rootOf] at this
  · rw [rootOf_ne hne] at acc
    have := sound_desc ok ap.reverse Ht [] t k k v cn v32 (by simp) hk (by simp) hv
      (by simpa using hw) (by simpa using hl) (by simpa using acc)
    simp only [List.length_reverse] at this
    rcases this with s | br
    · left
      rw [get_subAt _ _ _ _ s]
      simp [Trie.get]
    · exact Or.inr br

/-- A value is bound: two accepted inclusion proofs for the same key against the same root carry
the same value (no proof "for a value different from the stored one"). -/
theorem no_second_value (ok : HashOK c Ht) (t : T Bytes) (k : List Bool) (v v' : Bytes) (ap ap' : List Bytes)
    (cn : Canon Ht t) (v32 : Vals32 t) (hk : k.length = Ht) (hv : v.length = 32) (hv' : v'.length = 32)
    (hw : ∀ s ∈ ap, WfSib s) (hw' : ∀ s ∈ ap', WfSib s) (hl : ap.length ≤ Ht) (hl' : ap'.length ≤ Ht)
    (acc : verifyInclusion c Ht (rootOf c Ht t) ap k v = true)
    (acc' : verifyInclusion c Ht (rootOf c Ht t) ap' k v' = true) :
    v = v' ∨
      BrokenOn c.H (hashedT c Ht [] t) (hashedUp c k ap.reverse (c.enc k ++ v ++ [byteOf (Ht - ap.length)])) ∨
      BrokenOn c.H (hashedT c Ht [] t) (hashedUp c k ap'.reverse (c.enc k ++ v' ++ [byteOf (Ht - ap'.length)])) := by
  rcases sound_incl ok t k v ap cn v32 hk hv hw hl acc with g | br
  · rcases sound_incl ok t k v' ap' cn v32 hk hv' hw' hl' acc' with g' | br'
    · left; rw [g] at g'; exact Option.some.inj g'
    · exact Or.inr (Or.inr br')
  · exact Or.inr (Or.inl br)

/-- **Soundness, absence by a foreign leaf**: if the verifier accepts `(proofKey, value)` as a leaf
on the path of `k`, then `k` is absent — or the hash function is exhibited broken. In particular a
present key can no longer be "proved absent" with its own leaf (`fix:` 7894a3b8). -/
theorem sound_excl_leaf (ok : HashOK c Ht) (t : T Bytes) (k pk : List Bool) (pv : Bytes) (ap : List Bytes)
    (cn : Canon Ht t) (v32 : Vals32 t) (hk : k.length = Ht) (hpk : pk.length = Ht) (hv : pv.length = 32)
    (hw : ∀ s ∈ ap, WfSib s) (hl : ap.length ≤ Ht)
    (acc : verifyNonInclusion c Ht (rootOf c Ht t) ap k pv (some pk) = true) :
    Trie.get t k = none ∨
      BrokenOn c.H (hashedT c Ht [] t) (hashedUp c pk ap.reverse (c.enc pk ++ pv ++ [byteOf (Ht - ap.length)])) := by
  simp only [verifyNonInclusion] at acc
  split at acc
  · cases acc
  · rename_i hne
    simp only [Bool.and_eq_true, beq_iff_eq] at acc
    obtain ⟨a1, a2⟩ := acc
    simp only [verifyInclusion, beq_bytes] at a1
    by_cases hte : t = .empty
    · left; rw [hte]; simp [Trie.get]
    · rw [rootOf_ne hte] at a1
      have := sound_desc ok ap.reverse Ht [] t pk pk pv cn v32 (by simp) hpk (by simp) hv
        (by simpa using hw) (by simpa using hl) (by simpa using a1)
      simp only [List.length_reverse] at this
      rcases this with s | br
      · left
        rw [subAt_take ap.length t pk k a2.symm (by omega) (by omega)] at s
        rw [get_subAt _ _ _ _ s]
        simp only [Trie.get]
        split
        · rename_i e
          exfalso; apply hne
          rw [← List.take_append_drop ap.length pk, ← List.take_append_drop ap.length k, e, a2]
        · rfl
      · exact Or.inr br

/-- **Soundness, absence by an empty subtree — PARTIAL**: under `NoZeroEdge` (no interior node with
an empty child whose sibling's digest could be re-read with the `DefaultLeaf` byte on the other
side). The full statement (without the guard) is false: see `excl_forgeable`. -/
theorem sound_excl_default_partial (ok : HashOK c Ht) (t : T Bytes) (k : List Bool) (ap : List Bytes) (pv : Bytes)
    (cn : Canon Ht t) (v32 : Vals32 t) (nz : NoZeroEdge c Ht [] t) (hk : k.length = Ht)
    (hw : ∀ s ∈ ap, WfSib s) (hl : ap.length ≤ Ht)
    (acc : verifyNonInclusion c Ht (rootOf c Ht t) ap k pv none = true) :
    Trie.get t k = none ∨ BrokenOn c.H (hashedT c Ht [] t) (hashedUpD c k ap.reverse) := by
  simp only [verifyNonInclusion] at acc
  by_cases hte : t = .empty
  · left; rw [hte]; simp [Trie.get]
  · split at acc
    · -- no audit path: the verifier demands an empty root, but a non-empty trie has a 32-byte root
      have : (rootOf c Ht t).length = 32 := by
        rw [rootOf_ne hte]
        rcases hashT_empty_or_len ok Ht [] t with ⟨e, _⟩ | ⟨_, l⟩
        · exact absurd e hte
        · exact l
      have e0 : rootOf c Ht t = [] := by simpa using acc
      rw [e0] at this; simp at this
    · rw [rootOf_ne hte, beq_bytes] at acc
      have := sound_desc_default ok ap.reverse Ht [] t k cn v32 nz (by simp) hk
        (by simpa using hw) (by simpa using hl) acc
      simp only [List.length_reverse] at this
      rcases this with s | br
      · left; rw [get_subAt _ _ _ _ s]; simp [Trie.get]
      · exact Or.inr br

/-- **The empty-subtree absence proof is forgeable, for every hash function**: if the left child of a
node is empty and the digest of its right child ends in the byte 00 (`= x ++ [0]`), the verifier
accepts "an empty subtree lies on the path" for EVERY key below the right child, present or not,
with the sibling `00 ++ x` — because `00 ++ (x ++ 00) = (00 ++ x) ++ 00`. (Stated at the root for
brevity; deeper nodes only add the genuine siblings above.) -/
theorem excl_forgeable (h' : Nat) (r : T Bytes) (x : Bytes) (ks : List Bool) (pv : Bytes)
    (hx : hashT c h' [true] r = x ++ defaultLeaf) :
    verifyNonInclusion c (h' + 1) (rootOf c (h' + 1) (.node .empty r)) [defaultLeaf ++ x] (true :: ks) pv none = true := by
  simp [verifyNonInclusion, rootOf, hashT, vUp, hx, defaultLeaf]

/-- ... in particular for a key that IS in the trie: acceptance of a false absence claim without any
collision (the negation of the unguarded soundness statement, in the model; replayed on the real
code by the c11 harness, known finding C11-default-leaf-ambiguity). -/
theorem excl_forgeable_present (h' : Nat) (r : T Bytes) (x : Bytes) (ks : List Bool) (v pv : Bytes)
    (hx : hashT c h' [true] r = x ++ defaultLeaf) (hpresent : Trie.get r ks = some v) :
    Trie.get (.node .empty r) (true :: ks) = some v ∧
    verifyNonInclusion c (h' + 1) (rootOf c (h' + 1) (.node .empty r)) [defaultLeaf ++ x] (true :: ks) pv none = true :=
  ⟨by simpa [Trie.get] using hpresent, excl_forgeable h' r x ks pv hx⟩

/-- **Compressed = plain**: the compressed verifier computes exactly what the plain one computes on
the expanded audit path (`none` = the Go code's index-out-of-range panic, on both sides). -/
theorem compressed_equiv : ∀ (bits : List Bool) (k : List Bool) (ap : List Bytes) (leaf : Bytes),
    bits.length ≤ k.length →
    vUpC c k bits ap leaf = (expand bits ap).map fun full => vUp c k full leaf := by
  intro bits
  induction bits with
  | nil => intro k ap leaf _; cases k <;> simp [vUpC, expand, vUp]
  | cons bt bits ih =>
    intro k ap leaf hl
    match k, hl with
    | b :: ks, hl =>
      have hl' : bits.length ≤ ks.length := by simpa using hl
      cases bt with
      | true =>
        cases ap with
        | nil => simp [vUpC, expand]
        | cons s rest =>
          simp only [vUpC, expand, Option.map_map]
          rw [ih ks rest leaf hl']
          cases expand bits rest <;> simp [vUp]
      | false =>
        simp only [vUpC, expand, Option.map_map]
        rw [ih ks ap leaf hl']
        cases expand bits ap <;> simp [vUp]

/-- The assumptions on the hash context are satisfiable (test on a concrete instance: a 32-byte
constant "digest" and an injective toy key packing for height 0). -/
example : HashOK ⟨fun _ => List.replicate 32 0, fun _ => List.replicate 32 0⟩ 0 :=
  ⟨by simp, by simp, by intro k k' h h' _; rw [List.length_eq_zero_iff.mp h, List.length_eq_zero_iff.mp h']⟩

end Aergo.Props.C11
