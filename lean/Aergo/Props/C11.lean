/-
C11 — Merkle proofs for accounts and contract variables are sound and complete.

"For every state root and every key, the node can produce a proof (plain or compressed) of the
key's current value or of its absence that a verifier accepts against that root. No proof is
accepted for a value different from the stored one, for presence of an absent key, or for absence
of a present key; in particular a proof generated for one key, value, root or height never
verifies for another."

Model: `Aergo.Model.Trie` (`merkleProof`, `verifyInclusion`, `verifyNonInclusion`, compressed
forms; pkg/trie/trie_merkle_proof.go after the `fix:` commit 7894a3b8) over the trie model of C10.
The hash function `c.H` and the key packing `c.enc` are *parameters*; what is assumed of them is
`HashOK` (32-byte digests; 32-byte injective key packing). Theorems are for every trie height,
every canonical trie (every reachable trie is canonical: `Props.C10.reachable_canonical`), every
key and every audit path.

Soundness is in reduction form with EXPLICIT witnesses: "accepted ⇒ claim true, or `BrokenOn H A B`",
where `A` are the strings hashed to compute the root and `B` the strings the verifier hashed: a
collision between them, or two of their digests overlapping shifted by one byte. (An unrestricted
"∃ collision" would be vacuous by pigeonhole.)

FINDING carried by this file: soundness of the *empty-subtree* non-inclusion proof does NOT hold
from collision resistance alone. An empty child is hashed as the single byte 00 with no domain
separation, so `(empty, h)` and `(00 ++ h[0..31), empty)` have the same pre-image whenever `h`
ends in 00: `excl_forgeable` below proves, for EVERY hash function, that the verifier then accepts
absence of every key under that child — including present ones (replayed on the real code: known
finding C11-default-leaf-ambiguity). `sound_excl_default_partial` is proved under exactly the
guard `NoZeroEdge` that excludes it.

Compressed proofs are modelled at the byte level in `Aergo.Model.TrieCompress` (`compress` =
`merkleProofCompressed`, `verifyInclusionC`/`verifyNonInclusionC` reading a bitmap): generation, completeness and
soundness transfer by theorem (`compress_expand`, `complete_*_compressed`, `sound_incl_compressed`).

The node's answers (`StateDB.GetAccountAndProof`, `GetVarAndProof` after fix cdf2eb39) are modelled there too
(`assemble`, `getAccountProof`, `getVarProof`) together with what a light client does with them (`walletAccepts`):
`account_proof_complete`, `var_proof_complete`, `wallet_sound`. SECOND FINDING carried by this file:
before fix cdf2eb39 a contract without storage (nil storage root) was answered from the ACCOUNT trie
(`foreign_trie_answer_rejected`: such an answer never verifies; found and replayed by the c11 harness, repaired).

LENGTH PRECONDITIONS. Every soundness theorem assumes key = trie height bits, value = 32 bytes, audit-path elements
32 bytes or `DefaultLeaf`. The Go verifiers check none of it and `common.Hasher` concatenates its arguments:
`split_ambiguity` / `short_key_accepted` prove that `VerifyInclusion(ap, key[:31], key[31:] ++ value)` is accepted
whenever `(key, value)` is (probed on the real code by the harness). So "a proof generated for one key/value never
verifies for another" holds for claims of the right lengths only; the node's clients compute both as SHA-256 digests.

Not carried by a theorem: protobuf serialisation of AccountProof/ContractVarProof/StateQueryProof, the name resolution
and the loop of `ChainWorker.Receive(GetStateQuery)`, the content-addressed value store (hypothesis `Addressed`):
exercised on the real code by the c11 harness (wallet-style oracle after a protobuf round trip).
-/
import Aergo.Lemmas.TrieCompress

namespace Aergo.Props.C11
open Aergo.Trie
variable {c : HashCtx} {Ht : Nat}

private theorem beq_bytes {a b : Bytes} : (a == b) = true ↔ a = b := by simp

private theorem rootOf_ne {t : T Bytes} (h : t ≠ .empty) : rootOf c Ht t = hashT c Ht [] t := by
  cases t <;> simp_all [rootOf]

private theorem take_take_append (k sk : List Bool) (n : Nat) (h : n ≤ k.length) :
    (k.take n ++ sk).take n = k.take n := by
  rw [List.take_append_of_le_length (by simp; omega)]
  simp [List.take_take]

private theorem sib_len (ap : List (Sib Bytes)) : (sibHashes c ap).length = ap.length := by simp [sibHashes]

/-- **Completeness, inclusion**: the proof the node produces for a present key verifies. -/
theorem complete_incl (t : T Bytes) (k : List Bool) (v : Bytes) (cn : Canon Ht t) (hk : k.length = Ht)
    (g : Trie.get t k = some v) :
    verifyInclusion c Ht (rootOf c Ht t) (sibHashes c (merkleProof Ht [] t k).ap) k v = true := by
  have hne : t ≠ .empty := by intro e; rw [e] at g; simp [Trie.get] at g
  obtain ⟨_, _, hb⟩ := bottom_present (c := c) t Ht [] k v cn hk g
  simp only [verifyInclusion, beq_bytes, rootOf_ne hne, sib_len]
  rw [path_hash (c := c) t Ht [] k, hb]
  simp

/-- **Completeness, absence**: the proof the node produces for an absent key verifies — both when
the path ends in an empty subtree and when it ends in a foreign leaf; the empty trie included. -/
theorem complete_excl (t : T Bytes) (k : List Bool) (cn : Canon Ht t) (hk : k.length = Ht)
    (g : Trie.get t k = none) :
    let pr := merkleProof Ht [] t k
    verifyNonInclusion c Ht (rootOf c Ht t) (sibHashes c pr.ap) k
      (match pr.proofKV with | some kv => kv.2 | none => []) (pr.proofKV.map (·.1)) = true := by
  intro pr
  obtain ⟨_, hcase⟩ := bottom_absent (c := c) t Ht [] k cn hk g
  have hlen := ap_len t Ht [] k cn hk
  rcases hcase with ⟨hnone, hb⟩ | ⟨sk, sv, hsome, hne, hskl, hb⟩
  · -- empty subtree on the path
    have e1 : pr.proofKV = none := hnone
    simp only [e1, Option.map_none, verifyNonInclusion]
    by_cases hap : (sibHashes c pr.ap).isEmpty = true
    · simp only [hap, ↓reduceIte]
      -- no sibling: the path ends at the root, which is therefore empty
      have : pr.ap = [] := by simpa [sibHashes] using hap
      cases t with
      | empty => simp [rootOf]
      | leaf sk sv =>
        exfalso
        have hne : sk ≠ k := by
          intro e; rw [e] at g; simp [Trie.get] at g
        simp [pr, merkleProof, hne] at e1
      | node l r =>
        exfalso
        cases k with
        | nil =>
          have : Ht = 0 := by simpa using hk.symm
          subst this
          simp [Canon] at cn
        | cons b ks => cases b <;> simp [pr, merkleProof] at this
    · have hap' : (sibHashes c pr.ap).isEmpty = false := by simpa using hap
      simp only [hap', Bool.false_eq_true, ↓reduceIte, beq_bytes]
      have hne : t ≠ .empty := by
        intro e; apply hap; simp [pr, e, merkleProof, sibHashes]
      rw [rootOf_ne hne, path_hash (c := c) t Ht [] k, hb]
  · -- a foreign leaf on the path
    have e1 : pr.proofKV = some ([] ++ k.take pr.ap.length ++ sk, sv) := hsome
    have hne' : t ≠ .empty := by
      intro e; simp [pr, e, merkleProof] at e1
    simp only [e1, Option.map_some, verifyNonInclusion, List.nil_append]
    have hpk : k.take pr.ap.length ++ sk ≠ k := by
      intro e
      apply hne
      have e' : k.take pr.ap.length ++ sk = k.take pr.ap.length ++ k.drop pr.ap.length := by
        rw [List.take_append_drop]; exact e
      exact List.append_cancel_left e'
    simp only [hpk, ↓reduceIte, Bool.and_eq_true, beq_iff_eq, sib_len]
    constructor
    · simp only [verifyInclusion, beq_bytes, rootOf_ne hne', sib_len]
      rw [path_hash (c := c) t Ht [] k, hb]
      simp only [List.nil_append]
      apply vUp_take
      · simp only [List.length_reverse, sib_len]
        exact (take_take_append k sk _ (by rw [hk]; exact hlen)).symm
      · simp only [List.length_reverse, sib_len, hk]; exact hlen
      · simp only [List.length_reverse, sib_len, List.length_append, List.length_take, hk, pr]
        have := hlen
        omega
    · exact (take_take_append k sk _ (by rw [hk]; exact hlen)).symm

/-- **Soundness, inclusion**: an accepted inclusion proof for `(k, v)` means the trie holds
`k ↦ v` — or the hash function is exhibited broken on the strings hashed by the two sides.
(`WfSib`: audit-path elements are 32 bytes or `DefaultLeaf`, as the node produces them; the Go
verifier does not check this, a verifier should.) -/
theorem sound_incl (ok : HashOK c Ht) (t : T Bytes) (k : List Bool) (v : Bytes) (ap : List Bytes)
    (cn : Canon Ht t) (v32 : Vals32 t) (hk : k.length = Ht) (hv : v.length = 32)
    (hw : ∀ s ∈ ap, WfSib s) (hl : ap.length ≤ Ht)
    (acc : verifyInclusion c Ht (rootOf c Ht t) ap k v = true) :
    Trie.get t k = some v ∨
      BrokenOn c.H (hashedT c Ht [] t) (hashedUp c k ap.reverse (c.enc k ++ v ++ [byteOf (Ht - ap.length)])) := by
  simp only [verifyInclusion, beq_bytes] at acc
  by_cases hne : t = .empty
  · rw [hne] at acc
    have := congrArg List.length acc
    rw [vUp_len ok _ _ _ (ok.outLen _)] at this
    simp [rootOf] at this
  · rw [rootOf_ne hne] at acc
    have := sound_desc ok ap.reverse Ht [] t k k v cn v32 (by simp) hk (by simp) hv
      (by simpa using hw) (by simpa using hl) (by simpa using acc)
    simp only [List.length_reverse] at this
    rcases this with s | br
    · left
      rw [get_subAt _ _ _ _ s]
      simp [Trie.get]
    · exact Or.inr br

/-- A value is bound: two accepted inclusion proofs for the same key against the same root carry
the same value (no proof "for a value different from the stored one"). -/
theorem no_second_value (ok : HashOK c Ht) (t : T Bytes) (k : List Bool) (v v' : Bytes) (ap ap' : List Bytes)
    (cn : Canon Ht t) (v32 : Vals32 t) (hk : k.length = Ht) (hv : v.length = 32) (hv' : v'.length = 32)
    (hw : ∀ s ∈ ap, WfSib s) (hw' : ∀ s ∈ ap', WfSib s) (hl : ap.length ≤ Ht) (hl' : ap'.length ≤ Ht)
    (acc : verifyInclusion c Ht (rootOf c Ht t) ap k v = true)
    (acc' : verifyInclusion c Ht (rootOf c Ht t) ap' k v' = true) :
    v = v' ∨
      BrokenOn c.H (hashedT c Ht [] t) (hashedUp c k ap.reverse (c.enc k ++ v ++ [byteOf (Ht - ap.length)])) ∨
      BrokenOn c.H (hashedT c Ht [] t) (hashedUp c k ap'.reverse (c.enc k ++ v' ++ [byteOf (Ht - ap'.length)])) := by
  rcases sound_incl ok t k v ap cn v32 hk hv hw hl acc with g | br
  · rcases sound_incl ok t k v' ap' cn v32 hk hv' hw' hl' acc' with g' | br'
    · left; rw [g] at g'; exact Option.some.inj g'
    · exact Or.inr (Or.inr br')
  · exact Or.inr (Or.inl br)

/-- **Soundness, absence by a foreign leaf**: if the verifier accepts `(proofKey, value)` as a leaf
on the path of `k`, then `k` is absent — or the hash function is exhibited broken. In particular a
present key can no longer be "proved absent" with its own leaf (`fix:` 7894a3b8). -/
theorem sound_excl_leaf (ok : HashOK c Ht) (t : T Bytes) (k pk : List Bool) (pv : Bytes) (ap : List Bytes)
    (cn : Canon Ht t) (v32 : Vals32 t) (hk : k.length = Ht) (hpk : pk.length = Ht) (hv : pv.length = 32)
    (hw : ∀ s ∈ ap, WfSib s) (hl : ap.length ≤ Ht)
    (acc : verifyNonInclusion c Ht (rootOf c Ht t) ap k pv (some pk) = true) :
    Trie.get t k = none ∨
      BrokenOn c.H (hashedT c Ht [] t) (hashedUp c pk ap.reverse (c.enc pk ++ pv ++ [byteOf (Ht - ap.length)])) := by
  simp only [verifyNonInclusion] at acc
  split at acc
  · cases acc
  · rename_i hne
    simp only [Bool.and_eq_true, beq_iff_eq] at acc
    obtain ⟨a1, a2⟩ := acc
    simp only [verifyInclusion, beq_bytes] at a1
    by_cases hte : t = .empty
    · left; rw [hte]; simp [Trie.get]
    · rw [rootOf_ne hte] at a1
      have := sound_desc ok ap.reverse Ht [] t pk pk pv cn v32 (by simp) hpk (by simp) hv
        (by simpa using hw) (by simpa using hl) (by simpa using a1)
      simp only [List.length_reverse] at this
      rcases this with s | br
      · left
        rw [subAt_take ap.length t pk k a2.symm (by omega) (by omega)] at s
        rw [get_subAt _ _ _ _ s]
        simp only [Trie.get]
        split
        · rename_i e
          exfalso; apply hne
          rw [← List.take_append_drop ap.length pk, ← List.take_append_drop ap.length k, e, a2]
        · rfl
      · exact Or.inr br

/-- **Soundness, absence by an empty subtree — PARTIAL**: under `NoZeroEdge` (no interior node with
an empty child whose sibling's digest could be re-read with the `DefaultLeaf` byte on the other
side). The full statement (without the guard) is false: see `excl_forgeable`. -/
theorem sound_excl_default_partial (ok : HashOK c Ht) (t : T Bytes) (k : List Bool) (ap : List Bytes) (pv : Bytes)
    (cn : Canon Ht t) (v32 : Vals32 t) (nz : NoZeroEdge c Ht [] t) (hk : k.length = Ht)
    (hw : ∀ s ∈ ap, WfSib s) (hl : ap.length ≤ Ht)
    (acc : verifyNonInclusion c Ht (rootOf c Ht t) ap k pv none = true) :
    Trie.get t k = none ∨ BrokenOn c.H (hashedT c Ht [] t) (hashedUpD c k ap.reverse) := by
  simp only [verifyNonInclusion] at acc
  by_cases hte : t = .empty
  · left; rw [hte]; simp [Trie.get]
  · split at acc
    · -- no audit path: the verifier demands an empty root, but a non-empty trie has a 32-byte root
      have : (rootOf c Ht t).length = 32 := by
        rw [rootOf_ne hte]
        rcases hashT_empty_or_len ok Ht [] t with ⟨e, _⟩ | ⟨_, l⟩
        · exact absurd e hte
        · exact l
      have e0 : rootOf c Ht t = [] := by simpa using acc
      rw [e0] at this; simp at this
    · rw [rootOf_ne hte, beq_bytes] at acc
      have := sound_desc_default ok ap.reverse Ht [] t k cn v32 nz (by simp) hk
        (by simpa using hw) (by simpa using hl) acc
      simp only [List.length_reverse] at this
      rcases this with s | br
      · left; rw [get_subAt _ _ _ _ s]; simp [Trie.get]
      · exact Or.inr br

/-- **The empty-subtree absence proof is forgeable, for every hash function**: if the left child of a
node is empty and the digest of its right child ends in the byte 00 (`= x ++ [0]`), the verifier
accepts "an empty subtree lies on the path" for EVERY key below the right child, present or not,
with the sibling `00 ++ x` — because `00 ++ (x ++ 00) = (00 ++ x) ++ 00`. (Stated at the root for
brevity; deeper nodes only add the genuine siblings above.) -/
theorem excl_forgeable (h' : Nat) (r : T Bytes) (x : Bytes) (ks : List Bool) (pv : Bytes)
    (hx : hashT c h' [true] r = x ++ defaultLeaf) :
    verifyNonInclusion c (h' + 1) (rootOf c (h' + 1) (.node .empty r)) [defaultLeaf ++ x] (true :: ks) pv none = true := by
  simp [verifyNonInclusion, rootOf, hashT, vUp, hx, defaultLeaf]

/-- ... in particular for a key that IS in the trie: acceptance of a false absence claim without any
collision (the negation of the unguarded soundness statement, in the model; replayed on the real
code by the c11 harness, known finding C11-default-leaf-ambiguity). -/
theorem excl_forgeable_present (h' : Nat) (r : T Bytes) (x : Bytes) (ks : List Bool) (v pv : Bytes)
    (hx : hashT c h' [true] r = x ++ defaultLeaf) (hpresent : Trie.get r ks = some v) :
    Trie.get (.node .empty r) (true :: ks) = some v ∧
    verifyNonInclusion c (h' + 1) (rootOf c (h' + 1) (.node .empty r)) [defaultLeaf ++ x] (true :: ks) pv none = true :=
  ⟨by simpa [Trie.get] using hpresent, excl_forgeable h' r x ks pv hx⟩

/-- **Compressed = plain**: the compressed verifier computes exactly what the plain one computes on
the expanded audit path (`none` = the Go code's index-out-of-range panic, on both sides). -/
theorem compressed_equiv : ∀ (bits : List Bool) (k : List Bool) (ap : List Bytes) (leaf : Bytes),
    bits.length ≤ k.length →
    vUpC c k bits ap leaf = (expand bits ap).map fun full => vUp c k full leaf := by
  intro bits
  induction bits with
  | nil => intro k ap leaf _; cases k <;> simp [vUpC, expand, vUp]
  | cons bt bits ih =>
    intro k ap leaf hl
    match k, hl with
    | b :: ks, hl =>
      have hl' : bits.length ≤ ks.length := by simpa using hl
      cases bt with
      | true =>
        cases ap with
        | nil => simp [vUpC, expand]
        | cons s rest =>
          simp only [vUpC, expand, Option.map_map]
          rw [ih ks rest leaf hl']
          cases expand bits rest <;> simp [vUp]
      | false =>
        simp only [vUpC, expand, Option.map_map]
        rw [ih ks ap leaf hl']
        cases expand bits ap <;> simp [vUp]

/-! ### Compressed proofs: generation, completeness, soundness (byte level) -/

/-- **Compressed generation**: from what `merkleProofCompressed` makes of a plain audit path `ap`
(bitmap of `len/8+1` bytes, the non-default siblings, the length) the compressed verifier reads back
exactly `ap` (root first): compress, then expand, is the identity. -/
theorem compress_expand (ap : List Bytes) :
    (readBits (compress ap).1 (compress ap).2.2).bind (fun bits => expand bits (compress ap).2.1.reverse)
      = some ap.reverse := by
  have e1 : (compress ap).2.2 = ap.length := rfl
  have e2 : (compress ap).2.1 = ap.filter stored := rfl
  rw [e1, e2, readBits_compress]
  simp only [Option.bind_some]
  rw [← List.map_reverse, ← List.filter_reverse]
  exact expand_stored ap.reverse

private theorem rootC_compress (key : List Bool) (leaf : Bytes) (ap : List Bytes) (hl : ap.length ≤ key.length) :
    rootC c (compress ap).1 key leaf (compress ap).2.1 (compress ap).2.2 = some (vUp c key ap.reverse leaf) := by
  have e1 : (compress ap).2.2 = ap.length := rfl
  have e2 : (compress ap).2.1 = ap.filter stored := rfl
  simp only [rootC, e1, e2, readBits_compress]
  have : ¬ ap.length > key.length := by omega
  simp only [this, ↓reduceIte]
  rw [compressed_equiv _ _ _ _ (by simpa using hl), ← List.map_reverse, ← List.filter_reverse, expand_stored]
  rfl

/-- The node's compressed inclusion proof is judged exactly like its plain one (no panic). -/
theorem verifyInclusionC_compress (root : Bytes) (key : List Bool) (value : Bytes) (ap : List Bytes)
    (hl : ap.length ≤ key.length) :
    verifyInclusionC c Ht root (compress ap).1 key value (compress ap).2.1 (compress ap).2.2
      = some (verifyInclusion c Ht root ap key value) := by
  simp only [verifyInclusionC, rootC_compress _ _ _ hl, Option.map_some, verifyInclusion]
  rfl

/-- The node's compressed non-inclusion proof is judged exactly like its plain one (no panic). -/
theorem verifyNonInclusionC_compress (root : Bytes) (key : List Bool) (value : Bytes) (pk : Option (List Bool))
    (ap : List Bytes) (hl : ap.length ≤ key.length) (hpk : ∀ p, pk = some p → ap.length ≤ p.length) :
    verifyNonInclusionC c Ht root (compress ap).1 key value pk (compress ap).2.1 (compress ap).2.2
      = some (verifyNonInclusion c Ht root ap key value pk) := by
  have e1 : (compress ap).2.2 = ap.length := rfl
  cases pk with
  | none =>
    have hr := rootC_compress (c := c) key defaultLeaf ap hl
    simp only [verifyNonInclusionC, verifyNonInclusion]
    rw [hr, e1]
    cases ap <;> simp
  | some p =>
    simp only [verifyNonInclusionC, verifyNonInclusion]
    split
    · rfl
    · rw [verifyInclusionC_compress _ _ _ _ (hpk p rfl)]
      have : ¬ ap.length > key.length := by omega
      cases verifyInclusion c Ht root ap p value <;> simp [this, e1]

/-- **Completeness, inclusion, compressed**: the compressed proof the node produces for a present key verifies. -/
theorem complete_incl_compressed (t : T Bytes) (k : List Bool) (v : Bytes) (cn : Canon Ht t) (hk : k.length = Ht)
    (g : Trie.get t k = some v) :
    let cp := compress (sibHashes c (merkleProof Ht [] t k).ap)
    verifyInclusionC c Ht (rootOf c Ht t) cp.1 k v cp.2.1 cp.2.2 = some true := by
  intro cp
  have hl := ap_len t Ht [] k cn hk
  rw [verifyInclusionC_compress _ _ _ _ (by rw [sib_len, hk]; exact hl), complete_incl t k v cn hk g]

/-- **Completeness, absence, compressed**: the compressed proof the node produces for an absent key verifies
(empty subtree, foreign leaf, empty trie). -/
theorem complete_excl_compressed (t : T Bytes) (k : List Bool) (cn : Canon Ht t) (hk : k.length = Ht)
    (g : Trie.get t k = none) :
    let pr := merkleProof Ht [] t k
    let cp := compress (sibHashes c pr.ap)
    verifyNonInclusionC c Ht (rootOf c Ht t) cp.1 k
      (match pr.proofKV with | some kv => kv.2 | none => []) (pr.proofKV.map (·.1)) cp.2.1 cp.2.2 = some true := by
  intro pr cp
  have hl := ap_len t Ht [] k cn hk
  have hpk : ∀ p, pr.proofKV.map (·.1) = some p → (sibHashes c pr.ap).length ≤ p.length := by
    intro p hp
    obtain ⟨_, hcase⟩ := bottom_absent (c := c) t Ht [] k cn hk g
    rcases hcase with ⟨hnone, _⟩ | ⟨sk, sv, hsome, _, hskl, _⟩
    · have e1 : pr.proofKV = none := hnone
      rw [e1] at hp; cases hp
    · have e1 : pr.proofKV = some ([] ++ k.take pr.ap.length ++ sk, sv) := hsome
      rw [e1] at hp
      simp only [Option.map_some, List.nil_append, Option.some.injEq] at hp
      subst hp
      simp only [sib_len, List.length_append, List.length_take, hk]
      have : pr.ap.length ≤ Ht := hl
      omega
  rw [verifyNonInclusionC_compress _ _ _ _ _ (by rw [sib_len, hk]; exact hl) hpk]
  exact congrArg some (complete_excl t k cn hk g)

/-- **Soundness, inclusion, compressed**: ANY compressed proof (bitmap, siblings, length - not only generated
ones) accepted for `(k, v)` means the trie holds `k ↦ v`, or the hash function is exhibited broken on the strings
hashed by the two sides; `full` is the plain path the compressed proof stands for. -/
theorem sound_incl_compressed (ok : HashOK c Ht) (t : T Bytes) (k : List Bool) (v : Bytes) (bm : Bytes)
    (apC : List Bytes) (len : Nat) (cn : Canon Ht t) (v32 : Vals32 t) (hk : k.length = Ht) (hv : v.length = 32)
    (hw : ∀ s ∈ apC, WfSib s) (hl : len ≤ Ht)
    (acc : verifyInclusionC c Ht (rootOf c Ht t) bm k v apC len = some true) :
    Trie.get t k = some v ∨
      ∃ full, (readBits bm len).bind (fun bits => expand bits apC.reverse) = some full ∧
        BrokenOn c.H (hashedT c Ht [] t) (hashedUp c k full (c.enc k ++ v ++ [byteOf (Ht - len)])) := by
  simp only [verifyInclusionC, rootC] at acc
  cases hb : readBits bm len with
  | none => simp [hb] at acc
  | some bits =>
    have bl := readBits_len hb
    have hng : ¬ len > k.length := by omega
    simp only [hb, hng, ↓reduceIte] at acc
    rw [compressed_equiv _ _ _ _ (by omega)] at acc
    cases he : expand bits apC.reverse with
    | none => simp [he] at acc
    | some full =>
      obtain ⟨fl, fm⟩ := expand_some bits apC.reverse full he
      simp only [he, Option.map_some, Option.some.injEq] at acc
      have acc' : verifyInclusion c Ht (rootOf c Ht t) full.reverse k v = true := by
        simp only [verifyInclusion, List.reverse_reverse, List.length_reverse, fl, bl]
        exact acc
      have hw' : ∀ s ∈ full.reverse, WfSib s := by
        intro s hs
        rcases fm s (by simpa using hs) with m | e
        · exact hw s (by simpa using m)
        · exact Or.inr e
      rcases sound_incl ok t k v full.reverse cn v32 hk hv hw' (by simp [fl, bl]; exact hl) acc' with g | br
      · exact Or.inl g
      · right
        refine ⟨full, by simp [he], ?_⟩
        simpa [fl, bl] using br

/-! ### What the node serves: account and contract-variable proofs (StateDB.GetAccountAndProof / GetVarAndProof) -/

/-- The proof the state DB assembles from trie `t` convinces a client that trusts `rootOf t`, says "included"
exactly for the present keys, and carries the stored value. -/
theorem assemble_complete (vh load : Bytes → Bytes) (t : T Bytes) (k : List Bool) (cn : Canon Ht t) (hk : k.length = Ht)
    (ad : Addressed vh load t) :
    walletAccepts c Ht vh (rootOf c Ht t) k (assemble c Ht load t k) = true ∧
      (assemble c Ht load t k).inclusion = (Trie.get t k).isSome ∧
      (assemble c Ht load t k).value = (Trie.get t k).map load := by
  cases g : Trie.get t k with
  | some v =>
    obtain ⟨hi, hv, _⟩ := bottom_present (c := c) t Ht [] k v cn hk g
    have ci := complete_incl (c := c) t k v cn hk g
    have ha : assemble c Ht load t k = ⟨true, some (load v), none, [], sibHashes c (merkleProof Ht [] t k).ap⟩ := by
      simp only [assemble, hi, ↓reduceIte, hv, Option.map_some, sibH_eq]
    rw [ha]
    refine ⟨?_, rfl, rfl⟩
    simp only [walletAccepts, ↓reduceIte, ad k v g]
    exact ci
  | none =>
    obtain ⟨hi, _⟩ := bottom_absent (c := c) t Ht [] k cn hk g
    have ce := complete_excl (c := c) t k cn hk g
    have hi' : (merkleProof Ht [] t k).included = false := hi
    refine ⟨?_, ?_, ?_⟩
    · simp only [assemble, hi', Bool.false_eq_true, ↓reduceIte, walletAccepts, sibH_eq]
      exact ce
    · simp [assemble, hi']
    · simp [assemble, hi']

/-- **Account proofs are complete** (`GetAccountAndProof`): at the requested root, or at the latest one when the
request names none. -/
theorem account_proof_complete (vh load : Bytes → Bytes) (cur : T Bytes) (req : Option (T Bytes)) (k : List Bool)
    (cn : Canon Ht (req.getD cur)) (hk : k.length = Ht) (ad : Addressed vh load (req.getD cur)) :
    walletAccepts c Ht vh (rootOf c Ht (req.getD cur)) k (getAccountProof c Ht load cur req k) = true ∧
      (getAccountProof c Ht load cur req k).inclusion = (Trie.get (req.getD cur) k).isSome ∧
      (getAccountProof c Ht load cur req k).value = (Trie.get (req.getD cur) k).map load :=
  assemble_complete vh load _ k cn hk ad

/-- **Contract-variable proofs are complete** (`GetVarAndProof`, after fix cdf2eb39): against the contract's storage
root, whatever (account) trie `cur` the instance is positioned at, and also for a contract WITHOUT storage
(`storage = .empty`, storage root nil). On the tree before the fix the last case failed for every key - the proof
was taken from `cur` (finding C11-var-proof-nil-storage-root, found by the c11 harness, repaired). -/
theorem var_proof_complete (vh load : Bytes → Bytes) (cur storage : T Bytes) (k : List Bool)
    (cn : Canon Ht storage) (hk : k.length = Ht) (ad : Addressed vh load storage) :
    walletAccepts c Ht vh (rootOf c Ht storage) k (getVarProof c Ht load cur storage k) = true ∧
      (getVarProof c Ht load cur storage k).inclusion = (Trie.get storage k).isSome ∧
      (getVarProof c Ht load cur storage k).value = (Trie.get storage k).map load :=
  assemble_complete vh load storage k cn hk ad

/-- **Against a nil root only the empty proof verifies**: no inclusion claim whatsoever, and of the non-inclusion
proofs only the one without audit path and without foreign leaf (what the node returns for the empty trie). This is
why the pre-fix answer for a storage-less contract - a proof out of the account trie - could never convince a client
holding the contract's nil storage root (`proof_trivial_empty`: a non-empty canonical trie never yields that proof). -/
theorem nil_root_sound (ok : HashOK c Ht) (ap : List Bytes) (k : List Bool) (v : Bytes) (pk : Option (List Bool)) :
    verifyInclusion c Ht [] ap k v = false ∧
      (verifyNonInclusion c Ht [] ap k v pk = true → pk = none ∧ ap = []) :=
  ⟨verifyInclusion_nil_root ok ap k v, verifyNonInclusion_nil_root ok ap k v pk⟩

/-- ... so an answer assembled from ANY non-empty canonical trie (such as the account trie) is rejected by a client
that holds a nil storage root: the defect before fix cdf2eb39, for every key. -/
theorem foreign_trie_answer_rejected (ok : HashOK c Ht) (vh load : Bytes → Bytes) (cur : T Bytes) (k : List Bool)
    (cn : Canon Ht cur) (hne : cur ≠ .empty) (hk : k.length = Ht) :
    walletAccepts c Ht vh (rootOf c Ht .empty) k (assemble c Ht load cur k) = false := by
  cases hacc : walletAccepts c Ht vh (rootOf c Ht .empty) k (assemble c Ht load cur k) with
  | false => rfl
  | true =>
    exfalso
    simp only [rootOf, assemble, walletAccepts] at hacc
    split at hacc
    · -- the account trie happens to hold the key: "included", with some account's state as value
      simp only [↓reduceIte] at hacc
      split at hacc
      · rw [verifyInclusion_nil_root ok] at hacc; cases hacc
      · cases hacc
    · rename_i hi
      simp only [Bool.false_eq_true, ↓reduceIte] at hacc
      obtain ⟨hpk, hap⟩ := verifyNonInclusion_nil_root ok _ _ _ _ hacc
      have hap' : (merkleProof Ht [] cur k).ap = [] := by simpa [sibH] using hap
      have hpk' : (merkleProof Ht [] cur k).proofKV = none := by simpa using hpk
      exact hne (proof_trivial_empty cur k cn hk hap' hpk' (by simpa using hi))

/-- **What a client accepts is true** (soundness of the wallet check, inclusion side): an accepted "included"
answer carries a value whose hash the trie holds under `k` - or the hash function is exhibited broken. -/
theorem wallet_sound (ok : HashOK c Ht) (vh : Bytes → Bytes) (t : T Bytes) (k : List Bool) (pr : NodeProof)
    (cn : Canon Ht t) (v32 : Vals32 t) (hk : k.length = Ht) (hvh : ∀ x, (vh x).length = 32)
    (hw : ∀ s ∈ pr.ap, WfSib s) (hl : pr.ap.length ≤ Ht) (hinc : pr.inclusion = true)
    (acc : walletAccepts c Ht vh (rootOf c Ht t) k pr = true) :
    ∃ x, pr.value = some x ∧ (Trie.get t k = some (vh x) ∨
      BrokenOn c.H (hashedT c Ht [] t) (hashedUp c k pr.ap.reverse (c.enc k ++ vh x ++ [byteOf (Ht - pr.ap.length)]))) := by
  simp only [walletAccepts, hinc, ↓reduceIte] at acc
  cases hv : pr.value with
  | none => simp [hv] at acc
  | some x =>
    simp only [hv] at acc
    exact ⟨x, rfl, sound_incl ok t k (vh x) pr.ap cn v32 hk (hvh x) hw hl acc⟩

/-! ### Length preconditions: they are needed -/

/-- **Split ambiguity** (why `hk`, `hv` are hypotheses of every soundness theorem): `common.Hasher` hashes the
CONCATENATION of key, value and height byte, and the Go verifiers check no length. Two claims `(k, v)`, `(k', v')`
with `enc k ++ v = enc k' ++ v'` whose keys agree on the bits the audit path walks get the same verdict. -/
theorem split_ambiguity (root : Bytes) (ap : List Bytes) (k k' : List Bool) (v v' : Bytes)
    (he : c.enc k ++ v = c.enc k' ++ v') (hb : k.take ap.length = k'.take ap.length)
    (hl : ap.length ≤ k.length) (hl' : ap.length ≤ k'.length) :
    verifyInclusion c Ht root ap k v = verifyInclusion c Ht root ap k' v' := by
  simp only [verifyInclusion, he]
  rw [vUp_take ap.reverse k k' _ (by simpa using hb) (by simpa using hl) (by simpa using hl')]

/-- ... instantiated with the real key packing (8 bits per byte): moving the last `8 * j` … bits of the key into
the value - `VerifyInclusion(ap, key[:i], key[i:] ++ value)` in Go - is accepted whenever `(key, value)` is,
for every hash function, as long as the audit path is not longer than the shortened key. -/
theorem short_key_same_verdict (H : Bytes → Bytes) (root : Bytes) (ap : List Bytes) (k : List Bool) (v : Bytes) (i : Nat)
    (hi : 8 * i ≤ k.length) (hl : ap.length ≤ 8 * i) :
    verifyInclusion ⟨H, packBits⟩ Ht root ap (k.take (8 * i)) (packBits (k.drop (8 * i)) ++ v)
      = verifyInclusion ⟨H, packBits⟩ Ht root ap k v := by
  apply split_ambiguity
  · show packBits (k.take (8 * i)) ++ (packBits (k.drop (8 * i)) ++ v) = packBits k ++ v
    rw [← List.append_assoc, ← packBits_append i _ _ (by simp; omega), List.take_append_drop]
  · rw [List.take_take, Nat.min_eq_left hl]
  · simp; omega
  · omega

/-- Consequence, in the trie: for a present key whose leaf sits no deeper than `8 * i`, the node's own proof is
accepted for the shortened key `k[:8i]` with value `k[8i:] ++ v` - a key of another length, for which the trie holds
nothing. No collision involved: soundness holds only for claims of the right lengths (`hk`, `hv` of `sound_incl`);
a client must fix both lengths itself (the node's clients do: keys and values are SHA-256 digests they compute). -/
theorem short_key_accepted (H : Bytes → Bytes) (t : T Bytes) (k : List Bool) (v : Bytes) (i : Nat) (cn : Canon Ht t)
    (hk : k.length = Ht) (g : Trie.get t k = some v) (hi : 8 * i < Ht)
    (hl : (merkleProof Ht [] t k).ap.length ≤ 8 * i) :
    verifyInclusion ⟨H, packBits⟩ Ht (rootOf ⟨H, packBits⟩ Ht t) (sibHashes ⟨H, packBits⟩ (merkleProof Ht [] t k).ap)
        (k.take (8 * i)) (packBits (k.drop (8 * i)) ++ v) = true ∧
      Trie.get t (k.take (8 * i)) = none := by
  constructor
  · rw [short_key_same_verdict H _ _ k v i (by omega) (by rw [sib_len]; exact hl)]
    exact complete_incl t k v cn hk g
  · cases hg : Trie.get t (k.take (8 * i)) with
    | none => rfl
    | some w =>
      have := get_some_len t Ht _ w cn hg
      simp only [List.length_take] at this
      omega

/-! ### Root and height binding -/

/-- **A proof binds the height**: two inclusion proofs for the same key accepted against the same root have the
same length (the leaf's height byte is inside the hashed leaf) - or the hash function is exhibited broken. -/
theorem height_bound (ok : HashOK c Ht) (t : T Bytes) (k : List Bool) (v v' : Bytes) (ap ap' : List Bytes)
    (cn : Canon Ht t) (v32 : Vals32 t) (hk : k.length = Ht) (hv : v.length = 32) (hv' : v'.length = 32)
    (hw : ∀ s ∈ ap, WfSib s) (hw' : ∀ s ∈ ap', WfSib s) (hl : ap.length ≤ Ht) (hl' : ap'.length ≤ Ht)
    (acc : verifyInclusion c Ht (rootOf c Ht t) ap k v = true)
    (acc' : verifyInclusion c Ht (rootOf c Ht t) ap' k v' = true) :
    ap.length = ap'.length ∨
      BrokenOn c.H (hashedT c Ht [] t) (hashedUp c k ap.reverse (c.enc k ++ v ++ [byteOf (Ht - ap.length)])) ∨
      BrokenOn c.H (hashedT c Ht [] t) (hashedUp c k ap'.reverse (c.enc k ++ v' ++ [byteOf (Ht - ap'.length)])) := by
  simp only [verifyInclusion, beq_bytes] at acc acc'
  by_cases hne : t = .empty
  · rw [hne] at acc
    have := congrArg List.length acc
    rw [vUp_len ok _ _ _ (ok.outLen _)] at this
    simp [rootOf] at this
  · rw [rootOf_ne hne] at acc acc'
    have s1 := sound_desc ok ap.reverse Ht [] t k k v cn v32 (by simp) hk (by simp) hv
      (by simpa using hw) (by simpa using hl) (by simpa using acc)
    have s2 := sound_desc ok ap'.reverse Ht [] t k k v' cn v32 (by simp) hk (by simp) hv'
      (by simpa using hw') (by simpa using hl') (by simpa using acc')
    simp only [List.length_reverse] at s1 s2
    rcases s1 with s1 | br
    · rcases s2 with s2 | br'
      · exact Or.inl (subAt_leaf_unique _ _ t k _ _ _ _ s1 s2)
      · exact Or.inr (Or.inr br')
    · exact Or.inr (Or.inl br)

/-- **The root binds the contents** (the converse of C10's `root_depends_only_on_content`, which C10 does not
have): two canonical tries with the same root hash are the same trie - or the hash function is exhibited broken
on the strings hashed for one trie and those hashed when verifying, against it, the other trie's own proof of one
of its keys. Hence a proof accepted against `rootOf t` is a statement about `t` and no other reachable trie. -/
theorem root_binds_content (ok : HashOK c Ht) (t t' : T Bytes) (cn : Canon Ht t) (cn' : Canon Ht t')
    (v32 : Vals32 t) (v32' : Vals32 t') (hr : rootOf c Ht t = rootOf c Ht t') :
    t = t' ∨
      (∃ k v, Trie.get t k = some v ∧ BrokenOn c.H (hashedT c Ht [] t')
        (hashedUp c k (sibHashes c (merkleProof Ht [] t k).ap).reverse
          (c.enc k ++ v ++ [byteOf (Ht - (sibHashes c (merkleProof Ht [] t k).ap).length)]))) ∨
      (∃ k v, Trie.get t' k = some v ∧ BrokenOn c.H (hashedT c Ht [] t)
        (hashedUp c k (sibHashes c (merkleProof Ht [] t' k).ap).reverse
          (c.enc k ++ v ++ [byteOf (Ht - (sibHashes c (merkleProof Ht [] t' k).ap).length)]))) := by
  -- one direction: what `a` holds, `b` holds (or broken)
  have half : ∀ (a b : T Bytes), Canon Ht a → Canon Ht b → Vals32 a → Vals32 b → rootOf c Ht a = rootOf c Ht b →
      ∀ k v, k.length = Ht → Trie.get a k = some v →
        Trie.get b k = some v ∨ BrokenOn c.H (hashedT c Ht [] b)
          (hashedUp c k (sibHashes c (merkleProof Ht [] a k).ap).reverse
            (c.enc k ++ v ++ [byteOf (Ht - (sibHashes c (merkleProof Ht [] a k).ap).length)])) := by
    intro a b ca cb va vb e k v hk g
    have acc := complete_incl (c := c) a k v ca hk g
    rw [e] at acc
    exact sound_incl ok b k v _ cb vb hk (vals32_get a k v va g) (sibHashes_wf ok _)
      (by rw [sib_len]; exact ap_len a Ht [] k ca hk) acc
  by_cases hall : ∀ k, k.length = Ht → Trie.get t k = Trie.get t' k
  · exact Or.inl (canon_unique Ht t t' cn cn' hall)
  · right
    have ⟨k, hk⟩ : ∃ k, ¬ (k.length = Ht → Trie.get t k = Trie.get t' k) := Classical.not_forall.mp hall
    have ⟨hkl, hd⟩ : k.length = Ht ∧ Trie.get t k ≠ Trie.get t' k := Classical.not_imp.mp hk
    cases g : Trie.get t k with
    | some v =>
      rcases half t t' cn cn' v32 v32' hr k v hkl g with g' | br
      · exact absurd (g.trans g'.symm) hd
      · exact Or.inl ⟨k, v, g, br⟩
    | none =>
      cases g' : Trie.get t' k with
      | none => exact absurd (g.trans g'.symm) hd
      | some v' =>
        rcases half t' t cn' cn v32' v32 hr.symm k v' hkl g' with g2 | br
        · rw [g] at g2; cases g2
        · exact Or.inr ⟨k, v', g', br⟩

/-- The hypotheses of `root_binds_content`, `height_bound`, `sound_incl_compressed` are satisfiable together with
an accepted proof (test on a concrete instance: height 8, the one-key trie, the identity-like toy hash of C10's
context is not needed - a constant 32-byte "digest" accepts the honest proof). -/
example : verifyInclusionC ⟨fun _ => List.replicate 32 7, packBits⟩ 8
    (rootOf ⟨fun _ => List.replicate 32 7, packBits⟩ 8 (.leaf [true, false, true, false, true, false, true, false] (List.replicate 32 1)))
    (compress []).1 [true, false, true, false, true, false, true, false] (List.replicate 32 1) (compress []).2.1 (compress []).2.2
    = some true := by decide

/-- The hypotheses of `short_key_accepted` are satisfiable (test: height 16, one key, boundary moved by one byte). -/
example : verifyInclusion ⟨fun _ => List.replicate 32 7, packBits⟩ 16
      (rootOf ⟨fun _ => List.replicate 32 7, packBits⟩ 16 (.leaf (List.replicate 16 true) (List.replicate 32 1)))
      (sibHashes ⟨fun _ => List.replicate 32 7, packBits⟩ (merkleProof 16 [] (.leaf (List.replicate 16 true) (List.replicate 32 1)) (List.replicate 16 true)).ap)
      ((List.replicate 16 true).take (8 * 1)) (packBits ((List.replicate 16 true).drop (8 * 1)) ++ List.replicate 32 1) = true ∧
    Trie.get (.leaf (List.replicate 16 true) (List.replicate 32 1) : T Bytes) ((List.replicate 16 true).take (8 * 1)) = none :=
  short_key_accepted _ (.leaf (List.replicate 16 true) (List.replicate 32 1)) (List.replicate 16 true) (List.replicate 32 1) 1
    (by simp [Canon]) (by simp) (by simp [Trie.get]) (by omega) (by simp [merkleProof])

/-- test: compress/expand on a concrete 10-element path (two bitmap bytes) -/
example : compress [[1], defaultLeaf, [2], [3], defaultLeaf, defaultLeaf, [4], [5], [6], defaultLeaf]
    = ([0xb3, 0x80], [[1], [2], [3], [4], [5], [6]], 10) := by decide

/-- The assumptions on the hash context are satisfiable (test on a concrete instance: a 32-byte
constant "digest" and an injective toy key packing for height 0). -/
example : HashOK ⟨fun _ => List.replicate 32 0, fun _ => List.replicate 32 0⟩ 0 :=
  ⟨by simp, by simp, by intro k k' h h' _; rw [List.length_eq_zero_iff.mp h, List.length_eq_zero_iff.mp h']⟩

end Aergo.Props.C11
