/-
C12 — State snapshots: reverting restores exactly the earlier visible state.

"Taking a snapshot of the working state (account states and buffered contract storage) and later
reverting to it restores precisely the values visible at snapshot time for every account and every
storage key, for arbitrarily nested snapshots; writes made after the snapshot never influence the
state root or the data persisted by a later commit. Reads always see the most recent non-reverted
write."

The theorems are about `Aergo.Model.Buffer` (the transcription of statebuffer.go, storage.go,
statedb.go, contract.go, state/block.go; tied to the source by the correspondence run of
harness/c12 against `model-c12`). No bound on the number of keys, entries, contracts or on the
nesting depth. Clause by clause:

* representation invariant, preserved by every operation ........ `inv_*`
* reads = the latest surviving write, buffer before trie ....... `get_latest`, `reads_see_writes_*`
* revert restores the buffer itself, any nesting ............... `rollback_restores`, `rollback_restores_nested`,
                                                                 `nested_rollback_defined`
* export = ascending latest survivors; reverted never appear ... `export_survivors`, `export_after_rollback`
* BlockState: accounts + every staged storage + dropping of
  contracts staged later; any nesting ......................... `block_rollback`, `block_snapshot_admissible`
* a history with nested block snapshots IS the history of its
  surviving operations (same StateDB value, hence same tries,
  same root content, same exports) ............................ `reverted_never_happened`, `live_block_snapshots_revertible`,
                                                                 `root_ignores_reverted`
* the log/index-stack/revision machinery refines plain maps
  with "snapshot = copy" ....................................... `refines_spec`, `refines_spec_reads`, `spec_is_survivors`
* what a commit persists is what the surviving operations
  persist; raw store writes (SetCode/SetRawKV) are the one
  exception: written at call time, never taken back ........... `persisted_ignores_reverted`
* `HasKey` ..................................................... `has_latest`, `has_key_latest`
* update/commit flush exactly the visible values ............... `commit_ignores_reverted`, `update_flushes_view`,
                                                                 `update_account_half`, `stage_empties_buffer`

Where the statements stop (see notes/C12.md): rolling back *across* an `Update` (the tries are
not part of a snapshot; no caller does it) is outside every statement: `SDB.Op` has no update;
a rollback to a revision that was never handed out or was invalidated is left undefined by the
model (`Buf.rollback = none`) and the theorems show it never arises under the stated discipline.
That the real trie realises the abstract map and that its root is a function of the content is
C10's subject. Object identity is not modelled: the model keeps values where the code keeps
`*types.State` pointers; they agree as long as no undo-log entry changes after it was written,
which the harness checks on every operation and on every transaction of the real executor.
-/
import Aergo.Lemmas.BufferUpdate

namespace Aergo.Props.C12
open Aergo.Buffer

variable {α : Type}

/-! ### representation invariant -/

/-- `newStateBuffer` satisfies the invariant (`indexes[k]` = positions of `k` in `entries`, most
recent first; `nextIdx = len(entries)`; canonical key order). -/
theorem inv_empty : (Buf.empty : Buf α).Inv := Buf.Inv_empty

/-- `put` preserves the invariant. -/
theorem inv_put (b : Buf α) (h : b.Inv) (k : Nat) (v : α) : (b.put k v).Inv := Buf.Inv_put h k v

/-- `rollback n` to any live revision is defined (the Go loop never indexes out of range), truncates
the log to its first `n` entries and preserves the invariant. `reset` is the case `n = 0`. -/
theorem inv_rollback (b : Buf α) (h : b.Inv) (n : Nat) (hn : n ≤ b.nextIdx) :
    ∃ b', b.rollback n = some b' ∧ b'.entries = b.entries.take n ∧ b'.nextIdx = n ∧ b'.Inv :=
  Buf.rollback_spec h hn

/-- Under the invariant the whole buffer (index stacks included) is a function of its log: two
buffers with the same entries are equal. -/
theorem inv_determines (b b' : Buf α) (h : b.Inv) (h' : b'.Inv) (he : b.entries = b'.entries) :
    b = b' := Buf.Inv_ext h h' he

/-- The invariant of a whole StateDB (account buffer and every staged storage buffer) holds for
`NewStateDB`. -/
theorem inv_statedb (content : AMap AVal) : (SDB.new content).Inv := SDB.Inv_new content

/-- It is kept by every history of `PutState`, writes through handles, staging and block rollbacks. -/
theorem inv_statedb_history (s0 s' : SDB) (h0 : s0.Inv) (ops : List SDB.Op)
    (hr : SDB.run s0.blockSnapshot s0 ops = some s') : s'.Inv :=
  (run_Ext h0 ops s0 s' (Ext_refl h0) hr).inv

/-- Test (not a proof of anything general): a reachable non-trivial buffer satisfying the hypotheses. -/
example : ((Buf.empty : Buf Nat).put 3 10 |>.put 1 11 |>.put 3 12).Inv :=
  Buf.Inv_put (Buf.Inv_put (Buf.Inv_put Buf.Inv_empty _ _) _ _) _ _

/-! ### reads -/

/-- `get k` returns the last surviving entry for `k`, `nil` if there is none, and never panics. -/
theorem get_latest (b : Buf α) (h : b.Inv) (k : Nat) :
    b.get k = match lastWrite b.entries k with
      | none => .absent
      | some v => .found v := Buf.get_spec h k

/-- `has k` (used by `ContractState.HasKey`) holds exactly when `k` has a surviving entry. -/
theorem has_latest (b : Buf α) (h : b.Inv) (k : Nat) :
    b.has k = (lastWrite b.entries k).isSome := Buf.has_spec h k

/-- `ContractState.HasKey` (= `bufferedStorage.has(key, true)`) is true exactly when the key has a
surviving buffered write - of either kind - or a value in the storage trie. NB: a key whose latest
surviving write is a *delete* answers `true` while `GetData` returns nothing (test below); the code
and the model agree, no caller in the pinned tree uses `HasKey`. -/
theorem has_key_latest (st : Storage) (h : st.buf.Inv) (k : Nat) :
    st.hasKey k = ((lastWrite st.buf.entries k).isSome || (st.trie.get k).isSome) :=
  Storage.hasKey_spec h k

/-- Test: the delete-marker case of `HasKey` on a concrete storage (key 1 is in the trie, deleted in the buffer). -/
example : let st := (Storage.new [(1, 5)]).deleteData 1
    st.hasKey 1 = true ∧ st.getData 1 = .found none ∧ st.hasKey 2 = false := by decide

/-- `ContractState.GetData` reads the most recent non-reverted write to the key — a delete reads as
absent — and only without one falls through to the trie. -/
theorem reads_see_writes_storage (st : Storage) (h : st.buf.Inv) (k : Nat) :
    st.getData k = .found (st.view k) := Storage.getData_spec h k

/-- A `SetData` is what the next read of that key returns; other keys are unaffected. -/
theorem reads_see_writes_set (st : Storage) (k v k' : Nat) :
    (st.setData k v).view k' = if k = k' then some v else st.view k' := Storage.view_setData st k v k'

/-- A `DeleteData` makes the key read as absent even if the trie has it; other keys are unaffected. -/
theorem reads_see_writes_delete (st : Storage) (k k' : Nat) :
    (st.deleteData k).view k' = if k = k' then none else st.view k' := Storage.view_deleteData st k k'

/-- `StateDB.getState` returns the most recent non-reverted `PutState` of the account, else the trie. -/
theorem reads_see_writes_account (s : SDB) (h : s.buf.Inv) (a : Nat) :
    s.getState a = .found (s.view a) := SDB.getState_spec h a

/-- A `PutState` is what the next read of that account returns; other accounts are unaffected. -/
theorem reads_see_writes_put (s : SDB) (a : Nat) (v : AVal) (a' : Nat) :
    (s.putState a v).view a' = if a = a' then some v else s.view a' := SDB.view_putState s a v a'

/-- After a revert the reads are those of the truncated log: a reverted write is never read. -/
theorem reads_after_rollback (b b' : Buf α) (h : b.Inv) (n : Nat) (hr : b.rollback n = some b') (k : Nat) :
    b'.get k = match lastWrite (b.entries.take n) k with
      | none => .absent
      | some v => .found v := by
  obtain ⟨_, he, _, hi⟩ := Buf.rollback_some h hr
  rw [← he]; exact Buf.get_spec hi k

/-! ### revert restores the state, any nesting -/

/-- Take a snapshot `n` of buffer `b`; run *any* history of puts and rollbacks whose rollbacks do
not go below `n` (every snapshot taken after ours qualifies); then `rollback n` returns `b`
itself — the same entries, the same index stacks, hence the same answer to every read, export
and later operation. -/
theorem rollback_restores (b b' : Buf α) (h : b.Inv) (ops : List (Buf.Op α))
    (hr : Buf.run b.snapshot b ops = some b') : b'.rollback b.snapshot = some b :=
  Buf.run_rollback h ops hr

/-- The same with explicit, properly nested snapshot handles: after `snap` (our snapshot is the
outermost live one) any sequence of puts, further snaps and reverts to live snapshots leaves our
snapshot live, and reverting to it returns the original buffer. -/
theorem rollback_restores_nested (b : Buf α) (h : b.Inv) (ops : List (Buf.NOp α))
    (r : Buf α × List Nat) (hr : Buf.runN (b, [b.snapshot]) ops = some r) :
    r.2.head? = some b.snapshot ∧ r.1.rollback b.snapshot = some b := by
  have hlen := h.len
  obtain ⟨hi, _, _, _, hp, hh⟩ := Buf.runN_prefix b.entries ops b [b.snapshot] r h
    ⟨by simp, by intro m hm; simp only [List.mem_singleton] at hm; subst hm; simp [Buf.snapshot]⟩
    (by intro m hm; simp only [List.mem_singleton] at hm; subst hm; simp [Buf.snapshot, hlen])
    (by simp) List.take_length hr
  refine ⟨hh, ?_⟩
  have hl : b.entries.length ≤ r.1.nextIdx := by
    have := congrArg List.length hp
    rw [List.length_take] at this
    rw [hi.len]; omega
  obtain ⟨b'', h1, h2, _, h4⟩ := Buf.rollback_spec hi hl
  simp only [Buf.snapshot, hlen]
  rw [h1]
  congr 1
  exact Buf.Inv_ext h4 h (by rw [h2, hp])

/-- Reverting to any *live* snapshot is always defined (never the undefined case of the model, never
an out-of-range index in Go), and the snapshots taken before it stay live. -/
theorem nested_rollback_defined (cur : Buf α) (st : List Nat) (hi : cur.Inv) (hs : Buf.StackOK st cur)
    (j m : Nat) (hj : st[j]? = some m) :
    ∃ b', cur.rollback m = some b' ∧ b'.Inv ∧ b'.entries = cur.entries.take m ∧
      Buf.StackOK (st.take (j + 1)) b' := Buf.StackOK_rollbackTo hi hs hj

/-- Test: the hypotheses of `rollback_restores` are satisfiable on a non-trivial history with a
nested snapshot/rollback pair and a key whose stack empties. -/
example :
    let b := (Buf.empty : Buf Nat).put 3 10 |>.put 1 11
    ∃ b', Buf.run b.snapshot b [.put 3 12, .put 7 13, .rollback 3, .put 1 14, .rollback 2, .put 9 1] = some b' ∧
      b'.rollback b.snapshot = some b := by
  refine ⟨_, rfl, ?_⟩
  decide

/-- Test: a rollback below the snapshot is rejected by `run` (it invalidates the snapshot). -/
example :
    let b := (Buf.empty : Buf Nat).put 3 10 |>.put 1 11
    Buf.run b.snapshot b [.put 3 12, .rollback 1] = none := by decide

/-! ### export -/

/-- `export` is defined and lists, ascending by key, exactly the keys that have a surviving write,
each with its latest surviving value. -/
theorem export_survivors (b : Buf α) (h : b.Inv) :
    ∃ l, b.exportAll = some l ∧ l.Pairwise (fun x y => x.1 < y.1) ∧
      ∀ k v, (k, v) ∈ l ↔ lastWrite b.entries k = some v := Buf.export_spec h

/-- After a revert, `export` speaks about the truncated log only: a value written after the
snapshot never appears. -/
theorem export_after_rollback (b b' : Buf α) (h : b.Inv) (n : Nat) (hr : b.rollback n = some b') :
    ∃ l, b'.exportAll = some l ∧ l.Pairwise (fun x y => x.1 < y.1) ∧
      ∀ k v, (k, v) ∈ l ↔ lastWrite (b.entries.take n) k = some v := by
  obtain ⟨_, he, _, hi⟩ := Buf.rollback_some h hr
  rw [← he]; exact Buf.export_spec hi

/-! ### BlockState: accounts and all staged storages -/

/-- Take a block snapshot of `s0`; run *any* history of account puts, writes through handles on
staged storages, staging of contracts that had no staged storage, contract-level rollbacks
(`ContractState.Rollback`, the VM's recovery points) on staged storages that do not go below the
revision our snapshot recorded, and block rollbacks to snapshots
that cover ours (every snapshot taken after ours does, `block_snapshot_admissible`); then
`BlockState.Rollback` to our snapshot is defined and returns `s0` itself: the account buffer, every
storage staged at snapshot time (buffer, trie, dirty flag), and *no* storage staged later. -/
theorem block_rollback (s0 s' : SDB) (h0 : s0.Inv) (ops : List SDB.Op)
    (hr : SDB.run s0.blockSnapshot s0 ops = some s') :
    s'.blockRollback s0.blockSnapshot = some s0 :=
  Ext_restore (run_Ext h0 ops s0 s' (Ext_refl h0) hr) h0

/-- Every block snapshot taken during such a history covers ours, i.e. is an admissible target of a
nested rollback. -/
theorem block_snapshot_admissible (s0 s' : SDB) (h0 : s0.Inv) (ops : List SDB.Op)
    (hr : SDB.run s0.blockSnapshot s0 ops = some s') :
    s0.blockSnapshot.covers s'.blockSnapshot = true :=
  Ext_covers (run_Ext h0 ops s0 s' (Ext_refl h0) hr) h0

/-- Hence every account and every storage key of every contract reads after the revert what it read
at snapshot time (contracts staged after the snapshot are gone, so they read from their account's
storage root as they did then). -/
theorem block_rollback_reads (s0 s' s'' : SDB) (h0 : s0.Inv) (ops : List SDB.Op)
    (hr : SDB.run s0.blockSnapshot s0 ops = some s')
    (hb : s'.blockRollback s0.blockSnapshot = some s'') (a : Nat) :
    s''.getState a = s0.getState a ∧ s''.openStorage a = s0.openStorage a := by
  rw [block_rollback s0 s' h0 ops hr] at hb
  cases hb
  exact ⟨rfl, rfl⟩

/-- Test: hypotheses of `block_rollback` on a non-trivial state (one staged contract with a pending
write, one account entry) and a history that writes to it, stages a second contract, rolls back to
an inner snapshot and writes again. -/
example :
    let st : Storage := (Storage.new [(0, 5)]).setData 1 7
    let s0 : SDB := ((SDB.new []).putState 4 { nonce := 1, sroot := [] }).stage 2 st
    let inner : BlockSnap := ⟨2, [(2, 2)]⟩
    ∃ s', SDB.run s0.blockSnapshot s0
        [.putState 4 { nonce := 2, sroot := [] }, .setData 2 0 9, .stageNew 3 [] [(1, some 8)], .deleteData 2 1,
         .rollback inner, .putState 5 { nonce := 3, sroot := [] }, .setData 2 1 6, .setData 2 0 4,
         .storageRollback 2 3, .stageNew 3 [] [(0, some 1)], .storageRollback 3 0] = some s' ∧
      s'.blockRollback s0.blockSnapshot = some s0 := by
  refine ⟨_, rfl, ?_⟩
  decide

/-! ### nested block snapshots: the history IS the history of its surviving operations -/

/-- Run any history of mutations (account puts, writes and contract-level rollbacks through handles on
staged storages, staging of new contracts), `BlockState.Snapshot()`s, `BlockState.Rollback`s to
live snapshots and droppings of snapshots (`keep`: a transaction succeeded), in any nesting, on the
model - undo logs, index stacks, revision numbers. The StateDB
it ends in is *the very value* obtained by executing, with no snapshot at all, only the operations
that were not reverted (`survivors h`, a function of the history alone: the list a block producer
is left with after dropping the rejected transactions). Both sides are defined; the right side never
sees a reverted write. Everything downstream - `Update`, the account and storage tries (what the
state root commits to), exports, `Commit` - is therefore the same (`root_ignores_reverted`). -/
theorem reverted_never_happened (s0 s : SDB) (sn : List BlockSnap) (h0 : s0.Inv) (h : List BOp)
    (hr : runB (s0, []) h = some (s, sn)) : runPlain s0 (survivors h) = some s := by
  obtain ⟨F', _, hG, _⟩ := runB_Good s0 h s0 [] [] (s, sn) (Good_init h0) hr
  exact hG.cur

/-- Along such a history every live snapshot stays revertible (the rollback is defined - no stale
revision, no out-of-range index) and the state keeps its representation invariant. -/
theorem live_block_snapshots_revertible (s0 s : SDB) (sn : List BlockSnap) (h0 : s0.Inv) (h : List BOp)
    (hr : runB (s0, []) h = some (s, sn)) :
    s.Inv ∧ ∀ b ∈ sn, ∃ s', s.blockRollback b = some s' ∧ s'.Inv := by
  obtain ⟨F', hsn, hG, _⟩ := runB_Good s0 h s0 [] [] (s, sn) (Good_init h0) hr
  refine ⟨hG.inv, ?_⟩
  intro b hb
  simp only at hsn
  rw [hsn, List.mem_map] at hb
  obtain ⟨f, hf, rfl⟩ := hb
  obtain ⟨fi, fe, _, _⟩ := hG.fr f hf
  exact ⟨f.st, Ext_restore fe fi, fi⟩

/-- Hence `Update` (storage tries, storage roots into the account records, account trie - the
content the state root commits to) and `Commit` give after the history exactly what they give
after the surviving operations alone. (Unlike `commit_ignores_reverted`, the two sides are
different executions.) -/
theorem root_ignores_reverted (s0 s : SDB) (sn : List BlockSnap) (h0 : s0.Inv) (h : List BOp)
    (hr : runB (s0, []) h = some (s, sn)) :
    s.update = (runPlain s0 (survivors h)).bind SDB.update ∧
    s.update.bind SDB.commit = ((runPlain s0 (survivors h)).bind SDB.update).bind SDB.commit := by
  rw [reverted_never_happened s0 s sn h0 h hr]
  exact ⟨rfl, rfl⟩

/-- Test: hypotheses of `reverted_never_happened` on a history with two nested snapshots, a contract
staged inside the inner one, a contract-level rollback, a revert of the inner snapshot, more writes
and a revert of the outer one; three operations survive. -/
example :
    let s0 : SDB := (SDB.new [(7, { nonce := 1, sroot := [(0, 5)] })]).stage 7 ((Storage.new [(0, 5)]).setData 1 2)
    let h : List BOp := [.op (.putState 1 { nonce := 1, sroot := [] }), .snap, .op (.setData 7 0 9), .snap,
      .op (.stageNew 3 [] [(1, some 8)]), .op (.setData 7 1 6), .op (.storageRollback 7 2), .rollbackTo 1,
      .op (.deleteData 7 0), .rollbackTo 0, .op (.setData 7 2 4), .op (.putState 1 { nonce := 2, sroot := [] })]
    (∃ r, runB (s0, []) h = some r) ∧
      survivors h = [.putState 1 { nonce := 1, sroot := [] }, .setData 7 2 4, .putState 1 { nonce := 2, sroot := [] }] := by
  refine ⟨⟨_, rfl⟩, ?_⟩
  decide

/-! ### the independent specification: plain maps, a snapshot is a copy -/

/-- `NewStateDB` shows what the specification with the trie content as account map shows. -/
theorem abs_new (content : AMap AVal) : Abs (SDB.new content) ⟨content, []⟩ :=
  ⟨fun _ => rfl, fun _ => trivial⟩

/-- The model - undo logs with per-key index stacks, revision numbers, `rollback` popping entries,
block snapshots as revision maps, dropping of storages staged later - *refines* the specification
in which the visible account records and the visible content of every staged storage are plain
maps, `snap` pushes a copy and `rollbackTo j` puts the `j`-th copy back: after ANY history of
account puts, storage sets/deletes, staging of new contracts, snapshots and reverts in any nesting,
every account and every key of every staged storage reads in the model what the specification
says, and the same contracts are staged. (Contract-level rollbacks are specified per buffer:
`rollback_restores_nested`; they are admitted in `reverted_never_happened`.) -/
theorem refines_spec (s0 s : SDB) (sn : List BlockSnap) (σ0 : Spec) (h0 : s0.Inv) (hA : Abs s0 σ0)
    (h : List BOp) (hp : ∀ o ∈ h, o.plain = true) (hr : runB (s0, []) h = some (s, sn)) :
    Abs s (Spec.run (σ0, []) h).1 := by
  rw [Spec.run_survivors]
  refine Abs_runPlain (survivors h) s0 s σ0 hA ?_ (reverted_never_happened s0 s sn h0 h hr)
  intro o ho
  rcases survivorsAux_mem h [] [] o ho with h1 | h1
  · cases h1
  · have := hp _ h1
    cases o <;> simp_all [BOp.plain, SpecOp]

/-- The specification's two readings coincide: keeping copies and restoring them gives the state of
executing only the surviving operations. -/
theorem spec_is_survivors (σ0 : Spec) (h : List BOp) :
    (Spec.run (σ0, []) h).1 = Spec.runPlain σ0 (survivors h) := Spec.run_survivors σ0 h

/-- What `Abs` means for the code's read functions: `getState` returns the specification's account
record; `GetData` through a handle on a staged storage returns the specification's value. -/
theorem refines_spec_reads (s : SDB) (σ : Spec) (hi : s.Inv) (hA : Abs s σ) :
    (∀ a, s.getState a = .found (σ.acct.get a)) ∧
    (∀ c st, s.cache.get c = some st → ∃ m, σ.staged.get c = some m ∧ ∀ k, st.getData k = .found (m.get k)) := by
  refine ⟨fun a => by rw [SDB.getState_spec hi.buf a, hA.1 a], ?_⟩
  intro c st hc
  have := hA.2 c
  rw [hc] at this
  cases hm : σ.staged.get c with
  | none => rw [hm] at this; exact absurd this (by simp [StorAbs])
  | some m =>
    rw [hm] at this
    exact ⟨m, rfl, fun k => by rw [Storage.getData_spec (SDB.sto_get hi hc) k, this k]⟩

/-- Test: `refines_spec` on a concrete history; the specification ends with account 1 at nonce 2 and
storage 7 = {0 ↦ 5, 2 ↦ 4}. -/
example :
    let s0 : SDB := SDB.new [(7, { nonce := 1, sroot := [(0, 5)] })]
    let h : List BOp := [.op (.stageNew 7 [(0, 5)] []), .op (.putState 1 { nonce := 1, sroot := [] }), .snap,
      .op (.setData 7 0 9), .snap, .op (.stageNew 3 [] [(1, some 8)]), .rollbackTo 1, .op (.deleteData 7 0),
      .rollbackTo 0, .op (.setData 7 2 4), .op (.putState 1 { nonce := 2, sroot := [] })]
    (∃ r, runB (s0, []) h = some r) ∧ (∀ o ∈ h, o.plain = true) ∧
      (Spec.run (⟨[(7, { nonce := 1, sroot := [(0, 5)] })], []⟩, []) h).1 =
        ⟨[(1, { nonce := 2, sroot := [] }), (7, { nonce := 1, sroot := [(0, 5)] })], [(7, [(0, 5), (2, 4)])]⟩ := by
  refine ⟨⟨_, rfl⟩, by decide, by decide⟩

/-! ### what reaches the store -/

/-- Execute a block - mutations, snapshots, reverts, and raw store writes (`ContractState.SetCode` →
`SetRawKV` → `store.Set`, at call time) interleaved -, then `Update` and `Commit`. The committed
StateDB is the one obtained from the surviving operations alone, and so is everything `Commit`
writes (`P`: per buffer the latest surviving value of every key, the trie contents). The ONLY trace
a reverted operation leaves in the store is a raw write: `d` and the store of the surviving block
differ exactly by the raw writes of reverted spans (content-addressed in the code: key = hash of
the bytes; nothing in `P`, i.e. nothing reachable from the root, refers to them). The clause
"writes made after the snapshot never influence the data persisted by a later commit" holds for
every datum a commit persists and fails literally for `SetCode`/`SetRawKV`, which do not wait for
the commit. -/
theorem persisted_ignores_reverted (s0 s2 : SDB) (h0 : s0.Inv) (h : List POp) (d : List Datum)
    (hc : commitBlock s0 h = some (s2, d)) :
    ∃ P, d = (POp.raws h).map Datum.raw ++ P ∧
      commitBlock s0 (survivorsP h) = some (s2, (POp.raws (survivorsP h)).map Datum.raw ++ P) ∧
      ∀ t ∈ POp.raws (survivorsP h), t ∈ POp.raws h := by
  simp only [commitBlock] at hc
  split at hc
  · cases hc
  · rename_i s sn hr
    split at hc
    · cases hc
    · rename_i s1 hu
      split at hc
      · cases hc
      · rename_i s2' hcm
        simp only [Option.some.injEq, Prod.mk.injEq] at hc
        obtain ⟨rfl, rfl⟩ := hc
        have hmem : ∀ x ∈ survivorsP h, (∃ o, x = POp.db (.op o)) ∨ ∃ t, x = POp.raw t := by
          intro x hx
          rcases survivorsPAux_mem h [] [] x hx with h1 | h1
          · cases h1
          · exact h1.2
        have hdb : POp.dbOps (survivorsP h) = (survivors (POp.dbOps h)).map BOp.op := by
          rw [POp.dbOps_of_survivors _ hmem]
          have := survivorsP_proj h [] [] List.Pairwise.nil (by intro m hm; cases hm)
          simp only [POp.ops, List.map_nil] at this
          rw [show POp.ops (survivorsP h) = POp.ops (survivorsPAux ([], []) h).1 from rfl, this]
          rfl
        have hadm : ∀ o ∈ survivors (POp.dbOps h), BOp.admissible none o = true := by
          intro o ho
          rcases survivorsAux_mem (POp.dbOps h) [] [] o ho with h1 | h1
          · cases h1
          · exact runB_admissible _ _ _ hr o h1
        have hplain := reverted_never_happened s0 s sn h0 (POp.dbOps h) hr
        refine ⟨s1.persisted, rfl, ?_, ?_⟩
        · simp only [commitBlock, hdb, runB_ops _ s0 hadm, hplain, Option.map_some, hu, hcm]
        · intro t ht
          rw [POp.mem_raws] at ht ⊢
          rcases survivorsPAux_mem h [] [] _ ht with h1 | h1
          · cases h1
          · exact h1.1

/-- Test: a block with a deploy (raw write 11 + account put) inside a reverted snapshot and another one
(raw write 12) that survives: both raw writes are in the store, only the second is among the
surviving operations. -/
example :
    let h : List POp := [.db .snap, .raw 11, .db (.op (.putState 1 { nonce := 1, sroot := [], code := 11 })), .db (.rollbackTo 0),
      .raw 12, .db (.op (.putState 2 { nonce := 1, sroot := [], code := 12 }))]
    (∃ r, commitBlock (SDB.new []) h = some r) ∧ POp.raws h = [11, 12] ∧
      survivorsP h = [.raw 12, .db (.op (.putState 2 { nonce := 1, sroot := [], code := 12 }))] := by
  refine ⟨⟨_, rfl⟩, by decide, by decide⟩

/-! ### reverted writes and update/commit -/

/-- Whatever is done after the revert — `Update` (storage roots, account trie) and `Commit` — is
done to the state of snapshot time: the resulting tries, buffers and flags are those obtained had
the reverted operations never happened. -/
theorem commit_ignores_reverted (s0 s' : SDB) (h0 : s0.Inv) (ops : List SDB.Op)
    (hr : SDB.run s0.blockSnapshot s0 ops = some s') :
    (s'.blockRollback s0.blockSnapshot).bind SDB.update = s0.update ∧
    ((s'.blockRollback s0.blockSnapshot).bind SDB.update).bind SDB.commit = s0.update.bind SDB.commit := by
  rw [block_rollback s0 s' h0 ops hr]
  exact ⟨rfl, rfl⟩

/-- `bufferedStorage.update` writes exactly the visible values into the storage trie: afterwards the
trie alone reads, for every key, what buffer-then-trie read before (so only the latest surviving
write of a key reaches the trie, and a key without one keeps its trie value). -/
theorem update_flushes_view (st : Storage) (h : st.buf.Inv) :
    ∃ st', st.update = some st' ∧ st'.buf = st.buf ∧ ∀ k, st'.trie.get k = st.view k :=
  Storage.update_spec h

/-- `StateDB.Update` as a whole (`updateStorage` + account buffer into the account trie) is defined
under the invariant and does exactly this: every staged storage is flushed (`Storage.flushed`: its
trie alone reads what buffer-then-trie read, `update_flushes_view`; buffer untouched); the record of
an account whose staged storage is dirty is re-put with the new storage root - created empty if the
account had none (`recAfter`) - and every other account reads as before; afterwards the account trie
alone reads, for every account, what buffer-then-trie reads. So what the state root commits to after
`Update` is a function of the visible values only - which, by `reverted_never_happened`, are those of
the surviving operations. -/
theorem update_account_half (s : SDB) (h : s.Inv) :
    ∃ s', s.update = some s' ∧
      (∀ c, s'.cache.get c = (s.cache.get c).map Storage.flushed) ∧
      (∀ c st, s.cache.get c = some st →
        st.flushed.buf = st.buf ∧ ∀ k, st.flushed.trie.get k = st.view k) ∧
      (∀ a, s'.view a = match s.cache.get a with
        | some st => recAfter (s.view a) st
        | none => s.view a) ∧
      (∀ a, s'.trie.get a = s'.view a) := by
  obtain ⟨s', h1, h2, h3, h4⟩ := SDB.update_spec h
  exact ⟨s', h1, h2, fun c st hc => Storage.flushed_spec (SDB.sto_get h hc), h3, h4⟩

/-- Test: `update_account_half` on a state with one dirty staged storage of an account without a
record (the record is created with the new storage root) and one buffered account. -/
example :
    let s : SDB := ((SDB.new []).putState 4 { nonce := 1, sroot := [] }).stage 2 ((Storage.new []).setData 1 7)
    ∃ s', s.update = some s' ∧ s'.view 2 = some { nonce := 0, sroot := [(1, 7)] } ∧
      s'.trie.get 2 = some { nonce := 0, sroot := [(1, 7)] } ∧ s'.trie.get 4 = some { nonce := 1, sroot := [] } := by
  refine ⟨_, rfl, ?_, ?_, ?_⟩ <;> decide

/-- `bufferedStorage.stage` (the storage half of `Commit`) is defined and leaves an empty buffer on
the same trie. -/
theorem stage_empties_buffer (st : Storage) (h : st.buf.Inv) :
    ∃ st', st.stage = some st' ∧ st'.buf = Buf.empty ∧ st'.trie = st.trie ∧ st'.dirty = st.dirty :=
  Storage.stage_spec h

end Aergo.Props.C12
