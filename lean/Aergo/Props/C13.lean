/-
C13 — Transaction pool: per-account nonce order, no stale or duplicate entries.

"For every account the pool offers block producers a gap-free run of transactions with nonces
state+1, state+2, ... in ascending order, holds transactions beyond a gap aside until the gap is
filled, never holds two transactions with the same account and nonce or the same hash, and its
reported totals equal what it actually holds. After a block is connected or the chain is
reorganised and the pool has processed the notification, no pooled transaction has a nonce at or
below its account's nonce in the new state, and these statements also hold when submissions,
block notifications and producer fetches run concurrently."

The theorems are about `Aergo.Pool` (Model/Pool.lean), the transcription of mempool/txlist.go, mempool/mempool.go and
of what chain/chainhandle.go + chain/reorg.go send the pool. The model is tied to the current source three ways:
harness `c13` runs the real `txList` and the real `MemPool` (called directly) and harness `c13chain` a real
`ChainService` + a real started `MemPool` actor with its `TxVerifier` pool on the same operation lines as the Lean driver,
comparing the full pool state after every operation; `tools/goext poollocks` regenerates the table of lock levels
(`Aergo.Gen.PoolLocks`) that `lock_discipline` is about. All statements hold for every list, pool, transaction, account
state, operation sequence and schedule (no bound on sizes).

Invariants (Lemmas/PoolList.lean, Lemmas/PoolInv.lean):
* `LInv L`  : every nonce of `L.list` is above `L.base.nonce`, nonces strictly ascending,
              `L.ready` = length of the longest prefix with nonces base+1, base+2, …
* `PInv P`  : one list per account key, every list satisfies `LInv` and holds only its own account's
              transactions, the hash index is a permutation of the listed transactions and has no hash
              twice, `length = Σ|list|`, `orphan = Σ(|list| − ready)`.
* `BaseOK P`: every list's base state is the account state the pool currently sees.
* `Tracks σof P`: the account states the pool sees are those of its best block (Lemmas/PoolChain.lean).
* `NoEmpty P`: no empty list is kept (preserved by put / notifications / eviction; the unconfirmed report may
              add one).

Clause by clause:
* offered run = state+1, state+2, … ascending, gap-free: `reachable_clauses` (every history), `after_notification`,
  `chainEvent_clauses`; list level `get_gapfree_list`.
* beyond a gap held aside until filled: `orphans_held`, `put_outcome`.
* no two with one account+nonce or one hash; totals = holdings: `reachable_clauses`, `no_duplicates`, `counters_exact`,
  `existEx_spec`, `reports_exact`.
* nothing stale after a connected block / a reorganisation: `after_notification`, `chainEvent_clauses`, `chainEvent_view`,
  `no_stale_after` (one notification), `tracks_reachable` (whose state).
* also under concurrency: `schedule_inv` / `schedule_clauses` (every interleaving of the critical sections, the
  pre-check of a submission arbitrarily stale) + `lock_discipline` (the source's critical sections are those steps).
  Go's own guarantees (`sync.RWMutex`, `sync.Map`) are assumed; the race-detector run is support.

Outside the model (inputs of the op lines, decided by the harness from its own bookkeeping): signature verification,
sender-name resolution, governance pre-checks of `validateTx`; the fee rule enters through each transaction's `cost`.
-/
import Aergo.Lemmas.PoolChain
import Aergo.Lemmas.PoolLocks
import Aergo.Gen.PoolLocksSynth
import Aergo.Lemmas.PoolSafe

namespace Aergo.Props.C13
open Aergo.Pool

/-! ## Per-account list (`txList`) -/

/-- `Put` preserves the list invariant, whatever is submitted and whatever the outcome. -/
theorem linv_put (L : TxList) (tx : Tx) (h : LInv L) : LInv (L.put tx).1 := by
  cases hp : L.put tx with
  | mk L' r =>
    cases r with
    | error e => rw [(put_err h hp).1]; exact h
    | ok d => exact (put_ok h hp).1

/-- Outcome of `Put`: rejected as *nonce too low* exactly when the nonce is not above the base nonce;
rejected as *same nonce* exactly when a transaction with that nonce is already held (duplicates and
replacements are refused); otherwise the transaction is added and nothing else changes, and the
returned number is the decrease of the held-aside count. -/
theorem put_outcome (L : TxList) (tx : Tx) (h : LInv L) :
    ((L.put tx).2 = .error .low ↔ tx.nonce ≤ L.base.nonce) ∧
    ((L.put tx).2 = .error .same ↔ L.base.nonce < tx.nonce ∧ ∃ t ∈ L.list, t.nonce = tx.nonce) ∧
    (∀ d, (L.put tx).2 = .ok d →
      (L.put tx).1.list.Perm (tx :: L.list) ∧ (L.put tx).1.base = L.base ∧
      d = orph L - orph (L.put tx).1) ∧
    (∀ e, (L.put tx).2 = .error e → (L.put tx).1 = L) := by
  cases hp : L.put tx with
  | mk L' r =>
    cases r with
    | error e =>
      obtain ⟨h1, h2, h3⟩ := put_err h hp
      refine ⟨?_, ?_, fun d hd => (by cases hd), fun _ _ => h1⟩
      · constructor
        · intro he; injection he with he; exact h2 he
        · intro hlow
          cases e with
          | low => rfl
          | same => have := (h3 rfl).1; omega
      · constructor
        · intro he; injection he with he; exact h3 he
        · intro hs
          cases e with
          | same => rfl
          | low => have := h2 rfl; omega
    | ok d =>
      obtain ⟨_, hb, hperm, hd, hgt, hfresh⟩ := put_ok h hp
      refine ⟨⟨fun he => (by cases he), fun hl => (by omega)⟩,
        ⟨fun he => (by cases he), fun ⟨_, t, ht, hn⟩ => absurd hn (hfresh t ht)⟩,
        fun d' hd' => ?_, fun e he => (by cases he)⟩
      injection hd' with hd'; subst hd'
      exact ⟨hperm, hb, by rw [hd]; rfl⟩

/-- `FilterByState` (block notification for one account) preserves the list invariant, rebases the
list on the new state, only removes (never adds or reorders) transactions, removes only transactions
that are stale or unaffordable in the new state, and reports the exact held-aside decrease. -/
theorem linv_filter (L : TxList) (st : Acct) (h : LInv L) :
    LInv (L.filter st).1 ∧ (L.filter st).1.base = st ∧
    ((L.filter st).1.list ++ (L.filter st).2.2).Perm L.list ∧ (L.filter st).1.list.Sublist L.list ∧
    (L.filter st).2.1 = orph L - orph (L.filter st).1 ∧
    (∀ t ∈ (L.filter st).2.2, t.nonce ≤ st.nonce ∨ st.bal < t.cost) := by
  obtain ⟨a, b, c, d, e, _, g⟩ := filter_spec h st
  exact ⟨a, b, c, d, e, g⟩

/-- After `FilterByState` with new state nonce σ every remaining transaction has nonce > σ —
also when the state nonce went *down* (reorganisation) or did not change. -/
theorem no_stale_after_list (L : TxList) (st : Acct) (h : LInv L) :
    ∀ t ∈ (L.filter st).1.list, st.nonce < t.nonce :=
  (filter_spec h st).2.2.2.2.2.1

/-- `RemoveTx` preserves the list invariant; it removes exactly one transaction with the given hash
if one is held, else changes nothing; the returned number is the exact held-aside increase. -/
theorem linv_remove (L : TxList) (id : Nat) (h : LInv L) :
    LInv (L.remove id).1 ∧ (L.remove id).1.base = L.base ∧
    (match (L.remove id).2.2 with
     | none => (L.remove id).1 = L ∧ (L.remove id).2.1 = 0 ∧ ∀ t ∈ L.list, t.id ≠ id
     | some x => x.id = id ∧ L.list.Perm (x :: (L.remove id).1.list) ∧
        (L.remove id).2.1 = orph (L.remove id).1 - orph L) := by
  obtain ⟨a, b, c⟩ := remove_spec h id
  refine ⟨a, b, ?_⟩
  cases hr : (L.remove id).2.2 with
  | none => rw [hr] at c; exact c
  | some x => rw [hr] at c; exact ⟨c.1, c.2.1, c.2.2.2⟩

/-- What a list offers (`Get`) is exactly the nonces base+1, …, base+ready in ascending order. -/
theorem get_gapfree_list (L : TxList) (h : LInv L) :
    L.get.map (·.nonce) = List.range' (L.base.nonce + 1) L.ready :=
  get_nonces h

/-- A held transaction is offered if and only if every nonce from base+1 up to its own is held:
a transaction beyond a gap is kept aside, and becomes ready exactly when the gap is filled. -/
theorem orphans_held (L : TxList) (h : LInv L) (t : Tx) :
    t ∈ L.get ↔ t ∈ L.list ∧ ∀ n, L.base.nonce < n → n ≤ t.nonce → ∃ s ∈ L.list, s.nonce = n :=
  offered_iff h t

/-- Non-vacuity: a list with a ready run 1,2 and an orphan 5 on base nonce 0 satisfies `LInv`. -/
example : LInv ⟨⟨0, 100⟩, [⟨7, 1, 21, 5, false⟩, ⟨7, 2, 22, 5, false⟩, ⟨7, 5, 23, 5, false⟩], 2⟩ :=
  ⟨by decide, by decide, by decide⟩

/-- Test on sample values: filtering that list with state nonce 1 keeps 2 (ready) and 5 (orphan). -/
example : ((⟨⟨0, 100⟩, [⟨7, 1, 21, 5, false⟩, ⟨7, 2, 22, 5, false⟩, ⟨7, 5, 23, 5, false⟩], 2⟩ : TxList).filter ⟨1, 100⟩).2.2
    = [⟨7, 1, 21, 5, false⟩] := by decide

/-! ### No index or slice expression of the list code goes out of range

The model totalises `list[i]` (`nonceAt` answers 0 out of range, where Go panics). `Lemmas/PoolSafe.lean` writes the
list functions once more with *checked* indexing and slicing (`none` = run-time panic); the theorems below say that the
checked versions always return a value — the unchecked model function's value — so the `LInv` theorems above are not
true "for the wrong reason". -/

/-- The binary search of `txList.search` and its `compare` never index out of range, on any list and key. -/
theorem search_no_panic (l : List Tx) (key : Nat) : search? l key = some (search l key) := search?_safe l key

/-- `Put` on a list satisfying `LInv`: the search, the two slice expressions of the insertion and every
`continuous(index)` of the ready-extension loop (which reads `list[index]` and `list[ready-1]`) are in range. -/
theorem put_no_panic (L : TxList) (tx : Tx) (h : LInv L) : L.put? tx = some (L.put tx) := put_safe h tx

/-- `updateReady` (the tail of `FilterByState` and `RemoveTx`, run on whatever list is left) never indexes out of
range, on any list. -/
theorem updateReady_no_panic (b : Nat) (l : List Tx) : extendGo? b l 0 0 = some (updateReady b l) := updateReady_safe b l

/-- `Get` / `pooled()` / `orphaned()` slice at `ready`, which is within the list under `LInv`. -/
theorem get_no_panic (L : TxList) (h : LInv L) : L.get? = some L.get := get_safe h

/-! ## The pool -/

/-- The empty pool satisfies the invariant. -/
theorem pinv_init : PInv Pool.init := Aergo.Pool.pinv_init

/-- `put` preserves the pool invariant for every submitted transaction (accepted or refused). -/
theorem pinv_put (P : Pool) (tx : Tx) (h : PInv P) : PInv (P.put tx).1 := Aergo.Pool.pinv_put h tx

/-- `removeTx` preserves the pool invariant. For a pooled transaction filed under a verified address (name
sender) nothing is assumed — the list key comes from the pooled transaction (repair ac6d27df). For the others
the sender field `a` of the transaction handed in must be the pooled one's (same hash ⇒ same transaction:
hash identity is a hypothesis, never an axiom). -/
theorem pinv_remove (P : Pool) (a id : Nat) (h : PInv P)
    (hacc : ∀ t ∈ P.cache, t.id = id → t.named = false → t.acc = a) :
    PInv (P.removeTx a id).1 := pinv_removeTx h a id hacc

/-- Block notification (`removeOnBlockArrival`) preserves the pool invariant for every block id, parent,
chain id, dirty set and new account state: advancing, rewinding, unchanged, fork reset. -/
theorem pinv_blockArrival (P : Pool) (new parent chain : Nat) (dirty : List Nat) (σ : Nat → Acct) (h : PInv P) :
    PInv (P.blockArrival new parent chain dirty σ) := Aergo.Pool.pinv_blockArrival h new parent chain dirty σ

/-- Eviction preserves the pool invariant for every set of expired accounts. -/
theorem pinv_evict (P : Pool) (old : List Nat) (h : PInv P) : PInv (P.evict old) := Aergo.Pool.pinv_evict h old

/-- The unconfirmed-transaction report preserves the pool invariant (it may add an empty list). -/
theorem pinv_unconfirmed (P : Pool) (a : Nat) (h : PInv P) : PInv (P.unconfirmed a).1 := Aergo.Pool.pinv_unconfirmed h a

/-- Operations of a pool session. `rm` carries the hash; the account is the one of the pooled
transaction with that hash (what the caller's transaction carries when a hash identifies one transaction). -/
inductive Op
  | put (tx : Tx)
  | rm (id : Nat)
  | block (new parent chain : Nat) (dirty : List Nat) (σ : Nat → Acct)
  | evict (old : List Nat)
  | unconf (a : Nat)

def step (P : Pool) : Op → Pool
  | .put tx => (P.put tx).1
  | .rm id => match P.exist id with
    | some t => (P.removeTx t.acc id).1
    | none => (P.removeTx 0 id).1
  | .block n p c d σ => P.blockArrival n p c d σ
  | .evict old => P.evict old
  | .unconf a => (P.unconfirmed a).1

/-- Every pool reachable from the empty pool by any sequence of submissions, removals, block
notifications, evictions and reports satisfies the invariant. -/
theorem pinv_reachable (ops : List Op) : PInv (ops.foldl step Pool.init) := by
  apply foldl_preserves PInv step _ ops _ Aergo.Pool.pinv_init
  intro P op h
  cases op with
  | put tx => exact Aergo.Pool.pinv_put h tx
  | rm id =>
    simp only [step]
    cases he : P.exist id with
    | none =>
      simp only
      apply pinv_removeTx h
      intro t ht hid _
      unfold Pool.exist at he
      have := List.find?_eq_none.1 he t ht
      simp [hid] at this
    | some t =>
      simp only
      apply pinv_removeTx h
      intro t' ht' hid' _
      unfold Pool.exist at he
      rw [find_id_unique h.ids he ht' hid']
  | block n p c d σ => exact Aergo.Pool.pinv_blockArrival h n p c d σ
  | evict old => exact Aergo.Pool.pinv_evict h old
  | unconf a => exact Aergo.Pool.pinv_unconfirmed h a

/-- Under the invariant the pool never holds two transactions with the same account and nonce, nor
two transactions with the same hash. -/
theorem no_duplicates (P : Pool) (h : PInv P) :
    ((allTxs P.lists).map (·.id)).Nodup ∧
    (∀ t1 t2, t1 ∈ allTxs P.lists → t2 ∈ allTxs P.lists → t1.acc = t2.acc → t1.nonce = t2.nonce → t1 = t2) := by
  refine ⟨(h.cache.map _).nodup_iff.1 h.ids, ?_⟩
  intro t1 t2 h1 h2 hacc hn
  obtain ⟨k1, N1, hk1, hm1⟩ := mem_allTxs.1 h1
  obtain ⟨k2, N2, hk2, hm2⟩ := mem_allTxs.1 h2
  have e1 := (h.lists k1 N1 hk1).2 t1 hm1
  have e2 := (h.lists k2 N2 hk2).2 t2 hm2
  have hk : k1 = k2 := by omega
  subst hk
  have := lookup_of_mem h.keys hk1
  rw [lookup_of_mem h.keys hk2] at this
  injection this with this
  subst this
  have hs := (h.lists k1 N2 hk1).1.sorted
  obtain ⟨i, hi, rfl⟩ := List.mem_iff_getElem.1 hm1
  obtain ⟨j, hj, rfl⟩ := List.mem_iff_getElem.1 hm2
  have := List.pairwise_iff_getElem.1 hs
  by_cases hij : i = j
  · subst hij; rfl
  · by_cases hlt : i < j
    · have := this i j hi hj hlt; omega
    · have := this j i hj hi (by omega); omega

/-- Reported totals equal what is held: `length` is the number of listed transactions and of index
entries, `orphan` is the number held aside; an existence query by hash succeeds exactly for held hashes. -/
theorem counters_exact (P : Pool) (h : PInv P) :
    P.length = ((allTxs P.lists).length : Int) ∧ P.length = (P.cache.length : Int) ∧
    P.orphan = orphans P.lists ∧
    (∀ id, (P.exist id).isSome ↔ ∃ t ∈ allTxs P.lists, t.id = id) := by
  refine ⟨h.length, by rw [h.length, h.cache.length_eq], h.orphan, fun id => ?_⟩
  unfold Pool.exist
  rw [List.find?_isSome]
  constructor
  · rintro ⟨t, ht, hid⟩; exact ⟨t, h.cache.subset ht, by simpa using hid⟩
  · rintro ⟨t, ht, hid⟩; exact ⟨t, h.cache.symm.subset ht, by simpa using hid⟩

/-- What a fetch returns: per account exactly the nonces base+1 … base+ready of that account's list,
ascending, nothing from beyond a gap, only that account's transactions. -/
theorem get_gapfree (P : Pool) (h : PInv P) :
    ∀ a txs, (a, txs) ∈ P.get → ∃ L, (a, L) ∈ P.lists ∧ txs = L.get ∧
      txs.map (·.nonce) = List.range' (L.base.nonce + 1) L.ready ∧ ∀ t ∈ txs, t.acc = a := by
  intro a txs hm
  unfold Pool.get at hm
  obtain ⟨⟨k, L⟩, hkL, he⟩ := List.mem_map.1 hm
  simp only [Prod.mk.injEq] at he
  obtain ⟨rfl, rfl⟩ := he
  obtain ⟨hL, hacc⟩ := h.lists k L hkL
  exact ⟨L, hkL, rfl, get_nonces hL, fun t ht => hacc t (List.mem_of_mem_take ht)⟩

/-- … and when every list is based on the state the pool sees (`BaseOK`), the run offered for
account `a` is state(a)+1, state(a)+2, …: gap-free from the state nonce. -/
theorem get_gapfree_state (P : Pool) (h : PInv P) (hb : BaseOK P) :
    ∀ a txs, (a, txs) ∈ P.get →
      ∃ n, txs.map (·.nonce) = List.range' ((P.state a).nonce + 1) n := by
  intro a txs hm
  obtain ⟨L, hL, _, hn, _⟩ := get_gapfree P h a txs hm
  exact ⟨L.ready, by rw [← hb a L hL]; exact hn⟩

/-! ### Block notifications -/

/-- `setStateDB` asks for the re-check of every list on every path (repair af8aff9a). -/
theorem recheck_all (P : Pool) (new parent chain : Nat) (σ : Nat → Acct) :
    (P.setStateDB new parent chain σ).2.1 = true := by
  unfold Pool.setStateDB
  split
  · split <;> simp
  · rfl

/-- After `removeOnBlockArrival` — for every block id, parent (extension, repetition, first block of a
reorganisation), chain id, dirty set and new account state — every list is based on the state the pool now
sees and holds no nonce at or below that state's nonce: no stale entry, also after a rewind. -/
theorem no_stale_after (P : Pool) (new parent chain : Nat) (dirty : List Nat) (σ : Nat → Acct) (h : PInv P) :
    ∀ a L, (a, L) ∈ (P.blockArrival new parent chain dirty σ).lists →
      L.base = (P.blockArrival new parent chain dirty σ).state a ∧
      ∀ t ∈ L.list, ((P.blockArrival new parent chain dirty σ).state a).nonce < t.nonce := by
  intro a L hL
  have hP' := Aergo.Pool.pinv_blockArrival h new parent chain dirty σ
  have hl := lookup_of_mem hP'.keys hL
  have hS : PInv (P.setStateDB new parent chain σ).1 := pinv_setStateDB h new parent chain σ
  have ha : rechecked (P.setStateDB new parent chain σ).2.1 dirty a = true := by
    simp [rechecked, recheck_all]
  by_cases hf : (P.setStateDB new parent chain σ).2.2 = true
  · simp only [Pool.blockArrival, hf, ↓reduceIte, Pool.resetAll, lookup] at hl
    cases hl
  · simp only [Pool.blockArrival, hf, Bool.false_eq_true, ↓reduceIte] at hl ⊢
    have := fold_fresh (fun k => rechecked (P.setStateDB new parent chain σ).2.1 dirty k)
      (keys (P.setStateDB new parent chain σ).1.lists) _ hS hS.keys a ha
      (by
        by_cases hk : a ∈ keys (P.setStateDB new parent chain σ).1.lists
        · exact Or.inl hk
        · right; intro M hM; rw [lookup_none.2 hk] at hM; cases hM)
    exact this L hl

/-- Hence every notification re-establishes `BaseOK` … -/
theorem baseOK_blockArrival (P : Pool) (new parent chain : Nat) (dirty : List Nat) (σ : Nat → Acct) (h : PInv P) :
    BaseOK (P.blockArrival new parent chain dirty σ) :=
  fun a L hL => (no_stale_after P new parent chain dirty σ h a L hL).1

/-- … and what a producer fetches right after any processed notification is, per account, a gap-free ascending
run starting at that account's nonce in the new state + 1. -/
theorem get_after_notification (P : Pool) (new parent chain : Nat) (dirty : List Nat) (σ : Nat → Acct) (h : PInv P) :
    ∀ a txs, (a, txs) ∈ (P.blockArrival new parent chain dirty σ).get →
      ∃ n, txs.map (·.nonce) = List.range' (((P.blockArrival new parent chain dirty σ).state a).nonce + 1) n :=
  get_gapfree_state _ (Aergo.Pool.pinv_blockArrival h new parent chain dirty σ)
    (baseOK_blockArrival P new parent chain dirty σ h)

/-- Regression witness for finding `C13-reorg-first-block-partial-recheck` (repaired by af8aff9a; test on sample
values). Pool best = block 2; account 7 holds nonce 2 on base nonce 1; the first block of a reorganisation has a
parent ≠ best, does not name account 7 and rewinds its state nonce to 0. Since `recheck_all`, account 7's list
goes through `FilterByState ⟨0, 100⟩`: it is rebased to nonce 0 and nonce 2 is held aside (ready 0). Before the
repair the list was skipped and stayed `base 1, ready 1`: nonce 2 was offered although state+1 = 1 was missing. -/
example : ((⟨⟨1, 95⟩, [⟨7, 2, 40, 5, false⟩], 1⟩ : TxList).filter ⟨0, 100⟩).1 = ⟨⟨0, 100⟩, [⟨7, 2, 40, 5, false⟩], 0⟩ := by
  simp [TxList.filter, filterGo, validate, updateReady_eq_run, run]

/-! ### `BaseOK` and `NoEmpty` -/

/-- Submissions keep every list based on the state the pool sees (a new list is created from it). -/
theorem baseOK_put (P : Pool) (tx : Tx) (h : PInv P) (hb : BaseOK P) : BaseOK (P.put tx).1 := by
  unfold Pool.put
  by_cases hc : cacheHas tx.id P.cache = true
  · simp only [hc, ↓reduceIte]; exact hb
  · have hc' : cacheHas tx.id P.cache = false := by simpa using hc
    simp only [hc', Bool.false_eq_true, ↓reduceIte]
    obtain ⟨hP1, hl, _⟩ := pinv_acquire h tx.acc
    have hb1 : BaseOK (P.acquire tx.acc).1 := baseOK_acquire h hb tx.acc
    have key : BaseOK (match ((P.acquire tx.acc).2.put tx).2 with
        | .error e => ((P.acquire tx.acc).1.release tx.acc, match e with | .low => PutRes.low | .same => PutRes.same)
        | .ok diff =>
          (({ (P.acquire tx.acc).1 with
              lists := setL tx.acc ((P.acquire tx.acc).2.put tx).1 (P.acquire tx.acc).1.lists,
              orphan := (P.acquire tx.acc).1.orphan - diff,
              cache := cacheStore tx (P.acquire tx.acc).1.cache,
              length := (P.acquire tx.acc).1.length + 1 } : Pool).release tx.acc, PutRes.ok)).1 := by
      cases hput : (P.acquire tx.acc).2.put tx with
      | mk L' r =>
        cases r with
        | error e =>
          simp only
          intro a L hL
          rw [(release_fields _ _).2.2.2.1]
          exact hb1 a L (mem_release hL)
        | ok d =>
          simp only
          intro a L hL
          rw [(release_fields _ _).2.2.2.1]
          have hL' := mem_release hL
          rcases mem_setL hL' with ⟨rfl, rfl⟩ | hL''
          · have hLi := (hP1.lists _ _ (lookup_mem hl)).1
            rw [(put_ok hLi hput).2.1]
            exact hb1 _ _ (lookup_mem hl)
          · exact hb1 a L hL''
    rcases validate_cases (P.state tx.acc) tx with ⟨hv, _⟩ | ⟨hv, _⟩ | ⟨hv, _⟩ | ⟨hv, _⟩
    · simp only [hv]; exact hb
    · simp only [hv]; exact hb
    · simp only [hv]; exact key
    · simp only [hv]; exact key

/-- Eviction keeps `BaseOK` (it only deletes lists). -/
theorem baseOK_evict (P : Pool) (old : List Nat) (hb : BaseOK P) : BaseOK (P.evict old) := by
  unfold Pool.evict
  apply foldl_preserves BaseOK _ _ _ _ hb
  intro Q a hQ
  split
  · unfold Pool.evictAcc
    split
    · exact hQ
    · intro b M hM
      have hM : (b, M) ∈ delL a (Q.dropTxs _).lists := hM
      rw [dropTxs_lists] at hM
      show M.base = (Q.dropTxs _).state b
      rw [dropTxs_state]
      exact hQ b M (mem_delL hM).1
  · exact hQ

/-- Removal keeps `BaseOK`. -/
theorem baseOK_remove (P : Pool) (a id : Nat) (h : PInv P) (hb : BaseOK P) : BaseOK (P.removeTx a id).1 := by
  unfold Pool.removeTx
  by_cases hc : cacheHas id P.cache = true
  · simp only [hc, Bool.not_true, Bool.false_eq_true, ↓reduceIte]
    generalize P.removeKey a id = key
    unfold Pool.removeAt
    obtain ⟨hP1, hl, _⟩ := pinv_acquire h key
    have hb1 := baseOK_acquire h hb key
    intro b M hM
    have hM' := mem_release hM
    show M.base = (Pool.release _ key).state b
    rw [(release_fields _ _).2.2.2.1]
    rcases mem_setL hM' with ⟨rfl, rfl⟩ | hM''
    · rw [(remove_spec (hP1.lists _ _ (lookup_mem hl)).1 id).2.1]
      exact hb1 _ _ (lookup_mem hl)
    · exact hb1 b M hM''
  · have hc' : cacheHas id P.cache = false := by simpa using hc
    simp only [hc', Bool.not_false, ↓reduceIte]
    exact hb

/-- The unconfirmed report keeps `BaseOK` (a list it creates is based on the visible state). -/
theorem baseOK_unconfirmed (P : Pool) (a : Nat) (h : PInv P) (hb : BaseOK P) : BaseOK (P.unconfirmed a).1 :=
  baseOK_acquire h hb a

/-- Submissions never leave an empty list behind (accepted or refused). -/
theorem noEmpty_put (P : Pool) (tx : Tx) (h : PInv P) (hn : NoEmpty P) : NoEmpty (P.put tx).1 := by
  unfold Pool.put
  by_cases hc : cacheHas tx.id P.cache = true
  · simp only [hc, ↓reduceIte]; exact hn
  · have hc' : cacheHas tx.id P.cache = false := by simpa using hc
    simp only [hc', Bool.false_eq_true, ↓reduceIte]
    obtain ⟨hP1, hl, hcache, _⟩ := pinv_acquire h tx.acc
    have hfresh : cacheHas tx.id (P.acquire tx.acc).1.cache = false := by rw [hcache]; exact hc'
    have key : NoEmpty (match ((P.acquire tx.acc).2.put tx).2 with
        | .error e => ((P.acquire tx.acc).1.release tx.acc, match e with | .low => PutRes.low | .same => PutRes.same)
        | .ok diff =>
          (({ (P.acquire tx.acc).1 with
              lists := setL tx.acc ((P.acquire tx.acc).2.put tx).1 (P.acquire tx.acc).1.lists,
              orphan := (P.acquire tx.acc).1.orphan - diff,
              cache := cacheStore tx (P.acquire tx.acc).1.cache,
              length := (P.acquire tx.acc).1.length + 1 } : Pool).release tx.acc, PutRes.ok)).1 := by
      cases hput : (P.acquire tx.acc).2.put tx with
      | mk L' r =>
        cases r with
        | error e =>
          simp only
          exact noEmpty_release hP1 _ (fun b M hM hba => hn b M (mem_acquire hM hba))
        | ok d =>
          simp only
          apply noEmpty_release (pinv_put_core hP1 hl hput hfresh)
          intro b M hM hba
          rcases mem_setL hM with ⟨h1, _⟩ | h2
          · exact absurd h1 hba
          · exact hn b M (mem_acquire h2 hba)
    rcases validate_cases (P.state tx.acc) tx with ⟨hv, _⟩ | ⟨hv, _⟩ | ⟨hv, _⟩ | ⟨hv, _⟩
    · simp only [hv]; exact hn
    · simp only [hv]; exact hn
    · simp only [hv]; exact key
    · simp only [hv]; exact key

/-- Block notifications never leave an empty list behind. -/
theorem noEmpty_blockArrival (P : Pool) (new parent chain : Nat) (dirty : List Nat) (σ : Nat → Acct)
    (h : PInv P) (hn : NoEmpty P) : NoEmpty (P.blockArrival new parent chain dirty σ) := by
  unfold Pool.blockArrival
  have hS : PInv (P.setStateDB new parent chain σ).1 ∧ NoEmpty (P.setStateDB new parent chain σ).1 :=
    ⟨pinv_setStateDB h new parent chain σ, by
      intro a L hL; rw [(setStateDB_fields P new parent chain σ).1] at hL; exact hn a L hL⟩
  simp only
  split
  · intro b M hM; simp [Pool.resetAll] at hM
  · refine (foldl_preserves (fun Q => PInv Q ∧ NoEmpty Q) _ ?_ _ _ hS).2
    intro Q a hQ
    split
    · exact ⟨pinv_filterAcc hQ.1 a, noEmpty_filterAcc hQ.1 hQ.2 a⟩
    · exact hQ

/-- Eviction never leaves an empty list behind. -/
theorem noEmpty_evict (P : Pool) (old : List Nat) (hn : NoEmpty P) : NoEmpty (P.evict old) := by
  unfold Pool.evict
  apply foldl_preserves NoEmpty _ _ _ _ hn
  intro Q a hQ
  split
  · exact noEmpty_evictAcc hQ a
  · exact hQ

/-- Sample pool (a test of the definitions, also the non-vacuity witness for the `PInv` hypotheses):
account 7 with ready nonce 1 and orphan nonce 3, account 9 with ready nonce 6 on base 5. -/
def samplePool : Pool :=
  ⟨[(7, ⟨⟨0, 100⟩, [⟨7, 1, 21, 5, false⟩, ⟨7, 3, 22, 5, false⟩], 1⟩), (9, ⟨⟨5, 50⟩, [⟨9, 6, 23, 1, false⟩], 1⟩)],
   [⟨9, 6, 23, 1, false⟩, ⟨7, 3, 22, 5, false⟩, ⟨7, 1, 21, 5, false⟩], 3, 1, 1, 1, fun a => if a = 9 then ⟨5, 50⟩ else ⟨0, 100⟩⟩

example : PInv samplePool := by
  refine ⟨by decide, ?_, by decide, by decide, by decide, by decide⟩
  intro a L h
  simp only [samplePool, List.mem_cons, Prod.mk.injEq, List.not_mem_nil, or_false] at h
  rcases h with ⟨rfl, rfl⟩ | ⟨rfl, rfl⟩
  · exact ⟨⟨by decide, by decide, by decide⟩, by decide⟩
  · exact ⟨⟨by decide, by decide, by decide⟩, by decide⟩

example : BaseOK samplePool := by
  intro a L h
  simp only [samplePool, List.mem_cons, Prod.mk.injEq, List.not_mem_nil, or_false] at h
  rcases h with ⟨rfl, rfl⟩ | ⟨rfl, rfl⟩ <;> rfl

/-- Regression witness for finding `C13-removeTx-named-sender` (repaired in /repo by ac6d27df; test on sample
values): account 7's transaction 21 was sent under a name and filed under the verified address 7. `removeTx` is
handed the bare transaction, whose sender field is the name (model account 100). With the repaired list key the
transaction leaves its list, the index and the counter together. -/
def namedPool : Pool :=
  ⟨[(7, ⟨⟨0, 100⟩, [⟨7, 1, 21, 5, true⟩, ⟨7, 3, 22, 5, false⟩], 1⟩)],
   [⟨7, 3, 22, 5, false⟩, ⟨7, 1, 21, 5, true⟩], 2, 1, 1, 1, fun _ => ⟨0, 100⟩⟩

example : (namedPool.removeTx 100 21).1.lists = [(7, ⟨⟨0, 100⟩, [⟨7, 3, 22, 5, false⟩], 0⟩)] ∧
    (namedPool.removeTx 100 21).1.cache = [⟨7, 3, 22, 5, false⟩] ∧
    (namedPool.removeTx 100 21).1.length = 1 ∧ (namedPool.removeTx 100 21).1.orphan = 1 := by
  refine ⟨?_, by decide, by decide, ?_⟩ <;>
    simp [namedPool, Pool.removeTx, Pool.removeAt, Pool.removeKey, Pool.acquire, Pool.release, cacheHas, cacheDel,
      lookup, setL, TxList.remove, removeFirst, updateReady, extendGo, contAt, nonceAt]

/-- The pre-repair behaviour (list key = the sender field handed in, here 100) is `removeAt 100`: it finds nothing
in the empty list of 100 but still drops the hash from the index and decrements `length` — the invariant breaks
(reported total 1, held 2). This is what the harness saw on the real code before ac6d27df, and why
`pinv_removeAt` needs the list key of the pooled transaction. -/
example : ¬ PInv (namedPool.removeAt 100 21) := by
  intro h
  have := h.length
  revert this
  decide

/-- Test on sample values: the fetch offers 7:[1] (3 is beyond a gap) and 9:[6]. -/
example : samplePool.get.map (fun e => (e.1, e.2.map (·.nonce))) = [(7, [1]), (9, [6])] := by decide


/-! ## Composition: the clauses in every reachable pool

`pinv_reachable` gives `PInv`; "the run starts at state+1" and "nothing stale" also need `BaseOK`. Both hold in the
empty pool, every operation keeps them and every notification re-establishes `BaseOK` from `PInv` alone, so they hold
after *every* sequence of submissions, removals, notifications (advance, rewind, repetition, fork), evictions and
reports — no hypothesis left for the reader to discharge. -/

private theorem foldl_inv {α : Type} (I : Pool → Prop) (f : Pool → α → Pool) (l : List α)
    (hf : ∀ Q a, a ∈ l → I Q → I (f Q a)) (P : Pool) (h : I P) : I (l.foldl f P) := by
  induction l generalizing P with
  | nil => exact h
  | cons a r ih =>
    exact ih (fun Q b hb hQ => hf Q b (List.mem_cons_of_mem _ hb) hQ) (f P a) (hf P a (List.mem_cons_self) h)

/-- Every operation keeps `PInv ∧ BaseOK`. -/
theorem inv_step (P : Pool) (op : Op) (h : PInv P) (hb : BaseOK P) : PInv (step P op) ∧ BaseOK (step P op) := by
  have hP : PInv (step P op) := by
    cases op with
    | put tx => exact Aergo.Pool.pinv_put h tx
    | rm id =>
      simp only [step]
      cases he : P.exist id with
      | none =>
        simp only
        apply pinv_removeTx h
        intro t ht hid _
        unfold Pool.exist at he
        have := List.find?_eq_none.1 he t ht
        simp [hid] at this
      | some t =>
        simp only
        apply pinv_removeTx h
        intro t' ht' hid' _
        unfold Pool.exist at he
        rw [find_id_unique h.ids he ht' hid']
    | block n p c d σ => exact Aergo.Pool.pinv_blockArrival h n p c d σ
    | evict old => exact Aergo.Pool.pinv_evict h old
    | unconf a => exact Aergo.Pool.pinv_unconfirmed h a
  refine ⟨hP, ?_⟩
  cases op with
  | put tx => exact baseOK_put P tx h hb
  | rm id =>
    simp only [step]
    cases P.exist id with
    | none => exact baseOK_remove P 0 id h hb
    | some t => exact baseOK_remove P t.acc id h hb
  | block n p c d σ => exact baseOK_blockArrival P n p c d σ h
  | evict old => exact baseOK_evict P old hb
  | unconf a => exact baseOK_unconfirmed P a h hb

/-- In every reachable pool every list is based on the account state the pool sees. -/
theorem baseOK_reachable (ops : List Op) : BaseOK (ops.foldl step Pool.init) :=
  (foldl_inv (fun P => PInv P ∧ BaseOK P) step ops (fun P op _ hP => inv_step P op hP.1 hP.2) Pool.init
    ⟨Aergo.Pool.pinv_init, fun a L hL => by simp [Pool.init] at hL⟩).2

/-- Under the two invariants no held transaction has a nonce at or below its account's nonce in the state the pool
sees (`LInv`: every nonce is above the list's base nonce; `BaseOK`: the base is that state). -/
theorem no_stale_invariant (P : Pool) (h : PInv P) (hb : BaseOK P) :
    ∀ a L, (a, L) ∈ P.lists → ∀ t ∈ L.list, (P.state a).nonce < t.nonce := by
  intro a L hL t ht
  rw [← hb a L hL]
  exact (h.lists a L hL).1.above t ht

/-- The sequential half of C13 for *every* history: in the pool reached by any operation sequence (a) every fetch
returns, per account, exactly the nonces state+1, state+2, … of the state the pool sees, ascending; (b) no held
transaction has a nonce at or below that state's nonce; (c) no two held transactions share a hash or an
account+nonce; (d) the reported totals are what is held. -/
theorem reachable_clauses (ops : List Op) :
    let Q := ops.foldl step Pool.init
    (∀ a txs, (a, txs) ∈ Q.get → ∃ n, txs.map (·.nonce) = List.range' ((Q.state a).nonce + 1) n) ∧
    (∀ a L, (a, L) ∈ Q.lists → ∀ t ∈ L.list, (Q.state a).nonce < t.nonce) ∧
    ((allTxs Q.lists).map (·.id)).Nodup ∧
    (∀ t1 t2, t1 ∈ allTxs Q.lists → t2 ∈ allTxs Q.lists → t1.acc = t2.acc → t1.nonce = t2.nonce → t1 = t2) ∧
    Q.length = ((allTxs Q.lists).length : Int) ∧ Q.orphan = orphans Q.lists := by
  intro Q
  have hP : PInv Q := pinv_reachable ops
  have hB : BaseOK Q := baseOK_reachable ops
  exact ⟨get_gapfree_state Q hP hB, no_stale_invariant Q hP hB, (no_duplicates Q hP).1, (no_duplicates Q hP).2,
    hP.length, hP.orphan⟩

/-! ### Whose state? The pool's view is the state of the block it was last told

`P.state` is set by notifications only, and `setStateDB` ignores a notification of the block that already is the pool's
best block. If the chain service is honest about block states — block `n` always comes with the account states
`σof n` at its state root — the pool therefore always sees the states of the block it was last notified of. -/

/-- The history passes, with every block, the account states of that block. -/
def Honest (σof : Nat → Nat → Acct) : Op → Prop
  | .block n _ _ _ σ => σ = σof n
  | _ => True

theorem tracks_step {σof : Nat → Nat → Acct} {P : Pool} (h : Tracks σof P) (op : Op) (hon : Honest σof op) :
    Tracks σof (step P op) := by
  cases op with
  | put tx => exact tracks_of_view h (put_view P tx).1 (put_view P tx).2
  | rm id =>
    simp only [step]
    cases P.exist id with
    | none => exact tracks_of_view h (removeTx_view P 0 id).1 (removeTx_view P 0 id).2
    | some t => exact tracks_of_view h (removeTx_view P t.acc id).1 (removeTx_view P t.acc id).2
  | block n p c d σ =>
    have : σ = σof n := hon
    subst this
    exact tracks_blockArrival h n p c d
  | evict old => exact tracks_of_view h (evict_view P old).1 (evict_view P old).2
  | unconf a => exact tracks_of_view h (unconfirmed_view P a).1 (unconfirmed_view P a).2

/-- In every pool reached by an honest history the account states the pool sees are those of its best block. -/
theorem tracks_reachable (σof : Nat → Nat → Acct) (ops : List Op) (hon : ∀ op ∈ ops, Honest σof op) :
    Tracks σof (ops.foldl step Pool.init) :=
  foldl_inv (Tracks σof) step ops (fun _ op hop hP => tracks_step hP op (hon op hop)) Pool.init (tracks_init σof)

/-- **After a processed notification** (block connected, or one block of a reorganisation executed), whatever
happened before: the pool sees exactly the new block's account states, offers per account the gap-free ascending run
from that state's nonce + 1, and holds no transaction with a nonce at or below it. `n ≠ 0`: 0 is the model's
"no block yet". -/
theorem after_notification (σof : Nat → Nat → Acct) (ops : List Op) (hon : ∀ op ∈ ops, Honest σof op)
    (n p c : Nat) (d : List Nat) (hn : n ≠ 0) :
    let Q := step (ops.foldl step Pool.init) (.block n p c d (σof n))
    Q.state = σof n ∧
    (∀ a txs, (a, txs) ∈ Q.get → ∃ k, txs.map (·.nonce) = List.range' ((σof n a).nonce + 1) k) ∧
    (∀ a L, (a, L) ∈ Q.lists → ∀ t ∈ L.list, (σof n a).nonce < t.nonce) := by
  intro Q
  have hT := tracks_reachable σof ops hon
  have hs : Q.state = σof n := view_after_blockArrival hT n p c d hn
  have hP : PInv Q := Aergo.Pool.pinv_blockArrival (pinv_reachable ops) n p c d (σof n)
  have hB : BaseOK Q := baseOK_blockArrival _ n p c d (σof n) (pinv_reachable ops)
  refine ⟨hs, ?_, ?_⟩
  · intro a txs hm
    obtain ⟨k, hk⟩ := get_gapfree_state Q hP hB a txs hm
    exact ⟨k, by rw [← hs]; exact hk⟩
  · intro a L hL t ht
    have := no_stale_invariant Q hP hB a L hL t ht
    rw [hs] at this; exact this

/-! ### The chain side: connected blocks and reorganisations as operation sequences -/

/-- What a chain event is for the pool, as a sequence of pool operations. -/
def eventOps (old new : List Blk) (accept : Tx → Bool) : List Op :=
  new.map (fun b => Op.block b.id b.parent b.chain b.dirty b.σ) ++ ((rolledBack old new).filter accept).map Op.put

/-- `Pool.chainEvent` (the executable definition the driver runs on the events of the real chain service) is that
operation sequence. -/
theorem chainEvent_eq_ops (P : Pool) (old new : List Blk) (accept : Tx → Bool) :
    P.chainEvent old new accept = (eventOps old new accept).foldl step P := by
  unfold Pool.chainEvent Pool.resubmit eventOps
  rw [List.foldl_append, List.foldl_map, List.foldl_map]
  rfl

/-- A connected block or a reorganisation (`new ≠ []`; any abandoned blocks `old`, any verdict `accept` of the front
end on the rolled-back transactions, any pool satisfying `PInv` before): afterwards — notifications *and*
re-submissions processed — every list is based on the state the pool sees, no held transaction has a nonce at or
below it, every fetch is gap-free from state+1, and `PInv` holds. -/
theorem chainEvent_clauses (P : Pool) (h : PInv P) (old new : List Blk) (accept : Tx → Bool) (hne : new ≠ []) :
    let Q := P.chainEvent old new accept
    PInv Q ∧ BaseOK Q ∧
    (∀ a L, (a, L) ∈ Q.lists → ∀ t ∈ L.list, (Q.state a).nonce < t.nonce) ∧
    (∀ a txs, (a, txs) ∈ Q.get → ∃ n, txs.map (·.nonce) = List.range' ((Q.state a).nonce + 1) n) := by
  intro Q
  have key : PInv Q ∧ BaseOK Q := by
    show PInv (P.chainEvent old new accept) ∧ BaseOK (P.chainEvent old new accept)
    rw [chainEvent_eq_ops]
    unfold eventOps
    cases new with
    | nil => exact absurd rfl hne
    | cons b rest =>
      simp only [List.map_cons, List.cons_append, List.foldl_cons]
      refine foldl_inv (fun P => PInv P ∧ BaseOK P) step _ (fun P op _ hP => inv_step P op hP.1 hP.2) _ ⟨?_, ?_⟩
      · exact Aergo.Pool.pinv_blockArrival h _ _ _ _ _
      · exact baseOK_blockArrival P _ _ _ _ _ h
  exact ⟨key.1, key.2, no_stale_invariant Q key.1 key.2, get_gapfree_state Q key.1 key.2⟩

/-- … and the state it sees is the state of the last connected block, when the chain service is honest about block
states (also for the blocks it told the pool before) and block identifiers are proper (≠ 0). -/
theorem chainEvent_view (σof : Nat → Nat → Acct) (P : Pool) (hT : Tracks σof P) (old new : List Blk)
    (accept : Tx → Bool) (hon : ∀ b ∈ new, b.σ = σof b.id) (last : Blk) (hl : new.getLast? = some last)
    (h0 : last.id ≠ 0) :
    (P.chainEvent old new accept).state = σof last.id := by
  unfold Pool.chainEvent Pool.resubmit
  have hput : ∀ (txs : List Tx) (Q : Pool), (txs.foldl (fun Q t => (Q.put t).1) Q).state = Q.state ∧
      (txs.foldl (fun Q t => (Q.put t).1) Q).best = Q.best := by
    intro txs
    induction txs with
    | nil => exact fun Q => ⟨rfl, rfl⟩
    | cons t r ih =>
      intro Q
      simp only [List.foldl_cons]
      exact ⟨(ih _).1.trans (put_view Q t).1, (ih _).2.trans (put_view Q t).2⟩
  rw [(hput _ _).1]
  -- the notifications: Tracks is kept, and the best block is the last one notified
  have hnot : ∀ (bs : List Blk) (Q : Pool), Tracks σof Q → (∀ b ∈ bs, b.σ = σof b.id) →
      Tracks σof (bs.foldl Pool.notify Q) ∧ ∀ l, bs.getLast? = some l → (bs.foldl Pool.notify Q).best = l.id := by
    intro bs
    induction bs with
    | nil => exact fun Q hQ _ => ⟨hQ, fun l hl => by simp at hl⟩
    | cons b r ih =>
      intro Q hQ hb
      simp only [List.foldl_cons]
      have hQ' : Tracks σof (Q.notify b) := by
        unfold Pool.notify
        rw [hb b (List.mem_cons_self)]
        exact tracks_blockArrival hQ _ _ _ _
      obtain ⟨i1, i2⟩ := ih (Q.notify b) hQ' (fun x hx => hb x (List.mem_cons_of_mem _ hx))
      refine ⟨i1, fun l hl => ?_⟩
      cases r with
      | nil =>
        simp only [List.getLast?_singleton, Option.some.injEq] at hl
        subst hl
        simp only [List.foldl_nil]
        exact (blockArrival_view Q _ _ _ _ _).1
      | cons c r' => exact i2 l (by simpa [List.getLast?_cons_cons] using hl)
  obtain ⟨ht, hbest⟩ := hnot new P hT hon
  have hb := hbest last hl
  rcases ht with ⟨hz, _⟩ | hs
  · rw [hb] at hz; exact absurd hz h0
  · rw [hb] at hs; exact hs

/-! ## Concurrency: every interleaving of the critical sections

The pool's shared state (`pool`, `length`, `orphan`, the lists) is only touched inside `mp.Lock()` … `Unlock()`
critical sections (and read under `RLock`); the model's operations are those critical sections, with one exception
the code makes: `put` runs its pre-check (`cache.Load`, `validateTx`) *outside* the lock. So a concurrent execution
is a sequence of steps in which a submission contributes either nothing (refused by its pre-check, at whatever moment
and state that ran) or the step `putLocked` — at any later point, after arbitrary steps of other goroutines.
`schedule_inv` shows the invariants for every such sequence: the locked half never relied on the pre-check. What is
assumed (and is Go's, not this model's): `sync.RWMutex` gives mutual exclusion and happens-before, `sync.Map` is
linearizable. -/

/-- A step of a concurrent execution. -/
inductive CStep
  | locked (tx : Tx)   -- the critical section of a submission whose pre-check passed at some earlier moment
  | seq (op : Op)      -- any other operation (its whole body is one critical section), or an uninterrupted `put`

def cstep (P : Pool) : CStep → Pool
  | .locked tx => (P.putLocked tx).1
  | .seq op => step P op

/-- Every transaction submitted anywhere in the schedule. -/
def submitted : List CStep → List Tx
  | [] => []
  | .locked tx :: r => tx :: submitted r
  | .seq (.put tx) :: r => tx :: submitted r
  | _ :: r => submitted r

theorem mem_submitted_of_mem {s : CStep} {steps : List CStep} (hs : s ∈ steps) :
    ∀ tx, (s = .locked tx ∨ s = .seq (.put tx)) → tx ∈ submitted steps := by
  induction steps with
  | nil => cases hs
  | cons x r ih =>
    intro tx htx
    rcases List.mem_cons.1 hs with rfl | hr
    · rcases htx with rfl | rfl <;> simp [submitted]
    · have := ih hr tx htx
      cases x with
      | locked u => simp [submitted, this]
      | seq op => cases op <;> simp [submitted, this]

/-- A hash identifies one transaction among those submitted (a hypothesis on the schedule, never an axiom). -/
def HashIdent (l : List Tx) : Prop := ∀ t ∈ l, ∀ u ∈ l, t.id = u.id → t = u

/-- **Every schedule**: whatever the interleaving of locked submission halves (pre-checks arbitrarily stale),
removals, notifications, evictions and reports, the reached pool satisfies `PInv` and `BaseOK` — hence all clauses of
`reachable_clauses` hold at every point of every concurrent execution. -/
theorem schedule_inv (steps : List CStep) (hid : HashIdent (submitted steps)) :
    PInv (steps.foldl cstep Pool.init) ∧ BaseOK (steps.foldl cstep Pool.init) := by
  have := foldl_inv (fun P => PInv P ∧ BaseOK P ∧ ∀ t ∈ allTxs P.lists, t ∈ submitted steps) cstep steps
    (fun P s hs hP => by
      obtain ⟨hI, hB, hS⟩ := hP
      cases s with
      | locked tx =>
        have htx : tx ∈ submitted steps := mem_submitted_of_mem hs tx (Or.inl rfl)
        refine ⟨pinv_putLocked hI tx (fun t ht hte => hid t (hS t (hI.cache.subset ht)) tx htx hte),
          baseOK_putLocked hI hB tx, fun t ht => ?_⟩
        rcases mem_allTxs_putLocked hI ht with rfl | h'
        · exact htx
        · exact hS t h'
      | seq op =>
        refine ⟨(inv_step P op hI hB).1, (inv_step P op hI hB).2, fun t ht => ?_⟩
        cases op with
        | put tx =>
          rcases mem_allTxs_put hI ht with rfl | h'
          · exact mem_submitted_of_mem hs _ (Or.inr rfl)
          · exact hS t h'
        | rm id =>
          simp only [cstep, step] at ht
          cases he : P.exist id with
          | none => rw [he] at ht; exact hS t (mem_allTxs_removeTx hI ht)
          | some u => rw [he] at ht; exact hS t (mem_allTxs_removeTx hI ht)
        | block n p c d σ => exact hS t (mem_allTxs_blockArrival hI n p c d σ ht)
        | evict old => exact hS t (mem_allTxs_evict old ht)
        | unconf a => exact hS t (mem_allTxs_unconfirmed ht))
    Pool.init ⟨Aergo.Pool.pinv_init, fun a L hL => by simp [Pool.init] at hL, fun t ht => by simp [Pool.init] at ht⟩
  exact ⟨this.1, this.2.1⟩

/-- The clauses at any point of any schedule (consequence of `schedule_inv`). -/
theorem schedule_clauses (steps : List CStep) (hid : HashIdent (submitted steps)) :
    let Q := steps.foldl cstep Pool.init
    (∀ a txs, (a, txs) ∈ Q.get → ∃ n, txs.map (·.nonce) = List.range' ((Q.state a).nonce + 1) n) ∧
    (∀ a L, (a, L) ∈ Q.lists → ∀ t ∈ L.list, (Q.state a).nonce < t.nonce) ∧
    ((allTxs Q.lists).map (·.id)).Nodup ∧
    (∀ t1 t2, t1 ∈ allTxs Q.lists → t2 ∈ allTxs Q.lists → t1.acc = t2.acc → t1.nonce = t2.nonce → t1 = t2) ∧
    Q.length = ((allTxs Q.lists).length : Int) ∧ Q.orphan = orphans Q.lists := by
  intro Q
  obtain ⟨hP, hB⟩ := schedule_inv steps hid
  exact ⟨get_gapfree_state Q hP hB, no_stale_invariant Q hP hB, (no_duplicates Q hP).1, (no_duplicates Q hP).2,
    hP.length, hP.orphan⟩

/-- Non-vacuity / test on sample values: two goroutines submit the *same* transaction; both pre-checks ran on the empty
pool (both passed); the two locked halves then run one after the other. The second is refused by the list
(`same nonce`) and the pool holds the transaction once. -/
example : (cstep (cstep Pool.init (.locked ⟨7, 1, 21, 5, false⟩)) (.locked ⟨7, 1, 21, 5, false⟩)).length = 1 ∧
    ((cstep Pool.init (.locked ⟨7, 1, 21, 5, false⟩)).putLocked ⟨7, 1, 21, 5, false⟩).2 = .same := by
  constructor <;>
    simp [cstep, Pool.putLocked, Pool.acquire, Pool.release, Pool.init, lookup, setL, TxList.put, search, searchGo,
      nonceAt, extendGo, contAt, cacheStore, cacheDel]

/-- Why the hash hypothesis is needed (test on sample values): two *different* transactions with one hash id,
filed under different accounts, both past their pre-checks — the index then holds one entry for two listed
transactions and `PInv` fails. (In the code: the same hash under two accounts needs a sender name that resolved to
two addresses between the two verifications.) -/
example : ¬ PInv (cstep (cstep Pool.init (.locked ⟨7, 1, 21, 5, false⟩)) (.locked ⟨8, 1, 21, 5, true⟩)) := by
  intro h
  have := h.cache.length_eq
  simp [cstep, Pool.putLocked, Pool.acquire, Pool.release, Pool.init, lookup, setL, TxList.put, search, searchGo,
    nonceAt, extendGo, contAt, cacheStore, cacheDel, allTxs] at this

/-! ### Tie T for the concurrency model: the lock discipline of the current source

`schedule_inv` treats the bodies of `removeTx`, `removeOnBlockArrival`, `evictTransactions`, the unconfirmed report and
the second half of `put` as atomic steps. That is what the source does as long as every access to the pool's shared
state sits inside a `mp.Lock()` (writes) / `mp.RLock()` (reads) section. `tools/goext poollocks` re-reads mempool.go,
txverifier.go and txlist.go on every run and tabulates every write / read / list mutation / index update with the
lock level held at that point; `Aergo.PoolLocks.violations` makes the table interprocedural — an unexported function that
is never used as a value is entered with the weakest level over ALL its call sites (fixpoint for helpers of helpers; no
call site ⇒ none), so extracting a helper that is called where the lock is already held changes nothing, while a helper
with one unlocked call site is unlocked — and lists what is not sufficiently locked. Locals derived from the pool map
(the lists, the slices `list.Get()` hands out, which share the lists' backing arrays) are followed: every later mention
is a read `pool~` at the level held there, so releasing the lock before the last use of such a value is flagged. -/

/-- In the current source every write to the pool map, the counters, the best-block fields and the state DB handle,
every list mutation and every hash-index update happens under the pool's exclusive lock, and every read of those
fields under at least the shared lock — except the accesses listed (and explained) in `Aergo.PoolLocks.known`.
Changing `evictTransactions` or `removeTx` to the read lock, dropping a lock, or moving `length++` / `orphan -= diff`
/ `cache.Store` out of the critical section of `put` adds an entry that is not listed and breaks this theorem. -/
theorem lock_discipline : Aergo.PoolLocks.allKnown Aergo.Gen.PoolLocks.fns = true := by decide

/-- Self-test of the extractor + checker on the synthetic cases of corpus/C13/locks/synth.go (regenerated on every run
like the real table): a helper called only under the exclusive lock, a helper of such a helper, a plain function taking
the pool, and a reading helper under the read lock are fine; flagged are exactly: an exported method (callable from
anywhere), an unlocked read, a helper called after the lock was released, a helper with one locked and one unlocked call
site, a helper used as a value, a helper writing under the read lock (level 1), a helper without any call site, and a
fetch that collects the lists under the read lock, unlocks, and walks them afterwards (`pool~`: a local derived from the
pool map, read with no lock; the same walk before the deferred unlock and a copied `len(..)` used after it are fine). -/
theorem lock_checker_selftest :
    Aergo.PoolLocks.violations Aergo.Gen.PoolLocksSynth.fns =
      [⟨"Exported", 0, "length", 0⟩, ⟨"Fetch", 1, "pool~", 0⟩, ⟨"Peek", 1, "orphan", 0⟩, ⟨"after", 0, "orphan", 0⟩, ⟨"drop", 0, "pool", 0⟩,
       ⟨"escaped", 0, "orphan", 0⟩, ⟨"touch", 0, "orphan", 1⟩, ⟨"unused", 0, "length", 0⟩] := by decide

/-- The shape `schedule_inv` assumes for `put`: list insertion, both counter updates, the index update and the
acquire / release of the per-account list are all there and all under the exclusive lock (where the pre-check
`validateTx` runs — outside, under the shared lock, or inside — does not matter to the model). -/
theorem put_critical_section :
    ((Aergo.Gen.PoolLocks.fns.find? (fun f => f.name == "put")).map fun f =>
      [(⟨4, "acquireMemPoolList", 2⟩ : Aergo.Gen.PoolLocks.Eff), ⟨2, "Put", 2⟩, ⟨0, "orphan", 2⟩, ⟨3, "Store", 2⟩,
       ⟨0, "length", 2⟩, ⟨4, "releaseMemPoolList", 2⟩].all fun e => f.effs.contains e) = some true := by decide

/-! ## Queries -/

/-- Bulk existence query: one answer per requested hash, in the order asked; an answer is a held transaction with
exactly that hash, and "none" is given only for a hash nothing held carries. -/
theorem existEx_spec (P : Pool) (h : PInv P) (ids : List Nat) :
    (P.existEx ids).length = ids.length ∧
    ∀ i (hi : i < ids.length) (hi' : i < (P.existEx ids).length),
      match (P.existEx ids)[i] with
      | some t => t.id = ids[i] ∧ t ∈ allTxs P.lists
      | none => ∀ t ∈ allTxs P.lists, t.id ≠ ids[i] := by
  refine ⟨by simp [Pool.existEx], fun i hi hi' => ?_⟩
  have hget : (P.existEx ids)[i] = P.exist ids[i] := by simp [Pool.existEx]
  rw [hget]
  cases he : P.exist ids[i] with
  | some t =>
    unfold Pool.exist at he
    have h1 := List.find?_some he
    have h2 := List.mem_of_find?_eq_some he
    exact ⟨by simpa using h1, h.cache.subset h2⟩
  | none =>
    intro t ht hid
    unfold Pool.exist at he
    have := List.find?_eq_none.1 he t (h.cache.symm.subset ht)
    simp [hid] at this

private theorem stat_sums (ls : List (Nat × TxList)) (hl : ∀ e ∈ ls, LInv e.2) :
    (((ls.map (fun e => e.2.ready)).sum : Nat) : Int) = ((allTxs ls).length : Int) - orphans ls ∧
    (((ls.map (fun e => e.2.list.length - e.2.ready)).sum : Nat) : Int) = orphans ls ∧
    (((ls.flatMap (fun e => e.2.get)).length : Nat) : Int) = ((allTxs ls).length : Int) - orphans ls := by
  induction ls with
  | nil => simp
  | cons e r ih =>
    obtain ⟨i1, i2, i3⟩ := ih (fun x hx => hl x (List.mem_cons_of_mem _ hx))
    have hle := (hl e (List.mem_cons_self)).ready_le
    have hget : e.2.get.length = e.2.ready := by simp [TxList.get, Nat.min_eq_left hle]
    simp only [List.map_cons, List.sum_cons, List.flatMap_cons, allTxs_cons, List.length_append, orphans_cons, orph, hget]
    refine ⟨by omega, by omega, by omega⟩

/-- The unconfirmed-transaction report over all accounts and the hash list of the offered transactions agree with the
totals: the offered counts sum to `length − orphan`, the held-aside counts to `orphan`, and exactly
`length − orphan` hashes are offered. -/
theorem reports_exact (P : Pool) (h : PInv P) :
    (((P.txStat.map (fun e => e.2.1)).sum : Nat) : Int) = P.length - P.orphan ∧
    (((P.txStat.map (fun e => e.2.2)).sum : Nat) : Int) = P.orphan ∧
    ((P.offeredIds.length : Nat) : Int) = P.length - P.orphan := by
  obtain ⟨s1, s2, s3⟩ := stat_sums P.lists (fun e he => (h.lists e.1 e.2 he).1)
  rw [h.length, h.orphan]
  have e1 : P.txStat.map (fun e => e.2.1) = P.lists.map (fun e => e.2.ready) := by
    simp [Pool.txStat, List.map_map, Function.comp_def]
  have e2 : P.txStat.map (fun e => e.2.2) = P.lists.map (fun e => e.2.list.length - e.2.ready) := by
    simp [Pool.txStat, List.map_map, Function.comp_def]
  have e3 : P.offeredIds.length = (P.lists.flatMap (fun e => e.2.get)).length := by
    simp [Pool.offeredIds, Pool.get, List.flatMap_map]
  rw [e1, e2, e3]
  exact ⟨s1, s2, s3⟩

end Aergo.Props.C13
